"""Runs the repository's pinned test suite (guard OFF) and compares with /root/.vp/BASELINE.json stable_pass."""
import json
import os
import subprocess
import sys
import tempfile
import xml.etree.ElementTree as et


def main():
  base = json.load(open("/root/.vp/BASELINE.json"))
  want = set(base["stable_pass"])
  env = dict(os.environ)
  for k in list(env):
    if k.startswith("TTCONV_VERIF"):
      del env[k]
  with tempfile.TemporaryDirectory() as d:
    out = os.path.join(d, "junit.xml")
    cmd = base["cmd"].replace("<file>", out)
    root = os.environ.get("TTCONV_BASELINE_ROOT")
    if root:
      # run the same suite in another checkout of the repository (scratch worktrees)
      cmd = cmd.replace("cd /repo", "cd " + root)
      env["PYTHONPATH"] = os.path.join(root, "src/main/python")
    p = subprocess.run(cmd, shell=True, env=env, stdout=subprocess.PIPE, stderr=subprocess.STDOUT, text=True)
    tree = et.parse(out)
  passed = set()
  for tc in tree.iter("testcase"):
    bad = any(ch.tag in ("failure", "error", "skipped") for ch in tc)
    name = tc.get("classname") + "::" + tc.get("name")
    if not bad:
      passed.add(name)
  missing = sorted(want - passed)
  print(f"baseline: {len(want & passed)}/{len(want)} stable tests pass; {len(passed - want)} extra passing")
  for m in missing[:30]:
    print("  MISSING", m)
  return 1 if missing else 0


if __name__ == "__main__":
  sys.exit(main())
