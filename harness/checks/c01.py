"""C01 - a snapshot at time t shows exactly the content TTML makes active at t.

Design side : TLC model-checks spec/Timeline.tla over three exhaustive document families (timing nesting, region
              references/timing/background, display specified/animated/initial): Snapshot(doc, t) of spec/Ttml.tla has no
              duplicates, lists only active non-hidden content in document order, and changes only at change points.
Spec -> code: every document of those families (taken from TLC's state dump) is built with the model API and snapshotted
              at every grid time.
Code -> spec: seeded random documents (<= 40 nodes, nesting to depth 7, rational offsets with denominators 1,2,3,25,1001,
              0-3 regions, display styles/animations, ruby) at every candidate boundary +- 1 tick.
spec/Trace_Ttml.tla compares every recorded snapshot with Snapshot(doc, t).
"""
from __future__ import annotations

from .. import tlc as T
from ..docgen import random_doc
from ..isdcheck import design_families, observe_all, validate

PID = "C01"
LEVEL = "model_checking"
FAMILY = "c01"


def doc_features(ad):
  return {"has_regions": ad["nr"] > 0,
          "has_anim": any(ad["anim"]) or any(ad["ranim"]) or any(ad.get("anim_styles") or []) or any(ad.get("ranim_styles") or []),
          "has_display": any(ad["disp"]) or any(ad["rdisp"]) or bool(ad["idisp"]),
          "has_ruby": "ruby" in ad["kind"], "n": ad["n"]}


def explained(ad, sig, prev, tick):
  """Is the unreported change at (prev, tick] the boundary of an animation step on an element with a non-zero begin offset,
  whose parent-based resolution IS reported while its own-interval resolution is not?  (the shape of the known finding)"""
  from ..docgen import step_boundaries
  sigset = set(sig)
  return any(prev < own <= tick and own not in sigset and par in sigset and own != par and has_off
             for own, par, has_off in step_boundaries(ad))


def replay(ctx, rp, family, detail):
  """Re-run one recorded case (document + tick) through observation and validation."""
  ad = rp["case"]["doc"]
  tick = rp["case"].get("tick")
  recs = observe_all([(ad, 1, None if tick is None else [tick], detail, True if family == "c14" else rp["case"].get("via", False))], procs=1)
  ctx.nontrivial("replay")
  ctx.nontrivial("replay2")
  ctx.sample({"replayed": rp["clause"], "tick": tick})
  if "error" in recs[0]:
    f = doc_features(ad)
    f["error"] = recs[0]["error"][:80]
    ctx.violation(family + "_snapshot_raised", {"doc": ad, "traceback": recs[0]["tb"]}, f, recs[0]["error"])
    return
  ctx.evaluations += len(recs[0]["times"])
  ctx.traces += 1
  for rid_, t, clause in validate(ctx, recs, [family], family):
    f = doc_features(ad)
    f["source"] = rp["features"].get("source", "replay")
    if clause == "c02_change_between_sig_times":
      from ..docgen import step_boundaries
      prev = max([s for s in recs[0]["sig"] if s <= t], default=-1)
      f["explained_by_step_resolved_against_own_interval"] = explained(ad, recs[0]["sig"], prev, t)
    ctx.violation(clause, {"doc": ad, "tick": t, "sig": recs[0]["sig"]}, f, f"replay t={t}")


def run(ctx, family=FAMILY, detail=False, decorate_docs=False, space=False):
  if ctx.replay_case:
    return replay(ctx, ctx.replay_case, family, detail)
  thorough = ctx.thorough()
  ctx.rule = ("a case is one (document, query time); documents come from TLC's exhaustive families and from a seeded random "
              "generator; non-trivial = the snapshot at that time shows at least one leaf or an empty region; distinct by "
              "(document, time)")
  fams = design_families(ctx)
  jobs = []

  def via(r):
    # every third document is snapshotted through the SignificantTimes cache (from_model(doc, t, sig)) instead of directly
    return "snap" if family in ("c01", "c13") and r % 3 == 0 else False
  rid = 0
  origin = {}
  for name, (docs, tmax) in fams.items():
    if not thorough and len(docs) > 400:
      docs = ctx.rng.sample(docs, 400)
    for ad in docs:
      rid += 1
      ad = dict(ad)
      ad["D"] = 2
      jobs.append((ad, rid, list(range(0, tmax + 1)), detail, via(rid)))
      origin[rid] = ("family:" + name, ad)
  nrand = 6000 if thorough else 500
  index = None
  if decorate_docs:
    from ..stylecat import catalogue, decorate
    index = catalogue()[1]
  for _ in range(nrand):
    rid += 1
    # (the last fifth of the documents: mostly ruby, with timing / display of their own on bases and annotations, some empty)
    ad = random_doc(ctx.rng, space=space, ruby_forms=(family == "c13"), max_nodes=60 if family == "c13" else 40,
                    ruby_bias=(_ >= nrand - nrand // 5))
    if decorate_docs:
      decorate(ad, ctx.rng, index)
    if family in ("c01", "c02") and ctx.rng.random() < 0.25:
      # re-time the same document object after the first round of snapshots and observe it again
      jobs.append((ad, rid, None, detail, via(rid), ctx.rng.randrange(1 << 30)))
    else:
      jobs.append((ad, rid, None, detail, via(rid)))
    origin[rid] = ("random", ad)
  # small documents that are mostly ruby: bases / annotations (some of them empty) with timing and display of their own
  for _ in range(2500 if thorough else 320):
    rid += 1
    ad = random_doc(ctx.rng, space=space, ruby_forms=(family == "c13"), max_nodes=18, ruby_bias=True)
    if decorate_docs:
      decorate(ad, ctx.rng, index)
    jobs.append((ad, rid, None, detail, via(rid)))
    origin[rid] = ("random", ad)
  # long documents (hundreds of consecutive siblings, hundreds of significant times)
  from ..docgen import long_doc
  for k_long in range(12 if thorough else 3):
    rid += 1
    # (the first one always has several hundred significant times)
    ad = long_doc(ctx.rng, count=ctx.rng.choice([520, 640]) if k_long == 0 else None, untimed=ctx.rng.random() < 0.5)
    jobs.append((ad, rid, None, detail, via(rid)))
    origin[rid] = ("long", ad)
  recs = observe_all(jobs)
  good = []
  for r in recs:
    if r["id"] >= 1000000 and "error" not in r:
      # second round of a re-timed document: its abstract document is the recorded one
      origin[r["id"]] = ("random-retimed", dict(origin[r["id"] - 1000000][1], **r["doc"]))   # keeps decorations (styles) and D
    if "error" in r:
      src, ad = origin.get(r["id"]) or origin[r["id"] - 1000000]
      f = doc_features(ad)
      f["error"] = r["error"][:80]
      ctx.violation(family + "_snapshot_raised", {"source": src, "doc": ad, "traceback": r["tb"]}, f, r["error"])
    else:
      good.append(r)
  for r in good:
    ctx.evaluations += len(r["times"])
    for j, ob in enumerate(r["obs"]):
      if ob:
        ctx.nontrivial((r["id"], r["times"][j]))
  ctx.traces += len(good)
  import os
  if os.environ.get("VERIF_CORRUPT") and good:
    # self-test of the binding: corrupt ONE recorded field per clause family
    vic = next(r for r in good if any(reg["leaves"] for ob in r["obs"] for reg in ob))
    j = next(k for k, ob in enumerate(vic["obs"]) if any(reg["leaves"] for reg in ob))
    reg = next(reg for reg in vic["obs"][j] if reg["leaves"])
    if family == "c01":
      reg["leaves"] = reg["leaves"][:-1]
    elif family == "c02":
      vic["sig"] = vic["sig"][:1] + vic["sig"][:1] + vic["sig"][1:]
    elif family == "c13":
      reg["tree"][-1]["hasb"] = 1
  fails = validate(ctx, good, [family], family)
  byrec = {r["id"]: r for r in good}
  for rid_, tick, clause in fails:
    src, ad = origin[rid_]
    r = byrec[rid_]
    j = r["times"].index(tick) if tick in r["times"] else None
    f = doc_features(ad)
    f["source"] = src
    if clause == "c13_lengths_root_relative" and j is not None:
      f["props"] = ",".join(sorted({p for reg in r["obs"][j] for nd in reg.get("tree", []) for p in nd["nonroot"]}))
    if clause in ("c13_only_applicable_styles", "c13_all_applicable_styles_present") and j is not None:
      f["kinds"] = ",".join(sorted({nd["kind"] for reg in r["obs"][j] for nd in reg.get("tree", []) if nd["inapplicable"]}))
    if clause == "c02_change_between_sig_times":
      # is the unreported change one of the animation-step boundaries resolved against the element's own interval?
      from ..docgen import step_boundaries
      prev = max([s for s in r["sig"] if s <= tick], default=-1)
      f["explained_by_step_resolved_against_own_interval"] = explained(ad, r["sig"], prev, tick)
    f["snapshot_via"] = "cache" if via(rid_ % 1000000) else "direct"
    ctx.violation(clause, {"source": src, "doc": ad, "D": ad.get("D", 2), "tick": tick, "via": via(rid_ % 1000000),
                           "observed": r["obs"][j] if j is not None else None, "sig": r["sig"]},
                  f, f"{src} doc#{rid_} n={ad['n']} t={tick}/{ad.get('D', 2)}")
  if good:
    ctx.sample({"doc": good[0]["doc"], "times": good[0]["times"][:6], "obs": good[0]["obs"][:6]})
    ctx.sample({"random_doc": good[-1]["doc"], "times": good[-1]["times"][:4], "obs": good[-1]["obs"][:4]})
  ctx.exhaustive = False
  ctx.assume("text nodes are identified by their content t<k>, other elements by id e<k>; probe times are every candidate "
             "boundary +- 1 tick on a grid where document times are even ticks")
  ctx.assume("ruby sub-trees in generated documents carry no timing/display of their own (Ruby.push_children needs complete patterns)")
