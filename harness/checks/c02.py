"""C02 - the presentation changes only at the reported significant times.

Design side : spec/Timeline.tla (TLC): Present(doc, t) changes only at SpecSigTimes(doc) - the begin/end of every element,
              region and animation step, steps resolved against the element's own interval - on three exhaustive families.
Binding     : the same families and seeded random documents decorated with style animation (set) steps on elements and
              regions that themselves begin at non-zero offsets; for each document the implementation's significant times,
              snapshots (with a digest of all computed styles) at every candidate boundary +- 1 tick, and the generated ISD
              sequence are recorded; spec/Trace_Ttml.tla (family c02) checks: strictly increasing, nothing visible before the
              first, the snapshot at every probed time equals the snapshot at the greatest significant time not after it,
              the sequence is exactly the snapshots at those times.
"""
from . import c01

PID = "C02"
LEVEL = "model_checking"


def run(ctx):
  c01.run(ctx, family="c02", decorate_docs=True)
  ctx.rule = ("a case is one (document, probe time) compared with the snapshot at the greatest reported significant time not "
              "after it; non-trivial = something is presented at that time")
