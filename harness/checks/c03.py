"""C03 - every snapshot element carries the style values TTML style resolution prescribes.

Design side : TLC model-checks spec/StyleSweep.tla (Styles.tla = TTML2 sec. 10 style resolution + IMSC 1.1, written from
              the standards) over one bounded family per compute class - a chain region > body > div > p > span > span (and
              two ruby skeletons) where each level specifies nothing or one of several values of a property, with active /
              inactive animation steps, <initial> overrides, cell / pixel resolutions and writing modes: a computed value
              always exists, inheritable properties take the nearest specifier's value, non-inheritable ones never leak, text
              decoration merges per component, font-size chains, every length is root relative, positions stay inside the
              root container, padding axes, resolved colours, changes only at animation boundaries.
Spec -> code: every state (document, tick) of those runs (a seeded sample in the quick tier) is built with the model API and
              ISD.from_model is asked for get_style(p) of every element.
Code -> spec: seeded random documents (harness.docgen.random_doc decorated by harness.stylecat.decorate: 1-6 properties per
              element over all 36 properties in every unit, animation steps, initial values, cell / pixel resolutions),
              recorded at 2-4 probe times each.
spec/Trace_Styles.tla compares every recorded value with Comp(doc, region, element, property, t) (lengths as exact rationals
against the recorded floats scaled by 10^4, tolerance 2 units).  WHICH elements appear is C01's and which properties they
carry is C13's business: here only the values of elements that do appear are judged, matched by id.
"""
from __future__ import annotations

import json

from .. import tlc as T
from .. import styles_run as R
from ..docgen import random_doc, probe_times

PID = "C03"
LEVEL = "model_checking"


def _violations(ctx, fails, recs, origin):
  byrec = {r["id"]: r for r in recs}
  for rid, tick, reg, k, prop, clause, expected in fails:
    src, sdoc, ad = origin[rid]
    sdoc = json.loads(sdoc) if isinstance(sdoc, str) else sdoc
    r = byrec[rid]
    j = r["times"].index(tick)
    el = [x for x in r["obs"][j] if x["R"] == reg and x["k"] == k]
    seen = [s["v"] for s in el[0]["st"] if s["p"] == prop] if el else []
    f = R.describe(sdoc, reg, k, prop)
    f["source"] = src if src == "random" else "family"
    case = {"source": src, "doc": sdoc, "D": r.get("D", 2), "tick": tick, "region": reg, "node": k,
            "property": prop, "expected": expected, "observed": seen[0] if seen else None}
    if ad is not None:
      case["ad"] = ad                # the generator's document (region references, display), for --replay
    ctx.violation(clause, case,
                  f, f"{src} doc#{rid} t={tick} region r{reg} node {k} ({f['kind']}) {prop}: expected {json.dumps(expected)[:160]} "
                     f"observed {json.dumps(seen[0] if seen else None)[:160]}")


def run(ctx):
  from ..styles_vals import self_test
  self_test()
  thorough = ctx.thorough()
  ctx.rule = ("a case is one (document, query tick); every element with an id in the snapshot is judged property by property; "
              "documents come from TLC's StyleSweep families (all states in the thorough tier, a seeded sample in the quick one) "
              "and from a seeded random generator; non-trivial = the snapshot shows at least one content element; distinct by "
              "(document, tick)")
  origin = {}
  jobs = []
  rid = 0

  if ctx.replay_case is not None:
    case = ctx.replay_case["case"]
    if "ad" in case:
      jobs.append({"id": 1, "ad": case["ad"], "cat": "stylecat", "times": [case["tick"]], "focus": []})
    else:
      jobs.append({"id": 1, "sdoc": case["doc"], "times": [case["tick"]], "focus": [], "D": case.get("D", 2)})
    origin[1] = (case.get("source", "replay"), case["doc"], case.get("ad"))
  else:
    fams = R.design(ctx, ctx.tier, workers=3, groups=4)
    per_family = None if thorough else 220
    for name, (cases, times, focus) in fams.items():
      if per_family is not None and len(cases) > per_family:
        cases = ctx.rng.sample(cases, per_family)
      for c in cases:
        rid += 1
        jobs.append({"id": rid, "sdoc": c, "times": times, "focus": [] if name == "all_props" else focus})
        origin[rid] = ("family:" + name, c, None)
    from ..stylecat import catalogue, decorate
    vals, index = catalogue()
    nrand = 12000 if thorough else 700
    for _ in range(nrand):
      rid += 1
      ad = random_doc(ctx.rng, max_nodes=30)
      decorate(ad, ctx.rng, index, p_style=0.45, p_anim=0.25)
      pts = probe_times(ad)
      times = set(ctx.rng.sample(pts, min(len(pts), ctx.rng.randint(2, 4))))
      # always look just inside the windows of the animation steps (resolved against each element's own interval)
      from ..docgen import step_boundaries
      inside = sorted({own + 1 for own, _par, _off in step_boundaries(ad) if own + 1 in pts})
      times |= set(ctx.rng.sample(inside, min(len(inside), 4)))
      times = sorted(times)
      jobs.append({"id": rid, "ad": ad, "cat": "stylecat", "times": times, "focus": [],
                   "edit": ctx.rng.randrange(1 << 30) if ctx.rng.random() < 0.2 else None})
      origin[rid] = ("random", None, ad)

  # observe and validate in batches (bounded memory in the thorough tier)
  batch = 16000 if thorough else 100000
  sampled = False
  for lo in range(0, len(jobs), batch):
    part = jobs[lo:lo + batch]
    recs = R.observe_all(part)
    good = []
    for r in recs:
      if "ad2" in r:
        origin[r["id"]] = ("random-edited", None, r.pop("ad2"))
      src, d, ad = origin[r["id"]]
      d = d if d is not None else ad
      d = json.loads(d) if isinstance(d, str) else d
      if "error" in r:
        f = {"has_ruby": "ruby" in d["kind"], "error": r["error"][:80], "source": src if src == "random" else "family", "n": d["n"]}
        ctx.violation("c03_snapshot_raised", {"source": src, "doc": d, "traceback": r["tb"]}, f, r["error"])
        continue
      if ad is not None:
        r["D"] = ad.get("D", 2)
        origin[r["id"]] = (src, r["doc"], ad)      # the styled document (what the spec sees) describes failures
      good.append(r)
    for r in good:
      ctx.evaluations += sum(len(s["st"]) for ob in r["obs"] for s in ob)
      for j, ob in enumerate(r["obs"]):
        if any(s["k"] for s in ob):
          ctx.nontrivial((r["id"], r["times"][j]))
        ctx.count("snapshots")
        ctx.count("elements_judged", len(ob))
    ctx.traces += len(good)
    strip = [{k: v for k, v in r.items() if k != "D"} for r in good]
    fails = R.validate(ctx, strip, "c03", nproc=8 if thorough else 6)
    _violations(ctx, fails, good, origin)
    if good and not sampled:
      sampled = True
      g = good[0]
      ctx.sample({"source": origin[g["id"]][0], "doc": g["doc"], "times": g["times"][:2], "obs": [ob[:3] for ob in g["obs"][:2]]})
      g = good[-1]
      ctx.sample({"source": origin[g["id"]][0], "times": g["times"][:2], "obs": [ob[:2] for ob in g["obs"][:1]]})
  ctx.exhaustive = False
  ctx.assume("elements are matched by id (e<k>, r<k>); which elements appear in a snapshot is decided by C01, which properties "
             "they carry by C13")
  ctx.assume("floats of the implementation are recorded scaled by 10^4 and rounded; differences below 2 units are invisible")
  ctx.assume("the applicability table (kinds) and the conventions marked PINS in spec/Styles.tla (white initial colour, "
             "linePadding cells measured on the cell height, rubyReserve without length = half the font size, position "
             "repeating the origin, an <initial> writing mode not implying a direction, textDecoration components left "
             "unspecified at the root counting as absent) are reviewed restatements of the canonical model's documentation")
