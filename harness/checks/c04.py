"""C04 - reading IMSC/TTML XML follows TTML timing, styling and whitespace semantics.

Design side : TLC explores spec/Imsc.tla on a bounded family of documents (skeletons x begin/dur/end in {unset,1,2}
              x par/seq) with a time cursor sweeping every half tick, checking containment, sequential exclusion,
              one-interval visibility and explicit bounds on the *specification*.
Spec -> code: the family enumerated by TLC is rendered as real TTML (every time-expression syntax x frame rates x
              frame-rate multipliers x tick rates, cycled), read with ttconv.imsc.reader, and observed through
              ISD.from_model at every half unit.
Code -> spec: seeded random richer documents (regions with timing / nested styles / set, style graphs with chains,
              diamonds, cycles and missing ids, initial elements, mixed content, br, ruby, xml:space/lang), the same
              documents with ONE attribute carrying a malformed value (must read as the document without it, and be
              logged) or an unknown attribute (meaning unchanged), and equivalent lexical forms of every style value.
All recordings are judged by spec/Trace_Imsc.tla.
"""
from __future__ import annotations

import json
import os
import random
from concurrent.futures import ThreadPoolExecutor
from multiprocessing import Pool

from .. import tlc as T
from .. import imsc_gen as G
from .. import imsc_xml as X

PID = "C04"
LEVEL = "model_checking"

CFG_DESIGN = """CONSTANTS
  Shapes <- MCShapes
  Choices <- MCChoices
  TMax = {tmax}
SPECIFICATION Spec
INVARIANT DesignInv
"""
CFG_ENUM = """CONSTANTS
  Shapes <- MCShapes
  Choices <- MCChoices
  TMax = 0
INIT Init
NEXT NoNext
"""
CFG_TRACE = """CONSTANTS
  Shapes <- NoShapes
  Choices <- NoChoices
  TMax = 0
INIT TInit
NEXT TNext
"""


def dumps(x):
  return json.dumps(x, separators=(",", ":"), ensure_ascii=True)


def mc_module(shape_names, timings):
  shapes = [[{"kind": s["kind"], "parent": s["parent"], "vary": s["vary"]} for s in G.SHAPES[n]] for n in shape_names]
  choices = set()
  for (b, d, e) in timings:
    for tc in ("par", "seq"):
      choices.add((b, d, e, tc))
  txt = "---- MODULE MC_Imsc ----\nEXTENDS Imsc\n"
  txt += "MCShapes == " + T.to_tla(shapes) + "\n"
  txt += "MCChoices == {" + ", ".join(T.to_tla(list(c)) for c in sorted(choices)) + "}\n====\n"
  return txt


# ---- recording (worker processes) ------------------------------------------------------------------

def _record(kind, rid, doc, times, tree, meta, logs_base=0):
  tree2, data = X.reparse(tree)
  ob, _ = X.observe(tree2, times, doc["P"]["D"])
  rec = {"id": rid, "kind": kind, "P": doc["P"], "space": doc["space"], "lang": doc["lang"], "N": doc["N"], "S": doc["S"],
         "I": doc["I"], "T": times, "crashed": ob["crashed"], "obs": ob["obs"], "logs": ob["logs"], "logs_base": logs_base}
  meta = dict(meta, err=ob["err"], logmsgs=ob["logmsgs"], xml=data.decode("utf-8"))
  return rec, meta


def _strip(doc):
  d = dict(doc)
  d["N"] = [{k: v for k, v in nd.items() if k != "tcattr"} for nd in doc["N"]]
  return d


def work_family(args):
  """Replay of enumerated documents: (serial, shape, asg)."""
  items, = args
  out = []
  for serial, shape, asg in items:
    prof = G.PROFILES[serial % len(G.PROFILES)]
    P = G.make_profile(*prof)
    prefer = G.SYNTAXES[(serial // len(G.PROFILES)) % len(G.SYNTAXES)]
    doc, times = G.family_doc(shape, asg, P, prefer, serial)
    tree = X.render(doc)
    rec, meta = _record("doc", serial, _strip(doc), times, tree, {"origin": "family", "shape": shape, "asg": asg, "prefer": prefer})
    out.append((rec, meta))
  return out


def work_rich(args):
  seed, count, ncorrupt = args
  rng = random.Random(seed)
  out = []
  for k in range(count):
    prof = rng.choice(G.PROFILES)
    P = G.make_profile(*prof)
    doc, times, prefer = G.gen_rich(rng, P)
    tree = X.render(doc)
    rec, meta = _record("doc", 0, _strip(doc), times, tree, {"origin": "rich", "seed": seed, "k": k, "prefer": prefer})
    out.append((rec, meta))
    for base, override, what, demands_log in G.corruptions(doc, rng, ncorrupt):
      # logs_base: the reader's log count for the XML without the attribute
      bt, _ = X.reparse(X.render(base))
      ob0, _ = X.observe(bt, [], base["P"]["D"])
      tree = X.render(base, override=override)
      kind = "corrupt" if demands_log else ("unknown" if what.get("foreign") else "unknown_tt")
      rec, meta = _record(kind, 0, _strip(base), times, tree,
                          {"origin": "corrupt", "seed": seed, "k": k, "what": what, "value": override[2],
                           "baseline_crashed": ob0["crashed"]}, logs_base=ob0["logs"])
      out.append((rec, meta))
  return out


def work_forms(args):
  from .. import imsc_forms as F
  return F.run_forms()


# ---- features of a failing case (for triage and known-finding selectors) -----------------------------

def features(rec, meta, clause, j, detail):
  f = {"origin": meta.get("origin", ""), "kind": rec["kind"]}
  if rec["kind"] == "forms":
    f["prop"] = rec["prop"]
    f["form"] = detail
    if meta.get("err"):
      f["error"] = meta["err"][:60]
    return f
  N = rec["N"]
  f["has_seq"] = any(nd["tc"] == "seq" for nd in N)
  f["has_set"] = any(nd["kind"] == "set" for nd in N)
  f["has_regions"] = any(nd["kind"] == "region" for nd in N)
  if rec["kind"] in ("corrupt", "unknown", "unknown_tt"):
    w = meta.get("what", {})
    f["attr"] = w.get("attr", "")
    f["on"] = w.get("on", "")
    f["value"] = meta.get("value", "")
  if rec["crashed"]:
    f["error"] = meta.get("err", "")[:60]
  return f


# ---- TLC validation ----------------------------------------------------------------------------------

def validate(ctx, recs, metas, label, nproc):
  nproc = max(1, min(nproc, len(recs) // 40 or 1))
  parts = [list(range(k, len(recs), nproc)) for k in range(nproc)]

  def one(part):
    text = "\n".join(dumps(recs[j]) for j in part) + "\n"
    return part, T.run_tlc("Trace_Imsc", CFG_TRACE, workers=1, env={"TRACE_FILE": "trace.ndjson"},
                           extra_files={"trace.ndjson": text}, timeout=3000, name="ti_" + label, java_opts=("-Xmx4g",))

  with ThreadPoolExecutor(max_workers=nproc) as ex:
    outs = list(ex.map(one, parts))
  skipped = 0
  for part, res in outs:
    done = res.values("DONE")
    if not done or done[0][1] != len(part):
      raise T.MachineryError(f"trace {label} not consumed: " + res.out[-2500:])
    ctx.tlc(res, "trace validation " + label)
    skipped += len(res.values("SKIP"))
    ctx.count(label + ":foreign_attribute_not_reported", len(res.values("NOTE")))
    seen = set()
    for v in res.values("FAIL"):
      _, r, j, clause, detail = v
      idx = part[r - 1]
      if clause.startswith("machinery"):
        raise T.MachineryError(f"generator left the exact domain: record {recs[idx].get('id')} {metas[idx]}")
      if (idx, clause) in seen:
        continue                      # one violation per (document, clause); the first failing time is reported
      seen.add((idx, clause))
      rec, meta = recs[idx], metas[idx]
      f = features(rec, meta, clause, j, detail)
      case = {"meta": {k: v for k, v in meta.items() if k != "xml"}, "xml": meta.get("xml", ""), "clause": clause,
              "detail": detail}
      if rec["kind"] != "forms":
        case["time_index"] = j
        if j and rec["obs"]:
          case["time_ticks"] = rec["T"][j - 1]
          case["ticks_per_second"] = rec["P"]["D"]
          case["observed"] = rec["obs"][j - 1]
      else:
        case["items"] = rec["items"]
      what = f"{meta.get('origin')} {clause} {detail} " + (meta.get("err") or "")
      if rec["kind"] in ("corrupt", "unknown", "unknown_tt"):
        what += f" attr={f.get('attr')} on={f.get('on')} value={meta.get('value')!r}"
      ctx.violation(clause, case, f, what.strip())
  ctx.count(label + ":outside_timing_domain", skipped)


def use_fragment(pid):
  """Transitional: known findings of this property live in /verif/findings_<pid>.json until they are merged into
  known_findings.json (entries already present there win)."""
  from .. import core
  path = os.path.join(core.VERIF, "findings_%s.json" % pid)
  if not os.path.exists(path):
    return
  with open(path) as fh:
    frag = json.load(fh).get("findings", [])
  base = core.load_findings
  if getattr(base, "_with_fragment", False):
    return

  def merged():
    have = base()
    ids = {e.get("id") for e in have}
    return have + [e for e in frag if e.get("id") not in ids]

  merged._with_fragment = True
  core.load_findings = merged


def run(ctx):
  use_fragment(PID)
  thorough = ctx.thorough()
  ctx.rule = ("a case is one XML document read by imsc.reader and observed through ISD.from_model at each probe time "
              "(every half unit for the enumerated family); non-trivial = at least one text leaf is visible at some "
              "probe and hidden at another; distinct by (document, probe times)")

  # ---- 1. design: the bounded family with a time cursor -------------------------------------------------
  if thorough:
    design = [(["chain", "chain_body", "mixed"], G.TIMINGS_FULL, 26), (["siblings", "spans"], G.TIMINGS_SMALL[:8], 30),
              (["set", "deep", "empty_leaf"], G.TIMINGS_SMALL[:8], 30)]
    enum = [(["chain", "chain_body", "mixed"], G.TIMINGS_FULL), (["siblings", "spans", "set", "deep", "empty_leaf"], G.TIMINGS_SMALL)]
  else:
    design = [(["chain", "mixed"], G.TIMINGS_SMALL, 22), (["siblings"], G.TIMINGS_SMALL[:6], 26)]
    enum = [(["chain", "chain_body", "mixed"], G.TIMINGS_SMALL), (["siblings", "spans", "set", "deep", "empty_leaf"], G.TIMINGS_SMALL[:6])]

  def run_design(arg):
    names, timings, tmax = arg
    return T.run_tlc("MC_Imsc", CFG_DESIGN.format(tmax=tmax), workers=4, extra_files={"MC_Imsc.tla": mc_module(names, timings)},
                     timeout=2400, name="imsc_design")

  def run_enum(arg):
    names, timings = arg
    res = T.run_tlc("MC_Imsc", CFG_ENUM, workers=2, extra_files={"MC_Imsc.tla": mc_module(names, timings)},
                    dump="states", timeout=1200, name="imsc_enum")
    states = T.parse_dump(os.path.join(res.workdir, "states.dump"))
    return names, res, states

  with ThreadPoolExecutor(max_workers=4) as ex:
    dres = list(ex.map(run_design, design))
    eres = list(ex.map(run_enum, enum))
  for (names, _, _), res in zip(design, dres):
    if res.violated:
      raise T.MachineryError(f"Imsc.tla violates its own properties on {names}: {res.violated}\n" + res.out[-1500:])
    ctx.tlc(res, "design " + "+".join(names))
  family = []
  for names, res, states in eres:
    ctx.tlc(res, "family enumeration " + "+".join(names))
    for s in states:
      shape = names[s["sh"] - 1]
      asg = [list(a) for a in s["asg"]]
      family.append((shape, asg))
  ctx.count("family_documents_enumerated", len(family))
  limit = None if thorough else 2400
  if thorough and len(family) > 60000:
    limit = 60000
  if limit is not None and len(family) > limit:
    family = ctx.rng.sample(family, limit)
  items = [(k, sh, asg) for k, (sh, asg) in enumerate(family)]

  # ---- 2. run the implementation ------------------------------------------------------------------------
  nrich = 20000 if thorough else 400
  ncorrupt = 3
  chunks = [items[k:k + 100] for k in range(0, len(items), 100)]
  per = 20
  rich_jobs = [(ctx.seed * 100003 + k, per, ncorrupt) for k in range(nrich // per)]
  with Pool(12 if thorough else 10) as pool:
    fam_out = pool.map(work_family, [(c,) for c in chunks], chunksize=1)
    rich_out = pool.map(work_rich, rich_jobs, chunksize=1)
    forms_out = pool.apply(work_forms, ((),))

  def flat(outs):
    recs, metas = [], []
    for o in outs:
      for rec, meta in o:
        rec["id"] = len(recs) + 1
        recs.append(rec)
        metas.append(meta)
    return recs, metas

  fam_recs, fam_metas = flat(fam_out)
  rich_recs, rich_metas = flat(rich_out)
  forms_recs, forms_metas = flat([forms_out])
  for rec in fam_recs + rich_recs:
    if rec["kind"] == "doc" and rec["obs"]:
      seen_tags = [frozenset(l["tag"] for rg in o["regs"] for l in rg["leaves"]) for o in rec["obs"]]
      if len(set(seen_tags)) > 1:
        ctx.nontrivial((dumps(rec["N"]), dumps(rec["T"])))
  ctx.traces += len(fam_recs) + len(rich_recs) + len(forms_recs)
  ctx.evaluations += sum(len(r["T"]) for r in fam_recs + rich_recs) + sum(len(r["items"]) for r in forms_recs)
  ctx.count("family_documents_replayed", len(fam_recs))
  ctx.count("random_documents", sum(1 for r in rich_recs if r["kind"] == "doc"))
  ctx.count("malformed_attribute_cases", sum(1 for r in rich_recs if r["kind"] == "corrupt"))
  ctx.count("unknown_attribute_cases", sum(1 for r in rich_recs if r["kind"] in ("unknown", "unknown_tt")))
  ctx.count("value_form_groups", len(forms_recs))
  if fam_recs:
    ctx.sample({"family_case": fam_metas[0].get("shape"), "asg": fam_metas[0].get("asg"), "xml": fam_metas[0]["xml"][:600],
                "probe_ticks": fam_recs[0]["T"][:8], "observed": fam_recs[0]["obs"][:3]})
  crp = [k for k, r in enumerate(rich_recs) if r["kind"] == "corrupt"]
  if crp:
    k = crp[0]
    ctx.sample({"malformed_attribute": rich_metas[k].get("what"), "value": rich_metas[k].get("value"),
                "logs": rich_recs[k]["logs"], "logs_without": rich_recs[k]["logs_base"], "log_messages": rich_metas[k]["logmsgs"][:3]})

  # ---- 3. TLC judges ------------------------------------------------------------------------------------
  validate(ctx, fam_recs, fam_metas, "family", 6 if thorough else 4)
  validate(ctx, rich_recs, rich_metas, "random", 6 if thorough else 4)
  validate(ctx, forms_recs, forms_metas, "forms", 1)
  ctx.exhaustive = False
  ctx.assume("snapshots are taken through ISD.from_model, whose own correctness is property C01")
  ctx.assume("lexical syntax: the strings read are those the harness renderer emits for each expression record / value form")
  ctx.assume("set and br children of sequential containers and sequential children whose end precedes their begin are outside "
             "the generated domain (TTML2 does not determine them)")
