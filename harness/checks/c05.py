"""C05 - writing a document as IMSC and reading it back presents identically.

Design side : TLC checks spec/ImscWrite.tla for every writer configuration (time format x frame rate): rejected
              configurations write nothing; the quantisation relation Q admits an image for every time, exactly the
              time itself when it is representable, and a writer that never swaps two times can always continue.
Spec -> code: TLC enumerates configuration x document skeleton (every element kind incl. the four ruby patterns) x
              class of times (spec/ImscWriteCases.tla); each case is built with the model API - every value form of
              every style property of the catalogue is placed - written with imsc.writer, serialised to bytes and
              read back with imsc.reader.
Code -> spec: seeded random cases of the same generator.
spec/Trace_ImscWrite.tla judges every recording: SameModuloQ (tree, kinds, ids, region references, space / lang, style
tokens, animation steps, document parameters, every time pair in Q, no two times swapped), no writer exception on an
accepted configuration, no reader complaint about a written value, equal snapshots at aligned probe times.
"""
from __future__ import annotations

import json
import os
import random
from concurrent.futures import ThreadPoolExecutor
from fractions import Fraction
from math import gcd
from multiprocessing import Pool

from .. import tlc as T
from .. import imsc_model as M

PID = "C05"
LEVEL = "model_checking"

FORMATS = ["none", "clock_time", "frames", "clock_time_with_frames"]
RATES = [(0, 1), (24, 1), (25, 1), (30, 1), (50, 1), (60, 1), (24000, 1001), (30000, 1001)]
PROFILES = ["frame", "ms", "offgrid"]

CFG_DESIGN = """CONSTANTS
  Configs <- MCConfigs
  NUnits = 3
SPECIFICATION Spec
INVARIANT ConfigWellFormed
INVARIANT ImageAdmitted
INVARIANT IdentityOnRepresentable
INVARIANT CanContinue
INVARIANT AtMostTwoImages
INVARIANT CandsComplete
INVARIANT RejectedStaysEmpty
PROPERTY Monotone
"""
CFG_CASES = """CONSTANTS
  Configs <- MCConfigs
  NUnits = 1
  Skeletons <- MCSkeletons
  Profiles <- MCProfiles
INIT CInit
NEXT CNext
"""
CFG_TRACE = """CONSTANTS
  Configs <- NoConfigs
  NUnits = 1
INIT TInit
NEXT TNext
"""


def dumps(x):
  return json.dumps(x, separators=(",", ":"), ensure_ascii=True)


def lcm(a, b):
  return a * b // gcd(a, b)


def configs():
  out = []
  for fmt in FORMATS:
    for fn, fd in RATES:
      D = 1000 if not fn else lcm(1000, fn // gcd(fn, fd))
      out.append({"fmt": fmt, "fn": fn, "fd": fd, "D": D})
  return out


def mc_defs():
  return ("MCConfigs == {" + ", ".join(T.to_tla(c) for c in configs()) + "}\n"
          "MCSkeletons == " + T.to_tla(set(M.SKELETONS)) + "\n"
          "MCProfiles == " + T.to_tla(set(PROFILES)) + "\n")


def work(args):
  """Run a list of cases: (serial, skeleton, cfg, profile, seed, tokens)."""
  items, = args
  out = []
  for serial, skeleton, cfg, profile, seed, tokens in items:
    rng = random.Random(seed)
    fps = Fraction(cfg["fn"], cfg["fd"]) if cfg["fn"] else None
    meta = {"serial": serial, "skeleton": skeleton, "profile": profile, "seed": seed, "tokens": tokens}
    try:
      doc = M.build_doc(rng, skeleton, profile, fps, tokens)
    except Exception as ex:  # pylint: disable=broad-except
      out.append((None, dict(meta, build_error=type(ex).__name__ + ": " + str(ex)[:200])))
      continue
    rec, data = M.roundtrip(doc, {"fmt": cfg["fmt"], "fn": cfg["fn"], "fd": cfg["fd"]})
    rec["id"] = serial
    meta["xml"] = data.decode("utf-8", "replace")
    if "snapshot_error" in rec:
      meta["snapshot_error"] = rec.pop("snapshot_error")
    out.append((rec, meta))
    if rec.get("outcome") == "written" and rng.random() < 0.15:
      # the SAME document object edited through the model API after it has been written once (a style with a pixel length on
      # a document that had none, another initial value, ...) and written again: nothing kept from the first write may show
      M.edit_doc(doc, rng)
      rec2, data2 = M.roundtrip(doc, {"fmt": cfg["fmt"], "fn": cfg["fn"], "fd": cfg["fd"]})
      rec2["id"] = serial + 1000000
      meta2 = dict(meta, serial=serial + 1000000, edited_after_first_write=True, xml=data2.decode("utf-8", "replace"))
      if "snapshot_error" in rec2:
        meta2["snapshot_error"] = rec2.pop("snapshot_error")
      out.append((rec2, meta2))
  return out


def features(rec, meta, clause, detail):
  f = {"fmt": rec["cfg"]["fmt"], "detail": str(detail)[:60]}
  fps = "%d/%d" % (rec["cfg"]["fn"], rec["cfg"]["fd"]) if rec["cfg"]["fn"] else "none"
  A, B = rec.get("A") or {}, rec.get("B") or {}
  if rec.get("err"):
    f["error"] = rec["err"][:80]
  if A and B:
    # which style properties differ anywhere (diagnostic for narrow selectors)
    diff = set()

    def cmp(a, b):
      da, db = dict(map(tuple, a)), dict(map(tuple, b))
      for k in set(da) | set(db):
        if da.get(k) != db.get(k):
          diff.add(k)

    for x, y in zip(A["regions"], B["regions"]):
      cmp(x["styles"], y["styles"])
    if len(A["N"]) == len(B["N"]):
      for x, y in zip(A["N"], B["N"]):
        cmp(x["styles"], y["styles"])
        for sa, sb in zip(x["steps"], y["steps"]):
          if sa[:2] != sb[:2]:
            diff.add(sa[0])
    cmp(A["initials"], B["initials"])
    f["props_differ"] = ",".join(sorted(diff))[:80]
    ka = [n["kind"] for n in A["N"]]
    kb = [n["kind"] for n in B["N"]]
    f["kinds_lost"] = ",".join(sorted(set(ka) - set(kb)))
    f["count_a"] = len(ka)
    f["count_b"] = len(kb)
  return f


def validate(ctx, recs, metas, label, nproc):
  nproc = max(1, min(nproc, len(recs) // 60 or 1))
  parts = [list(range(k, len(recs), nproc)) for k in range(nproc)]

  def one(part):
    text = "\n".join(dumps(recs[j]) for j in part) + "\n"
    return part, T.run_tlc("Trace_ImscWrite", CFG_TRACE, workers=1, env={"TRACE_FILE": "trace.ndjson"},
                           extra_files={"trace.ndjson": text}, timeout=3000, name="tw_" + label, java_opts=("-Xmx4g",))

  with ThreadPoolExecutor(max_workers=nproc) as ex:
    outs = list(ex.map(one, parts))
  for part, res in outs:
    done = res.values("DONE")
    if not done or done[0][1] != len(part):
      raise T.MachineryError(f"trace {label} not consumed: " + res.out[-2500:])
    ctx.tlc(res, "trace validation " + label)
    ctx.count(label + ":documented_rejection_not_enforced", len(res.values("NOTE")))
    seen = set()
    for v in res.values("FAIL"):
      _, r, clause, detail = v
      idx = part[r - 1]
      if clause.startswith("machinery"):
        raise T.MachineryError(f"case base is not exact: {metas[idx]}")
      if (idx, clause) in seen:
        continue
      seen.add((idx, clause))
      rec, meta = recs[idx], metas[idx]
      f = features(rec, meta, clause, detail)
      case = {"meta": {k: v for k, v in meta.items() if k != "xml"}, "cfg": rec["cfg"], "ticks_per_second": rec["D"],
              "clause": clause, "detail": detail, "written": meta.get("xml", ""), "document": rec["A"], "reread": rec["B"],
              "error": rec.get("err", "")}
      if clause == "snapshot":
        case["probes"] = [p for p in rec["probes"] if p["a"] != p["b"]][:3]
      ctx.violation(clause, case, f, f"{clause} {detail} cfg={rec['cfg']['fmt']} fps={rec['cfg']['fn']}/{rec['cfg']['fd']} {rec.get('err', '')}".strip())


def run(ctx):
  thorough = ctx.thorough()
  ctx.rule = ("a case is one document built with the model API, written under one configuration, serialised and read back; "
              "non-trivial = written (configuration not rejected) with at least one time that is not representable in "
              "the chosen syntax, or a style token of a special form; distinct by (skeleton, configuration, time class, seed)")
  defs = mc_defs()
  mc = "---- MODULE MC_ImscWrite ----\nEXTENDS ImscWrite\n" + defs + "====\n"
  mcc = "---- MODULE MC_ImscWriteCases ----\nEXTENDS ImscWriteCases\n" + defs + "====\n"
  res = T.run_tlc("MC_ImscWrite", CFG_DESIGN, workers=4, extra_files={"MC_ImscWrite.tla": mc}, timeout=1200, name="imscwrite_design")
  if res.violated:
    raise T.MachineryError("ImscWrite.tla violates its own properties: " + str(res.violated) + res.out[-1500:])
  ctx.tlc(res, "design: quantisation relation per configuration")
  res = T.run_tlc("MC_ImscWriteCases", CFG_CASES, workers=2, extra_files={"MC_ImscWriteCases.tla": mcc}, dump="states",
                  timeout=600, name="imscwrite_cases")
  ctx.tlc(res, "case enumeration")
  states = T.parse_dump(os.path.join(res.workdir, "states.dump"))
  cases = sorted((s["sk"], s["cfg"]["fmt"], s["cfg"]["fn"], s["cfg"]["fd"], s["tp"]) for s in states)
  ctx.count("cases_enumerated", len(cases))

  import ttconv  # noqa: F401  (sources selected by core.use_repo_sources)
  ncat = len(M.style_catalogue())
  reps = 10 if thorough else 1
  items = []
  serial = 0
  tokpos = 0
  for rep in range(reps):
    order = list(cases)
    ctx.rng.shuffle(order)
    for sk, fmt, fn, fd, tp in order:
      serial += 1
      tokens = [(tokpos + k) % ncat for k in range(4)]
      tokpos += 4
      items.append((serial, sk, {"fmt": fmt, "fn": fn, "fd": fd}, tp, ctx.seed * 7919 + serial, tokens))
  nrandom = 30000 if thorough else 800
  cfgs = configs()
  for _ in range(nrandom):
    serial += 1
    c = ctx.rng.choice(cfgs)
    items.append((serial, ctx.rng.choice(M.SKELETONS), {"fmt": c["fmt"], "fn": c["fn"], "fd": c["fd"]}, ctx.rng.choice(PROFILES),
                  ctx.seed * 7919 + serial, []))
  chunks = [items[k:k + 40] for k in range(0, len(items), 40)]
  with Pool(12 if thorough else 10) as pool:
    outs = pool.map(work, [(c,) for c in chunks], chunksize=1)
  recs, metas = [], []
  build_errors = 0
  snap_errors = 0
  for o in outs:
    for rec, meta in o:
      if rec is None:
        build_errors += 1
        if build_errors <= 3:
          ctx.notes.append("generator could not build a case: " + meta.get("build_error", ""))
        continue
      if "snapshot_error" in meta:
        snap_errors += 1
      recs.append(rec)
      metas.append(meta)
  if build_errors > len(items) // 10:
    raise T.MachineryError("too many cases could not be built: " + "; ".join(ctx.notes[:3]))
  ctx.count("cases_run", len(recs))
  ctx.count("cases_unbuildable", build_errors)
  ctx.count("cases_without_snapshots_isd_raised", snap_errors)
  ctx.count("cases_written", sum(1 for r in recs if r["outcome"] == "written"))
  ctx.count("cases_rejected_or_raised", sum(1 for r in recs if r["outcome"] == "writer_exception"))
  ctx.count("probes", sum(len(r["probes"]) for r in recs))
  ctx.traces += len(recs)
  ctx.evaluations += sum(len(r["A"]["N"]) + len(r["probes"]) for r in recs)
  for rec, meta in zip(recs, metas):
    if rec["outcome"] == "written":
      ctx.nontrivial((meta["skeleton"], dumps(rec["cfg"]), meta["profile"], meta["seed"]))
  if recs:
    k = next((j for j, r in enumerate(recs) if r["outcome"] == "written" and r["cfg"]["fmt"] == "frames"), 0)
    ctx.sample({"cfg": recs[k]["cfg"], "skeleton": metas[k]["skeleton"], "profile": metas[k]["profile"],
                "written_xml": metas[k]["xml"][:700], "elements": len(recs[k]["A"]["N"]), "probes": len(recs[k]["probes"])})
  validate(ctx, recs, metas, "roundtrip", 8 if thorough else 4)
  ctx.exhaustive = False
  ctx.assume("snapshots are compared through ISD.from_model (property C01), at times further than 8 units from any boundary, "
             "and on the boundaries themselves when every time of the document is representable")
  ctx.assume("style values are compared as tokens (numbers at %g precision); adjacent text nodes are one text node; the generic "
             "font family default equals monospaceSerif (IMSC 1.1)")
  ctx.assume("ruby subtrees are untimed (a temporarily inactive annotation makes ISD generation raise: property C18)")
