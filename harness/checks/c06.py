"""C06 - SRT / WebVTT cues carry exactly the visible text over exactly its intervals.

Design side : TLC checks the relation Cues!Covers on spec/CuesCover.tla: the straightforward cue lists (one cue per
              visible interval; adjacent intervals with identical text merged) are admitted on whole-second, uneven,
              sub-millisecond and tie grids; a dropped cue, a boundary moved by 1 ms, swapped lines, a repeated cue and
              a cue after the end are rejected.
Spec -> code: TLC enumerates the document structures of spec/CuesShapes.tla (regions x div/p layout x content kind x
              timing pattern); each is built with the model API and written by both writers.
Code -> spec: seeded random documents (0-3 regions, several div/p, nested div and span, br, ruby, default/preserve
              space, timed div/p/span/region incl. sub-millisecond and unbounded intervals) x writer configurations.
GIVEN       : the snapshot sequence the implementation itself produces (ISD.generate_isd_sequence) - whether the
              snapshots are right is C01/C02/C03.  spec/Trace_Cues.tla (Which = "C06") computes TextAt of every
              snapshot and judges the lexed cue list: boundaries are rounded significant times, cues ordered and
              non-overlapping, and in every millisecond slot the active cues carry exactly the visible lines.
"""
from __future__ import annotations

from .. import tlc as T
from .. import cues_check as C
from .. import cues_gen as G
from .. import cues_proj as P

PID = "C06"
LEVEL = "model_checking"

CFG_COVER = """CONSTANT MaxLines = 0
INIT CInit
NEXT CNext
INVARIANT Inv_RelationAdmitsAndRejects
INVARIANT Inv_SameTimingGroups
"""

STRUCT_CONFIGS = [{"fmt": "srt", "tf": 1}, {"fmt": "vtt", "lp": 0, "ta": 0, "id": 1}, {"fmt": "vtt", "lp": 1, "ta": 1, "id": 0}]


def run(ctx):
  thorough = ctx.thorough()
  if ctx.replay_case:
    C.replay(ctx, PID)
    return
  ctx.rule = ("a case is one document written under one writer configuration; distinct by (document, configuration); "
              "non-trivial = the output has at least one cue or the writer raised; structure shapes come from the TLC "
              "state dump of CuesShapes.tla, random documents from the seeded generator")
  # 1. design level: the relation itself
  res = T.run_tlc("CuesCover", CFG_COVER, workers=4, timeout=600, name="cover")
  if res.violated:
    raise T.MachineryError("CuesCover.tla: the C06 relation violates its design-level invariants: " + str(res.violated))
  ctx.tlc(res, "Covers relation: admits reference / merged cue lists, rejects dropped, shifted, swapped, repeated, late cues")

  # 2. spec -> code: structure shapes
  shapes = C.enumerate_shapes(ctx, "struct", 0)
  ctx.count("struct_shapes_in_model", len(shapes))
  if not thorough:
    # a fixed slice with every struct x regions x timing combination for the plain/br/ruby contents, plus a seeded sample
    core = [s for s in shapes if s["c1"] == s["c2"] and s["c1"] in ("plain", "ruby") and s["timing"] in ("same", "sub", "unbounded")]
    rest = [s for s in shapes if s not in core]
    shapes = core[::2] + ctx.rng.sample(rest, 70)
  cases = [("struct", s, G.struct_doc(s), STRUCT_CONFIGS) for s in shapes]
  ctx.count("struct_shapes_run", len(cases))

  # 3. code -> spec: random documents
  ndocs = 3000 if thorough else 350
  for _ in range(ndocs):
    adoc = G.random_doc(ctx.rng, rich=ctx.rng.random() < 0.5)
    if thorough:
      cfgs = P.SRT_CONFIGS + P.VTT_CONFIGS
    else:
      cfgs = [ctx.rng.choice(P.SRT_CONFIGS)] + ctx.rng.sample(P.VTT_CONFIGS, 2)
    cases.append(("random", {}, adoc, cfgs))

  recs, metas = C.record_cases(ctx, cases)
  for rec, meta in zip(recs, metas):
    for o, cfg in zip(rec["outs"], meta["configs"]):
      ctx.evaluations += 1
      if o["raised"] or any(l["k"] == "timing" for l in o["lines"]):
        ctx.nontrivial((P.config_label(cfg), o.get("raw", "") or o["raised"], str(rec["sig"])))
  ctx.traces += len(recs)
  ctx.count("documents_recorded", len(recs))
  C.validate(ctx, recs, metas, "C06", "c06")
  if recs:
    r0 = recs[len(recs) // 2]
    ctx.sample({"significant_times": [f"{n}/{r0['D']}" for n in r0["sig"]], "config": P.config_label(metas[len(recs) // 2]["configs"][0]),
                "output": r0["outs"][0].get("raw", "")[:400]})
  ctx.exhaustive = False
  ctx.assume("the snapshots (ISD.generate_isd_sequence) are taken as given: their correctness is C01/C02/C03")
  ctx.assume("ruby annotation text (rt, rp) is not part of the cue text; ruby base text is")
  ctx.assume("lines holding only white space are not lines of text on either side of the comparison; literal line feeds in "
             "xml:space=preserve text are outside the generated domain")
  ctx.assume("a paragraph containing a ruby is always selected by a region when the document has regions (otherwise ISD "
             "generation itself raises, which is not a writer property)")
