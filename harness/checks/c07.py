"""C07 - SRT / WebVTT outputs are grammatical and tags reflect the computed styles.

Design side : the acceptors SrtAcceptor / VttAcceptor of spec/Cues.tla are run by TLC over every sequence of at most
              MaxLines lines of a representative alphabet (numbers, timings in and out of order, text with open / close
              tags, "-->", raw '&', header, STYLE): deterministic; every accepted input has numbers 1, 2, 3..., ordered
              non-overlapping timings, a payload after every timing, balanced properly nested tags, header and STYLE
              only in front; the batch form used on recordings agrees with the machine.
              spec/CuesShapes.tla: on every style shape the reference rendering is accepted and its tag runs equal the
              computed styles (grammar and TagRuns are jointly satisfiable).
Spec -> code: every style shape (single / nested / adjacent-overlapping / line-spanning spans x subsets of bold, italic,
              underline, colour, background x text with '&', '<', '-->', '>', literal entities, white-space-only lines)
              is built with the model API and written by both writers under several configurations.
Code -> spec: seeded random documents x writer configurations (as C06, with rich per-span styles).
Judged by   : spec/Trace_Cues.tla (Which = "C07"): acceptance of the lexed lines, effective style of every payload character
              against the computed style in the snapshot, no tags when text_formatting is off, line / align settings
              against the region position and paragraph alignment, cue numbers when configured, writers do not raise.
"""
from __future__ import annotations

from .. import tlc as T
from .. import cues_check as C
from .. import cues_gen as G
from .. import cues_proj as P

PID = "C07"
LEVEL = "model_checking"

CFG_ACCEPTOR = """CONSTANT MaxLines = {n}
SPECIFICATION ASpec
INVARIANT Inv_Deterministic
INVARIANT Inv_AcceptedIsWellFormed
INVARIANT Inv_AcceptedTagsBalanced
INVARIANT Inv_BatchAgrees
"""

STYLE_CONFIGS = [{"fmt": "srt", "tf": 1}, {"fmt": "srt", "tf": 0}, {"fmt": "vtt", "lp": 1, "ta": 1, "id": 1},
                 {"fmt": "vtt", "lp": 0, "ta": 0, "id": 0}]


def run(ctx):
  thorough = ctx.thorough()
  if ctx.replay_case:
    C.replay(ctx, PID)
    return
  ctx.rule = ("a case is one document written under one writer configuration; distinct by (document, configuration); "
              "non-trivial = the output has at least one cue or the writer raised; style shapes come from the TLC state "
              "dump of CuesShapes.tla, random documents from the seeded generator")
  # 1. design level: the acceptors
  res = T.run_tlc("Cues", CFG_ACCEPTOR.format(n=10 if thorough else 7), workers=4, timeout=3000, coverage=True, name="acceptor")
  if res.violated:
    raise T.MachineryError("Cues.tla: the acceptor violates its design-level invariants: " + str(res.violated))
  ctx.tlc(res, "acceptor machines over all line sequences up to the bound")

  # 2. spec -> code: style shapes
  shapes = C.enumerate_shapes(ctx, "style", 3 if thorough else 2)
  ctx.count("style_shapes_in_model", len(shapes))
  cases = []
  for k, s in enumerate(shapes):
    cfgs = STYLE_CONFIGS if thorough or s["text"] != "plain" or len(s["A"]) + len(s["B"]) <= 1 else \
        [STYLE_CONFIGS[0], STYLE_CONFIGS[2 + k % 2]]
    cases.append(("style", s, G.shape_doc(s), cfgs))

  # 3. code -> spec: random documents
  ndocs = 2500 if thorough else 300
  for _ in range(ndocs):
    adoc = G.random_doc(ctx.rng, rich=True)
    if thorough:
      cfgs = P.SRT_CONFIGS + P.VTT_CONFIGS
    else:
      cfgs = [P.SRT_CONFIGS[0]] + ctx.rng.sample(P.VTT_CONFIGS, 2) + ([P.SRT_CONFIGS[1]] if ctx.rng.random() < 0.3 else [])
    cases.append(("random", {}, adoc, cfgs))

  recs, metas = C.record_cases(ctx, cases)
  for rec, meta in zip(recs, metas):
    for o, cfg in zip(rec["outs"], meta["configs"]):
      ctx.evaluations += 1
      if o["raised"] or any(l["k"] == "timing" for l in o["lines"]):
        ctx.nontrivial((P.config_label(cfg), o.get("raw", "") or o["raised"]))
  ctx.traces += len(recs)
  ctx.count("documents_recorded", len(recs))
  C.validate(ctx, recs, metas, "C07", "c07")
  if recs:
    ctx.sample({"shape": metas[10]["origin"], "config": P.config_label(metas[10]["configs"][0]), "output": recs[10]["outs"][0].get("raw", "")[:300]})
  ctx.exhaustive = False
  ctx.assume("the snapshots and their computed styles are taken as given (C01/C03)")
  ctx.assume("the character's background is the background visible behind it: nearest enclosing inline element whose computed "
             "backgroundColor is not transparent; block-level backgrounds are outside the generated domain")
  ctx.assume("SubRip has no normative grammar: the de-facto grammar number / timing / text+ / blank with <b> <i> <u> <font color> "
             "is used; tags may span the lines of one cue, never cues")
  ctx.assume("style comparison is made where the cue text itself is right (text is C06's business)")
