"""C08 - the SCC reader shows what a CEA-608 decoder displays, when it displays it.

Design side : spec/Cea608Decoder.tla is the reference decoder (displayed / non-displayed memories, mode, roll-up window,
              cursor, pen, duplicate suppression, channel latch, frame clock).  TLC explores its protocol generator
              (GenNext, a sub-relation of the decoder's Next) exhaustively on small alphabets and by simulation on the
              rich ones, checking the decoder's invariants and action properties on every reachable state.
Spec -> code: every behaviour TLC reached (the generator prints its emitted words) is rendered as an SCC file and read
              with ttconv.scc.reader.to_model.
Code -> spec: seeded random protocol streams over the full alphabets (harness/scc_gen.py) are rendered and read too.
Both kinds of recordings (words as written in the file + what the document shows at every frame + paragraph times as
exact fractions of frames) are judged by spec/Trace_Cea608.tla, which walks the decoder one action per word.
The Python side renders, runs, projects and computes diagnostic features; it never decides a clause.
"""
from __future__ import annotations

import json
import os
import threading
import time
from concurrent.futures import ThreadPoolExecutor

from .. import tlc as T
from .. import scc_util as U
from .. import scc_gen as G

PID = "C08"
LEVEL = "model_checking"
_LOCK = threading.Lock()

DECODER_ACTIONS = ["Null", "Chars", "Pac", "MidRow", "RCL", "RDC", "RU", "CR", "EOC", "EDM", "ENM", "BS", "TO", "DER", "Special",
                   "Extended", "DupControl", "OtherChannel", "NewLine"]

MC_TMPL = """---- MODULE MC_Cea608Decoder ----
EXTENDS Cea608Decoder
MCStyles == {styles}
MCChars == {chars}
MCRows == {rows}
MCDescs == {descs}
MCDepths == {depths}
MCOpts == {opts}
MCStarts == {starts}
MCMids == {mids}
MCSpecials == {specials}
MCExtendeds == {extendeds}
MCPickAll(S) == S
MCPickOne(S) == {{RandomElement(S)}}
====
"""
CFG_GEN = """CONSTANTS
  GStyles <- MCStyles
  GChars <- MCChars
  GRows <- MCRows
  GDescs <- MCDescs
  GDepths <- MCDepths
  GOpts <- MCOpts
  GMaxCaps = {maxcaps}
  GMaxRows = {maxrows}
  GMaxItems = {maxitems}
  GBudget = {budget}
  GStarts <- MCStarts
  GMids <- MCMids
  GSpecials <- MCSpecials
  GExtendeds <- MCExtendeds
  Pick <- {pick}
SPECIFICATION GenSpec
INVARIANT TypeOK
INVARIANT CursorInRange
INVARIANT RollupWindow
INVARIANT RollupDepth
PROPERTY PopOnHidden
PROPERTY ChannelFilter
PROPERTY OneFramePerWord
{extra}
"""
CFG_TRACE = """CONSTANTS
  GStyles = {}
  GChars = {}
  GRows = {}
  GDescs = {}
  GDepths = {}
  GOpts = {}
  GMaxCaps = 0
  GMaxRows = 0
  GMaxItems = 0
  GBudget = 0
  GStarts = {}
  GMids = {}
  GSpecials = {}
  GExtendeds = {}
  Pick <- TracePick
INIT TInit
NEXT TNext
INVARIANT TraceCursorInRange
INVARIANT TraceRollupWindow
"""

AB = [(65, 66), (67, 0)]          # the two text words of the exhaustive models: "AB" and "C"
START_NDF = (False, 0, 0, 1, 0)
START_DF = (True, 0, 0, 59, 20)   # crosses the dropped labels 00:01:00;00 and ;01

# name -> generator constants of the exhaustive models (thorough tier); QUICK holds the reductions of the quick tier
EXHAUSTIVE = {
  # one pop-on caption: 3 rows x 2 indents, up to 2 rows of up to 2 text words, every code doubled
  "popon1": dict(styles=["popon"], chars=AB, rows=[1, 14, 15], descs=[16, 18], depths=[2], opts=["dup"], maxcaps=1, maxrows=2,
                 maxitems=2, starts=[START_NDF]),
  # two pop-on captions (flip, replace, erase), single codes, optional ENM / EDM before EOC / erase
  "popon2": dict(styles=["popon"], chars=[(65, 66)], rows=[14, 15], descs=[16], depths=[2],
                 opts=["single", "enm", "edm", "erase"], maxcaps=2, maxrows=2, maxitems=1, starts=[START_NDF]),
  # roll-up: three lines, depth 2 and 3, doubled codes, optional erase, drop-frame start before a minute boundary
  "rollup3": dict(styles=["rollup"], chars=AB, rows=[15], descs=[16, 18], depths=[2, 3], opts=["dup", "erase"], maxcaps=3, maxrows=1,
                  maxitems=1, starts=[START_DF]),
  # paint-on: two segments of up to two rows
  "painton2": dict(styles=["painton"], chars=[(65, 66)], rows=[14, 15], descs=[16, 18], depths=[2], opts=["single", "erase"], maxcaps=2,
                   maxrows=2, maxitems=1, starts=[START_NDF]),
  # text items: mid-row, special, extended, BS, TO, DER in a one-row pop-on caption and a paint-on segment
  "items": dict(styles=["popon", "painton"], chars=[(65, 66)], rows=[15], descs=[16, 3],
                depths=[2], opts=["single", "midrow", "special", "extended", "bs", "to", "der"], maxcaps=1, maxrows=1, maxitems=3,
                starts=[START_NDF], mids=[14, 5], specials=[7], extendeds=[(2, 1)]),
  # one caption of each protocol with doubled and single codes mixed, padding, channel 2
  "mixed1": dict(styles=["popon", "rollup", "painton"], chars=[(65, 66)], rows=[15], descs=[16], depths=[2],
                 opts=["single", "dup", "null", "ch2", "erase"], maxcaps=1, maxrows=1, maxitems=1, starts=[START_NDF]),
  # two captions, line breaks with and without gaps, a code and its copy straddling contiguous lines
  "mixed2": dict(styles=["popon", "rollup"], chars=[(65, 66)], rows=[15], descs=[16], depths=[2],
                 opts=["single", "dup", "gap", "pair", "erase"], maxcaps=2, maxrows=1, maxitems=1, starts=[START_NDF]),
}
QUICK = {
  "popon1": dict(maxitems=1),
  "popon2": dict(maxrows=1),
  "rollup3": dict(chars=[(65, 66)], descs=[16]),
  "painton2": dict(descs=[16]),
  "items": dict(maxitems=2),
  "mixed1": dict(styles=["popon", "rollup"], opts=["single", "dup", "null", "ch2"], budget=1),
  "mixed2": dict(styles=["popon"], opts=["dup", "gap", "pair", "erase"]),
}
SIMULATE = dict(styles=["popon", "rollup", "painton"], chars=[(65, 66), (67, 0), (32, 68), (69, 32), (42, 92), (127, 96)],
                rows=list(range(1, 16)), descs=list(range(32)), depths=[2, 3, 4],
                opts=["single", "dup", "enm", "edm", "erase", "midrow", "bs", "to", "der", "special", "extended", "ch2", "null", "gap", "pair"],
                maxcaps=4, maxrows=4, maxitems=5, starts=[START_NDF, START_DF, (True, 10, 9, 59, 10), (False, 23, 59, 58, 0)],
                mids=list(range(16)), specials=list(range(16)), extendeds=[(2, 1), (2, 10), (3, 0), (3, 31), (2, 31), (3, 14)])


def _set(xs):
  return "{" + ", ".join(T.to_tla(x) for x in xs) + "}"


def run_generator(name, cfg, simulate=None, seed=None, extra="", timeout=900, coverage=False, workers=4):
  mc = MC_TMPL.format(styles=_set(cfg["styles"]), chars=_set(cfg["chars"]), rows=_set(cfg["rows"]), descs=_set(cfg["descs"]),
                      depths=_set(cfg["depths"]), opts=_set(cfg["opts"]), starts=_set(cfg["starts"]),
                      mids=_set(cfg.get("mids", [14])), specials=_set(cfg.get("specials", [7])),
                      extendeds=_set(cfg.get("extendeds", [(2, 1)])))
  text = CFG_GEN.format(maxcaps=cfg["maxcaps"], maxrows=cfg["maxrows"], maxitems=cfg["maxitems"], extra=extra, budget=cfg.get("budget", 2),
                        pick="MCPickOne" if simulate else "MCPickAll")
  res = T.run_tlc("MC_Cea608Decoder", text, workers=workers, extra_files={"MC_Cea608Decoder.tla": mc}, timeout=timeout,
                  simulate=simulate, depth=150 if simulate else None, seed=seed, name="gen_" + name, coverage=coverage)
  if res.violated:
    raise T.MachineryError(f"Cea608Decoder.tla violates its own properties in configuration {name}: {res.violated}\n" + res.out[-1500:])
  return res


def behaviour_to_stream(beh, rng, k):
  """<<"BEH", df, final frame, sent>> -> stream dict (lines with absolute frame counts)."""
  _, df, final, sent = beh
  nwords = sum(1 for x in sent if x < 100000)
  gaps = sum(x - 100000 for x in sent if x >= 100000)
  clock = final - nwords - gaps
  lines = []
  for x in sent:
    if x >= 100000:
      clock += x - 100000
      lines.append((clock, []))
    else:
      lines[-1][1].append(x)
      clock += 1
  # a line mark directly followed by another (or the end) yields an empty line: dropped (an SCC line needs words)
  fixed = []
  for fr, ws in lines:
    if ws:
      fixed.append((fr, ws))
  return {"lines": fixed, "df": bool(df), "parity": (True, False, "mixed", True, True)[k % 5], "align": [None, "left", "center", "right", "auto"][k % 5],
          "features": [], "style": "tlc"}


# ---------------------------------------------------------------------------------------------------
# running the implementation and recording
# ---------------------------------------------------------------------------------------------------

def suppressed_duplicates(lines):
  """Per line: list of booleans, True where the word is the immediate repeat of a channel-1 code that is ignored
  (syntactic: same stripped value as the preceding word of the stream, which was a code that acted; frames contiguous)."""
  out = []
  last = 0
  clock = None
  for fr, ws in lines:
    if clock is not None and fr != clock:
      last = 0
    flags = []
    for w in ws:
      s = w & 0x7F7F
      b1 = s >> 8
      if 0x10 <= b1 <= 0x17 and s == last:
        flags.append(True)
        last = 0
      else:
        flags.append(False)
        last = s if 0x10 <= b1 <= 0x17 else 0
    out.append(flags)
    clock = fr + len(ws)
  return out


def rebased(stream):
  """The same words at the same frames, with a new SCC line after every suppressed duplicate that is followed by more words."""
  lines = []
  dups = suppressed_duplicates(stream["lines"])
  for (fr, ws), flags in zip(stream["lines"], dups):
    cur_start = fr
    cur = []
    for j, w in enumerate(ws):
      cur.append(w)
      if flags[j] and j + 1 < len(ws):
        lines.append((cur_start, cur))
        cur_start = fr + j + 1
        cur = []
    if cur:
      lines.append((cur_start, cur))
  s = dict(stream)
  s["lines"] = lines
  return s


def record(stream, rid):
  """Render, run the reader, project.  Returns (trace record, aux) or raises."""
  df = stream["df"]
  labelled = [(U.frames_to_label(fr, df), ws) for fr, ws in stream["lines"]]
  text = U.render_scc(labelled, df, parity=stream["parity"], seps=stream.get("seps"))
  doc = U.run_reader(text, stream["align"])
  pars = U.project_doc(doc, df)
  first = stream["lines"][0][0]
  last = stream["lines"][-1][0] + len(stream["lines"][-1][1])
  # frames at which the shown screen can change
  cand = {first - 2}
  begins = {}
  ends = {}
  for p in pars:
    bn, bd = p["b"]
    b = -(-bn // bd)
    cand.add(b)
    begins[b] = begins.get(b, 0) + 1
    if p["e"][0] >= 0:
      e = -(-p["e"][0] // p["e"][1])
      cand.add(e)
      ends[e] = ends.get(e, 0) + 1
    for r in p["rows"]:
      for c in r["cells"]:
        if c[4] != 0:
          x = -(-(bn * c[5] + c[4] * bd) // (bd * c[5]))
          if x not in cand:
            begins[x] = begins.get(x, 0) + 1
          cand.add(x)
  obs = []
  for f in sorted(cand):
    scr = U.project_screen(pars, f)
    if obs and obs[-1]["scr"] == scr:
      continue
    obs.append({"f": f, "nb": begins.get(f, 0), "ne": ends.get(f, 0), "scr": scr})
  if obs[0]["f"] != min(cand):
    raise AssertionError("rle")
  steps = []
  for (fr, ws), (lab, _) in zip(stream["lines"], labelled):
    steps.append({"t": "L", "w": 0, "lab": list(lab)})
    for w in ws:
      if stream["parity"]:
        w = (U.odd_parity(w >> 8) << 8) | U.odd_parity(w & 0xFF)
      steps.append({"t": "W", "w": w, "lab": [0, 0, 0, 0]})
  steps.append({"t": "E", "w": 0, "lab": [0, 0, 0, 0]})
  rec = {"id": rid, "df": 1 if df else 0, "steps": steps, "obs": obs,
         "pars": [[p["b"][0], p["b"][1], p["e"][0], p["e"][1]] for p in pars]}
  return rec, {"text": text, "pars": pars, "last": last}


def validate(ctx, recs, label, coverage=False, nproc=6):
  """Runs Trace_Cea608 over the records (split over several TLC processes).  Returns (fails by id, skips by id, coverage)."""
  if not recs:
    return {}, {}, {}
  nproc = max(1, min(nproc, len(recs) // 20 or 1))
  parts = [recs[j::nproc] for j in range(nproc)]

  def one(part):
    text = "\n".join(json.dumps(x, separators=(",", ":")) for x in part) + "\n"
    return part, T.run_tlc("Trace_Cea608", CFG_TRACE, workers=1, env={"TRACE_FILE": "trace.ndjson"},
                           extra_files={"trace.ndjson": text}, timeout=3000, name="trace08_" + label, java_opts=("-Xmx4g",),
                           coverage=coverage)

  with ThreadPoolExecutor(max_workers=nproc) as ex:
    outs = list(ex.map(one, parts))
  fails = {}
  skips = {}
  cov = {}
  for part, res in outs:
    done = res.values("DONE")
    if not done or done[0][1] != len(part):
      raise T.MachineryError(f"trace {label} not consumed: " + res.out[-2500:])
    if res.violated:
      raise T.MachineryError(f"decoder invariant violated while walking trace {label}: {res.violated}\n" + res.out[-2500:])
    with _LOCK:
      ctx.tlc(res, "trace validation " + label)
    for v in res.values("FAIL"):
      fails.setdefault(v[1], []).append((v[2], v[3]))
    for v in res.values("SKIP"):
      skips[v[1]] = v[2]
    for kname, (d, t) in res.coverage.items():
      if kname.startswith("T"):
        a = cov.get(kname[1:], 0)
        cov[kname[1:]] = a + t
  return fails, skips, cov


# ---------------------------------------------------------------------------------------------------
# diagnostic features of a failing record (for known-finding selectors and for reading the replay file)
# ---------------------------------------------------------------------------------------------------

def dup_counts_before(stream, x):
  """Candidate values of k for an event reported at frame x by a reader with a correct clock: the number of suppressed
  duplicate code words on the SCC line of the triggering word, before that word.  The reader reports an event at the
  end of the triggering word (x - 1) or, for EDM, one frame later (x - 2)."""
  dups = suppressed_duplicates(stream["lines"])
  out = set()
  for t in (x - 1, x - 2):
    for (fr, ws), flags in zip(stream["lines"], dups):
      if fr <= t < fr + len(ws):
        out.add(sum(1 for j, fl in enumerate(flags) if fl and fr + j < t))
  return out or {0}


def event_times(pars):
  """Every time the document carries, in frames as (num, den): paragraph begin, end, absolute begin of timed spans."""
  out = []
  for p in pars:
    out.append(tuple(p["b"]))
    out.append(tuple(p["e"]))
    seen = set()
    for r in p["rows"]:
      for c in r["cells"]:
        if c[4] != 0 and (c[4], c[5]) not in seen:
          seen.add((c[4], c[5]))
          out.append((p["b"][0] * c[5] + c[4] * p["b"][1], p["b"][1] * c[5]))
  return out


TIMING_CLAUSES = ("begin_frame", "end_frame", "before_first_line", "begin_exact_frame", "end_exact_frame")


def single_edm_frames(stream):
  """Frames during which a channel-1 EDM is transmitted that is neither followed nor preceded by its copy."""
  seq = []
  for fr, ws in stream["lines"]:
    for j, w in enumerate(ws):
      seq.append((fr + j, w & 0x7F7F))
  out = set()
  for n, (fr, w) in enumerate(seq):
    if w != 0x142C:
      continue
    nxt = n + 1 < len(seq) and seq[n + 1] == (fr + 1, w)
    prv = n > 0 and seq[n - 1] == (fr - 1, w)
    if not nxt and not prv:
      out.add(fr)
  return out


def depth_reduction_frames(stream):
  """Frames between a channel-1 roll-up command that asks for FEWER rows than the roll-up command before it and the next
  channel-1 carriage return / erase / change of mode (a fact about the input: the shape of a recorded finding)."""
  out = set()
  depth = None
  reduced = False
  rollup = False
  for fr, ws in stream["lines"]:
    for j, w in enumerate(ws):
      w &= 0x7F7F
      if w in (0x1425, 0x1426, 0x1427):
        k = w - 0x1423
        if rollup and depth is not None and k < depth:
          reduced = True
        depth = k
        rollup = True
      elif w in (0x142D, 0x142C, 0x1420, 0x1429, 0x142F):
        if reduced:
          out.add(fr + j)               # (the frame of the closing word itself still shows the state before it)
        reduced = False
        if w in (0x1420, 0x1429, 0x142F):
          rollup = False
          depth = None
      if reduced:
        out.add(fr + j)
  return out


def stream_case(stream, aux, fails):
  return {"scc": aux["text"], "text_align": stream["align"], "df": stream["df"],
          "paragraphs": [{"id": p["id"], "begin_frames": p["b"], "end_frames": p["e"], "style": p["style"],
                          "rows": [[r["row"], "".join(chr(c[0]) for c in r["cells"])] for r in p["rows"]]} for p in aux["pars"]],
          "failing": sorted(set(fails))[:12], "first_line_frame": stream["lines"][0][0]}


def run(ctx):
  thorough = ctx.thorough()
  rng = ctx.rng
  ctx.rule = ("a case is one SCC file (a word stream following the pop-on / roll-up / paint-on grammars, rendered with time codes "
              "and parity) read by scc.reader.to_model and compared at every frame with the reference decoder; streams come from "
              "TLC (all behaviours of the generator on small alphabets, simulated behaviours on the full ones) and from a seeded "
              "random generator; non-trivial = distinct word sequence that displays at least one caption")

  recs = []
  aux = {}

  def record_all(streams):
    out = []
    for s in streams:
      rid = len(recs) + 1
      try:
        rec, a = record(s, rid)
      except U.ReaderRaised as rr:
        ex = rr.original
        ctx.violation("reader_raises", {"scc": U.render_scc([(U.frames_to_label(fr, s["df"]), ws) for fr, ws in s["lines"]], s["df"], s["parity"]),
                                        "error": repr(ex)}, {"source": s["source"], "error": type(ex).__name__, "cause": "other"},
                      f"to_model raised {type(ex).__name__}: {ex}")
        continue
      recs.append(rec)
      out.append(rec)
      aux[rid] = (s, a)
      if a["pars"]:
        ctx.nontrivial(hash((tuple(w for _, ws in s["lines"] for w in ws), s["df"])))
    return out

  # ---- 1. design: the generator's behaviours, decoder invariants on every state (started first, runs in the background)
  jobs = []
  for name, cfg in EXHAUSTIVE.items():
    if not thorough:
      cfg = dict(cfg, **QUICK.get(name, {}))
    jobs.append((name, cfg, None, None))
  nsim = 3000 if thorough else 250
  jobs.append(("simulate", SIMULATE, f"num={nsim}", ctx.seed + 1))

  def gen(job):
    name, cfg, sim, seed = job
    extra = "PROPERTY GenRefinesDecoder" if name == "popon2" else ""
    return job, run_generator(name, cfg, simulate=sim, seed=seed, extra=extra, coverage=(sim is None), workers=2 if sim is None else 1,
                              timeout=3000)

  t0 = time.time()
  pool = ThreadPoolExecutor(max_workers=10)
  gen_futs = [pool.submit(gen, j) for j in jobs]

  # ---- 2. seeded random protocol streams: recorded and validated while the generator models run ---------
  nrand = 6000 if thorough else 400
  rstreams = []
  for j in range(nrand):
    s = G.gen_stream(rng, plain=(j % 5 == 0))
    s["source"] = "random"
    rstreams.append(s)
  rrecs = record_all(rstreams)
  rand_fut = pool.submit(validate, ctx, rrecs, "random", False, 6 if not thorough else 8)

  # ---- 3. spec -> code: the behaviours TLC reached -------------------------------------------------------
  streams = []
  for fut in gen_futs:
    (name, cfg, sim, seed), res = fut.result()
    ctx.tlc(res, ("simulation " if sim else "exhaustive generator model ") + name)
    behs = res.values("BEH")
    if not behs:
      raise T.MachineryError(f"generator configuration {name} produced no behaviour\n" + res.out[-1500:])
    seen = set()
    mine = []
    for b in behs:
      key = (b[1], b[3])
      if key in seen:
        continue
      seen.add(key)
      s = behaviour_to_stream(b, rng, len(mine))
      s["source"] = name
      mine.append(s)
    mine.sort(key=lambda x: (x["df"], x["lines"]))      # TLC prints in worker order: make the sample reproducible
    for idx, s in enumerate(mine):
      s["parity"] = (True, False, "mixed", True, True)[idx % 5]
      s["align"] = [None, "left", "center", "right", "auto"][idx % 5]
    ctx.count("behaviours:" + name, len(mine))
    # quick tier: a seeded sample of the behaviours is replayed (all of them at the thorough tier, up to 6000 per model)
    limit = 6000 if thorough else 200
    if len(mine) > limit:
      mine = mine[:20] + rng.sample(mine[20:], limit - 20)
    ctx.count("behaviours_replayed:" + name, len(mine))
    streams.extend(mine)
  ctx.notes.append("generator runs: %.1f s" % (time.time() - t0))
  trecs = record_all(streams)
  ctx.evaluations = len(recs)
  ctx.traces = len(recs)
  t1 = time.time()
  fails, skips, cov = validate(ctx, trecs, "tlc", True, 6 if not thorough else 8)
  ctx.counts["decoder_actions_fired_in_replayed_tlc_behaviours"] = {a: cov.get(a, 0) for a in DECODER_ACTIONS}
  never = [a for a in DECODER_ACTIONS if cov.get(a, 0) == 0]
  if never:
    raise T.MachineryError("decoder actions that never fired in the replayed exhaustive / simulated behaviours: " + ", ".join(never))
  f2, sk2, _ = rand_fut.result()
  fails.update(f2)
  skips.update(sk2)
  pool.shutdown()
  ctx.notes.append("trace validation after the generator runs: %.1f s" % (time.time() - t1))
  ctx.count("records_skipped_out_of_domain", len(skips))
  ctx.count("records_failing", len(fails))

  # ---- 4. diagnosis of failing records -------------------------------------------------------------
  # Every failing (frame, clause) gets a cause label, computed from facts about the INPUT (never from the verdict):
  #  * "suppressed_duplicate_clock": the failure disappears when the same words are sent at the same frames with a new
  #    SCC line after every suppressed duplicate (for the decoder: the same behaviour, NewLine at the current frame), and
  #    every paragraph time of the original run is earlier than in that run by exactly k = the number of suppressed
  #    duplicates earlier on the same SCC line;
  #  * "single_edm_one_frame_late": the failing frame directly follows an EDM that is not doubled (screen clauses), or is
  #    the second frame after it (end_frame);
  #  * "other".
  variants = []
  vmap = {}
  for rid in fails:
    s, a = aux[rid]
    if any(any(fl) for fl in suppressed_duplicates(s["lines"])):
      v = rebased(s)
      try:
        vrec, va = record(v, len(variants) + 1)
      except Exception:  # pylint: disable=broad-except
        continue
      variants.append(vrec)
      vmap[rid] = (vrec["id"], va)
  vfails, _, _ = validate(ctx, variants, "rebased") if variants else ({}, {}, {})

  for rid, fl in sorted(fails.items()):
    s, a = aux[rid]
    shift_is_k = False
    kmax = 0
    vset = None
    if rid in vmap:
      vid, va = vmap[rid]
      vset = set(vfails.get(vid, []))
      ev0, ev1 = event_times(a["pars"]), event_times(va["pars"])
      if len(ev0) == len(ev1):
        shift_is_k = True
        for p, q in zip(ev0, ev1):
          if q[0] < 0 or p[0] < 0:
            ok = q == p
            k = 0
          else:
            exp = q[0] // q[1]
            k = exp - p[0] // p[1]
            ok = q[1] == 1 and p[1] == 1 and k in dup_counts_before(s, exp)
          kmax = max(kmax, k)
          shift_is_k = shift_is_k and ok
    single_edm = single_edm_frames(s)
    reduced = depth_reduction_frames(s)
    groups = {}
    for fr, clause in fl:
      if vset is not None and (fr, clause) not in vset:
        cause = "suppressed_duplicate_clock"
      elif (clause == "end_frame" and fr - 2 in single_edm) or (clause not in TIMING_CLAUSES and fr - 1 in single_edm):
        cause = "single_edm_one_frame_late"
      elif fr in reduced and (clause.startswith("rollup_") or clause == "other_channel_ignored"):
        cause = "rollup_depth_reduced_rows_kept_until_cr"
      else:
        cause = "other"
      groups.setdefault((clause, cause), []).append(fr)
    for (clause, cause), frs in sorted(groups.items()):
      feats = {"source": s["source"], "style": s["style"], "cause": cause, "frames_failing": len(frs)}
      if cause == "suppressed_duplicate_clock":
        feats["every_time_early_by_k"] = shift_is_k
        feats["k_max"] = kmax
      ctx.violation(clause, stream_case(s, a, fl), feats,
                    f"{s['source']}/{s['style']}: clause {clause} ({cause}) at frame(s) {sorted(frs)[:5]} (first line at {s['lines'][0][0]})")
  ok_recs = [r for r in recs if r["id"] not in fails and r["id"] not in skips]
  if ok_recs:
    s, a = aux[ok_recs[0]["id"]]
    ctx.sample({"scc": a["text"], "obs": ok_recs[0]["obs"][:4], "pars": ok_recs[0]["pars"]})
  ctx.exhaustive = False   # exhaustive over the small generator models only (replay capped at 6000 behaviours per model)
  ctx.assume("CTA-608 semantics as transcribed in spec/Cea608Decoder.tla (47 CFR 15.119 wording for RU from another mode, "
             "PAC in roll-up, mid-row cell, BS, extended characters); columns are not compared (property: rows and characters)")
  ctx.assume("colour / italics / underline are compared on non-space characters only")
