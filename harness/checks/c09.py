"""C09 - the EBU STL reader reproduces every subtitle's time, text and attributes.

Design side : TLC model-checks spec/Stl.tla: the TTI accumulator (user-data / reserved / comment blocks skipped,
              extension blocks concatenated, terminal block emits or drops, cumulative sets) and the text-field pen
              machine (one action per byte class), each against its invariants and action properties, exhaustively
              over small alphabets.
Spec -> code: every TTI sequence and every text field TLC enumerated (-dump) is rendered to a real .stl file and read
              with ttconv.stl.reader.to_model.
Code -> spec: seeded random rich files x reader configurations, a time sweep (all DFC x labels at second / minute /
              hour boundaries x programme starts) and a character-set sweep (all ISO 6937 diacritic pairs).
Both families are recorded as ndjson and judged by spec/Trace_Stl.tla, which replays the blocks through the spec.
"""
from __future__ import annotations

import json
import os
import re
from concurrent.futures import ThreadPoolExecutor
from multiprocessing import Pool

from .. import tlc as T
from .. import stl_build as SB
from .. import stl_gen as G

PID = "C09"
LEVEL = "model_checking"

TTI_INV = "InputWellFormed BufOnlyInExtension BeginLeEnd TtiFoldAgrees EveryTerminalCounted SetsPartition OpenIffSetContinues"
TTI_PROP = "EmitOnlyOnTerminal NeverEmitWhileAccumulating SkippedLeaveNoTrace SetsGrowMonotonically ExtensionConcatenates"
TF_INV = "TfFoldAgrees FillerStops FirstGapNone GapIsBreakIffRowChanges RowsMonotone MarkNeedsDiacritic"
TF_PROP = ("NothingAfterFiller CellCarriesPen TeletextRowStartsDefault OpenKeepsPenAcrossRows "
           "NewBackgroundTakesForeground")

CFG_MC = """CONSTANTS
  MODE = "{mode}"
  GSI <- MCGsi
  CFG <- MCCfg
  BLOCKS <- MCBlocks
  MAXBLOCKS = {maxblocks}
  TFBYTES <- MCTfBytes
  MAXTF = {maxtf}
  TFMODES <- MCTfModes
SPECIFICATION Spec
INVARIANT {inv}
PROPERTY {prop}
"""

CFG_TRACE = """CONSTANTS
  MODE = "trace"
  GSI <- TrGsi
  CFG <- TrCfg
  BLOCKS <- TrNone
  MAXBLOCKS = 0
  TFBYTES <- TrNone
  MAXTF = 0
  TFMODES <- TrNone
INIT TInit
NEXT TNext
"""

TTI_ACTIONS = ["NUserData", "NReserved", "NComment", "NExtension", "NDropEarly", "NEmit"]
TF_ACTIONS = ["NTfCharacter", "NTfDiacritic", "NTfSpace", "NTfColour", "NTfBlackBg", "NTfNewBg", "NTfBox", "NTfHeight",
              "NTfAttr", "NTfItalic", "NTfUnderline", "NTfBoxing", "NTfReserved", "NTfNewline", "NTfFiller",
              "NTfAfterFiller"]


# ---------------------------------------------------------------------------------------------------------------
# exploration universes (spec -> code)
# ---------------------------------------------------------------------------------------------------------------

def _blk(ix, sn, ebn, cs, cf, tci, tco, tf, sgn=0, vp=20, jc=2):
  return {"ix": ix, "sgn": sgn, "sn": sn, "ebn": ebn, "cs": cs, "tci": tci, "tco": tco, "vp": vp, "jc": jc, "cf": cf, "tf": tf}


def tti_universe(name):
  """(gsi, cfg, block alphabet): abstract TTI blocks around a programme start of 00:00:01:00."""
  if name == "teletext25_tcp":
    gsi = {"dfc": "STL25.01", "dsc": "1", "cct": "00", "tcp": [0, 0, 1, 0], "mnr": 23}
    cfg = {"start": "tcp", "start_tc": [0, 0, 0, 0], "rows": "none", "rows_n": 23}
    f = 24
  else:
    gsi = {"dfc": "STL24.01", "dsc": "0", "cct": "00", "tcp": [0, 0, 0, 0], "mnr": 16}
    cfg = {"start": "tc", "start_tc": [0, 0, 1, 0], "rows": "mnr", "rows_n": 23}
    f = 23
  A = [
    _blk(1, 1, 0xFF, 0, 0, [0, 0, 1, 0], [0, 0, 2, 0], [0x41]),                       # plain subtitle at the start
    _blk(2, 2, 0x00, 0, 0, [0, 0, 1, 2], [0, 0, 2, 0], [0x42, 0x20, 0x8F, 0x58]),     # extension block ("B " + filler + junk)
    _blk(3, 3, 0xFF, 0, 0, [0, 0, 0, f], [0, 0, 2, 0], [0x45]),                       # one frame before the start
    _blk(4, 4, 0xFF, 1, 0, [0, 0, 1, 5], [0, 0, 3, 0], [0x31], vp=2),                 # cumulative: first
    _blk(5, 5, 0xFF, 2, 0, [0, 0, 1, 10], [0, 0, 3, 0], [0x32], vp=4),                # intermediate
    _blk(6, 6, 0xFF, 3, 0, [0, 0, 1, 15], [0, 0, 3, 0], [0x33], vp=6),                # last
    _blk(7, 7, 0xFF, 0, 1, [0, 0, 1, 0], [0, 0, 2, 0], [0x43]),                       # comment
    _blk(8, 8, 0x00, 0, 1, [0, 0, 1, 0], [0, 0, 2, 0], [0x63]),                       # comment, extension block
    _blk(9, 9, 0xFE, 0, 0, [0, 0, 0, 0], [0, 0, 0, 0], [0x55]),                       # user data
    _blk(10, 10, 0xF5, 0, 0, [0, 0, 0, 0], [0, 0, 0, 0], [0x52]),                     # reserved EBN
    _blk(11, 300, 0xFF, 0, 0, [0, 1, 0, 0], [0, 1, 0, 0], [0x47], sgn=1, vp=3, jc=1),  # other group, SN > 256, TCI = TCO
    _blk(12, 12, 0xFF, 2, 0, [0, 0, 1, 12], [0, 0, 3, 0], [0x34], vp=8, jc=3),        # another intermediate member
  ]
  return gsi, cfg, A


TF_BYTES_QUICK = [0x41, 0x62, 0x20, 0x01, 0x1D, 0x1C, 0x80, 0x82, 0x8A, 0x8F, 0xC8, 0x0D, 0x0B, 0x85]
TF_BYTES_THOROUGH = TF_BYTES_QUICK + [0x06, 0x81, 0x08, 0x86]
TF_MODES = [{"tt": True, "cct": "00"}, {"tt": False, "cct": "00"}, {"tt": True, "cct": "01"}]


def mc_module(gsi, cfg, blocks, tfbytes, tfmodes):
  return ("---- MODULE MC_Stl ----\nEXTENDS Stl\n"
          "MCGsi == " + T.to_tla(gsi) + "\nMCCfg == " + T.to_tla(cfg) + "\n"
          "MCBlocks == " + ("{" + ",\n  ".join(T.to_tla(b) for b in blocks) + "}") + "\n"
          "MCTfBytes == {" + ", ".join(str(b) for b in tfbytes) + "}\n"
          "MCTfModes == {" + ", ".join(T.to_tla(m) for m in tfmodes) + "}\n====\n")


_IX = re.compile(r"ix \|-> (\d+)")


def dump_conjuncts(path):
  """Yield {var: text} for every state of a TLC -dump file (values kept as text)."""
  with open(path) as fh:
    text = fh.read()
  for block in re.split(r"^State \d+:\s*$", text, flags=re.M):
    block = block.strip()
    if not block:
      continue
    d = {}
    for part in re.split(r"^/\\ ", block, flags=re.M):
      part = part.strip()
      m = re.match(r"(\w+) = ", part)
      if m:
        d[m.group(1)] = part[m.end():]
    yield d


def explore_tti(ctx, name, maxblocks):
  gsi, cfg, A = tti_universe(name)
  mc = mc_module({k: (tuple(v) if isinstance(v, list) else v) for k, v in gsi.items()},
                 {k: (tuple(v) if isinstance(v, list) else v) for k, v in cfg.items()},
                 [{k: (tuple(v) if isinstance(v, list) else v) for k, v in b.items()} for b in A],
                 TF_BYTES_QUICK, TF_MODES)
  res = T.run_tlc("MC_Stl", CFG_MC.format(mode="tti", maxblocks=maxblocks, maxtf=0, inv=TTI_INV, prop=TTI_PROP), workers=4,
                  extra_files={"MC_Stl.tla": mc}, dump="states", coverage=True, timeout=1500, name="stl_tti_" + name)
  if res.violated:
    raise T.MachineryError("Stl.tla (TTI accumulator) violates its own properties: " + str(res.violated))
  ctx.tlc(res, "TTI accumulator " + name + f" <= {maxblocks} blocks")
  for a in TTI_ACTIONS:
    if res.coverage.get(a, (0, 0))[0] == 0:
      raise T.MachineryError("vacuous exploration: action never fired: " + a)
  by_ix = {b["ix"]: b for b in A}
  seqs = []
  for st in dump_conjuncts(os.path.join(res.workdir, "states.dump")):
    seqs.append([int(x) for x in _IX.findall(st["hist"])])
  if len(seqs) != res.distinct:
    raise T.MachineryError(f"dump parse: {len(seqs)} states parsed, {res.distinct} reported")
  cases = []
  for s in seqs:
    if not s:
      continue
    blocks = [{k: v for k, v in by_ix[i].items() if k != "ix"} for i in s]
    c = dict(cfg)
    c.update(nofill=0, nopad=0, font=0)
    cases.append({"family": "tlc_tti_" + name, "gsi": dict(gsi), "cfg": c, "blocks": blocks, "via_json": False, "flags": {}})
  return cases


def explore_tf(ctx, tfbytes, maxtf):
  gsi, cfg, A = tti_universe("teletext25_tcp")
  tup = lambda d: {k: (tuple(v) if isinstance(v, list) else v) for k, v in d.items()}
  mc = mc_module(tup(gsi), tup(cfg), [tup(A[0])], tfbytes, TF_MODES)
  res = T.run_tlc("MC_Stl", CFG_MC.format(mode="tf", maxblocks=0, maxtf=maxtf, inv=TF_INV, prop=TF_PROP), workers=4,
                  extra_files={"MC_Stl.tla": mc}, dump="states", coverage=True, timeout=1500, name="stl_tf")
  if res.violated:
    raise T.MachineryError("Stl.tla (text-field pen) violates its own properties: " + str(res.violated))
  ctx.tlc(res, f"text-field pen machine, {len(tfbytes)} byte alphabet, <= {maxtf} bytes, 3 modes")
  for a in TF_ACTIONS:
    if a in ("NTfAttr", "NTfReserved") and len(tfbytes) == len(TF_BYTES_QUICK):
      continue      # no representative in the quick alphabet; exercised by the random family and the thorough tier
    if res.coverage.get(a, (0, 0))[0] == 0:
      raise T.MachineryError("vacuous exploration: action never fired: " + a)
  cases = []
  n = 0
  for st in dump_conjuncts(os.path.join(res.workdir, "states.dump")):
    n += 1
    done = [int(x) for x in re.findall(r"\d+", st["done"])]
    if not done:
      continue
    m = re.search(r"dia \|-> (\d+)", st["pen"])
    stop = "stop |-> TRUE" in st["pen"]
    if int(m.group(1)) != 0 and not stop:
      continue                                           # a diacritic still waits for its letter: not a complete field
    tt = "tt |-> TRUE" in st["tmode"]
    cct = re.search(r'cct \|-> "(\d\d)"', st["tmode"]).group(1)
    g = {"dfc": "STL25.01", "dsc": "1" if tt else "0", "cct": cct, "tcp": [0, 0, 0, 0], "mnr": 23}
    c = {"start": "none", "start_tc": [0, 0, 0, 0], "rows": "none", "rows_n": 23, "nofill": 0, "nopad": 0, "font": 0,
         "noconfig": 1}
    # a probe character after the enumerated bytes makes the final pen state observable
    blocks = [{"sgn": 0, "sn": 1, "ebn": 0xFF, "cs": 0, "tci": [0, 0, 1, 0], "tco": [0, 0, 2, 0], "vp": 10, "jc": 2, "cf": 0,
               "tf": done + [0x5A]}]
    cases.append({"family": "tlc_tf", "gsi": g, "cfg": c, "blocks": blocks, "via_json": False, "flags": {}})
  if n != res.distinct:
    raise T.MachineryError(f"dump parse: {n} states parsed, {res.distinct} reported")
  return cases


# ---------------------------------------------------------------------------------------------------------------
# features of a failing case (for selectors and summaries; never a verdict)
# ---------------------------------------------------------------------------------------------------------------

def features_of(case, clause, tag, blk):
  g = case["gsi"]
  tt = g["dsc"] in ("1", "2")
  f = {"family": case["family"], "dfc": g["dfc"], "dsc": g["dsc"], "cct": g["cct"], "tag": str(tag),
       "start": case["cfg"]["start"], "rows": case["cfg"]["rows"]}
  blocks = case["blocks"]
  if blk and 1 <= blk <= len(blocks):
    b = blocks[blk - 1]
    # the text of the subtitle: the terminal block and the extension blocks before it
    chain = [b]
    j = blk - 2
    while j >= 0 and (blocks[j]["ebn"] < 0xF0 and blocks[j]["cf"] == 0 or blocks[j]["ebn"] in range(0xF0, 0xFF)):
      if blocks[j]["ebn"] < 0xF0:
        chain.insert(0, blocks[j])
      j -= 1
    tf = []
    garbage = False
    for c in chain:
      t = list(c["tf"])
      if SB.FILLER in t:
        cut = t.index(SB.FILLER)
        garbage = garbage or any(x != SB.FILLER for x in t[cut:])
        t = t[:cut]
      tf += t
    f["gap_of_two_or_more_spacing_bytes"] = G.tf_shape(tf, tt, g["cct"])["gap_of_two_or_more_spacing_bytes"]
    prev_terminal = next((blocks[q] for q in range(blk - 2, -1, -1)
                          if blocks[q]["ebn"] == 0xFF and blocks[q]["cf"] == 0), None)
    f.update(cs=b["cs"], jc=b["jc"], vp=b["vp"], sn=b["sn"], n_blocks=len(chain), extended=len(chain) > 1,
             garbage_after_filler=garbage,
             sn_same_as_previous_subtitle=bool(prev_terminal is not None and prev_terminal["sn"] == b["sn"]),
             sn_le_256=b["sn"] <= 256)
  return f


# ---------------------------------------------------------------------------------------------------------------

def _validate(args):
  part, recs = args
  text = "\n".join(json.dumps(x, separators=(",", ":")) for x in recs) + "\n"
  res = T.run_tlc("Trace_Stl", CFG_TRACE, workers=1, env={"TRACE_FILE": "trace.ndjson"},
                  extra_files={"trace.ndjson": text}, timeout=3000, name="stl_trace%d" % part, java_opts=("-Xmx4g", "-Xss256m"))
  return recs, res


def run(ctx):
  thorough = ctx.thorough()
  ctx.rule = ("a case is one .stl file (GSI + TTI blocks) x one reader configuration; families: every TTI sequence / text "
              "field enumerated by TLC on Stl.tla, time sweep, ISO 6937 sweep, seeded random files; non-trivial = distinct "
              "(family, DFC, DSC, CCT, start, block-class sequence, set of text byte classes)")

  # ---- 1. design + spec -> code families ------------------------------------------------------------------------
  cases = []
  if ctx.replay_case is not None:
    rc = ctx.replay_case["case"]
    cases.append({"family": rc.get("family", "replay"), "gsi": rc["gsi"], "cfg": rc["cfg"], "blocks": rc["blocks"],
                  "via_json": False, "flags": {}})
    n_spec = 0
    n_random = 0
  else:
    with ThreadPoolExecutor(max_workers=3) as ex:
      futs = [ex.submit(explore_tti, ctx, "teletext25_tcp", 5 if thorough else 3),
              ex.submit(explore_tti, ctx, "open24_tc", 4 if thorough else 3),
              ex.submit(explore_tf, ctx, TF_BYTES_THOROUGH if thorough else TF_BYTES_QUICK, 4 if thorough else 3)]
      for fu in futs:
        cases += fu.result()
    n_spec = len(cases)
    ctx.count("cases_enumerated_by_tlc", n_spec)

    # ---- 2. code -> spec families -----------------------------------------------------------------------------------
    cases += G.time_sweep_cases(0, thorough)
    cases += G.charset_cases(0)
    cases += G.gsi_edge_cases(0)
    n_random = 20000 if thorough else 2000
    for _ in range(n_random):
      cases.append(G.random_case(ctx.rng, 0))
    for _ in range(n_random // 10):
      cases.append(G.random_case(ctx.rng, 0, repeat_sn=True))
    ctx.count("cases_random", n_random)
    ctx.count("cases_sn_magnitude_pairs", n_random // 10)
  for k, c in enumerate(cases):
    c["id"] = k + 1
  ctx.count("cases_total", len(cases))

  # ---- 3. run the reader -------------------------------------------------------------------------------------------
  nproc = 8 if thorough else 4
  chunks = [cases[k::nproc] for k in range(nproc)]
  with Pool(nproc) as pool:
    outs = pool.map(G.read_cases, chunks)
  recs = [None] * len(cases)
  for k, out in enumerate(outs):
    for q, r in enumerate(out):
      recs[k + q * nproc] = r
  assert all(r is not None and r["id"] == c["id"] for r, c in zip(recs, cases))
  ctx.evaluations = len(recs)
  for c, r in zip(cases, recs):
    kinds = tuple("U" if b["ebn"] == 0xFE else "R" if b["ebn"] >= 0xF0 and b["ebn"] != 0xFF else "C" if b["cf"] else
                  ("T%d" % b["cs"]) if b["ebn"] == 0xFF else "E" for b in c["blocks"])
    classes = set()
    for b in c["blocks"]:
      for x in b["tf"]:
        classes.add("c" if 0x21 <= x <= 0x7E else "s" if x == 0x20 else "n" if x == 0x8A else "f" if x == 0x8F else
                    "k%02x" % x if x < 0x20 or 0x80 <= x <= 0x85 else "d" if 0xC1 <= x <= 0xCF else "h")
    ctx.nontrivial((c["family"], c["gsi"]["dfc"], c["gsi"]["dsc"], c["gsi"]["cct"], c["cfg"]["start"], kinds,
                    tuple(sorted(classes))))

  # ---- 4. TLC judges every record ---------------------------------------------------------------------------------
  nparts = 8 if thorough else 6
  parts = [(k, recs[k::nparts]) for k in range(nparts)]
  with ThreadPoolExecutor(max_workers=nparts) as ex:
    val = list(ex.map(_validate, parts))
  by_id = {c["id"]: c for c in cases}
  rec_by_id = {r["id"]: r for r in recs}
  stat = {"subtitles": 0, "characters": 0, "text_judged": 0, "geometry_judged": 0}
  skipped = 0
  for k, (precs, res) in enumerate(val):
    done = res.values("DONE")
    if not done or done[0][1] != len(precs):
      raise T.MachineryError("trace not consumed: " + res.out[-2000:])
    ctx.tlc(res, "trace validation part %d" % k)
    ctx.traces += len(precs)
    for line in res.prints:
      if line.startswith('<<"STAT"'):
        v = [int(x) for x in re.findall(r"-?\d+", line)]
        stat["subtitles"] += 1
        stat["characters"] += v[2]
        stat["text_judged"] += v[3]
        stat["geometry_judged"] += v[4]
    skipped += len(res.values("SKIP"))
    for s in res.values("SKIP"):
      ctx.count("skipped_family_" + by_id[s[1]]["family"])
    for tup in res.values("FAIL"):
      _, cid, ksub, clause, tag = tup[:5]
      case = by_id[cid]
      rec = rec_by_id[cid]
      blk = 0
      if ksub:
        # index of the terminal block of the k-th expected subtitle is not printed: recover it for the features by
        # walking the recorded blocks in the document's order (groups by SGN in order of first appearance)
        blk = _terminal_block_of(case, ksub)
      feats = features_of(case, clause, tag, blk)
      obs_sub = rec["obs"]["subs"][ksub - 1] if ksub and ksub <= len(rec["obs"]["subs"]) else None
      ctx.violation(clause, {"id": cid, "family": case["family"], "gsi": case["gsi"], "cfg": case["cfg"],
                             "blocks": rec["blocks"], "subtitle": ksub, "terminal_block": blk, "tag": tag,
                             "observed_subtitle": obs_sub, "observed_count": len(rec["obs"]["subs"]),
                             "raised": rec["raised"],
                             "file_hex": SB.build_file(case["gsi"], case["blocks"]).hex() if len(case["blocks"]) <= 6 else ""},
                    feats, f"{case['family']} case {cid} subtitle {ksub}: {clause} ({tag}) dfc={case['gsi']['dfc']} "
                           f"dsc={case['gsi']['dsc']!r} cct={case['gsi']['cct']}")
  ctx.count("records_skipped_out_of_domain", skipped)
  for k, v in stat.items():
    ctx.count("judged_" + k, v)
  if ctx.replay_case is None and (stat["text_judged"] == 0 or stat["geometry_judged"] == 0):
    raise T.MachineryError("vacuous validation: " + json.dumps(stat))
  if skipped > len(recs) // 20:
    raise T.MachineryError(f"{skipped} of {len(recs)} records fell outside the domain: the generators drifted")
  if ctx.replay_case is None:
    ctx.sample({"case": {k: cases[n_spec][k] for k in ("family", "gsi", "cfg", "blocks")}, "record_obs": recs[n_spec]["obs"]})
  ctx.sample({"random_record": recs[-1]})
  ctx.exhaustive = False
  ctx.assume("Tech 3264 defines DFC STL25.01 and STL30.01 (25 and 30 frames/s, labels counted at that rate, no drop-frame "
             "mode); STL23.01 / STL24.01 / STL50.01 are specified as the de-facto extensions 24000/1001 (counted at 24), 24, 50")
  ctx.assume("an open (DSC 0 / blank) subtitle keeps the pen across CR/LF and its default background is transparent; a "
             "teletext row starts with white on black, single height")
  ctx.assume("whether the open-subtitling codes 80h..85h (and teletext attributes inside open subtitles) occupy a cell is "
             "not fixed by the standard: a space there is accepted and not required; runs of spaces compare as one; "
             "spaces at row ends are not compared")
  ctx.assume("single-byte upper halves: 32 ISO 6937 characters are restated in the spec; the other upper-half bytes and the "
             "upper halves of ISO 8859-5/6/7/8 are only required to yield exactly one character")
  ctx.assume("region geometry is judged for regular texts only (uniform height, CR/LF pairs in double height, none leading "
             "or trailing), VP inside the grid; bottom-anchored cumulative sets and JC of later set members are not judged")


def _terminal_block_of(case, ksub):
  """Index (1-based) of the block that emits the ksub-th subtitle in document order (SGN groups, first appearance).
  Mirrors only the *ordering* convention of the trace specification, for feature extraction."""
  g = case["gsi"]
  fps = SB.NOMINAL.get(g["dfc"], 25)
  cfg = case["cfg"]
  start = 0
  if cfg["start"] == "tcp":
    start = SB.label_to_count(g["tcp"], fps)
  elif cfg["start"] == "tc":
    start = SB.label_to_count(cfg["start_tc"], fps)
  emitted = []
  for q, b in enumerate(case["blocks"]):
    if b["ebn"] == 0xFF and b["cf"] == 0 and SB.label_to_count(b["tci"], fps) - start >= 0:
      emitted.append((b["sgn"], q + 1))
  order = []
  for sg, _ in emitted:
    if sg not in order:
      order.append(sg)
  flat = [q for sg in order for (s2, q) in emitted if s2 == sg]
  return flat[ksub - 1] if 0 < ksub <= len(flat) else 0
