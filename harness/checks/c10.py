"""C10 - the SRT reader reproduces every cue's time, lines and formatting exactly.

Design side : TLC explores the generating machine of spec/SrtReader.tla (line classes counter / timing / text / blank /
              EOF, tag tokens open / close / text) for small bounds and checks the design invariants (the reader state is
              a function of the file, per-character style = declarative enclosure, balanced tags leave an empty stack,
              cues = timing lines, frame boundaries).
Spec -> code: every terminal state of those state graphs is a file; it is rendered (angle / brace / long spellings, LF /
              CR LF, 2 / 3 digit hours, any counter), read by ttconv.srt.reader.to_model and the result is recorded.
Code -> spec: seeded random files from the cue grammar (1-3 cues, 1-5 lines, nested / adjacent / crossing / unclosed tags,
              boundary times up to 999:59:59,999), boundary-time sweeps for every frame rate, and the outputs of
              ttconv.srt.writer over random documents (round trip) are read and recorded, together with the begin / end
              attributes ttconv.imsc.writer prints in `frames` format for the document that was read.
spec/Trace_SrtReader.tla folds the file machine and the tag machine of the specification over the lexed lines of every
recorded file and compares: type and exact value of begin / end, text and line breaks, per-character styles, frames.
"""
from __future__ import annotations

import io

from .. import tlc as T
from .. import srtvtt_srt as S
from ..srtvtt_common import FPS_LIST, gen_doc, validate, apply_fragment

PID = "C10"
LEVEL = "model_checking"

CFG_MODEL = """CONSTANTS
 Alphabet <- MCAlphabet
 Timings <- MCTimings
 MaxCues = {MaxCues}
 MaxToks = {MaxToks}
 MaxLinesPerCue = {MaxLinesPerCue}
 MaxBlankRun = {MaxBlankRun}
 AllowStray = {AllowStray}
SPECIFICATION MCSpec
INVARIANT Inv_Deterministic
INVARIANT Inv_InGrammar
INVARIANT Inv_StyleIsEnclosure
INVARIANT Inv_BalancedStack
INVARIANT Inv_CuesAreTimingLines
INVARIANT Inv_FrameBoundaries
"""
CFG_TRACE = """CONSTANTS
 Alphabet = {}
 Timings = {}
 MaxCues = 0
 MaxToks = 0
 MaxLinesPerCue = 0
 MaxBlankRun = 0
 AllowStray = FALSE
INIT TInit
NEXT TNext
"""

TAG_ALPHABET = [S.t_open("b"), S.t_open("i"), S.t_open("u"), S.t_font("red"), S.t_font("", [0, 0, 255, 255]),
                S.t_close("b"), S.t_close("i"), S.t_close("u"), S.t_close("font"), S.t_txt("x")]
TIMINGS_TAGS = [(0, 0, 0, 280, 0, 0, 1, 0)]
TIMINGS_FILE = [(0, 0, 0, 280, 0, 0, 1, 0), (100, 0, 59, 999, 101, 59, 0, 40), (1, 2, 3, 560, 1, 2, 3, 570)]


def explore(name, alphabet, timings, **consts):
  mc = ("---- MODULE MC_SrtReader ----\nEXTENDS SrtReader\n"
        "MCAlphabet == {" + ", ".join(T.to_tla(t) for t in alphabet) + "}\n"
        "MCTimings == {" + ", ".join(T.to_tla(list(t)) for t in timings) + "}\n"
        "MCNext == Next /\\ (IF done' /\\ ~done THEN PrintT(\"CASE\" \\o ToString(hist')) ELSE TRUE)\n"
        "MCSpec == Init /\\ [][MCNext]_vars\n====\n")
  res = T.run_tlc("MC_SrtReader", CFG_MODEL.format(**consts), workers=4, extra_files={"MC_SrtReader.tla": mc},
                  timeout=3000, name="srt_" + name, java_opts=("-Xmx4g",))
  if res.violated:
    raise T.MachineryError(f"SrtReader.tla violates its own invariants in config {name}: {res.violated}\n" + res.out[-1500:])
  cases = []
  for line in res.prints:
    try:
      v = T.parse_tla(line)
    except Exception:  # pylint: disable=broad-except
      continue
    if isinstance(v, str) and v.startswith("CASE"):
      cases.append(tolist(T.parse_tla(v[4:])))
  return res, cases


def tolist(x):
  if isinstance(x, tuple):
    return [tolist(y) for y in x]
  if isinstance(x, dict):
    return {k: tolist(v) for k, v in x.items()}
  return x


def shape(lines):
  """Descriptive features of a file (for known-finding selectors and replay files; never a verdict)."""
  f = {"crossing": False, "unclosed": False, "nested_same_kind": False, "multi_line": False, "font": False, "tags": False}
  stack = []
  st = "counter"
  ntext = 0
  for ln in lines + [dict(S.L_BLANK)]:
    if st == "counter":
      if not ln["blank"]:
        st = "timing"
      continue
    if st == "timing":
      st = "text"
      ntext = 0
      stack = []
      continue
    if ln["blank"]:
      if stack:
        f["unclosed"] = True
      st = "counter"
      continue
    ntext += 1
    if ntext > 1:
      f["multi_line"] = True
    for tk in ln["toks"]:
      if tk["t"] == "open":
        f["tags"] = True
        if tk["k"] in stack:
          f["nested_same_kind"] = True
        if tk["k"] == "font":
          f["font"] = True
        stack.append(tk["k"])
      elif tk["t"] == "close" and tk["k"] in stack:
        if stack[-1] != tk["k"]:
          f["crossing"] = True
        idx = len(stack) - 1 - stack[::-1].index(tk["k"])
        stack.pop(idx)
  return f


def record(recs, meta, source, text, opts, fps_list, extra=None):
  lines = S.lex_srt(text)
  obs, fr, _doc = S.observe(text, opts.get("io", "raw"), fps_list)
  recs.append({"id": len(recs) + 1, "lines": lines, "obs": obs, "fr": fr})
  m = {"source": source, "text": text, "opts": opts}
  m.update(extra or {})
  meta.append(m)
  return lines


def run(ctx):
  import ttconv.srt.writer as srt_writer
  from ttconv.srt.config import SRTWriterConfiguration
  thorough = ctx.thorough()
  rng = ctx.rng
  ctx.rule = ("a case is one SRT file: every terminal state of the TLC-explored generating machine (all tag sequences up to the "
              "bound, all line-class sequences up to the bound), seeded random files from the cue grammar, boundary-time sweeps "
              "and SRT-writer outputs; distinct by file text; non-trivial = at least one cue with a tag or several lines or a "
              "non-zero millisecond field")
  recs, meta = [], []

  # 1. design exploration + replay of every terminal state --------------------------------------------------------
  maxtoks = 6 if thorough else 4
  res, cases = explore("tags", TAG_ALPHABET, TIMINGS_TAGS, MaxCues=1, MaxToks=maxtoks, MaxLinesPerCue=1,
                       MaxBlankRun=0, AllowStray="FALSE")
  ctx.tlc(res, f"exhaustive tag machine, <= {maxtoks} tokens over 10 ({len(cases)} files)")
  ctx.count("tag_sequences", len(cases))
  for hist in cases:
    if not any(ln["tm"] for ln in hist):
      continue
    ntok = sum(len(ln["toks"]) for ln in hist)
    if ntok >= 6:
      syntaxes = (rng.choice(["angle", "brace", "mixed"]),)
    elif thorough:
      syntaxes = ("angle", "brace", "mixed")
    else:
      syntaxes = (rng.choice(["angle", "mixed"]), "brace")
    for syntax in syntaxes:
      opts = {"eol": rng.choice(["\n", "\r\n"]), "syntax": syntax, "final_eol": rng.random() < 0.8, "io": rng.choice(["raw", "text"])}
      text = S.render_srt(hist, rng, opts["eol"], syntax, opts["final_eol"])
      record(recs, meta, "tags_exhaustive", text, opts, ())
  res2, cases2 = explore("stray", TAG_ALPHABET, TIMINGS_TAGS, MaxCues=1, MaxToks=3, MaxLinesPerCue=2, MaxBlankRun=1,
                         AllowStray="TRUE")
  ctx.tlc(res2, "design only: stray closing tags, 2 lines, blank runs")
  file_cfgs = [("file2", [S.t_txt("x"), S.t_open("i")], 2)] + ([("file3", [S.t_txt("x")], 3)] if thorough else [])
  for name, alphabet, maxcues in file_cfgs:
    res3, cases3 = explore(name, alphabet, TIMINGS_FILE, MaxCues=maxcues, MaxToks=2, MaxLinesPerCue=2, MaxBlankRun=2,
                           AllowStray="FALSE")
    ctx.tlc(res3, f"exhaustive line machine '{name}', <= {maxcues} cues ({len(cases3)} files)")
    ctx.count("line_sequences_" + name, len(cases3))
    for hist in cases3:
      opts = {"eol": rng.choice(["\n", "\r\n"]), "syntax": "mixed", "final_eol": rng.random() < 0.7, "io": rng.choice(["raw", "text"])}
      text = S.render_srt(hist, rng, opts["eol"], "mixed", opts["final_eol"])
      record(recs, meta, "file_exhaustive", text, opts, [rng.choice(FPS_LIST)])

  # 2. seeded random files ---------------------------------------------------------------------------------------
  for _ in range(6000 if thorough else 700):
    lines, opts = S.gen_case(rng, maxcues=3 if rng.random() < 0.97 else 40)      # now and then a file with dozens of cues
    text = S.render_srt(lines, rng, opts["eol"], opts["syntax"], opts["final_eol"])
    if lines and not lines[0]["blank"] and rng.random() < 0.1:
      text = "\ufeff" + text        # a UTF-8 signature, as many editors write it: not part of the first line (S.lex_srt)
    record(recs, meta, "random", text, opts, rng.sample(FPS_LIST, 2))

  # 3. boundary-time sweeps: every cue time is an exact frame boundary of the rate the document is written at -----
  for (n, d) in FPS_LIST:
    for _ in range(12 if thorough else 3):
      lines = []
      for c in range(40):
        if d == 1:
          k = rng.randint(0, 360000 * n) if c % 2 else rng.randint(0, 200 * n)
          # frame k is at k/n s; keep those that fall on a whole millisecond
          while (k * 1000) % n:
            k += 1
          ms = k * 1000 // n
        else:
          k = rng.randint(0, 36000) * (n // 1000)
          ms = k * 1001 * 1000 // n
        dur = 1000 * rng.randint(1, 5)
        b = (ms // 3600000, ms // 60000 % 60, ms // 1000 % 60, ms % 1000)
        e = ((ms + dur) // 3600000, (ms + dur) // 60000 % 60, (ms + dur) // 1000 % 60, (ms + dur) % 1000)
        lines += [dict(S.L_COUNTER), S.l_timing(b + e), S.l_text([S.t_txt("t%d" % c)]), dict(S.L_BLANK)]
      opts = {"eol": "\n", "syntax": "angle", "final_eol": True, "io": "raw"}
      text = S.render_srt(lines, rng, "\n", "angle", True)
      record(recs, meta, "frame_boundaries", text, opts, [(n, d)], {"fps": "%d/%d" % (n, d)})

  # 4. round trip: outputs of the SRT writer ---------------------------------------------------------------------
  nrt = 0
  for _ in range(2500 if thorough else 300):
    doc = gen_doc(rng)
    fmt = rng.random() < 0.8
    try:
      text = srt_writer.from_model(doc, SRTWriterConfiguration(text_formatting=fmt))
    except Exception:  # pylint: disable=broad-except
      ctx.count("writer_raised")     # the writer's own failures belong to C06 / C07 / C18
      continue
    if not text.strip():
      ctx.count("writer_empty_output")
      continue
    opts = {"eol": "\n", "syntax": "angle", "final_eol": True, "io": rng.choice(["raw", "text"]), "text_formatting": fmt}
    record(recs, meta, "roundtrip", text, opts, [rng.choice(FPS_LIST)])
    nrt += 1
  ctx.count("roundtrip_files", nrt)

  # 4b. long files: hundreds / thousands of cues in ONE file (far beyond any block or buffer size), CR LF line ends, read
  # without newline translation.  The file is the concatenation of small random files; what the reader returns for the whole
  # file is cut into the runs of paragraphs that belong to each part (as many as the part gives when read alone) and every
  # part is judged like a small file - a cue lost, split or shifted anywhere makes the parts after it fail.
  for _ in range(3 if thorough else 1):
    target = rng.choice([140000, 300000]) if thorough else 75000
    parts = []
    total = 0
    eol = "\r\n"
    while total < target:
      nxt = (total // 4096 + 1) * 4096
      if 60 < nxt - total < 400:
        # a two-line cue whose FIRST text line ends exactly at a 4 KiB multiple (so also at 8, 16, 64 KiB ones): the line
        # end then straddles whatever power-of-two block a reader may read the file in
        head = "%d%s00:00:01,000 --> 00:00:02,000%s" % (len(parts) + 1, eol, eol)
        fill = nxt - total - len(head) - 1 - (1 if (nxt // 4096) % 5 == 4 else 0)      # (every fifth one a character earlier)
        if fill > 0:
          text = head + "x" * fill + eol + "second line" + eol + eol
          alone, _fr, _d = S.observe(text, "raw")
          parts.append((text, len(alone["ps"])))
          total += len(text)
          continue
      lines, opts = S.gen_case(rng, maxcues=3)
      text = S.render_srt(lines, rng, eol, opts["syntax"], True)
      if not text.endswith(eol + eol):
        text += eol
      alone, _fr, _d = S.observe(text, "raw")
      if alone["raised"] or alone["none"]:
        continue
      parts.append((text, len(alone["ps"])))
      total += len(text)
    big = "".join(t for t, _ in parts)
    whole, _fr, _d = S.observe(big, "raw")
    ctx.count("long_file_characters", len(big))
    ctx.count("long_file_parts", len(parts))
    if whole["raised"] or whole["none"]:
      recs.append({"id": len(recs) + 1, "lines": S.lex_srt(parts[0][0]), "obs": whole, "fr": []})
      meta.append({"source": "long_file", "text": big[:2000] + "...", "opts": {"eol": eol, "io": "raw", "length": len(big)}})
    else:
      at = 0
      for text, n in parts:
        obs = {"raised": "", "none": 0, "ps": whole["ps"][at:at + n]}
        at += n
        recs.append({"id": len(recs) + 1, "lines": S.lex_srt(text), "obs": obs, "fr": []})
        meta.append({"source": "long_file", "text": text, "opts": {"eol": eol, "io": "raw", "part_of_file_of_length": len(big), "offset_paragraphs": at - n}})
      if at != len(whole["ps"]):
        # paragraphs beyond the last part: attribute them to the last part so that TLC rejects it
        recs[-1]["obs"]["ps"] = recs[-1]["obs"]["ps"] + whole["ps"][at:]

  # 5. TLC judges ------------------------------------------------------------------------------------------------
  ctx.evaluations = len(recs)
  fails, skips = validate(ctx, "Trace_SrtReader", CFG_TRACE, recs, "srt", nproc=4)
  skipped = {}
  for j, why in skips:
    skipped[j] = why
    ctx.count("skipped_" + meta[j]["source"] + "_" + why)
    if meta[j]["source"] != "roundtrip":
      raise T.MachineryError(f"generated file is outside the grammar of the specification ({why}): {meta[j]['text']!r}")
  for j, r in enumerate(recs):
    if j in skipped:
      continue
    ncues = sum(1 for ln in r["lines"] if ln["tm"])
    f = shape(r["lines"])
    if f["multi_line"] or f["tags"] or \
       any(ln["tm"] and (ln["tm"][3] or ln["tm"][7]) for ln in r["lines"]):
      ctx.nontrivial(meta[j]["text"])
  seen = set()
  for j, cue, clause in fails:
    m = meta[j]
    f = shape(recs[j]["lines"])
    f.update({"source": m["source"], "crlf": m["opts"]["eol"] == "\r\n", "io": m["opts"]["io"],
              "brace_syntax": "{" in m["text"], "fps": m.get("fps", "")})
    key = (j, clause)
    if key in seen:
      continue
    seen.add(key)
    p = recs[j]["obs"]["ps"][cue - 1] if 0 < cue <= len(recs[j]["obs"]["ps"]) else None
    ctx.violation(clause, {"srt_text": m["text"], "options": m["opts"], "cue": cue, "observed_paragraph": p,
                           "frames": recs[j]["fr"], "reader": {k: recs[j]["obs"][k] for k in ("raised", "none")}},
                  f, f"{m['source']} cue {cue}: {m['text'][:160]!r}")
  ctx.sample({"source": meta[0]["source"], "text": meta[0]["text"], "record": recs[0]})
  k = next((j for j, m in enumerate(meta) if m["source"] == "random"), 0)
  ctx.sample({"source": "random", "text": meta[k]["text"], "observed": recs[k]["obs"], "frames": recs[k]["fr"]})
  k = next((j for j, m in enumerate(meta) if m["source"] == "roundtrip"), 0)
  ctx.sample({"source": "roundtrip", "text": meta[k]["text"], "observed": recs[k]["obs"]})
  apply_fragment(ctx)
  ctx.exhaustive = True
  ctx.assume("the harness lexer (harness/srtvtt_srt.py: line -> blank/digits/timing/tokens) is trusted; the meaning of the lines "
             "is decided by spec/SrtReader.tla")
  ctx.assume("text characters are drawn from an alphabet without '<', '>', '&', '{', '}' (SubRip defines no escaping)")
  ctx.assume("between two frame boundaries the IMSC writer may round a time down or up (C05 owns that rule); on a boundary "
             "the frame number is determined")
