"""C11 - the WebVTT reader reproduces cues, inline markup and cue-setting geometry.

Design side : TLC explores three generating machines over spec/VttReader.tla:
                VttTextMC   cue text written fragment by fragment; the transcribed character-level tokenizer (WebVTT 6.4)
                            and tree builder must agree with the fragment-level reading on every state;
                VttFileMC   the file grammar line by line (signature, header, NOTE / STYLE / REGION blocks, identifiers,
                            timing lines with and without hours / settings, payload lines, blank runs, EOF);
                VttRegionMC all combinations of representative cue-setting values: the placement of the Recommendation
                            satisfies what the property demands of a region.
Spec -> code: every cue text / file / setting combination enumerated by TLC is written as a .vtt file and read by
              ttconv.vtt.reader.to_model.
Code -> spec: seeded random files from the file and cue-text grammars (tags nested to depth 3, classes, lang, voice, ruby,
              character references, timestamp tags, multi-line payloads, crossing / unclosed tags at a low rate, all cue
              settings) and the outputs of ttconv.vtt.writer over random documents under all 8 writer configurations.
spec/Trace_VttReader.tla folds the file machine over the lexed lines of every recorded file, runs the tokenizer and tree
builder of the specification over the characters of every cue and compares: type and exact value of begin / end, text,
per-character styles / language / ruby role / relative begin, and the region (inside the root container, writing mode,
text and display alignment, equal settings share a region).
"""
from __future__ import annotations

import itertools

from .. import tlc as T
from .. import srtvtt_vtt as V
from ..srtvtt_common import gen_doc, validate, apply_fragment

PID = "C11"
LEVEL = "model_checking"


def tolist(x):
  if isinstance(x, tuple):
    return [tolist(y) for y in x]
  if isinstance(x, dict):
    return {k: tolist(v) for k, v in x.items()}
  return x


def cases_of(res):
  out = []
  for line in res.prints:
    try:
      v = T.parse_tla(line)
    except Exception:  # pylint: disable=broad-except
      continue
    if isinstance(v, str) and v.startswith("CASE"):
      out.append(tolist(T.parse_tla(v[4:])))
  return out


# ---------------------------------------------------------------------------------------------------------------
# fragments of cue text for VttTextMC
# ---------------------------------------------------------------------------------------------------------------

def frag(f, src, name="", cls=(), ann="", data="", t=-1):
  return {"f": f, "name": V.cps(name), "cls": [V.cps(c) for c in cls], "ann": V.cps(ann), "src": V.cps(src),
          "data": V.cps(data), "t": t}


FRAGS_NESTED = [
  frag("open", "<b>", "b"), frag("close", "</b>", "b"), frag("open", "<i>", "i"), frag("close", "</i>", "i"),
  frag("open", "<u>", "u"), frag("close", "</u>", "u"),
  frag("open", "<c.red>", "c", ["red"]), frag("open", "<c.bg_blue.lime>", "c", ["bg_blue", "lime"]), frag("close", "</c>", "c"),
  frag("open", "<lang en>", "lang", (), "en"), frag("close", "</lang>", "lang"),
  frag("open", "<v Bob>", "v", (), "Bob"), frag("close", "</v>", "v"),
  frag("open", "<ruby>", "ruby"), frag("open", "<rt>", "rt"), frag("close", "</rt>", "rt"), frag("close", "</ruby>", "ruby"),
  frag("text", "x", data="x"), frag("text", "&amp;y & z", data="&y & z"), frag("text", "p\nq", data="p\nq"),
  frag("ts", "<00:11.000>", t=1000), frag("ts", "<00:00:12.500>", t=2500),
]
FRAGS_CROSSING = [
  frag("open", "<b>", "b"), frag("close", "</b>", "b"), frag("open", "<i>", "i"), frag("close", "</i>", "i"),
  frag("open", "<c.red>", "c", ["red"]), frag("close", "</c>", "c"), frag("text", "x", data="x"),
  frag("ts", "<00:11.000>", t=1000),
]

CFG_TEXT = """CONSTANTS
 Frags <- MCFrags
 MaxFrags = {MaxFrags}
 WellNested = {WellNested}
SPECIFICATION MCSpec
INVARIANT Inv_TokenizerAgrees
INVARIANT Inv_AllTextKept
INVARIANT Inv_BalancedStack
INVARIANT Inv_RoleConsistent
"""


def explore_text(name, frags, maxfrags, wellnested):
  mc = ("---- MODULE MC_VttTextMC ----\nEXTENDS VttTextMC\nMCFrags == " + T.to_tla(frags) + "\n"
        "MCNext == Next /\\ (IF done' /\\ ~done THEN PrintT(\"CASE\" \\o ToString(hist')) ELSE TRUE)\n"
        "MCSpec == Init /\\ [][MCNext]_vars\n====\n")
  res = T.run_tlc("MC_VttTextMC", CFG_TEXT.format(MaxFrags=maxfrags, WellNested="TRUE" if wellnested else "FALSE"), workers=4,
                  extra_files={"MC_VttTextMC.tla": mc}, timeout=3000, name="vtt_" + name, java_opts=("-Xmx4g",))
  if res.violated:
    raise T.MachineryError(f"VttTextMC violates its own invariants ({name}): {res.violated}\n" + res.out[-2500:])
  return res, cases_of(res)


# ---------------------------------------------------------------------------------------------------------------
# line classes for VttFileMC
# ---------------------------------------------------------------------------------------------------------------

def L(text):
  return V.lex_line(text)


def LT(tm, settings=()):
  return {"blank": 0, "sig": 0, "arrow": 1, "kw": "", "tm": list(tm), "set": list(settings), "cps": []}


FILE_LINES = {
  "SigLines": [L("WEBVTT"), L("WEBVTT - a title")],
  "HeaderLines": [L("Kind: captions")],
  "NoteLines": [L("NOTE a comment"), L("more of it"), L("STYLE"), L("REGION")],
  "IdLines": [L("7"), L("cue - id"), L("NOTE-2")],
  "TimingLines": [LT((0, 0, 1, 280, 0, 0, 2, 0)), LT((1, 0, 0, 0, 100, 59, 59, 999), [V.st("line", "int", 0), V.st("align", "kw", 0, "left")])],
  "PayloadLines": [L("x"), L("<i>y</i> &amp;")],
}
CFG_FILE = """CONSTANTS
 SigLines <- MCSigLines
 HeaderLines <- MCHeaderLines
 NoteLines <- MCNoteLines
 IdLines <- MCIdLines
 TimingLines <- MCTimingLines
 PayloadLines <- MCPayloadLines
 MaxCues = {MaxCues}
 MaxPayload = 2
 MaxBlankRun = {MaxBlankRun}
 MaxOther = {MaxOther}
SPECIFICATION MCSpec
INVARIANT Inv_Deterministic
INVARIANT Inv_InGrammar
INVARIANT Inv_CuesAreTimingLines
"""


def explore_file(name, maxcues, maxother, maxblank, sizes):
  """sizes: how many entries of each line-class list are used (the state graph grows with the square of the per-cue choices)."""
  lines = {k: v[:sizes.get(k, len(v))] for k, v in FILE_LINES.items()}
  defs = "".join(f"MC{k} == {T.to_tla(v)}\n" for k, v in lines.items())
  mc = ("---- MODULE MC_VttFileMC ----\nEXTENDS VttFileMC\n" + defs +
        "MCNext == Next /\\ (IF done' /\\ ~done THEN PrintT(\"CASE\" \\o ToString(hist')) ELSE TRUE)\n"
        "MCSpec == Init /\\ [][MCNext]_vars\n====\n")
  res = T.run_tlc("MC_VttFileMC", CFG_FILE.format(MaxCues=maxcues, MaxOther=maxother, MaxBlankRun=maxblank), workers=4,
                  extra_files={"MC_VttFileMC.tla": mc}, timeout=3000, name="vtt_file_" + name, java_opts=("-Xmx4g",))
  if res.violated:
    raise T.MachineryError(f"VttFileMC violates its own invariants ({name}): {res.violated}\n" + res.out[-2500:])
  return res, cases_of(res)


CFG_REGION = """CONSTANTS
 Lines <- MCLines
 Positions <- MCPositions
 Sizes <- MCSizes
 Verticals <- MCVerticals
 Aligns <- MCAligns
 RowCounts <- MCRows
SPECIFICATION MCSpec
INVARIANT Inv_ReferenceSatisfiesProperty
INVARIANT Inv_ReferenceInside
INVARIANT Inv_SizeBounds
"""


def explore_region(thorough):
  lines, positions, sizes, verticals, aligns = V.settings_space(thorough)
  sets = {"Lines": lines, "Positions": positions, "Sizes": sizes, "Verticals": verticals, "Aligns": aligns}
  defs = "".join("MC%s == {%s}\n" % (k, ", ".join(T.to_tla(x) for x in v)) for k, v in sets.items())
  mc = ("---- MODULE MC_VttRegionMC ----\nEXTENDS VttRegionMC\n" + defs + "MCRows == {1, 15, 23}\n"
        "MCNext == Next /\\ (IF done' /\\ ~done THEN PrintT(\"CASE\" \\o ToString(set')) ELSE TRUE)\n"
        "MCSpec == Init /\\ [][MCNext]_vars\n====\n")
  res = T.run_tlc("MC_VttRegionMC", CFG_REGION, workers=4, extra_files={"MC_VttRegionMC.tla": mc}, timeout=3000,
                  name="vtt_region", java_opts=("-Xmx4g",))
  if res.violated:
    raise T.MachineryError(f"VttRegionMC violates its own invariants: {res.violated}\n" + res.out[-2500:])
  return res, cases_of(res)


CFG_TRACE = """INIT TInit
NEXT TNext
"""


# ---------------------------------------------------------------------------------------------------------------

def text_features(text):
  import re
  body = text
  f = {"bare_amp": bool(re.search(r"&(?![a-zA-Z]+;|#[0-9]+;|#[xX][0-9a-fA-F]+;)", body)),
       "entity": bool(re.search(r"&(?:[a-zA-Z]+|#[0-9]+|#[xX][0-9a-fA-F]+);", body)),
       "named_entity_lrm_rlm": "&lrm;" in body or "&rlm;" in body,
       "timestamp_tag": bool(re.search(r"<\d", body)), "ruby": "<ruby" in body, "lang": "<lang" in body,
       "voice": "<v" in body, "classes": "<c." in body, "crlf": "\r\n" in body}
  return f


def ruby_inside_tag(text):
  """True iff some cue of the file opens <ruby> while another tag is open (descriptive feature only)."""
  import re
  stack = []
  for ln in text.replace("\r", "").split("\n"):
    if ln == "" or "-->" in ln:
      stack = []
      continue
    for m in re.finditer(r"<(/?)([A-Za-z]+)[^>]*>", ln):
      name = m.group(2).lower()
      if m.group(1):
        if stack and stack[-1] == name:
          stack.pop()
        elif name == "ruby" and stack[-2:] == ["ruby", "rt"]:
          del stack[-2:]
      else:
        if name == "ruby" and stack:
          return True
        if name != "rt" or (stack and stack[-1] == "ruby"):
          stack.append(name)
  return False


def settings_features(lines):
  f = {"vertical": "", "line_kind": "", "line_al": "", "line_num_le0": False, "position": False, "size": False, "align": ""}
  for ln in lines:
    for s in ln["set"]:
      if s["name"] == "vertical":
        f["vertical"] = s["kw"]
      elif s["name"] == "line":
        f["line_kind"] = s["kind"]
        f["line_al"] = s["al"]
        if s["kind"] == "int" and s["num"] <= 0:
          f["line_num_le0"] = True
      elif s["name"] == "position":
        f["position"] = True
      elif s["name"] == "size":
        f["size"] = True
      elif s["name"] == "align":
        f["align"] = s["kw"]
  return f


def record(recs, meta, source, text, opts, extra=None):
  lines = V.lex_vtt(text)
  obs, _doc = V.observe(text, opts.get("io", "raw"))
  recs.append({"id": len(recs) + 1, "lines": lines, "obs": obs})
  m = {"source": source, "text": text, "opts": opts}
  m.update(extra or {})
  meta.append(m)


def run(ctx):
  import ttconv.vtt.writer as vtt_writer
  from ttconv.vtt.config import VTTWriterConfiguration
  thorough = ctx.thorough()
  rng = ctx.rng
  ctx.rule = ("a case is one WebVTT file: every cue text / file / cue-setting combination enumerated by TLC from the generating "
              "machines, seeded random files from the file and cue-text grammars, and VTT-writer outputs under the 8 writer "
              "configurations; distinct by file text; non-trivial = a cue with markup, a character reference, settings or "
              "several lines")
  recs, meta = [], []
  plain = {"eol": "\n", "io": "raw"}

  # 1. cue text machine ------------------------------------------------------------------------------------------
  for name, frags, n, wn in (("nested", FRAGS_NESTED, 4 if thorough else 3, True), ("crossing", FRAGS_CROSSING, 5 if thorough else 4, False)):
    res, cases = explore_text(name, frags, n, wn)
    ctx.tlc(res, f"cue text machine '{name}': <= {n} fragments over {len(frags)} ({len(cases)} cue texts)")
    ctx.count("cue_texts_" + name, len(cases))
    for hist in cases:
      body = "".join("".join(chr(c) for c in frags[k - 1]["src"]) for k in hist)
      if not body.strip() or any(not ln.strip() for ln in body.split("\n")):
        continue
      eol = rng.choice(["\n", "\n", "\r\n"])
      text = eol.join(["WEBVTT", "", "00:10.000 --> 00:20.000"] + body.split("\n")) + eol
      record(recs, meta, "text_exhaustive_" + name, text, {"eol": eol, "io": rng.choice(["raw", "text"])})

  # 2. file machine ----------------------------------------------------------------------------------------------
  file_cfgs = [("one_cue", 1, 2 if thorough else 1, 2, {} if thorough else {"SigLines": 1, "IdLines": 1}),
               ("two_cues", 2, 1, 2 if thorough else 1,
                {"SigLines": 1, "IdLines": 1, "PayloadLines": 1} if thorough else {"SigLines": 1, "IdLines": 1, "NoteLines": 2, "PayloadLines": 1})]
  for name, mc_, mo, mb, sizes in file_cfgs:
    res, cases = explore_file(name, mc_, mo, mb, sizes)
    ctx.tlc(res, f"file machine '{name}' ({len(cases)} files)")
    ctx.count("files_exhaustive_" + name, len(cases))
    for hist in cases:
      out = []
      for ln in hist:
        out.append(V.render_timing(ln["tm"], ln["set"], rng) if ln["tm"] else "".join(chr(c) for c in ln["cps"]))
      eol = rng.choice(["\n", "\n", "\r\n"])
      text = eol.join(out) + (eol if rng.random() < 0.7 else "")
      record(recs, meta, "file_exhaustive", text, {"eol": eol, "io": rng.choice(["raw", "text"])})

  # 3. cue settings ----------------------------------------------------------------------------------------------
  res, cases = explore_region(thorough)
  ctx.tlc(res, f"cue setting combinations ({len(cases)})")
  ctx.count("setting_combinations", len(cases))
  for settings in cases:
    order = list(settings)
    if rng.random() < 0.5:
      rng.shuffle(order)
    tl = V.render_timing((0, 0, 1, 0, 0, 0, 2, 0), order, rng)
    out = ["WEBVTT", "", tl, "a"]
    if rng.random() < 0.3:       # a second cue with the same settings must share the region, a third one without settings
      out += ["", V.render_timing((0, 0, 3, 0, 0, 0, 4, 0), order, rng), "b", "", "00:05.000 --> 00:06.000", "c"]
    text = "\n".join(out) + "\n"
    record(recs, meta, "settings_exhaustive", text, plain)

  # 4. seeded random files ---------------------------------------------------------------------------------------
  for _ in range(8000 if thorough else 900):
    text, opts, feat = V.gen_file(rng, maxcues=3 if rng.random() < 0.97 else 40)      # now and then a file with dozens of cues
    record(recs, meta, "random", text, opts, {"feat": feat})

  # 5. round trip: outputs of the VTT writer under every configuration ------------------------------------------
  configs = list(itertools.product([False, True], repeat=3))
  nrt = 0
  for k in range(2400 if thorough else 320):
    doc = gen_doc(rng)
    lp, ta, cid = configs[k % 8]
    try:
      text = vtt_writer.from_model(doc, VTTWriterConfiguration(line_position=lp, text_align=ta, cue_id=cid))
    except Exception:  # pylint: disable=broad-except
      ctx.count("writer_raised")       # the writer's own failures belong to C06 / C07 / C18
      continue
    record(recs, meta, "roundtrip", text, {"eol": "\n", "io": rng.choice(["raw", "text"]),
                                           "writer_config": {"line_position": lp, "text_align": ta, "cue_id": cid}})
    nrt += 1
  ctx.count("roundtrip_files", nrt)

  # 6. TLC judges ------------------------------------------------------------------------------------------------
  ctx.evaluations = len(recs)
  fails, skips = validate(ctx, "Trace_VttReader", CFG_TRACE, recs, "vtt", nproc=4)
  skipped = set()
  for j, why in skips:
    skipped.add(j)
    ctx.count("skipped_" + meta[j]["source"] + "_" + why)
    if meta[j]["source"] != "roundtrip":
      raise T.MachineryError(f"generated file is outside the grammar of the specification ({why}): {meta[j]['text']!r}")
  for j, r in enumerate(recs):
    if j in skipped:
      continue
    t = meta[j]["text"]
    if "<" in t or "&" in t or any(ln["set"] for ln in r["lines"]) or t.count("\n") > 5:
      ctx.nontrivial(t)
  seen = set()
  for j, cue, clause in fails:
    if (j, clause) in seen:
      continue
    seen.add((j, clause))
    m = meta[j]
    f = {"source": m["source"], "io": m["opts"]["io"]}
    f.update(text_features(m["text"]))
    f["ruby_inside_tag"] = ruby_inside_tag(m["text"])
    f.update(settings_features(recs[j]["lines"]))
    if "feat" in m:
      f["empty_cue"] = m["feat"]["empty_cue"]
    ps = recs[j]["obs"]["ps"]
    p = ps[cue - 1] if 0 < cue <= len(ps) else None
    reg = recs[j]["obs"]["regs"][p["reg"] - 1] if p and p["reg"] else None
    ctx.violation(clause, {"vtt_text": m["text"], "options": m["opts"], "cue": cue,
                           "observed_paragraph": ({k: v for k, v in p.items() if k != "items"} if p else None),
                           "observed_text": ("".join(chr(i["c"]) for i in p["items"]) if p else None),
                           "observed_region": reg, "reader": {k: recs[j]["obs"][k] for k in ("raised", "none")}},
                  f, f"{m['source']} cue {cue}: {m['text'][:200]!r}")
  ctx.sample({"source": meta[0]["source"], "text": meta[0]["text"], "observed": recs[0]["obs"]})
  for src in ("settings_exhaustive", "random", "roundtrip"):
    k = next((j for j, m in enumerate(meta) if m["source"] == src), 0)
    ctx.sample({"source": src, "text": meta[k]["text"], "observed_regions": recs[k]["obs"]["regs"],
                "observed_first_paragraph": {a: b for a, b in (recs[k]["obs"]["ps"][0].items() if recs[k]["obs"]["ps"] else []) if a != "items"}})
  apply_fragment(ctx)
  ctx.exhaustive = True
  ctx.assume("the harness lexer (harness/srtvtt_vtt.py: line -> blank/signature/arrow/keyword/timing/settings/characters) is "
             "trusted; file structure, tokenizer, tree builder and geometry are decided by spec/VttReader.tla")
  ctx.assume("character references are limited to &amp; &lt; &gt; &nbsp; &lrm; &rlm;, numeric references and '&' not followed "
             "by a reference; class colours to the eight default WebVTT classes on <c>")
  ctx.assume("for line NUMBERS the region is only required to lie inside the root container; for vertical:rl with a percentage "
             "line either block edge is accepted as anchor (the Recommendation measures percentages from the left)")
