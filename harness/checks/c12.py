"""C12 - time-code arithmetic is exact, monotone and invertible.

Design side : TLC model-checks the SMPTE odometer of spec/Timecode.tla (Tick) exhaustively for each rate and
              ties the closed forms ToFrames/FromFrames to it; spec/MsSweep.tla shows every admissible
              millisecond quantiser is monotone.
Code -> spec: ttconv.time_code is driven over windows (quick) or every frame count of 24 h (thorough); the
              recorded labels/frames/prints/parses/offsets are replayed by spec/Trace_Timecode.tla, which walks the
              odometer with one Tick per recorded frame and compares every observation with the odometer state.
"""
from __future__ import annotations

import json
import os
import re
from concurrent.futures import ThreadPoolExecutor
from fractions import Fraction
from multiprocessing import Pool

from .. import tlc as T

PID = "C12"
LEVEL = "model_checking"

# (name, NUM, DEN, FPS, DROP)
RATES = [
  ("24", 24, 1, 24, 0),
  ("25", 25, 1, 25, 0),
  ("30", 30, 1, 30, 0),
  ("50", 50, 1, 50, 0),
  ("60", 60, 1, 60, 0),
  ("30000/1001", 30000, 1001, 30, 2),
  ("60000/1001", 60000, 1001, 60, 4),
  # SMPTE 12M defines no drop-frame counting for 23.976: specified as non-drop counting at 24; reported separately
  ("24000/1001", 24000, 1001, 24, 0),
]

_STR_RE = re.compile(r"^(\d\d):(\d\d):(\d\d)([:;])(\d\d)$")


def _pack(fields):
  if all(isinstance(x, int) and 0 <= x < 100 for x in fields):
    h, m, s, f = fields
    return ((h * 100 + m) * 100 + s) * 100 + f
  return None


def _fields(tc):
  return (tc.get_hours(), tc.get_minutes(), tc.get_seconds(), tc.get_frames())


def gen_chunk(args):
  """Drive the implementation over frames n0..n0+length-1 at one rate; return trace records (one window in five in the
  caller's alternative process context, core.AltContext)."""
  from ..core import AltContext, alt_for
  with AltContext(1 if alt_for(("chunk",) + tuple(args)) else 0):
    return _gen_chunk(args)


def _gen_chunk(args):
  num, den, n0, length = args
  from ttconv.time_code import SmpteTimeCode
  rate = Fraction(num, den)
  rec = {"kind": "lab", "n0": n0, "lab": [], "tf": [], "pa": [], "sep": [], "fs": [], "fm": [], "ff": [], "fb": [],
         "af": [], "ow": [], "on": [], "od": [], "wo": []}
  bad = []
  walk = SmpteTimeCode.from_frames(n0, rate)

  def pk(tc, what, n):
    p = _pack(_fields(tc))
    if p is None:
      bad.append({"kind": "bad", "n0": n, "what": what, "fields": [int(x) if isinstance(x, int) else str(x) for x in _fields(tc)]})
      return 0
    return p

  for n in range(n0, n0 + length):
    # (the count is an integer, given as int or - one time in seven - as the Fraction that offset * rate yields)
    tc = SmpteTimeCode.from_frames(Fraction(n) if n % 7 == 3 else n, rate)
    rec["lab"].append(pk(tc, "from_frames", n))
    tf = tc.to_frames()
    rec["tf"].append(int(tf) if tf == int(tf) else -1)
    try:
      st = str(tc)
    except Exception:  # pylint: disable=broad-except
      st = ""                       # cannot be printed: recorded as a malformed label (sep = 2)
    mm = _STR_RE.match(st)
    if mm is None:
      rec["sep"].append(2)
      rec["pa"].append(0)
    else:
      rec["sep"].append(1 if mm.group(4) == ";" else 0)
      try:
        parsed = SmpteTimeCode.parse(st, rate)
        ok = parsed.get_frame_rate() == rate
        rec["pa"].append(pk(parsed, "parse", n) if ok else 1)
      except ValueError:
        rec["pa"].append(2)
    boundary = Fraction(n * den, num)
    rec["fs"].append(pk(SmpteTimeCode.from_seconds(boundary, rate), "from_seconds", n))
    mid = Fraction((2 * n + 1) * den, 2 * num)
    rec["fm"].append(pk(SmpteTimeCode.from_seconds(mid, rate), "from_seconds_mid", n))
    rec["ff"].append(pk(SmpteTimeCode.from_seconds(float(mid), rate), "from_seconds_float", n))
    # the boundary itself given as a float, when a float holds it exactly (-1: it does not)
    fbv = float(boundary)
    rec["fb"].append(pk(SmpteTimeCode.from_seconds(fbv, rate), "from_seconds_float_boundary", n) if Fraction(fbv) == boundary else -1)
    before = walk.to_temporal_offset()           # the offset is read, the SAME object advanced, the offset read again
    walk.add_frames(1)
    rec["af"].append(pk(walk, "add_frames", n))
    after = walk.to_temporal_offset()
    rec["wo"].append(1 if (before == Fraction(n * den, num) and after == Fraction((n + 1) * den, num)) else 0)
    off = tc.to_temporal_offset()
    ow = off.numerator // off.denominator
    fr = off - ow
    rec["ow"].append(ow)
    rec["on"].append(fr.numerator)
    rec["od"].append(fr.denominator)
  return [rec] + bad


def gen_written(seed, count, thorough):
  """begin/end values as the IMSC writer prints them in the frame syntaxes (imsc.attributes.to_time_format), for times that
  lie exactly on a frame boundary.  The SAME time is formatted under several writing contexts one after the other (as a
  process that writes several documents does): whole seconds are boundaries at every integer rate, multiples of 1001 s at
  every rate.  -> {rate name: [records {"kind": "wf", n0 (frame count), fr (count printed in the f syntax, -1 if the string
  is not <digits>f), res (packed label printed in the hh:mm:ss:ff syntax, -1 if malformed), sep}]}"""
  import random
  from ttconv.imsc.attributes import TemporalAttributeWritingContext, to_time_format
  from ttconv.imsc.config import TimeExpressionSyntaxEnum as TE
  rng = random.Random(seed)
  out = {r[0]: [] for r in RATES}
  ctxs = {(r[0], syn): TemporalAttributeWritingContext(frame_rate=Fraction(r[1], r[2]), time_expression_syntax=syn)
          for r in RATES for syn in (TE.frames, TE.clock_time_with_frames)}
  times = []
  for _ in range(count):
    kind = rng.random()
    if kind < 0.4:
      times.append(Fraction(1001 * rng.randrange(0, 86)))               # a boundary at all eight rates
    elif kind < 0.8:
      times.append(Fraction(rng.randrange(0, 86400)))                   # a boundary at the integer rates
    else:
      r = rng.choice(RATES)
      times.append(Fraction(rng.randrange(0, 2000000) * r[2], r[1]))    # a boundary at one rate (and maybe others)
  for t in times:
    for syn in (TE.frames, TE.clock_time_with_frames):
      order = list(RATES)
      rng.shuffle(order)
      for name, num, den, fps, drop in order:
        n = t * Fraction(num, den)
        if n.denominator != 1:
          continue
        st = to_time_format(ctxs[(name, syn)], t)
        rec = {"kind": "wf", "n0": int(n), "fr": -2, "res": -2, "sep": -2}
        if syn is TE.frames:
          rec["fr"] = int(st[:-1]) if re.fullmatch(r"[0-9]+f", st) else -1
        else:
          mm = _STR_RE.match(st)
          pk_ = _pack([int(mm.group(1)), int(mm.group(2)), int(mm.group(3)), int(mm.group(5))]) if mm else None
          rec["res"] = -1 if pk_ is None else pk_
          rec["sep"] = (1 if mm.group(4) == ";" else 0) if mm else 2
        out[name].append(rec)
  return out


def gen_adds(args):
  num, den, seed, count, maxn = args
  import random
  from ttconv.time_code import SmpteTimeCode
  rng = random.Random(seed)
  rate = Fraction(num, den)
  out = []
  fpsn = -(-num // den)                     # nominal frames per second
  for _ in range(count):
    n0 = rng.randrange(0, maxn - 200000)
    d = rng.choice([0, 1, 2, rng.randrange(1, 200), rng.randrange(1, 200000)])     # 0 additions = no change
    if rng.random() < 0.4:
      # start within a second before a whole minute (by frame count at the exact rate), step of up to two seconds: the
      # additions that cross a minute label, with and without dropped labels
      minute = rng.randrange(1, 24 * 60) * 60
      n0 = max(0, minute * num // den + 5 - rng.randrange(0, fpsn + 8))
      d = rng.randrange(0, 2 * fpsn + 2)
    tc = SmpteTimeCode.from_frames(n0, rate)
    tc.add_frames(d)
    p = _pack(_fields(tc))
    if p is None:
      out.append({"kind": "bad", "n0": n0, "what": "add_frames_n"})
    else:
      out.append({"kind": "add", "n0": n0, "d": d, "res": p})
  # every (start in the last second before a minute, step of up to two seconds) pair, for three minutes: one whose successor
  # is a multiple of ten (no labels dropped) and two whose successor is not
  for minute in (10 * rng.randrange(1, 140), 10 * rng.randrange(0, 140) + rng.randrange(1, 10), 10 * rng.randrange(0, 140) + rng.randrange(1, 10)):
    first = SmpteTimeCode.parse("%02d:%02d:59%s00" % (minute // 60 % 24, minute % 60, ";" if SmpteTimeCode.from_frames(0, rate).is_drop_frame() else ":"), rate).to_frames()
    for off in range(0, fpsn):
      for d in range(0, 2 * fpsn + 1):
        tc = SmpteTimeCode.from_frames(first + off, rate)
        tc.add_frames(d)
        p = _pack(_fields(tc))
        out.append({"kind": "add", "n0": first + off, "d": d, "res": p} if p is not None else {"kind": "bad", "n0": first + off, "what": "add_frames_n"})
  return out


def windows(fps, drop, tier, rng, maxn):
  """Frame-count windows (n0, length) to drive at the quick tier."""
  w = []
  per_min = fps * 60
  # the first eleven minutes in full: every kind of minute boundary incl. the tenth
  w.append((0, per_min * 11 + 20))
  # around every label-minute boundary of 24 h
  from_label = lambda h, m: ((h * 60 + m) * 60) * fps - drop * ((h * 60 + m) - (h * 60 + m) // 10)
  for h in range(24):
    for m in range(60):
      n = from_label(h, m)
      a = max(0, n - 8)
      w.append((a, 20))
  for _ in range(12):
    w.append((rng.randrange(0, maxn - 400), 300))
  w.append((maxn - 300, 300))
  # labels are plain counters: across the 24 h mark and well beyond it (up to 99 h)
  w.append((maxn - 40, 120))
  w.append((2 * maxn - 40, 120))
  w.append((rng.randrange(maxn, 4 * maxn - 400), 200))
  w.append((4 * maxn + from_label(3, 9) - 20, 60))
  # merge overlapping
  w.sort()
  merged = []
  for a, l in w:
    if merged and a <= merged[-1][0] + merged[-1][1]:
      pa, pl = merged[-1]
      merged[-1] = (pa, max(pl, a + l - pa))
    else:
      merged.append((a, l))
  return merged


def ms_records(rng, tier):
  """ClockTime.from_seconds observations."""
  from ttconv.time_code import ClockTime
  recs = []
  rid = [0]

  from ..core import AltContext, alt_for

  def obs(x):
    # (one conversion in five in the caller's alternative process context - see core.AltContext: among other things the
    # thread's decimal context is not the default one)
    with AltContext(1 if alt_for(("ms", repr(x))) else 0):
      ct = ClockTime.from_seconds(x)
    h, m, s, ms = ct.get_hours(), ct.get_minutes(), ct.get_seconds(), ct.get_milliseconds()
    try:
      rt = 1 if ClockTime.parse(str(ct)) == ct else 0
    except ValueError:
      rt = 0
    return h, m, s, ms, rt

  def add(x, exact_fraction):
    rid[0] += 1
    fx = Fraction(x)
    W = fx.numerator // fx.denominator
    fr = fx - W
    h, m, s, ms, rt = obs(x)
    r = {"kind": "ms", "id": rid[0], "W": W, "h": int(h), "m": int(m), "s": int(s), "msf": int(ms), "rt": rt,
         "src": repr(x)}
    if exact_fraction and fr.denominator <= 1000000:
      r.update(exact=1, p=fr.numerator, q=fr.denominator, lo=0, hi=0)
    else:
      us = fr * 1000000
      lo = us.numerator // us.denominator
      hi = lo if us.denominator == 1 else lo + 1
      r.update(exact=0, p=0, q=1, lo=lo, hi=hi)
    recs.append(r)
    return ((int(h) * 60 + int(m)) * 60 + int(s)) * 1000 + int(ms)

  seconds = [0, 1, 59, 60, 3599, 3600, 86399, 359999]
  # dense half-millisecond grid (contains every tie) on a few seconds, as exact rationals, with monotonicity
  grid_secs = seconds if tier == "thorough" else [0, 59, 3599, 359999]
  for W in grid_secs:
    prev = None
    for p in range(0, 2001):
      x = Fraction(W) + Fraction(p, 2000)
      Tm = add(x, True)
      if prev is not None:
        recs.append({"kind": "mono", "id": rid[0], "T1": prev, "T2": Tm})
      prev = Tm
  # random rationals with denominators up to 10^6, sorted for monotonicity
  npts = 20000 if tier == "thorough" else 3000
  pts = sorted(Fraction(rng.randrange(0, 360000)) + Fraction(rng.randrange(0, q), q)
               for q in [rng.choice([3, 7, 1001, 30000, 60000, 90000, 999983, 1000000]) for _ in range(npts)])
  prev = None
  for x in pts:
    Tm = add(x, True)
    if prev is not None:
      recs.append({"kind": "mono", "id": rid[0], "T1": prev, "T2": Tm})
    prev = Tm
  # floats: dyadic (exactly representable) and decimal literals (bracketed by microseconds)
  fl = sorted(set([rng.randrange(0, 360000) + rng.randrange(0, 1 << 19) / float(1 << 19) for _ in range(npts)] +
                  [round(rng.uniform(0, 360000), rng.choice([3, 4, 5, 6])) for _ in range(npts)] +
                  [W + k / 2000.0 for W in (0, 59, 3599) for k in range(0, 2000, 7)]))
  prev = None
  for x in fl:
    Tm = add(x, Fraction(x).denominator <= 1000000)
    if prev is not None:
      recs.append({"kind": "mono", "id": rid[0], "T1": prev, "T2": Tm})
    prev = Tm
  return recs


CFG_ODO = """CONSTANTS
  NUM = {num}
  DEN = {den}
  FPS = {fps}
  DROP = {drop}
  HOURS = {hours}
  STARTS = {starts}
SPECIFICATION Spec
INVARIANT FieldsInRange
INVARIANT NeverDropped
INVARIANT ToFramesAgrees
INVARIANT FromFramesAgrees
INVARIANT OffsetExact
PROPERTY StrictlyIncreasing
"""

CFG_TRACE = """CONSTANTS
  NUM = {num}
  DEN = {den}
  FPS = {fps}
  DROP = {drop}
  HOURS = 100
  STARTS = {{0}}
INIT TInit
NEXT TNext
INVARIANT TraceFieldsInRange
INVARIANT TraceToFrames
"""

CFG_MS = """CONSTANTS
  Q = {q}
  TMAX = {tmax}
SPECIFICATION Spec
INVARIANT ErrorAtMostHalf
INVARIANT HasCandidate
PROPERTY Monotone
"""


def run(ctx):
  thorough = ctx.thorough()
  hours = 24 if thorough else 2
  starts = "{" + ", ".join(str(x) for x in range(hours)) + "}" if thorough else "{0, 1}"
  ctx.rule = ("frame counts driven through from_frames/to_frames/str/parse/from_seconds/add_frames/to_temporal_offset; "
              "a case is one (rate, frame count); non-trivial = within 8 labels of a minute boundary (carry/drop logic) "
              "or a clock-time input not on a millisecond multiple")

  # ---- 1. design: exhaustive odometer per rate, MsSweep ---------------------------------------
  def odo(r):
    name, num, den, fps, drop = r
    return r, T.run_tlc("Timecode", CFG_ODO.format(num=num, den=den, fps=fps, drop=drop, hours=hours, starts=starts),
                        workers=4 if thorough else 2, timeout=3000, name="odo", allow_errors=True)

  with ThreadPoolExecutor(max_workers=4 if thorough else 8) as ex:
    odo_results = list(ex.map(odo, RATES))
  for r, res in odo_results:
    if res.errors or not res.completed or res.timed_out:
      raise T.MachineryError("odometer model failed for " + r[0] + "\n" + res.out[-2000:])
    ctx.tlc(res, "odometer " + r[0] + f" {hours}h")
    if res.violated:
      # the design itself is inconsistent: that is a machinery (spec) problem, not an implementation verdict
      raise T.MachineryError("odometer spec violates its own properties for " + r[0] + ": " + str(res.violated))
  res = T.run_tlc("MsSweep", CFG_MS.format(q=4000, tmax=3 * 4000 if not thorough else 20 * 4000), workers=4, timeout=900,
                  name="mssweep")
  if res.violated:
    raise T.MachineryError("MsSweep violates its own properties: " + str(res.violated))
  ctx.tlc(res, "ms quantiser sweep")

  # ---- 1b. unbounded: Apalache discharges the inductive invariant of the drop-frame odometer (any n, not only 24 h) ----
  import shutil
  import subprocess
  import tempfile
  if shutil.which("apalache-mc"):
    for cinit in ("CInit30", "CInit60"):
      with tempfile.TemporaryDirectory(dir=T.scratch_root()) as d:
        shutil.copy(os.path.join(T.SPEC_DIR, "TimecodeInd.tla"), d)
        outs = []
        for args in (["--init=Init", "--length=0"], ["--init=IndInit", "--length=1"]):
          try:
            p = subprocess.run(["apalache-mc", "check", "--cinit=" + cinit, "--inv=IndInv", "--next=Next", "--out-dir=" + d + "/out"]
                               + args + ["TimecodeInd.tla"], cwd=d, stdout=subprocess.PIPE, stderr=subprocess.STDOUT, text=True,
                               timeout=300)
            outs.append("NoError" if "The outcome is: NoError" in p.stdout else "Error" if "The outcome is: Error" in p.stdout else "unknown")
          except subprocess.TimeoutExpired:
            outs.append("timeout")
        ctx.count(f"apalache_inductive_invariant_{cinit}(base,step)=" + ",".join(outs))
        if "Error" in outs:
          raise T.MachineryError("TimecodeInd: the odometer invariant is not inductive according to Apalache: " + str(outs))

  # ---- 2. implementation traces ------------------------------------------------------------------
  jobs = []
  for name, num, den, fps, drop in RATES:
    maxn = 24 * 3600 * fps - drop * (24 * 60 - 24 * 6)
    if thorough:
      step = 20000
      wins = [(a, min(step, maxn - a)) for a in range(0, maxn, step)] + [(maxn, 200), (2 * maxn - 40, 120), (4 * maxn - 100, 300)]
    else:
      wins = windows(fps, drop, ctx.tier, ctx.rng, maxn)
      if den != 1:
        # boundaries that a float holds exactly (the frame count is a multiple of the odd part of the rate's numerator)
        odd = num
        while odd % 2 == 0:
          odd //= 2
        wins = wins + [(odd * ctx.rng.randrange(1, maxn // odd) - 1, 3) for _ in range(160)]
    for a, l in wins:
      # split long windows so they parallelise; chunks of one window stay contiguous records
      jobs.append((name, (num, den, a, l)))
  with Pool(16) as pool:
    chunk_out = pool.map(gen_chunk, [j[1] for j in jobs], chunksize=1)
    add_out = pool.map(gen_adds, [(num, den, ctx.seed * 1000 + i, 1200 if not thorough else 6000,
                                   24 * 3600 * fps - drop * (24 * 60 - 24 * 6))
                                  for i, (name, num, den, fps, drop) in enumerate(RATES)])
  per_rate = {r[0]: [] for r in RATES}
  for (name, _), recs in zip(jobs, chunk_out):
    per_rate[name].extend(recs)
  for r, recs in zip(RATES, add_out):
    per_rate[r[0]].extend(recs)
  # frame-syntax begin/end values written under interleaved contexts of different rates
  for name, recs in gen_written(ctx.seed, 4000 if thorough else 400, thorough).items():
    per_rate[name].extend(recs)
    ctx.counts["written_frame_syntax_values"] = ctx.counts.get("written_frame_syntax_values", 0) + len(recs)
  # the millisecond quantiser does not depend on the rate: validated with the first rate's run
  per_rate[RATES[0][0]].extend(ms_records(ctx.rng, ctx.tier))

  if os.environ.get("VERIF_CORRUPT"):
    # self-test of the binding: corrupt ONE recorded field; the run must end in a violation
    per_rate["25"][0]["lab"][5] += 1
  frames_total = 0
  for name, num, den, fps, drop in RATES:
    for rec in per_rate[name]:
      if rec["kind"] == "lab":
        frames_total += len(rec["lab"])
        if den != 1:
          ctx.counts["float_exact_boundaries_fractional_rates"] = ctx.counts.get("float_exact_boundaries_fractional_rates", 0) + sum(1 for v in rec["fb"] if v != -1)
        for kk in range(len(rec["lab"])):
          n = rec["n0"] + kk
          # near a label-minute boundary?
          lab = rec["lab"][kk]
          ss, ff = (lab // 100) % 100, lab % 100
          if (ss == 0 and ff < 8) or (ss == 59 and ff >= fps - 8):
            ctx.nontrivial((name, n))
      elif rec["kind"] == "ms" and not (rec["exact"] == 1 and (rec["p"] * 1000) % rec["q"] == 0):
        ctx.nontrivial(("ms", rec["src"]))
  ctx.evaluations = frames_total + sum(1 for v in per_rate.values() for r in v if r["kind"] != "lab")

  # ---- 3. TLC validates every recorded observation against the odometer --------------------------
  def validate(r):
    name, num, den, fps, drop = r
    recs = per_rate[name]
    text = "\n".join(json.dumps(x, separators=(",", ":")) for x in recs) + "\n"
    res = T.run_tlc("Trace_Timecode", CFG_TRACE.format(num=num, den=den, fps=fps, drop=drop), workers=1,
                    env={"TRACE_FILE": "trace.ndjson"}, extra_files={"trace.ndjson": text}, timeout=6000,
                    name="trace", java_opts=("-Xmx6g",))
    return r, recs, res

  with ThreadPoolExecutor(max_workers=8) as ex:
    val = list(ex.map(validate, RATES))
  for (name, num, den, fps, drop), recs, res in val:
    done = res.values("DONE")
    if not done or done[0][1] != len(recs):
      raise T.MachineryError(f"trace for rate {name} not consumed: {res.out[-1500:]}")
    ctx.tlc(res, "trace validation rate " + name)
    ctx.traces += sum(1 for x in recs if x["kind"] == "lab")
    if res.violated:
      ctx.violation("odometer_invariant_on_trace", {"rate": name, "violated": res.violated},
                    {"rate": name}, "odometer invariant violated while walking the trace")
    fails = res.values("FAIL")
    # group: (clause) -> first few
    by = {}
    for _, ri, x, clause in fails:
      by.setdefault(clause, []).append((ri, x))
    for clause, items in by.items():
      ri, x = items[0]
      rec = recs[ri - 1]
      case = {"rate": name, "first_frame_or_id": x, "count": len(items),
              "examples": [e[1] for e in items[:10]]}
      if rec["kind"] == "ms":
        case["input"] = rec["src"]
        case["observed"] = [rec["h"], rec["m"], rec["s"], rec["msf"]]
      elif rec["kind"] == "lab":
        kk = x - rec["n0"]
        if 0 <= kk < len(rec["lab"]):
          case["observed"] = {k: rec[k][kk] for k in ("lab", "tf", "pa", "sep", "fs", "fm", "ff", "fb", "af", "ow", "on", "od")}
      else:
        case["record"] = rec
      ctx.violation(clause, case, {"rate": name, "count": len(items), "first": x},
                    f"rate {name}: {len(items)} case(s), first at {x}")
    if name == RATES[0][0]:
      ctx.sample({"rate": name, "record": {k: (v[:4] if isinstance(v, list) else v) for k, v in recs[0].items()}})
  ctx.sample({"ms_record": next(r for r in per_rate[RATES[0][0]] if r["kind"] == "ms")})
  ctx.exhaustive = thorough
  ctx.assume("TLC integers are 32 bit: offsets are compared as whole seconds + remainder/NUM, labels packed HHMMSSFF")
  ctx.assume("24000/1001 is specified as non-drop counting at 24 (SMPTE 12M defines no drop-frame mode for it)")
