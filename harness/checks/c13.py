"""C13 - every snapshot satisfies the documented ISD shape.

The shape rules (doc/isd.md, model content model) are the operator C13At of spec/Trace_Ttml.tla, evaluated by TLC on every
node of every recorded snapshot: no timing, no animation steps, no region references, owned by the snapshot, at most one body
per region, content model, only applicable styles and all of them (none on br/text), every length root-relative (rh/rw),
origin = position, no display:none, no empty text, no childless span, document parameters copied, empty regions only when the
background is shown always.  Documents: TLC's exhaustive families and seeded random documents decorated with every style
property in every unit on every element kind, initial values, cell/pixel resolutions, xml:space variations.
"""
from . import c01

PID = "C13"
LEVEL = "model_checking"


def run(ctx):
  from . import c13w
  if ctx.replay_case and str(ctx.replay_case.get("clause", "")).startswith("lwsp_"):
    return c13w.run(ctx)
  c01.run(ctx, family="c13", detail=True, decorate_docs=True, space=True)
  if ctx.replay_case:
    return None
  # the white-space clause: character-level machine spec/Lwsp.tla (stand-alone id C13W)
  if not ctx.thorough():
    ctx.lwsp_maxlen = 4          # the stand-alone quick tier explores length 5; here the shape sweep shares the time budget
  c13w.run(ctx)
  ctx.rule = ("(a) a case is one snapshot (document, time); every node of it is judged by the shape invariant; (b) a case is one "
              "line-building unit (paragraph / rt / rp text) judged by the white-space machine; non-trivial = the snapshot has at "
              "least one region / the unit contains white space or a br")
  ctx.exhaustive = False
  return None
