"""C13 (white-space clause) - "white space has been collapsed or preserved according to xml:space" in every snapshot.

Design side : spec/Lwsp.tla, a character-level state machine (Char, Br, SpanOpen, SpanClose, End) over the flattened
              inline content of one paragraph; TLC explores every item sequence of length <= 6 (quick: 5) over
              {a, space, newline} x {default, preserve} + {br, span-open, span-close} and checks the design invariants
              (no double default space, no default space at a line edge, nothing but white space dropped, preserve-mode
              text verbatim, interior runs leave exactly one space, ...).
Spec -> code: every one of those item sequences (the same family, counted against TLC's initial states) is built into a
              one-paragraph document (body > div > p > spans/text/br; text split over text nodes and spans, spans nested
              with different xml:space), ISD.from_model(doc, 0) is run, and the paragraph found in the snapshot is
              projected to code points.
Code -> spec: seeded random longer paragraphs (tabs, CR LF, several br, nested spans, empty text nodes, ruby containers
              whose rt / rp texts are line-building units of their own).
spec/Trace_Lwsp.tla re-runs the machine on every recorded unit and judges it; units outside Lwsp!InDomain (a default-mode
white-space character directly adjacent to a preserve-mode one: the standards are silent) are skipped and counted.
"""
from __future__ import annotations

import json
import multiprocessing
import os
import re
import sys
from concurrent.futures import ThreadPoolExecutor

from .. import core
from .. import tlc as T

PID = "C13"
LEVEL = "model_checking"

STANDALONE_ID = "C13W"      # ./check C13W: evidence and replay files go to C13W.*, never over C13's
FRAGMENT = os.path.join(core.VERIF, "findings_C13W.json")

P21 = 2097152                # preserve-mode characters are recorded as P21 + code point
BR, SO, SC = -1, -2, -3
D, P = "default", "preserve"
# the alphabet of the small model, in the integer encoding of Trace_Lwsp.tla
ALPHABET = [97, P21 + 97, 32, P21 + 32, 10, P21 + 10, BR, SO, SC]
CHARS = "{97, 32, 10}"

CFG_DESIGN = """SPECIFICATION Spec
CONSTANT MaxLen = %d
CONSTANT Chars = """ + CHARS + """
INVARIANT TypeOK
INVARIANT NoDoubleDefaultSpace
INVARIANT DefaultWsIsSpace
INVARIANT NoEdgeDefaultSpace
INVARIANT SolidKept
INVARIANT PreserveVerbatim
INVARIANT StateMeaning
INVARIANT SeparationKept
INVARIANT DomainIsDynamic
INVARIANT FoldIsMachine
"""
CFG_TRACE = """INIT TInit
NEXT TNext
CONSTANT MaxLen = 0
CONSTANT Chars = {}
"""

STYLES = ("merged", "split", "wrapped")


# ----------------------------------------------------------------------------------------------------
# abstract documents
# ----------------------------------------------------------------------------------------------------

class Builder:
  """Accumulates the node table of an abstract document (harness/isdu.build_doc)."""

  def __init__(self):
    self.kind, self.parent, self.space, self.text = [], [], [], []

  def add(self, kind, parent, space="", text=None):
    self.kind.append(kind)
    self.parent.append(parent)
    self.space.append(space)
    self.text.append(text)
    return len(self.kind)

  def ad(self):
    n = len(self.kind)
    return {"n": n, "kind": self.kind, "parent": self.parent, "b": [-1] * n, "e": [-1] * n, "reg": [0] * n,
            "disp": [""] * n, "anim": [[] for _ in range(n)], "txt": [1] * n, "nr": 0, "rb": [], "re": [], "rdisp": [],
            "ranim": [], "rbg": [], "space": self.space, "text": self.text}


def is_char(x):
  return x >= 0


def mode_of(x):
  return P if x >= P21 else D


def cp_of(x):
  return x - P21 if x >= P21 else x


def doc_from_items(items, style, flip, pspace):
  """One-paragraph document whose paragraph flattens to `items` (up to additional span boundaries).

  style: merged  - consecutive characters of one mode share a text node
         split   - every character is a text node of its own (adjacent text nodes)
         wrapped - every character sits in a span of its own
  A character is placed directly in the explicit span that encloses it when that span has the character's mode, in an
  anonymous span carrying the mode otherwise (text cannot be a child of p).  flip = 1 gives every explicit span the mode
  opposite to that of the next character (nested spans with different xml:space).  A span-close without an open span
  ends the current anonymous span; spans left open are closed by the paragraph's end.
  """
  b = Builder()
  body = b.add("body", 0)
  div = b.add("div", body)
  p = b.add("p", div, pspace)
  stack = [(p, None)]
  last_child = {}
  wrapper = None          # (index, mode) of the anonymous span that may still take characters
  textnode = None         # index of the text node that may still take characters (style merged)

  def add(kind, parent, space="", text=None):
    k = b.add(kind, parent, space, text)
    last_child[parent] = k
    return k

  for pos, x in enumerate(items):
    top, tmode = stack[-1]
    if is_char(x):
      m = mode_of(x)
      ch = chr(cp_of(x))
      if style == "wrapped":
        w = add("span", top, m)
        add("text", w, "", ch)
        continue
      if tmode == m:
        container = top
      elif wrapper is not None and wrapper[1] == m and last_child.get(top) == wrapper[0]:
        container = wrapper[0]
      else:
        container = add("span", top, m)
        wrapper = (container, m)
      if style == "merged" and textnode is not None and last_child.get(container) == textnode \
          and b.parent[textnode - 1] == container:
        b.text[textnode - 1] += ch
      else:
        textnode = add("text", container, "", ch)
    elif x == BR:
      add("br", top)
      wrapper = textnode = None
    elif x == SO:
      nxt = next((mode_of(y) for y in items[pos + 1:] if is_char(y)), D)
      m = nxt if not flip else (P if nxt == D else D)
      s = add("span", top, m)
      stack.append((s, m))
      wrapper = textnode = None
    else:
      if len(stack) > 1:
        stack.pop()
      wrapper = textnode = None
  return b.ad(), p


def nth_items(k):
  """k-th item sequence (0-based) of the family: all sequences over ALPHABET, ordered by length."""
  n = 0
  size = 1
  while k >= size:
    k -= size
    n += 1
    size *= len(ALPHABET)
  digits = []
  for _ in range(n):
    digits.append(ALPHABET[k % len(ALPHABET)])
    k //= len(ALPHABET)
  return digits[::-1]


def family_size(maxlen):
  return sum(len(ALPHABET) ** n for n in range(maxlen + 1))


def variant_of(k, shift=0):
  v = (k + shift) % 6
  return STYLES[v % 3], v // 3, (D, P, "")[(k // 6 + shift) % 3]


# ----------------------------------------------------------------------------------------------------
# random paragraphs
# ----------------------------------------------------------------------------------------------------

SOLID = "abcdé字\u00a0\u3000\u2003"      # incl. NO-BREAK SPACE, IDEOGRAPHIC SPACE, EM SPACE: not XML white space, never collapsed
WSCH = [" ", " ", " ", "\t", "\n", "\r", "\r\n"]


# a few fixed LONG literals (64 characters and more, beginning / ending with white space or not): the same long text turns up
# again and again, in one paragraph and in others handled by the same process, each time in a different context
LONG_LITERALS = [" and the band played on and on and on until the last light went out " + "x" * 10,
                 "\n      every good boy deserves favour, every good boy deserves favour\n    ",
                 "no leading space here but more than sixty-four characters in this one too, ", "\tTAB first then sixty-odd characters "
                 "of perfectly ordinary running text."]


def rand_text(rng, mix, mode, budget):
  """Random literal text; in `tidy` mixes preserve-mode text does not begin or end with white space (stays in the domain)."""
  if budget[0] > 150 and not (mix == "tidy" and mode == P):
    r = rng.random()
    if r < 0.25:
      s = rng.choice(LONG_LITERALS)
      budget[0] -= len(s)
      return s
    if r < 0.4:
      # one very long run of collapsible white space (deep indentation after a line break), between solid characters
      s = rng.choice(["", "a"]) + rng.choice(["\n", " ", "\r\n"]) + rng.choice([" ", "\t"]) * rng.randint(33, 90) + rng.choice(["", "b"])
      budget[0] -= len(s)
      return s
  n = rng.randint(0, 6) if rng.random() < 0.9 else 0
  out = []
  for _ in range(min(n, max(budget[0], 0))):
    out.append(rng.choice(SOLID) if rng.random() < 0.5 else rng.choice(WSCH))
  s = "".join(out)
  if mix == "tidy" and mode == P:
    s = "x" + s + "y"
  budget[0] -= len(s)
  return s


def rand_space(rng, mix):
  if mix == "default":
    return rng.choice([D, D, ""])
  if mix == "preserve":
    return P
  return rng.choice([D, D, P, ""])


def rand_span(rng, b, parent, mix, depth, budget, solid=False):
  sp = rand_space(rng, mix)
  s = b.add("span", parent, sp)
  mode = P if sp == P else D
  n = rng.randint(0, 4) if not solid else rng.randint(1, 3)
  placed = False
  for _ in range(n):
    r = rng.random()
    if r < 0.65 or solid:
      t = rand_text(rng, mix, mode, budget)
      if solid and not placed:
        t = t[:len(t) // 2] + rng.choice(SOLID) + t[len(t) // 2:]
        placed = True
      b.add("text", s, "", t)
    elif r < 0.77:
      b.add("br", s)
    elif depth < 3:
      rand_span(rng, b, s, mix, depth + 1, budget)
  return s


def rand_ruby(rng, b, parent, mix, budget):
  ruby = b.add("ruby", parent, rand_space(rng, mix))
  form = rng.choice(["rb_rt", "rb_rp_rt_rp", "rbc_rtc", "rbc_rtc_rtc"])

  def rt(par):
    k = b.add("rt", par, rand_space(rng, mix))
    if rng.random() < 0.01:
      # an annotation of collapsible white space only: it vanishes and the ruby pattern breaks (known finding)
      b.add("text", b.add("span", k, D), "", rng.choice([" ", "\n ", "\t"]))
      return
    for _ in range(rng.randint(1, 2)):
      rand_span(rng, b, k, mix, 2, budget, solid=True)

  def rp(par, ch):
    k = b.add("rp", par, rand_space(rng, mix))
    s = b.add("span", k, rand_space(rng, mix))
    if rng.random() < 0.01:
      ch = ""
      b.space[s - 1] = D
    b.add("text", s, "", rng.choice([" ", "  "] if not ch else ["", " ", "  "]) + ch + rng.choice(["", " ", "\n"]))

  def rb(par):
    k = b.add("rb", par, rand_space(rng, mix))
    for _ in range(rng.randint(1, 2)):
      rand_span(rng, b, k, mix, 2, budget, solid=True)      # never all white space: the rb keeps the ruby pattern whole

  if form == "rb_rt":
    rb(ruby)
    rt(ruby)
  elif form == "rb_rp_rt_rp":
    rb(ruby)
    rp(ruby, "(")
    rt(ruby)
    rp(ruby, ")")
  else:
    rbc = b.add("rbc", ruby, rand_space(rng, mix))
    for _ in range(rng.randint(1, 2)):
      rb(rbc)
    for _ in range(2 if form == "rbc_rtc_rtc" else 1):
      rtc = b.add("rtc", ruby, rand_space(rng, mix))
      with_rp = rng.random() < 0.4
      if with_rp:
        rp(rtc, "(")
      for _ in range(rng.randint(1, 2)):
        rt(rtc)
      if with_rp:
        rp(rtc, ")")


def rand_doc(rng):
  b = Builder()
  body = b.add("body", 0)
  div = b.add("div", body)
  mix = rng.choice(["default", "default", "preserve", "tidy", "tidy", "tidy", "wild", "wild"])
  p = b.add("p", div, rand_space(rng, mix))
  budget = [rng.randint(4, 60) if rng.random() < 0.95 else rng.randint(300, 500)]
  for _ in range(rng.randint(1, 7)):
    r = rng.random()
    if r < 0.62:
      rand_span(rng, b, p, mix, 1, budget)
    elif r < 0.80:
      b.add("br", p)
    else:
      rand_ruby(rng, b, p, mix, budget)
  return b.ad(), p, mix


# ----------------------------------------------------------------------------------------------------
# running the code and projecting
# ----------------------------------------------------------------------------------------------------

def flatten_source(e, out):
  """Items of a unit in the source document."""
  import ttconv.model as m
  for c in e:
    if isinstance(c, m.Text):
      off = P21 if e.get_space() is m.WhiteSpaceHandling.PRESERVE else 0
      out.extend(ord(ch) + off for ch in c.get_text())
    elif isinstance(c, m.Br):
      out.append(BR)
    elif isinstance(c, (m.Rt, m.Rtc, m.Rp)):
      continue
    else:
      out.append(SO)
      flatten_source(c, out)
      out.append(SC)
  return out


def flatten_snapshot(e, out, counts):
  """Code points / br markers of a unit in the snapshot; counts = [empty text nodes, childless spans]."""
  import ttconv.model as m
  for c in e:
    if isinstance(c, m.Text):
      if not c.get_text():
        counts[0] += 1
      out.extend(ord(ch) for ch in c.get_text())
    elif isinstance(c, m.Br):
      out.append(BR)
    elif isinstance(c, (m.Rt, m.Rtc, m.Rp)):
      continue
    else:
      if isinstance(c, m.Span) and not c.has_children():
        counts[1] += 1
      flatten_snapshot(c, out, counts)
  return out


def observe(ad, p_index):
  """Build the document, take the snapshot at t = 0, return one observation per unit (p, every rt, every rp)."""
  import ttconv.model as m
  from ttconv.isd import ISD
  from .. import isdu
  doc, elems, _ = isdu.build_doc(ad)
  units = [("p", p_index)]
  for k, kind in enumerate(ad["kind"]):
    if kind in ("rt", "rp"):
      units.append((kind, k + 1))
  sources = [flatten_source(elems[k - 1], []) for _, k in units]
  try:
    isd = ISD.from_model(doc, 0)
  except Exception as ex:  # pylint: disable=broad-except
    # one record per document (the paragraph); which annotation units hold nothing but collapsible white space
    blank = [u for (u, _), src in zip(units[1:], sources[1:]) if src and not any(x == BR or (is_char(x) and (
      mode_of(x) == P or cp_of(x) not in (32, 9, 13, 10))) for x in src)]
    return [{"unit": "p", "k": p_index, "items": sources[0], "out": [], "etext": 0, "espan": 0, "err": 1,
             "error": "%s: %s" % (type(ex).__name__, str(ex)[:100]), "blank_annotations": sorted(set(blank))}]
  byid = {}
  if isd is not None:
    for region in isd.iter_regions():
      for e in region.dfs_iterator():
        if not isinstance(e, m.Text) and e.get_id():
          byid[e.get_id()] = e
  obs = []
  for (u, k), src in zip(units, sources):
    e = byid.get("e%d" % k)
    counts = [0, 0]
    out = flatten_snapshot(e, [], counts) if e is not None else []
    obs.append({"unit": u, "k": k, "items": src, "out": out, "etext": counts[0], "espan": counts[1], "err": 0})
  return obs


def _enum_chunk(args):
  """Worker: the item sequences lo..hi-1 of the family, one document each."""
  lo, hi, maxlen, shift = args
  from .. import core
  core.use_repo_sources()
  res = []
  for k in range(lo, hi):
    items = nth_items(k)
    style, flip, pspace = variant_of(k, shift)
    ad, p = doc_from_items(items, style, flip, pspace)
    o = observe(ad, p)[0]
    # the document really is the intended input: same characters, modes and line breaks in the same order
    if [x for x in o["items"] if x not in (SO, SC)] != [x for x in items if x not in (SO, SC)]:
      return {"bad": k}
    o["src"] = ["enum", k, shift]
    res.append(o)
  return {"obs": res}


def _rand_chunk(args):
  from .. import core
  core.use_repo_sources()
  res = []
  for n, ad, p, mix in args:
    for o in observe(ad, p):
      o["src"] = ["random", n, mix]
      res.append(o)
  return {"obs": res}


def to_record(o, rid):
  return {"id": rid, "items": o["items"], "out": o["out"], "etext": o["etext"], "espan": o["espan"], "err": o["err"]}


def features(o):
  its = o["items"]
  chars = [x for x in its if is_char(x)]
  ws = [x for x in chars if cp_of(x) in (32, 9, 13, 10)]
  return {"unit": o["unit"], "source": o["src"][0],
          "has_default": any(mode_of(x) == D for x in chars), "has_preserve": any(mode_of(x) == P for x in chars),
          "has_br": BR in its, "has_ws": bool(ws), "has_tab_cr": any(cp_of(x) in (9, 13) for x in ws),
          "all_ws": bool(chars) and len(ws) == len(chars), "n_items": len(its),
          "snapshot_has_unit": bool(o["out"]) or o["err"] == 1}


def show(seq):
  names = {BR: "<br>", SO: "<s>", SC: "</s>"}
  out = []
  for x in seq:
    if x in names:
      out.append(names[x])
    else:
      c = chr(cp_of(x))
      c = {" ": "_", "\n": "\\n", "\t": "\\t", "\r": "\\r"}.get(c, c)
      out.append(c.upper() if x >= P21 and c.isalpha() else ("^" + c if x >= P21 else c))
  return "".join(out)


def run_trace(part, name):
  """One TLC process judging one list of observations with Trace_Lwsp.tla."""
  text = "\n".join(json.dumps(to_record(o, j + 1), separators=(",", ":")) for j, o in enumerate(part)) + "\n"
  res = T.run_tlc("Trace_Lwsp", CFG_TRACE, workers=1, env={"TRACE_FILE": "trace.ndjson"},
                  extra_files={"trace.ndjson": text}, timeout=3000, name="trace13w_" + name, java_opts=("-Xmx6g",))
  done = res.values("DONE")
  if not done or done[0][1] != len(part):
    raise T.MachineryError("trace not consumed: " + res.out[-1500:])
  return res


def report(ctx, res, part, label):
  """Turn the FAIL lines of one trace run into violations; returns the number of skipped (out-of-domain) units."""
  ctx.tlc(res, "trace validation %s (%d units)" % (label, len(part)))
  for _, ri, detail, clause in res.values("FAIL"):
    o = part[ri - 1]
    f = features(o)
    case = {"unit": o["unit"], "unit_node": o["k"], "items": o["items"], "out": o["out"], "source": o["src"],
            "etext": o["etext"], "espan": o["espan"], "detail": detail, "error": o.get("error", "")}
    if o["src"][0] == "enum":
      style, flip, pspace = variant_of(o["src"][1], o["src"][2])
      ad, p = doc_from_items(nth_items(o["src"][1]), style, flip, pspace)
      case["doc"], case["p"] = ad, p
      f["style"] = style
    else:
      case["doc"], case["p"] = o.get("ad"), o.get("p")
      f["mix"] = o["src"][2]
    if o["err"]:
      f["error"] = o.get("error", "")[:80]
      f["blank_rt"] = "rt" in o.get("blank_annotations", [])
      f["blank_rp"] = "rp" in o.get("blank_annotations", [])
    ctx.violation(clause, case, f, "%s %s: source %s -> snapshot %s (detail %s) %s" % (
      o["unit"], o["src"][0], show(o["items"]), show(o["out"]), detail, o.get("error", "")))
  ctx.traces += len(part)
  return sum(v[1] for v in res.values("SKIPPED"))


def _dispatch(job):
  return job[0](job[1])


def apply_fragment(ctx):
  """Known findings of this clause are honoured from the fragment (merged into known_findings.json or not)."""
  if not os.path.exists(FRAGMENT):
    return
  with open(FRAGMENT) as fh:
    entries = json.load(fh).get("findings", [])
  keep, hits = [], {}
  for v in ctx.violations:
    v2 = dict(v)
    v2["pid"] = PID
    hit = next((e for e in entries if core._match(e, v2)), None)  # pylint: disable=protected-access
    if hit is None:
      keep.append(v)
    else:
      hits.setdefault(hit["id"], [hit, 0])[1] += 1
  for fid, (e, n) in hits.items():
    print(f"KNOWN-FINDING: property={PID} {e['id']}: {e['what']} ({n} case(s) this run)")
    ctx.count("known_finding_" + fid, n)
  ctx.violations = keep


def replay(ctx, rp):
  case = rp["case"]
  obs = [o for o in observe(case["doc"], case["p"]) if o["k"] == case["unit_node"]]
  for o in obs:
    o["src"] = case["source"]
    o["ad"], o["p"] = case["doc"], case["p"]
  ctx.nontrivial("replay")
  report(ctx, run_trace(obs, "replay"), obs, "replay")
  ctx.evaluations += len(obs)


def run(ctx):
  ctx.rule = ("a case is one line-building unit (a paragraph, or the text of one rt / rp) of one document, snapshot at t = 0; "
              "all item sequences of bounded length over {a, space, newline} x {default, preserve} + {br, span-open, "
              "span-close} arranged into text nodes and (nested) spans, and seeded random longer paragraphs; non-trivial = "
              "the unit contains white space or a br; distinct by its item sequence")
  if len(sys.argv) > 1 and sys.argv[1].upper() == STANDALONE_ID:
    ctx.pid = STANDALONE_ID
  if ctx.replay_case:
    replay(ctx, ctx.replay_case)
    return apply_fragment(ctx)
  thorough = ctx.thorough()
  maxlen = getattr(ctx, "lwsp_maxlen", None) or (6 if thorough else 5)
  procs = 4

  # 1. the design, exhaustively on the small model (runs while the implementation is driven)
  tlc_pool = ThreadPoolExecutor(max_workers=4)
  design = tlc_pool.submit(T.run_tlc, "Lwsp", CFG_DESIGN % maxlen, workers=4 if thorough else 2, timeout=1700,
                           name="lwsp_design", coverage=thorough)

  # 2. spec -> code: every item sequence of the family; 3. code -> spec: random longer paragraphs.
  # One process pool drives the implementation; a part is handed to a TLC trace run as soon as it is complete.
  total = family_size(maxlen)
  shifts = (0, 4) if thorough else (0,)
  step = 2000
  part_size = 110000 if thorough else 17000
  nrand = 40000 if thorough else 2500
  docs = []
  for n in range(nrand):
    ad, p, mix = rand_doc(ctx.rng)
    docs.append((n, ad, p, mix))
  jobs = [(_enum_chunk, (lo, min(lo + step, total), maxlen, shift)) for shift in shifts for lo in range(0, total, step)]
  jobs += [(_rand_chunk, docs[j:j + 250]) for j in range(0, len(docs), 250)]
  pending, traces = [], []
  tally = {"enum": 0, "random": 0, "skipped_enum": 0, "skipped_random": 0, "longest": 0, "p": 0, "rt": 0, "rp": 0}
  wanted = {"enum": {total // 2, total - 1}, "random": {0, nrand // 2}}       # cases shown as samples in the evidence

  def flush(label):
    part = list(pending)
    del pending[:]
    name = "%s%d" % (label, tally["enum"] + tally["random"])
    traces.append((label, name, part, tlc_pool.submit(run_trace, part, name)))

  def settle(wait):
    """Report the trace runs that are finished (all of them when wait), oldest first, and let go of their records."""
    while traces and (wait or traces[0][3].done()):
      label, name, part, fut = traces.pop(0)
      tally["skipped_" + label] += report(ctx, fut.result(), part, name)

  def take(obs, label):
    for o in obs:
      its = o["items"]
      if BR in its or any(is_char(x) and cp_of(x) in (32, 9, 13, 10) for x in its):
        ctx.nontrivial(tuple(x for x in its if x not in (SO, SC)))
      if o["unit"] == "p" and o["src"][1] in wanted[label] and o["src"][2] != 4:
        ctx.sample({"unit": o["unit"], "source": show(o["items"]), "snapshot": show(o["out"]), "from": o["src"]})
      if label == "random":
        o["ad"], o["p"] = docs[o["src"][1]][1], docs[o["src"][1]][2]
        tally[o["unit"]] += 1
        tally["longest"] = max(tally["longest"], len(its))
    tally[label] += len(obs)
    pending.extend(obs)

  mp = multiprocessing.get_context("fork")
  with mp.Pool(procs) as pool:
    for (fn, _), r in zip(jobs, pool.imap(_dispatch, jobs, chunksize=1)):
      if "bad" in r:
        raise T.MachineryError("document builder does not realise item sequence #%d" % r["bad"])
      label = "enum" if fn is _enum_chunk else "random"
      if label == "random" and tally["random"] == 0 and pending:
        flush("enum")
      take(r["obs"], label)
      if len(pending) >= part_size:
        flush(label)
      settle(False)
  if pending:
    flush("random")
  ctx.count("enumerated_item_sequences", total)
  ctx.count("enumerated_documents", tally["enum"])
  ctx.count("random_documents", nrand)
  ctx.count("random_units", tally["random"])
  for u in ("p", "rt", "rp"):
    ctx.count("random_units_" + u, tally[u])
  ctx.count("random_units_longest", tally["longest"])

  # 4. verdicts
  settle(True)
  res = design.result()
  tlc_pool.shutdown()
  if res.violated:
    raise T.MachineryError("Lwsp violates its own invariants: " + str(res.violated))
  ctx.tlc(res, "Lwsp design: all item sequences of length <= %d, 10 invariants" % maxlen)
  m = re.search(r"Finished computing initial states: (\d+) distinct states", res.out)
  inits = int(m.group(1)) if m else -1
  if inits != total:
    raise T.MachineryError("TLC explored %d initial item sequences, the harness built %d" % (inits, total))
  if tally["enum"] != total * len(shifts):
    raise T.MachineryError("built %d documents for %d item sequences x %d arrangements" % (tally["enum"], total, len(shifts)))
  ctx.count("out_of_domain_skipped_enum", tally["skipped_enum"])
  ctx.count("out_of_domain_skipped_random", tally["skipped_random"])
  ctx.evaluations += tally["enum"] + tally["random"]
  ctx.exhaustive = True
  ctx.notes.append("notation in samples and violations: _ space, \\n \\t \\r, <br>, <s> </s> inline boundaries; preserve-mode "
                   "characters are upper-cased (letters) or prefixed with ^")
  ctx.assume("inputs in which a default-mode white-space character is directly adjacent to a preserve-mode white-space "
             "character (inline boundaries ignored) are outside the specification's domain and are not judged")
  ctx.assume("xml:space is read per element as stored in the model (the model does not inherit it; readers resolve it)")
  ctx.assume("rt and rp texts are line-building units of their own; the position of a collapsed space relative to inline "
             "boundaries is not judged (the projection is flat)")
  apply_fragment(ctx)
