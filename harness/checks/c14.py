"""C14 - snapshot acceleration and repeated use never change results or the source.

(a) spec/IsdOps.tla: TLC enumerates every history of read-only operations on one document object up to a bound; each
    history is executed on one real ContentDocument (significant_times, from_model uncached / with the significant-times
    object, generate_isd_sequence, SRT / WebVTT / IMSC writers); after every call a deep structural fingerprint of the
    source and a result token are recorded; spec/Trace_IsdOps.tla replays the history: source unchanged, a repeated call
    returns an equal result, cached snapshot renders like the uncached one.
(b) sweeps: seeded random documents (0, 1, several regions; backgrounds made visible by style, animation or initial
    values; content before/inside/after the content interval) observed with and without the cache at every candidate
    boundary +- 1 tick; spec/Trace_Ttml.tla (family c14) demands rendering equality.
"""
from __future__ import annotations

import hashlib
import json
import os
from fractions import Fraction

from .. import tlc as T
from ..docgen import random_doc
from ..isdcheck import observe_all, validate
from ..isdu import build_doc, fingerprint, project_isd
from ..stylecat import catalogue, decorate
from . import c01

PID = "C14"
LEVEL = "model_checking"

OPS = ["sig", "snapU_1", "snapC_1", "snapU_2", "snapC_2", "seq", "srt", "vtt", "imsc"]
CACHED = ["snapC_1", "snapC_2"]

CFG_OPS = """CONSTANTS
  Ops <- MCOps
  CachedOps <- MCCached
  MaxLen = {maxlen}
SPECIFICATION Spec
INVARIANT DocUnchanged
INVARIANT MemoSingleValued
PROPERTY RepeatEqual
"""
CFG_TRACE = """CONSTANTS
  Ops <- MCOps
  CachedOps <- MCCached
  MaxLen = 99
INIT TInit
NEXT TNext
"""
def mc_text(name, base):
  return (f"---- MODULE {name} ----\nEXTENDS {base}\nMCOps == " + T.to_tla(set(OPS)) + "\nMCCached == " + T.to_tla(set(CACHED))
          + "\n====\n")


def tok(x):
  return hashlib.md5(repr(x).encode()).hexdigest()[:12]


def snap_token(isd):
  return tok([(r["rid"], r["leaves"], r["containers"], r["digest"]) for r in project_isd(isd, False) if r["paints"]])


NSPECIAL = 15


def special_docs(rng, index):
  """Documents aimed at the cache short cuts: backgrounds visible only through style / animation / initial values."""
  docs = []
  N = -1
  base = {"n": 5, "kind": ["body", "div", "p", "span", "text"], "parent": [0, 1, 2, 3, 4], "b": [N, N, 4, N, N], "e": [N, N, 8, N, N],
          "reg": [0, 1, 0, 0, 0], "disp": [""] * 5, "anim": [[] for _ in range(5)], "txt": [0, 0, 0, 0, 1],
          "nr": 2, "rb": [N, N], "re": [N, N], "rdisp": ["", ""], "ranim": [[], []], "rbg": ["always", "always"], "idisp": "", "D": 2,
          # text with characters that a serialisation may want to clean up (the SOURCE must keep them whatever is written)
          "text": [None, None, None, None, "bell\x07 esc\x1b nul\x00 \ufffe end"]}
  bgtok = index["BackgroundColor"][0]
  d1 = json.loads(json.dumps(base))
  d1["rstyles"] = [[], [["BackgroundColor", bgtok]]]            # region 2 paints a background always, without content
  docs.append(d1)
  d2 = json.loads(json.dumps(base))
  d2["ranim_styles"] = [[], [["BackgroundColor", bgtok, 12, 16]]]   # ... only through an animation step, after the content interval
  docs.append(d2)
  d3 = json.loads(json.dumps(base))
  d3["initials"] = [["BackgroundColor", bgtok]]                 # ... through an initial value
  docs.append(d3)
  d4 = json.loads(json.dumps(base))
  d4["nr"] = 1
  d4["rb"], d4["re"], d4["rdisp"], d4["ranim"], d4["rbg"] = [N], [N], [""], [[]], ["always"]
  d4["reg"] = [0, 1, 0, 0, 0]
  d4["ranim_styles"] = [[["BackgroundColor", bgtok, 0, 2]]]         # single region, background before the content interval
  docs.append(d4)
  d5 = json.loads(json.dumps(base))
  d5["nr"] = 0
  d5["rb"], d5["re"], d5["rdisp"], d5["ranim"], d5["rbg"] = [], [], [], [], []
  d5["reg"] = [0] * 5
  docs.append(d5)
  trtok = index["BackgroundColor"][2]                            # transparent
  d6 = json.loads(json.dumps(base))
  d6["rstyles"] = [[], [["BackgroundColor", trtok]]]            # specified transparent, made opaque by an animation step
  d6["ranim_styles"] = [[], [["BackgroundColor", bgtok, 12, 16]]]
  d6["reg"] = [0, 2, 0, 0, 0]                                   # the content is in that region too, at another time
  docs.append(d6)
  d7 = json.loads(json.dumps(base))
  d7["rstyles"] = [[], [["BackgroundColor", bgtok], ["Opacity", index["Opacity"][1]]]]   # opacity 0, animated to 1
  d7["ranim_styles"] = [[], [["Opacity", index["Opacity"][2], 12, 16]]]
  d7["reg"] = [0, 2, 0, 0, 0]
  docs.append(d7)
  d8 = json.loads(json.dumps(d4))                                 # ONE region without background + an initial background:
  d8["ranim_styles"] = [[]]                                        # the cache works on the source itself, not on a clone
  d8["initials"] = [["BackgroundColor", bgtok]]
  docs.append(d8)
  # ... a region that has nothing to paint ON (a zero dimension) / is hidden until an animation step changes that, with its
  # content at another time
  ext = index["Extent"]
  d9 = json.loads(json.dumps(base))
  d9["rstyles"] = [[], [["BackgroundColor", bgtok], ["Extent", ext[-2]]]]
  d9["ranim_styles"] = [[], [["Extent", ext[0], 12, 16]]]
  d9["reg"] = [0, 2, 0, 0, 0]
  docs.append(d9)
  vis = index["Visibility"]
  d10 = json.loads(json.dumps(base))
  d10["rstyles"] = [[], [["BackgroundColor", bgtok], ["Visibility", vis[0]]]]             # hidden ...
  d10["ranim_styles"] = [[], [["Visibility", vis[1], 12, 16]]]                   # ... visible during the step
  d10["reg"] = [0, 2, 0, 0, 0]
  docs.append(d10)
  # a paragraph that no region is named for, whose spans go to different regions; the span for the FIRST region holds
  # nothing but collapsible white space (the paragraph shows nothing there), the span for the second one has text
  d11 = {"n": 7, "kind": ["body", "div", "p", "span", "text", "span", "text"], "parent": [0, 1, 2, 3, 4, 3, 6],
         "b": [N, N, 2, N, N, N, N], "e": [N, N, 12, N, N, N, N], "reg": [0, 0, 0, 1, 0, 2, 0], "disp": [""] * 7,
         "anim": [[] for _ in range(7)], "txt": [0, 0, 0, 0, 1, 0, 1], "nr": 2, "rb": [N, N], "re": [N, N], "rdisp": ["", ""],
         "ranim": [[], []], "rbg": ["whenActive", "whenActive"], "idisp": "", "D": 2,
         "space": ["", "", "default", "", "", "", ""], "text": [None, None, None, None, " \n ", None, "Hello"]}
  docs.append(d11)
  d12 = json.loads(json.dumps(d11))
  d12["text"] = [None, None, None, None, "Hello", None, "  "]          # the other way round
  docs.append(d12)
  # d13, d14: FEW DISTINCT TIMES - the region ends when the only paragraph ends, nothing else is timed; every operation of a
  # history then handles the same one or two values first and last (whatever one call keeps must not leak into the next)
  d13 = json.loads(json.dumps(base))
  d13["nr"] = 1
  d13["rb"], d13["re"], d13["rdisp"], d13["ranim"], d13["rbg"] = [N], [8], [""], [[]], ["always"]
  d13["reg"] = [0, 1, 0, 0, 0]
  docs.append(d13)
  d14 = json.loads(json.dumps(d13))
  d14["b"], d14["e"] = [N, N, N, N, N], [10, N, N, N, N]               # only ends: the body and the region end together
  d14["re"] = [10]
  docs.append(d14)
  # d15: <initial> elements that restate the nominal initial value of every property (the last token of each property in the
  # catalogue is that value where the catalogue has it), regions placed by tts:origin: restating a default is not a no-op for
  # every property (tts:position takes precedence over tts:origin), and every copy of the document must carry it
  d15 = json.loads(json.dumps(base))
  d15["rstyles"] = [[["Origin", index["Origin"][0]]], [["Origin", index["Origin"][1]], ["BackgroundColor", bgtok]]]
  d15["initials"] = [[prop, toks[-1]] for prop, toks in sorted(index.items()) if prop not in ("Display", "ShowBackground")]
  docs.append(d15)
  for d in docs:
    for key, n in (("styles", d["n"]), ("anim_styles", d["n"]), ("rstyles", d["nr"]), ("ranim_styles", d["nr"])):
      d.setdefault(key, [[] for _ in range(n)])
  return docs


def run_history(ad, cat, ops, times, alt=0):
  """alt: per operation, 0 = default context, 1 = the caller's alternative process context, 2 = that and overlapping other
  operations (core.AltContext); the SAME operation is observed in different contexts within one history."""
  from ..core import AltContext
  from ..isdrun import _take_apart
  from ttconv.isd import ISD
  import ttconv.srt.writer as srt_writer
  import ttconv.vtt.writer as vtt_writer
  import ttconv.imsc.writer as imsc_writer
  import xml.etree.ElementTree as et
  D = ad["D"]
  doc, _e, _r = build_doc(ad, D, cat)
  fp0 = fingerprint(doc)
  sigobj = None
  fps, res, raised, twin = [], [], [], []
  for opno, op in enumerate(ops):
    r = ""
    bad = 0
    try:
     with AltContext((alt + opno) % 3 if alt else 0) as ac:
      if op == "sig":
        sigobj = ISD.significant_times(doc)
        r = tok([str(x) for x in sigobj])
      elif op.startswith("snapU_"):
        got = ISD.from_model(doc, Fraction(times[int(op[-1]) - 1], D))
        r = snap_token(got)
        _take_apart(got)             # the snapshot is the caller's: what is done to it must not show in a later result
      elif op.startswith("snapC_"):
        got = ISD.from_model(doc, Fraction(times[int(op[-1]) - 1], D), sigobj)
        r = snap_token(got)
        _take_apart(got)
      elif op == "seq":
        r = tok([(str(t), snap_token(i)) for t, i in ISD.generate_isd_sequence(doc)])
      elif op == "srt":
        r = tok(srt_writer.from_model(doc, None, ac.progress))
      elif op == "vtt":
        r = tok(vtt_writer.from_model(doc, None, ac.progress))
      elif op == "imsc":
        r = tok(et.tostring(imsc_writer.from_model(doc, None, ac.progress).getroot()))
    except Exception:  # pylint: disable=broad-except
      bad = 1
    fps.append(fingerprint(doc))
    res.append(r)
    raised.append(bad)
    twin.append(op.replace("snapU", "snapC") if op.startswith("snapU") else op.replace("snapC", "snapU") if op.startswith("snapC") else "")
  return {"fp0": fp0, "ops": list(ops), "fps": fps, "res": res, "raised": raised, "twin": twin}


def _hist_job(args):
  import logging
  logging.getLogger("ttconv").setLevel(logging.CRITICAL + 10)
  ad, ops, times, rid = args
  cat = catalogue()[0]
  rec = run_history(ad, cat, ops, times, alt=(1 + rid % 3) if rid % 4 == 1 else 0)
  rec["id"] = rid
  return rec


def run(ctx):
  thorough = ctx.thorough()
  ctx.rule = ("(a) a case is one history of <= 4 operations executed on one document object; non-trivial = the history repeats "
              "an operation or pairs a cached with an uncached snapshot; (b) a case is one (document, time) observed with and "
              "without the cache")
  maxlen = 4
  res = T.run_tlc("MC_IsdOps", CFG_OPS.format(maxlen=maxlen), workers=4, dump="states", timeout=900, name="isdops",
                  extra_files={"MC_IsdOps.tla": mc_text("MC_IsdOps", "IsdOps")})
  if res.violated:
    raise T.MachineryError("IsdOps violates its own properties: " + str(res.violated))
  ctx.tlc(res, f"all histories of <= {maxlen} operations over {len(OPS)} operations")
  hists = [tuple(s["hist"]) for s in T.parse_dump_fast(os.path.join(res.workdir, "states.dump"), {"hist"}) if s["hist"]]
  hists = sorted(set(hists))
  cat, index = catalogue()
  docs = special_docs(ctx.rng, index)
  for _ in range(3 if not thorough else 10):
    d = random_doc(ctx.rng, max_nodes=14, ruby=False)
    decorate(d, ctx.rng, index, p_style=0.3, p_anim=0.3)
    docs.append(d)
  if not thorough:
    short = [h for h in hists if len(h) <= 2]
    longer = [h for h in hists if len(h) > 2]
    hists = short + ctx.rng.sample(longer, 500)
  jobs = []
  rid = 0
  meta = {}
  for di, ad in enumerate(docs):
    # two query times: one inside the busiest part of the timeline, one late
    times = [5, 13] if di < NSPECIAL else [ctx.rng.randrange(0, 12 * (ad["D"] // 2)), ctx.rng.randrange(0, 24 * (ad["D"] // 2))]
    for h in hists:
      rid += 1
      jobs.append((ad, h, times, rid))
      meta[rid] = (di, h, times)
  from multiprocessing import Pool
  with Pool(12) as pool:
    recs = pool.map(_hist_job, jobs, chunksize=32)
  ctx.evaluations += sum(len(r["ops"]) for r in recs)
  ctx.traces += len(recs)
  nraised = sum(sum(r["raised"]) for r in recs)
  ctx.count("calls_that_raised(not judged here)", nraised)
  for r in recs:
    ops = r["ops"]
    if len(set(ops)) < len(ops) or any(o.startswith("snapC") for o in ops):
      ctx.nontrivial(("hist", meta[r["id"]][0], tuple(ops)))
  # validate histories
  from concurrent.futures import ThreadPoolExecutor
  nproc = 6
  parts = [recs[k::nproc] for k in range(nproc)]

  def one(part):
    text = "\n".join(json.dumps(x, separators=(",", ":")) for x in part) + "\n"
    return part, T.run_tlc("MC_Trace_IsdOps", CFG_TRACE, workers=1, env={"TRACE_FILE": "trace.ndjson"}, timeout=3000, name="tio",
                           extra_files={"MC_Trace_IsdOps.tla": mc_text("MC_Trace_IsdOps", "Trace_IsdOps"),
                                        "trace.ndjson": text})

  with ThreadPoolExecutor(max_workers=nproc) as ex:
    outs = list(ex.map(one, parts))
  byid = {r["id"]: r for r in recs}
  for part, tres in outs:
    done = tres.values("DONE")
    if not done or done[0][1] != len(part):
      raise T.MachineryError("history trace not consumed: " + tres.out[-1500:])
    ctx.tlc(tres, "history validation")
    for _, rid_, k, clause in tres.values("FAIL"):
      di, h, times = meta[rid_]
      r = byid[rid_]
      ad = docs[di]
      f = {"op": r["ops"][k - 1], "doc_index": di, "special_doc": di < NSPECIAL,
           "bg_by_animation": any(s and s[0][0] == "BackgroundColor" for s in (ad.get("ranim_styles") or [])),
           "bg_by_initial": any(p == "BackgroundColor" for p, _t in ad.get("initials", []))}
      ctx.violation(clause, {"doc": ad, "history": list(h), "times": times, "step": k, "results": r["res"]}, f,
                    f"doc#{di} history {list(h)} step {k} ({r['ops'][k - 1]})")
  ctx.sample({"history": recs[len(recs) // 2]["ops"], "results": recs[len(recs) // 2]["res"]})

  # (b) sweeps cached vs uncached
  jobs = []
  origin = {}
  rid = 0
  for ad in special_docs(ctx.rng, index):
    rid += 1
    jobs.append((ad, rid, None, False, True))
    origin[rid] = ad
  for _ in range(4000 if thorough else 400):
    rid += 1
    # (half of them with literal texts: white space in all positions, so that spans and paragraphs collapse to nothing)
    ad = random_doc(ctx.rng, max_nodes=25, space=ctx.rng.random() < 0.5)
    decorate(ad, ctx.rng, index, p_style=0.25, p_anim=0.2)
    jobs.append((ad, rid, None, False, True))
    origin[rid] = ad
  # wide / long documents: dozens to hundreds of siblings in chronological order, with the odd untimed one among them
  from ..docgen import long_doc
  for _ in range(20 if thorough else 5):
    rid += 1
    ad = long_doc(ctx.rng, count=ctx.rng.choice([33, 40, 64, 101, 130, 260]), untimed=True)
    if ctx.rng.random() < 0.5:
      decorate(ad, ctx.rng, index, p_style=0.05, p_anim=0.03)
    jobs.append((ad, rid, None, False, True))
    origin[rid] = ad
  recs2 = observe_all(jobs)
  good = [r for r in recs2 if "error" not in r]
  ctx.count("sweep_documents_that_raised(not judged here)", len(recs2) - len(good))
  ctx.evaluations += sum(len(r["times"]) for r in good)
  ctx.traces += len(good)
  for r in good:
    for j, ob in enumerate(r["obs"]):
      if any(x["paints"] for x in ob):
        ctx.nontrivial(("sweep", r["id"], r["times"][j]))
  fails = validate(ctx, good, ["c14"], "c14")
  byid2 = {r["id"]: r for r in good}
  for rid_, tick, clause in fails:
    ad = origin[rid_]
    r = byid2[rid_]
    if clause.startswith("c14_source_changed"):
      f = c01.doc_features(ad)
      f["single_region"] = ad["nr"] == 1
      ctx.violation(clause, {"doc": ad}, f, f"doc#{rid_}")
      continue
    j = r["times"].index(tick)
    f = c01.doc_features(ad)
    unc = [x for x in r["obs"][j] if x["paints"]]
    cac = [x for x in r["obsc"][j] if x["paints"]]
    f["missing_with_cache_are_all_empty_regions"] = all(not x["leaves"] for x in unc if x["rid"] not in [y["rid"] for y in cac]) and \
        all(any(y["rid"] == x["rid"] and y["leaves"] == x["leaves"] and y["digest"] == x["digest"] for y in unc) for x in cac)
    ctx.violation(clause, {"doc": ad, "tick": tick, "uncached": r["obs"][j], "cached": r["obsc"][j], "sig": r["sig"]}, f,
                  f"doc#{rid_} t={tick}/{ad['D']}")
  ctx.exhaustive = False
  ctx.assume("result tokens are md5 digests of projections / output strings; snapshot tokens list only regions that paint something")
