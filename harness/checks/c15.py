"""C15 - the canonical model stays a well-formed tree under any sequence of API calls.

Design side : TLC explores spec/Model.tla exhaustively on three focused universes (tree operations; ownership and the
              region registry with two documents and two regions sharing an id; ruby / ruby-text-container patterns),
              checking WellFormed on every state and that rejected calls change nothing.
Spec -> code: every state of those state graphs is rebuilt on real ttconv.model objects and *every* operation of the
              configuration is applied to it (one implementation test per edge, accepted or rejected).
Code -> spec: seeded random histories on a 22-element universe with valid and invalid arguments, incl. style, animation
              and initial values from a catalogue of valid/invalid values.
Both kinds of recordings are validated by spec/Trace_Model.tla (WellFormed after every call, rejected => unchanged,
accepted => an outcome the contract admits, only valid values stored).
"""
from __future__ import annotations

import os

from .. import tlc as T
from ..modelu import Universe, World, all_ops, mkop, value_catalogue, dumps

PID = "C15"
LEVEL = "model_checking"

CONFIGS = {
  "tree": dict(kinds=["body", "div", "div", "p", "span", "text"], regid=[0] * 6, nd=1, nids=1, max_pc=0,
               ops=["PushChild", "Remove", "RemoveChild", "RemoveChildren", "SetDoc", "SetBody"]),
  "regions": dict(kinds=["body", "div", "region", "region", "region"], regid=[0, 0, 1, 1, 2], nd=2, nids=2, max_pc=0,
                  ops=["PushChild", "Remove", "SetDoc", "SetRegion", "PutRegion", "RemoveRegion", "SetBody"]),
  "ruby": dict(kinds=["ruby", "rb", "rt", "rp", "rp", "rbc", "rtc", "rt"], regid=[0] * 8, nd=1, nids=1, max_pc=4,
               ops=["PushChild", "PushChildren", "Remove", "RemoveChild", "RemoveChildren"]),
}

BIG = dict(kinds=["body", "div", "div", "p", "p", "span", "span", "span", "br", "text", "text", "ruby", "rb", "rt", "rp", "rp",
                  "rbc", "rtc", "rt", "region", "region", "region"],
           regid=[0] * 19 + [1, 1, 2], nd=2, nids=2)

# many interchangeable children: parents with a dozen and more children, long sibling chains
WIDE = dict(kinds=["body", "div", "p", "p"] + ["span"] * 64 + ["text"] * 8 + ["br"] * 4 + ["region", "region"],
            regid=[0] * 80 + [1, 2], nd=1, nids=2)


def wide_start(uni, rng):
  """A state in which one paragraph already holds several dozen spans (histories of a few dozen calls cannot build that up)."""
  S = uni.empty_state()
  n = uni.n

  def link(p, c):
    S["parent"][c - 1] = p
    S["kids"][p - 1].append(c)
  for e in range(1, n + 1):
    if uni.kinds[e - 1] != "region":
      S["owner"][e - 1] = 1
  S["body"][0] = 1
  link(1, 2)
  link(2, 3)
  link(2, 4)
  spans = [e for e in range(1, n + 1) if uni.kinds[e - 1] == "span"]
  for c in spans[:rng.choice([30, 47, 48, 49, 56])]:
    link(3, c)
  return S

CFG_MODEL = """CONSTANTS
  {consts}
SPECIFICATION Spec
VIEW CoreView
INVARIANT Inv_WellFormed
PROPERTY RejectedUnchanged
PROPERTY EffectAdmitted
"""
CFG_TRACE = """CONSTANTS
  {consts}
INIT TInit
NEXT TNext
"""

ALLOWED = {"body": ["div"], "div": ["div", "p"], "p": ["span", "br", "ruby"], "span": ["span", "br", "text"],
           "rb": ["span"], "rt": ["span"], "rp": ["span"], "rbc": ["rb"], "rtc": ["rt", "rp"], "ruby": [], "br": [], "text": [],
           "region": []}
RUBY_PATTERNS = [["rb", "rt"], ["rb", "rp", "rt", "rp"], ["rbc", "rtc"], ["rbc", "rtc", "rtc"]]


def explore(name, cfg):
  uni = Universe(cfg["kinds"], cfg["regid"], cfg["nd"], cfg["nids"])
  defs, consts = uni.mc_constants(cfg["ops"], cfg["max_pc"])
  mc = "---- MODULE MC_Model ----\nEXTENDS Model\n" + defs + "\n====\n"
  res = T.run_tlc("MC_Model", CFG_MODEL.format(consts=consts), workers=8, extra_files={"MC_Model.tla": mc},
                  dump="states", timeout=1800, name="model_" + name)
  states = [s["S"] for s in T.parse_dump_fast(os.path.join(res.workdir, "states.dump"), {"S"})]
  return uni, res, states


def tup2list(x):
  if isinstance(x, tuple):
    return [tup2list(y) for y in x]
  return x


def abstract_state(uni, S):
  """TLA record (parsed) -> plain lists."""
  return {k: tup2list(S[k]) for k in ("parent", "kids", "owner", "regref", "registry", "body")}


def replay(ctx, rp):
  """Re-run one recorded case: rebuild the state, apply the call, validate the step."""
  case = rp["case"]
  u = case["universe"]
  uni = Universe(u["kinds"], u["regid"], u["nd"], max(u["regid"] + [1]))
  catalogue = value_catalogue()
  pre = {k: case["state_before"][k] for k in ("parent", "kids", "owner", "regref", "registry", "body")}
  ops = case.get("history_prefix") or [case["op"]]
  if len(ops) > 1:
    w = World(uni, None, catalogue)
    S0 = w.project()
    steps, smeta, cur = [], [], S0
    for op in ops:
      ok = w.apply(op)
      post = w.project()
      steps.append({"op": op, "ok": ok, "same": post == cur, "post": post})
      smeta.append((cur, op, ok, post))
      cur = post
    recs, meta = [{"kind": "hist", "S": S0, "steps": steps}], [smeta]
  else:
    w = World(uni, pre, catalogue)
    before = w.project()
    ok = w.apply(case["op"])
    post = w.project()
    recs = [{"kind": "edges", "S": before, "steps": [{"op": case["op"], "ok": ok, "same": post == before, "post": post}]}]
    meta = [[(before, case["op"], ok, post)]]
  ctx.evaluations += len(recs[0]["steps"])
  ctx.traces += 1
  ctx.nontrivial("replay")
  ctx.nontrivial("replay2")
  ctx.sample({"replayed": rp["clause"], "op": case["op"]})
  validate(ctx, uni, recs, meta, catalogue, rp["features"].get("config", "replay"))


def features(uni, pre, op, ok, post):
  """Diagnostic features of a step (used by known-finding selectors and replay files)."""
  def anc(S, e):
    out = []
    seen = 0
    while S["parent"][e - 1] > 0 and seen <= uni.n:
      e = S["parent"][e - 1]
      out.append(e)
      seen += 1
    return out
  f = {"op": op["op"], "ok": ok}
  if op["op"] == "PushChild" and op["a"] and op["b"]:
    f["child_is_ancestor_of_parent"] = op["b"] in anc(pre, op["a"])
    f["child_kind"] = uni.kinds[op["b"] - 1]
    f["parent_kind"] = uni.kinds[op["a"] - 1]
  if op["op"] == "PushChildren":
    f["parent_kind"] = uni.kinds[op["a"] - 1]
    f["parent_had_children"] = len(pre["kids"][op["a"] - 1]) > 0
    f["some_child_is_ancestor_of_parent"] = any(c in anc(pre, op["a"]) for c in op["cs"])
  if op["op"] == "SetDoc":
    f["has_parent"] = pre["parent"][op["a"] - 1] != 0
    f["has_children"] = len(pre["kids"][op["a"] - 1]) > 0
    f["detach"] = op["d"] == 0
  if op["op"] == "SetRegion" and op["b"]:
    own = pre["owner"][op["a"] - 1]
    f["region_is_registered_object"] = bool(own) and pre["registry"][own - 1][uni.regid[op["b"] - 1] - 1] == op["b"]
  if op["op"] == "PutRegion":
    old = pre["registry"][op["d"] - 1][uni.regid[op["a"] - 1] - 1]
    f["replaces_other_region"] = old not in (0, op["a"])
    f["old_region_referenced"] = old != 0 and old in pre["regref"]
  if op["op"] == "RemoveRegion":
    old = pre["registry"][op["d"] - 1][op["id"] - 1]
    f["region_referenced"] = old != 0 and old in pre["regref"]
  if op["op"] in ("RemoveRegion", "PutRegion"):
    # which elements are left with a reference that is not the registered object, and are they under the document's body?
    def under_body(S, e):
      root = ([e] + anc(S, e))[-1]
      own = S["owner"][e - 1]
      return bool(own) and S["body"][own - 1] == root
    dangling = []
    for e in range(1, uni.n + 1):
      r = post["regref"][e - 1]
      own = post["owner"][e - 1]
      if r > 0 and not (own and post["registry"][own - 1][uni.regid[r - 1] - 1] == r):
        dangling.append(e)
    f["dangling_refs"] = len(dangling)
    f["all_dangling_outside_body"] = bool(dangling) and all(not under_body(post, e) for e in dangling)
  if op["op"] in ("SetStyle", "AddStep", "PutInitial"):
    f["prop"] = op["prop"]
    f["tok"] = op["tok"]
  return f


def run_edges(uni, states, opset, max_pc, rng, limit):
  """For (a sample of) the states of an exhaustive model: rebuild on real objects, apply every op."""
  ops = all_ops(uni, opset, max_pc)
  recs = []
  meta = []
  idx = list(range(len(states)))
  if limit is not None and len(idx) > limit:
    # always keep the first states (shallow) and sample the rest
    keep = idx[:40] + rng.sample(idx[40:], limit - 40)
    idx = sorted(keep)
  unbuildable = 0
  for si in idx:
    S = abstract_state(uni, states[si])
    try:
      base = World(uni, S)
    except Exception as ex:  # pylint: disable=broad-except
      unbuildable += 1
      if os.environ.get("VERIF_DEBUG"):
        print("unbuildable", S, repr(ex))
      continue
    pre = base.project()
    steps = []
    smeta = []
    for oi, op in enumerate(ops):
      w = World(uni, S, alt=1 if (si + oi) % 5 == 2 else 0, blink=((si + oi) % 4 == 1))
      ok = w.apply(op)
      post = w.project()
      st = {"op": op, "ok": ok, "same": post == pre}
      if not st["same"]:
        st["post"] = post
      steps.append(st)
      smeta.append((pre, op, ok, post if not st["same"] else pre))
    # records of at most 100 steps (TLC's recursion over the steps of one record is quadratic in their number)
    for k in range(0, len(steps), 100):
      recs.append({"kind": "edges", "S": pre, "steps": steps[k:k + 100]})
      meta.append(smeta[k:k + 100])
  return recs, meta, unbuildable, len(ops)


def plausible_op(uni, w, S, rng, catalogue):
  """One random operation, biased towards calls whose arguments make sense in the current state."""
  n = uni.n
  E = list(range(1, n + 1))
  kinds = uni.kinds
  regions = [e for e in E if kinds[e - 1] == "region"]
  r = rng.random()
  smart = rng.random() < 0.7
  if r < 0.28:
    if smart:
      p = rng.choice(E)
      cands = [c for c in E if kinds[c - 1] in ALLOWED[kinds[p - 1]]]
      if cands:
        return mkop("PushChild", p, rng.choice(cands))
    return mkop("PushChild", rng.choice(E), rng.choice(E))
  if r < 0.36:
    p = rng.choice(([e for e in E if kinds[e - 1] in ("ruby", "rtc")] or E) if smart else E)
    if kinds[p - 1] == "ruby" and smart:
      pat = rng.choice(RUBY_PATTERNS)
      cs = []
      for k in pat:
        c = [e for e in E if kinds[e - 1] == k and e not in cs]
        if not c:
          break
        cs.append(rng.choice(c))
      if len(cs) >= 3 and rng.random() < 0.25:
        # the same object twice (e.g. one rp used for both parentheses): must be rejected as a whole
        dup = [k for k in range(1, len(cs)) if kinds[cs[k] - 1] in [kinds[x - 1] for x in cs[:k]]]
        if dup:
          k = dup[-1]
          cs[k] = next(x for x in cs[:k] if kinds[x - 1] == kinds[cs[k] - 1])
      return mkop("PushChildren", p, cs=cs)
    if kinds[p - 1] == "rtc" and smart:
      # a list with the right kinds in the right order (whatever documents / parents its members have at the moment: a
      # member that cannot be attached must leave the container exactly as it was)
      pat = rng.choice([["rt"], ["rt", "rt"], ["rp", "rt", "rp"], ["rp", "rt", "rt", "rp"], ["rp", "rp"]])
      cs = []
      for k in pat:
        c = [e for e in E if kinds[e - 1] == k and e not in cs]
        if not c:
          break
        cs.append(rng.choice(c))
      if cs:
        return mkop("PushChildren", p, cs=cs)
    pool = [e for e in E if kinds[e - 1] in ("rt", "rp", "rb", "rbc", "rtc", "span")]
    k = rng.randint(1, 4)
    return mkop("PushChildren", p, cs=rng.sample(pool, min(k, len(pool))))
  if r < 0.44:
    return mkop("Remove", rng.choice(E))
  if r < 0.50:
    p = rng.choice(([e for e in E if S["kids"][e - 1]] or E) if smart else E)
    kids = S["kids"][p - 1]
    if smart and kids:
      return mkop("RemoveChild", p, rng.choice(kids))
    return mkop("RemoveChild", p, rng.choice(E))
  if r < 0.54:
    return mkop("RemoveChildren", rng.choice(E))
  if r < 0.68:
    e = rng.choice([x for x in E if S["parent"][x - 1] == 0] if smart else E)
    return mkop("SetDoc", e, d=rng.randint(0, uni.nd))
  if r < 0.76:
    e = rng.choice([x for x in E if kinds[x - 1] != "region"])
    return mkop("SetRegion", e, rng.choice([0] + regions))
  if r < 0.82:
    return mkop("PutRegion", rng.choice(regions), d=rng.randint(1, uni.nd))
  if r < 0.86:
    return mkop("RemoveRegion", d=rng.randint(1, uni.nd), id=rng.randint(1, uni.nids))
  if r < 0.89:
    return mkop("SetBody", rng.choice([0] + [e for e in E if kinds[e - 1] == "body"] + ([rng.choice(E)] if not smart else [])),
                d=rng.randint(1, uni.nd))
  # value operations; half of them target a property that already has a stored value (a rejected call must not disturb it)
  have = [(e, st[0]) for e in E for st in S["styles"][e - 1]]
  if have and rng.random() < 0.5:
    e, prop = rng.choice(have)
    toks = [t + 1 for t, c in enumerate(catalogue) if c[0] == prop]
    return mkop("SetStyle", e, prop=prop, tok=rng.choice(toks))
  haveinit = [(d + 1, st[0]) for d in range(uni.nd) for st in S["initials"][d]]
  if haveinit and rng.random() < 0.3:
    d, prop = rng.choice(haveinit)
    toks = [t + 1 for t, c in enumerate(catalogue) if c[0] == prop]
    return mkop("PutInitial", d=d, prop=prop, tok=rng.choice(toks))
  tok = rng.randint(1, len(catalogue))
  prop = catalogue[tok - 1][0]
  if rng.random() < 0.08:
    tok = 0
  kind = rng.choice(["SetStyle", "SetStyle", "AddStep", "PutInitial"])
  if kind == "SetStyle":
    return mkop("SetStyle", rng.choice(E), prop=prop, tok=tok)
  if kind == "AddStep":
    tok = tok or rng.randint(1, len(catalogue))
    return mkop("AddStep", rng.choice(E), prop=catalogue[tok - 1][0], tok=tok)
  return mkop("PutInitial", d=rng.randint(1, uni.nd), prop=prop, tok=tok)


def run_histories(uni, catalogue, rng, count, length, start=None):
  recs = []
  meta = []
  for hno in range(count):
    # one history in five in the caller's alternative process context; one in four with the harness letting go of parentless
    # trees between calls (modelu.World)
    w = World(uni, start(uni, rng) if start else None, catalogue, alt=1 if hno % 5 == 2 else 0, blink=(hno % 4 == 1))
    pre = w.project()
    S0 = pre
    steps = []
    smeta = []
    op = None
    for _k in range(length):
      # now and then the very same call once more (a second removal of the same child, a second push, ...)
      op = op if (op is not None and rng.random() < 0.1) else plausible_op(uni, w, pre, rng, catalogue)
      ok = w.apply(op)
      post = w.project()
      st = {"op": op, "ok": ok, "same": post == pre}
      if not st["same"]:
        st["post"] = post
      steps.append(st)
      smeta.append((pre, op, ok, post))
      pre = post
    recs.append({"kind": "hist", "S": S0, "steps": steps})
    meta.append(smeta)
  return recs, meta


def validate(ctx, uni, recs, meta, catalogue, label):
  if os.environ.get("VERIF_CORRUPT") and label == "tree":
    # self-test of the binding: corrupt ONE recorded field (a parent link of the first changed state)
    for r in recs:
      hit = [st for st in r["steps"] if not st["same"]]
      if hit:
        hit[0]["post"]["parent"][-1] = 1 if hit[0]["post"]["parent"][-1] != 1 else 2
        break
  defs, consts = uni.mc_constants([], 0, catalogue)
  mc = "---- MODULE MC_Trace_Model ----\nEXTENDS Trace_Model\n" + defs + "\n====\n"
  # split over several TLC processes
  from concurrent.futures import ThreadPoolExecutor
  nproc = min(6, max(1, len(recs) // 50))
  parts = [list(range(k, len(recs), nproc)) for k in range(nproc)]

  def one(part):
    text = "\n".join(dumps(recs[j]) for j in part) + "\n"
    return part, T.run_tlc("MC_Trace_Model", CFG_TRACE.format(consts=consts), workers=1, env={"TRACE_FILE": "trace.ndjson"},
                           extra_files={"MC_Trace_Model.tla": mc, "trace.ndjson": text}, timeout=5400, name="tm_" + label,
                           java_opts=("-Xmx6g",))

  with ThreadPoolExecutor(max_workers=nproc) as ex:
    outs = list(ex.map(one, parts))
  notes = {}
  for part, res in outs:
    done = res.values("DONE")
    if not done or done[0][1] != len(part):
      raise T.MachineryError(f"trace {label} not consumed: " + res.out[-2000:])
    ctx.tlc(res, "trace validation " + label)
    for v in res.values("NOTE"):
      notes[v[2]] = notes.get(v[2], 0) + 1
    for _, rid, clause in res.values("FAIL"):
      j, k = part[rid // 1000 - 1], rid % 1000
      if k == 0:
        raise T.MachineryError(f"harness built a state that is not well formed ({clause}): {dumps(recs[j]['S'])}")
      pre, op, ok, post = meta[j][k - 1]
      f = features(uni, pre, op, ok, post)
      f["config"] = label
      prefix = [s["op"] for s in recs[j]["steps"][:k]] if recs[j]["kind"] == "hist" else [op]
      ctx.violation(clause, {"universe": {"kinds": uni.kinds, "regid": uni.regid, "nd": uni.nd}, "state_before": pre,
                             "op": op, "accepted": ok, "state_after": post,
                             "history_prefix": prefix if len(prefix) <= 60 else prefix[-60:]},
                    f, f"{label}: {op['op']} a={op['a']} b={op['b']} cs={op['cs']} d={op['d']} accepted={ok}")
  for k, v in notes.items():
    ctx.count(label + ":" + k, v)


def run(ctx):
  if ctx.replay_case:
    return replay(ctx, ctx.replay_case)
  thorough = ctx.thorough()
  ctx.rule = ("a case is one API call applied to a concrete state of real objects; non-trivial = the call was accepted and "
              "changed the model, or was rejected although structurally plausible; distinct by (state, call)")
  catalogue = value_catalogue()
  for name, cfg in CONFIGS.items():
    if name == "regions" and not thorough:
      # quick tier: two regions sharing one id (the third region triples the state space)
      cfg = dict(cfg, kinds=["body", "div", "region", "region"], regid=[0, 0, 1, 1], nids=1)
    uni, res, states = explore(name, cfg)
    if res.violated:
      raise T.MachineryError(f"Model.tla violates its own properties in config {name}: {res.violated}")
    ctx.tlc(res, f"exhaustive model '{name}' ({len(states)} states)")
    limit = {"tree": None, "regions": 8000, "ruby": None}[name] if thorough else {"tree": 300, "regions": 300, "ruby": 50}[name]
    recs, meta, unbuildable, nops = run_edges(uni, states, cfg["ops"], cfg["max_pc"], ctx.rng, limit)
    ctx.count(f"{name}:states_in_model", len(states))
    ctx.count(f"{name}:states_rebuilt", len(recs))
    ctx.count(f"{name}:states_unbuildable", unbuildable)
    ctx.count(f"{name}:ops_per_state", nops)
    nsteps = sum(len(r["steps"]) for r in recs)
    ctx.evaluations += nsteps
    ctx.traces += len(recs)
    for r, sm in zip(recs, meta):
      for st in r["steps"]:
        if not st["same"]:
          ctx.nontrivial((name, dumps(r["S"]["kids"]), dumps(r["S"]["owner"]), dumps(st["op"])))
    validate(ctx, uni, recs, meta, catalogue, name)
    if name == "tree":
      ctx.sample({"config": name, "state": recs[-1]["S"], "step": recs[-1]["steps"][3]})
  uni = Universe(BIG["kinds"], BIG["regid"], BIG["nd"], BIG["nids"])
  recs, meta = run_histories(uni, catalogue, ctx.rng, 4000 if thorough else 300, 40)
  ctx.evaluations += sum(len(r["steps"]) for r in recs)
  ctx.traces += len(recs)
  for r in recs:
    for st in r["steps"]:
      if not st["same"]:
        ctx.nontrivial(("hist", dumps(st["op"]), dumps(st["post"]["kids"])))
  validate(ctx, uni, recs, meta, catalogue, "histories")
  wuni = Universe(WIDE["kinds"], WIDE["regid"], WIDE["nd"], WIDE["nids"])
  wrecs, wmeta = run_histories(wuni, catalogue, ctx.rng, 600 if thorough else 30, 60, start=wide_start)
  ctx.evaluations += sum(len(r["steps"]) for r in wrecs)
  ctx.traces += len(wrecs)
  ctx.count("widest_parent_in_wide_histories", max((len(k) for r in wrecs for st in r["steps"] if st.get("post") for k in st["post"]["kids"]), default=0))
  validate(ctx, wuni, wrecs, wmeta, catalogue, "wide_histories")
  ctx.sample({"config": "histories", "first_ops": [s["op"] for s in recs[0]["steps"][:6]], "accepted": [s["ok"] for s in recs[0]["steps"][:6]]})
  ctx.exhaustive = thorough
  ctx.assume("states of the exhaustive models are rebuilt on real objects with the base-class ContentElement.push_child")
  ctx.assume("validity of style values is decided by the hand-typed catalogue in harness/modelu.py (TTML2 value spaces)")
