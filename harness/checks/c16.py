"""C16 - the LCD document filter simplifies style and layout but keeps the text timeline.

Design side : TLC checks on spec/Lcd.tla that the filter *as specified* (operator Lcd) satisfies every postcondition of the
              property (NoSteps, OnlyAllowedStyles/AsConfigured, SafeArea, Merged/Redirected, SameTextTimeline,
              ConfiguredValues, Idempotent) on a bounded family of documents x configurations x alignment choices.
Spec -> code: the same family (exported by TLC as JSON) is built with the model API, filtered with
              LCDDocFilter(config).process(doc) once and twice, projected, and snapshots are taken with ISD.from_model
              before and after on a half-second grid.
Code -> spec: seeded random documents richer than the family (more regions, all units with fractional values, nested
              content, every style property, hiding styles, conflicting nested region references, region end = 0).
Both kinds of recordings are judged by spec/Trace_Lcd.tla with the postcondition predicates of Lcd.tla.
"""
from __future__ import annotations

import itertools
import json
import os
from concurrent.futures import ThreadPoolExecutor

from .. import tlc as T
from .. import lcd_docs as LD

PID = "C16"
LEVEL = "model_checking"

UNITS = ["pct", "px", "c", "r"]

CFG_DESIGN = """CONSTANTS
  Units <- MCUnits
  SafeAreas <- MCSafe
  MaxSteps = 4
  Deep = {deep}
SPECIFICATION Spec
INVARIANT Inv_NoSteps
INVARIANT Inv_OnlyAllowed
INVARIANT Inv_SafeArea
INVARIANT Inv_Merged
INVARIANT Inv_SameTextTimeline
INVARIANT Inv_ConfiguredValues
INVARIANT Inv_Idempotent
INVARIANT Inv_Total
"""
CFG_EXPORT = """CONSTANTS
  Units <- MCUnits
  SafeAreas <- MCSafe
  MaxSteps = 4
  Deep = {deep}
INIT XInit
NEXT XNext
"""
CFG_TRACE = """CONSTANTS
  Units <- MCUnits
  SafeAreas <- MCSafe
  MaxSteps = 4
  Deep = {deep}
INIT TInit
NEXT TNext
"""

ALL_CFGS = [{"sa": sa, "pta": pta, "color": c, "bg": b}
            for sa, pta, c, b in itertools.product([0, 10, 30], [False, True], ["none", "ff0000ff"], ["none", "0000ffff"])]
RANDOM_CFG_COLORS = ["none", "ff0000ff", "ffffff80", "00000000"]


def mc_module(name, extends, safe, extra=""):
  return (f"---- MODULE {name} ----\nEXTENDS {extends}\nMCUnits == {T.to_tla(set(UNITS))}\n"
          f"MCSafe == {T.to_tla(set(safe))}\n{extra}\n====\n")


def export_family(deep):
  extra = ('SX == INSTANCE SequencesExt\n'
           'ASSUME PrintT(<<"FAMILY", Cardinality(F1), Cardinality(F2), Cardinality(F3), Cardinality(F4), Cardinality(Family)>>)\n'
           'ASSUME ndJsonSerialize("family.ndjson", SX!SetToSeq(Family))\n'
           'XInit == phase = "x" /\\ doc = 0 /\\ cfg = 0 /\\ al = 0 /\\ out = 0 /\\ out2 = 0\n'
           'XNext == UNCHANGED vars\n')
  res = T.run_tlc("MC_LcdExport", CFG_EXPORT.format(deep="TRUE" if deep else "FALSE"), workers=1,
                  extra_files={"MC_LcdExport.tla": mc_module("MC_LcdExport", "Lcd, Json", [10], extra)},
                  timeout=900, name="lcd_export")
  fam = res.values("FAMILY")
  docs = []
  with open(os.path.join(res.workdir, "family.ndjson")) as fh:
    for line in fh:
      if line.strip():
        docs.append(json.loads(line))
  if not fam or fam[0][5] != len(docs):
    raise T.MachineryError("family export incomplete: " + res.out[-1500:])
  return res, docs, fam[0][1:]


def design_check(deep, safe):
  return T.run_tlc("MC_Lcd", CFG_DESIGN.format(deep="TRUE" if deep else "FALSE"), workers=4,
                   extra_files={"MC_Lcd.tla": mc_module("MC_Lcd", "Lcd", safe)}, timeout=3000, name="lcd_design",
                   java_opts=("-Xmx6g",))


def make_config(c, route=0):
  """route 0: the configuration object built from values; route 1: parsed from the dictionary form the command line uses -
  the SAME dictionary object parsed twice, the second result is used (parsing reads the dictionary, it does not consume it)."""
  from ttconv.filters.doc.lcd import LCDDocFilterConfig
  if route == 1:
    d = {"safe_area": c["sa"], "preserve_text_align": bool(c["pta"])}
    if c["color"] != "none":
      d["color"] = "#" + c["color"]
    if c["bg"] != "none":
      d["bg_color"] = "#" + c["bg"]
    LCDDocFilterConfig.parse(d)
    return LCDDocFilterConfig.parse(d)
  return LCDDocFilterConfig(safe_area=c["sa"], preserve_text_align=c["pta"],
                            color=None if c["color"] == "none" else LD.parse_color(c["color"]),
                            bg_color=None if c["bg"] == "none" else LD.parse_color(c["bg"]))


_FILTERS = {}


def run_case(adoc, c, kind):
  """Build, snapshot, filter, project, snapshot, filter again, project.  Returns None when the *input* is unusable."""
  from ttconv.filters.doc.lcd import LCDDocFilter
  doc0 = LD.build(adoc)
  before = LD.project(doc0)
  ticks = LD.grid(before)
  try:
    visb = [[o["tid"] for o in tick] for tick in LD.visible(doc0, ticks)]
  except Exception as ex:  # pylint: disable=broad-except
    if kind == "family":
      raise T.MachineryError(f"ISD.from_model fails on a family document before the filter: {ex!r} {json.dumps(adoc)}")
    return None
  doc = LD.build(adoc)
  rec = {"kind": kind, "cfg": c, "before": before, "raised": "", "after": before, "raised2": "", "after2": before,
         "obs_raised": "", "ticks": ticks, "visb": visb, "obsa": [[] for _ in visb]}
  # one filter object per configuration and worker process, used for one document after the other (as a service that
  # converts many files does): what it did to an earlier document must not show in a later one
  # ... and one filter object per worker whose configuration is REPLACED between two documents (a long-lived filter that is
  # reconfigured): the filter applies the configuration it has when process() is called
  key = json.dumps(c, sort_keys=True)
  import zlib
  h = zlib.crc32((key + json.dumps(adoc, sort_keys=True)[:200]).encode())
  route = 1 if h % 3 == 0 else 0
  if kind == "random" and h % 4 == 1:
    flt = _FILTERS.get("reconfigured")
    if flt is None:
      flt = _FILTERS["reconfigured"] = LCDDocFilter(make_config({"sa": 10, "pta": False, "color": "none", "bg": "none"}))
    flt.config = make_config(c, route)
  else:
    flt = _FILTERS.get(key) if kind == "random" else None
    if flt is None:
      flt = LCDDocFilter(make_config(c, route))
      if kind == "random":
        _FILTERS[key] = flt
  from ..core import AltContext, alt_for
  try:
    with AltContext(alt_for(("lcd", key, len(json.dumps(adoc, sort_keys=True))))):
      flt.process(doc)
  except Exception as ex:  # pylint: disable=broad-except
    rec["raised"] = type(ex).__name__
    return rec
  rec["after"] = LD.project(doc)
  try:
    rec["obsa"] = LD.visible(doc, ticks)
  except Exception as ex:  # pylint: disable=broad-except
    rec["obs_raised"] = type(ex).__name__
  try:
    LCDDocFilter(make_config(c)).process(doc)
    rec["after2"] = LD.project(doc)
  except Exception as ex:  # pylint: disable=broad-except
    rec["raised2"] = type(ex).__name__
    rec["after2"] = rec["after"]
  return rec


def _run_task(task):
  return run_case(*task)


def features(rec, clause):
  """Narrow facts about the failing case (what known-finding selectors and the grouped summary use); only the facts that
  can matter for the failing clause are reported, so that groups stay readable."""
  bf = rec["before"]
  regs = bf["regions"]
  nodes = bf["nodes"]
  everything = regs + nodes
  names = set(bf["init"]["sty"])
  for x in nodes:
    names |= set(x["sty"])

  def refs_on_path(k):
    out = set()
    while k:
      if nodes[k - 1]["reg"]:
        out.add(nodes[k - 1]["reg"])
      k = nodes[k - 1]["par"]
    return out
  hiding = {"Display", "Visibility", "Opacity"}
  f = {"kind": rec["kind"], "sa": rec["cfg"]["sa"], "n_regions": len(regs), "n_nodes": len(nodes),
       "max_steps": max([len(x["steps"]) for x in everything] or [0])}
  f["more_than_one_step_on_an_element"] = f["max_steps"] > 1
  if clause in ("filter_raised", "second_application_raised", "snapshot_raised"):
    f["raised"] = rec["raised"] or rec["raised2"] or rec["obs_raised"]
    f["has_body"] = bool(nodes)
    f["bg_set"] = rec["cfg"]["bg"] != "none"
    f["region_has_position"] = any(r["pos"] != "none" for r in regs)
  if clause in ("allowed_styles", "idempotent"):
    f["position_outside_region"] = "Position" in names
  if clause in ("text_timeline", "references_redirected", "merged", "idempotent", "configured_text_align", "tree_kept"):
    f["region_end_zero"] = any(r["e"] == 0 for r in regs)
    f["region_ref_conflict"] = any(x["tid"] > 0 and len(refs_on_path(k + 1)) > 1 for k, x in enumerate(nodes))
  if clause == "configured_text_align":
    f["pta"] = rec["cfg"]["pta"]
    # a region was merged into a retained region that specifies another tts:textAlign
    ta_of = {r["id"]: r["ta"] for r in regs}
    kept = {r["id"] for r in rec["after"]["regions"]}
    f["merged_regions_differ_in_text_align"] = any(
      x["reg"] and x["reg"] not in kept and y["reg"] in ta_of and ta_of[x["reg"]] != ta_of[y["reg"]]
      for x, y in zip(nodes, rec["after"]["nodes"]))
  if clause in ("configured_color", "styles_as_configured"):
    f["color_set"] = rec["cfg"]["color"] != "none"
  if clause in ("configured_bg_color", "styles_as_configured"):
    f["bg_set"] = rec["cfg"]["bg"] != "none"
  if clause == "text_timeline":
    # shape of the divergence: only additional texts after the filter, all of them withheld before by conflicting references
    conflicting = {x["tid"] for k, x in enumerate(nodes) if x["tid"] > 0 and len(refs_on_path(k + 1)) > 1}
    extra = set()
    lost = set()
    for vb, oa in zip(rec["visb"], rec["obsa"]):
      va = {o["tid"] for o in oa}
      extra |= va - set(vb)
      lost |= set(vb) - va
    f["only_additional_texts_after"] = bool(extra) and not lost
    f["additional_texts_all_had_conflicting_refs"] = bool(extra) and extra <= conflicting
    f["hides"] = any(hiding & (set(x["sty"]) | {s["p"] for s in x["steps"]}) for x in everything) or bool(hiding & set(bf["init"]["sty"]))
  return f


def validate(ctx, recs, deep, label):
  nproc = min(6, max(1, len(recs) // 200))
  parts = [list(range(k, len(recs), nproc)) for k in range(nproc)]

  def one(part):
    text = "\n".join(json.dumps(recs[j], separators=(",", ":")) for j in part) + "\n"
    return T.run_tlc("MC_Trace_Lcd", CFG_TRACE.format(deep="TRUE" if deep else "FALSE"), workers=1,
                     env={"TRACE_FILE": "trace.ndjson"},
                     extra_files={"MC_Trace_Lcd.tla": mc_module("MC_Trace_Lcd", "Trace_Lcd", [10]), "trace.ndjson": text},
                     timeout=3000, name="lcd_trace_" + label, java_opts=("-Xmx4g",))

  with ThreadPoolExecutor(max_workers=nproc) as ex:
    outs = list(ex.map(one, parts))
  notes = {}
  for part, res in zip(parts, outs):
    done = res.values("DONE")
    if not done or done[0][1] != len(part):
      raise T.MachineryError(f"trace {label} not consumed: " + res.out[-2000:])
    ctx.tlc(res, "trace validation " + label)
    for _, rid, what in res.values("NOTE"):
      notes[what] = notes.get(what, 0) + 1
    for _, rid, clause in res.values("FAIL"):
      rec = recs[rid - 1]
      if clause.startswith("MACHINERY_"):
        raise T.MachineryError(f"{clause}: the projection of a built family document is not the family member: "
                               + json.dumps(rec["before"])[:1500])
      f = features(rec, clause)
      case = {"kind": rec["kind"], "cfg": rec["cfg"], "before": rec["before"], "raised": rec["raised"]}
      if not rec["raised"]:
        case.update({"after": rec["after"], "after_twice": rec["after2"], "raised_second_time": rec["raised2"],
                     "snapshot_raised": rec["obs_raised"], "ticks": rec["ticks"], "visible_before": rec["visb"], "visible_after": rec["obsa"]})
      ctx.violation(clause, case, f, f"{rec['kind']} document, cfg={json.dumps(rec['cfg'])}, {len(rec['before']['regions'])} region(s), "
                    f"{len(rec['before']['nodes'])} node(s)" + (f", raised {rec['raised']}" if rec["raised"] else ""))
  for k, v in notes.items():
    ctx.count(label + ":" + k, v)


def replay(ctx, rc):
  """Re-runs one recorded case (abstract document + configuration) through the implementation and the trace spec."""
  case = rc["case"]
  rec = run_case(case["before"], case["cfg"], "random")
  if rec is None:
    raise T.MachineryError("replay: ISD.from_model fails on the document before the filter")
  rec["id"] = 1
  ctx.traces += 1
  ctx.rule = "replay of one recorded case"
  validate(ctx, [rec], False, "replay")


def run(ctx):
  if ctx.replay_case is not None:
    return replay(ctx, ctx.replay_case)
  deep = ctx.thorough()
  ctx.rule = ("a case is one (document, configuration) pair run through LCDDocFilter on real model objects; distinct by "
              "(abstract document, configuration); non-trivial = the filter changed the projection of the document")
  exp, family, sizes = export_family(deep)
  ctx.tlc(exp, "family export")
  ctx.count("family_F1_geometry", sizes[0])
  ctx.count("family_F2_merging", sizes[1])
  ctx.count("family_F3_steps_styles", sizes[2])
  ctx.count("family_F4_structure", sizes[3])
  ctx.count("family_docs", len(family))

  pool = ThreadPoolExecutor(max_workers=1)
  design = pool.submit(design_check, deep, [0, 30] if deep else [10])

  # spec -> code: every family document; 4 of the 24 configurations per document (thorough) or 2 (quick), rotating so that
  # every configuration meets every sub-family
  tasks = []
  ncfg = 4 if deep else 2
  for k, adoc in enumerate(family):
    for j in range(ncfg):
      tasks.append((adoc, ALL_CFGS[(k * 5 + j * 7) % len(ALL_CFGS)], "family"))
  nfam = len(tasks)
  ctx.count("family_cases", nfam)

  # code -> spec: seeded random richer documents
  nrand = 4000 if deep else 500
  # (a dozen configurations per run, so that each filter object - see run_case - meets dozens of documents)
  cfg_pool = [{"sa": ctx.rng.choice([0, 5, 10, 17, 30]), "pta": ctx.rng.random() < 0.5,
               "color": ctx.rng.choice(RANDOM_CFG_COLORS), "bg": ctx.rng.choice(RANDOM_CFG_COLORS)} for _ in range(12 if not deep else 40)]
  for _ in range(nrand):
    adoc = LD.random_doc(ctx.rng)
    tasks.append((adoc, dict(ctx.rng.choice(cfg_pool)), "random"))

  # feature-length documents: more than a thousand paragraphs in one division, under every kind of configuration
  for k in range(4 if deep else 2):
    adoc = LD.huge_doc(ctx.rng, ctx.rng.choice([1100, 1300]))
    c = {"sa": ctx.rng.choice([0, 10]), "pta": k % 2 == 0, "color": RANDOM_CFG_COLORS[-1] if k % 2 else "none", "bg": RANDOM_CFG_COLORS[-1] if k < 2 else "none"}
    tasks.append((adoc, c, "huge"))

  import multiprocessing
  with multiprocessing.get_context("fork").Pool(4 if deep else 3) as mp:
    out = mp.map(_run_task, tasks, chunksize=64)
  recs = [r for r in out if r is not None]
  skipped = len(out) - len(recs)
  ctx.count("random_cases", nrand - skipped)
  ctx.count("random_inputs_unusable", skipped)
  for n, rec in enumerate(recs):
    rec["id"] = n + 1
    if rec["raised"] or rec["after"] != rec["before"]:
      ctx.nontrivial(json.dumps([rec["before"], rec["cfg"]], sort_keys=True))
  ctx.traces += len(recs)
  ctx.evaluations += len(recs)
  validate(ctx, recs, deep, "lcd")

  res = design.result()
  pool.shutdown()
  if res.violated:
    raise T.MachineryError("Lcd.tla violates its own postconditions: " + str(res.violated) + "\n" + res.out[-2500:])
  ctx.tlc(res, "design check: Lcd satisfies its postconditions on the family")
  some = next((r for r in recs if r["kind"] == "family" and len(r["before"]["regions"]) == 2 and not r["raised"]), recs[0])
  ctx.sample({"kind": some["kind"], "cfg": some["cfg"], "regions_before": [r["id"] for r in some["before"]["regions"]],
              "regions_after": some["after"]["regions"], "visible_before": some["visb"][:4]})
  ctx.exhaustive = False       # every family document, but a rotating subset of the 24 configurations per document
  ctx.assume("how the resulting display alignment of a region is chosen is not part of C16 (the spec takes it as a parameter "
             "and only requires it to be stable)")
  ctx.assume("the preserved text alignment is the specified/inherited (non-animated) alignment of the paragraph before the filter")
  ctx.assume("harness/lcd_docs.py projection and snapshot lexing (public getters, ISD.from_model) are trusted; the projection "
             "of every built family document is checked to be the TLC-enumerated family member")
