"""C17 - every 16-bit CEA-608 word is decoded totally, unambiguously and per the standard.

Design side : TLC sweeps all 65 536 word values on spec/Cea608Word.tla: the class predicates (written from the
              CTA-608 bit patterns) partition the space, nothing depends on parity bits.
Code -> spec: SccWord.from_value is run on all 65 536 values (both tiers: exhaustive) and scc disassembly on all lines
              of <= 3 (quick) / <= 4 (thorough) words over a reduced alphabet; spec/Trace_Cea608Word.tla compares
              every observation with the spec operators.
"""
from __future__ import annotations

from ..core import flag
import itertools
import json
import re

from .. import tlc as T

PID = "C17"
LEVEL = "model_checking"

CFG_SWEEP = """SPECIFICATION Spec
INVARIANT ExactlyOneClass
INVARIANT ParityInvariant
INVARIANT ChannelOnlyForCodes
INVARIANT PacWellFormed
"""
CFG_TRACE = """INIT TInit
NEXT TNext
"""

# reduced alphabet for disassembly lines: one or two representatives per class, both channels, field 2, unknowns
ALPHABET = [0x0000, 0x8080, 0x4142, 0x4100, 0xC1C2, 0x2A5C, 0x9140, 0x1952, 0x1570, 0x9470, 0x1120, 0x192F,
            0x1420, 0x942C, 0x1C2F, 0x152D, 0x1721, 0x1F23, 0x1020, 0x172E, 0x1F2D, 0x1130, 0x1939, 0x1220, 0x1B3F,
            0x1400, 0x1630, 0x0141, 0x1060,
            # the same code addressed to the other channel / field (must not be rendered like its neighbour)
            0x1C20, 0x1520, 0x1940, 0x9137, 0x1937, 0x1A20]


def _par(b):
  return b | 0x80 if bin(b).count("1") % 2 == 0 else b


def _w(v):
  return "%02x%02x" % (_par((v >> 8) & 0x7F), _par(v & 0x7F))


def rec_scc(v, dbl, pad=False):
  """A channel-1 pop-on caption shown, the word under test on a line of its own, a second channel-1 caption, an erase."""
  mid = " ".join([_w(0)] * (2 if dbl else 1)) if pad else " ".join([_w(v)] * (2 if dbl else 1))
  return ("Scenarist_SCC V1.0\n\n00:00:01:00\t9420 9420 9470 9470 c1c2 c3c4 942f 942f\n\n00:00:02:00\t" + mid +
          "\n\n00:00:03:00\t9420 9420 94d0 94d0 c5c6 942f 942f\n\n00:00:05:00\t942c 942c\n\n")


def rec_scc_inside(v, dbl, pad=False):
  """The word under test in the MIDDLE of a channel-1 row that is still being composed: channel-1 text, then a block that is
  addressed to channel 2 (its own resume / address / a character, then the word), then channel 1 resumes and the row goes on."""
  block = ["1c20", "1c20", "1c70", "1c70", _w(0xE5E5)] + [_w(v)] * (2 if dbl else 1)
  mid = " ".join([_w(0)] * len(block)) if pad else " ".join(block)
  return ("Scenarist_SCC V1.0\n\n00:00:01:00\t9420 9420 9470 9470 c1c2\n\n00:00:01:10\t" + mid +
          "\n\n00:00:01:20\t9420 9420 c3c4 942f 942f\n\n00:00:05:00\t942c 942c\n\n")


def rec_scc_resume(v, dbl, pad=False):
  """Channel-1 codes sent ONCE each (no doubling): a channel-1 line ends with a resume code, the word under test follows on
  its own line, and channel 1 goes on with the very same resume code - which is a new code, not the second copy of a pair."""
  mid = " ".join([_w(0)] * (2 if dbl else 1)) if pad else " ".join([_w(v)] * (2 if dbl else 1))
  return ("Scenarist_SCC V1.0\n\n00:00:01:00\t9420 9470 c1c2 9420\n\n00:00:01:10\t" + mid +
          "\n\n00:00:01:20\t9420 c3c4 942f\n\n00:00:05:00\t942c\n\n")


def _doc_digest(text):
  import ttconv.scc.reader as reader
  import ttconv.model as m
  try:
    doc = reader.to_model(text)
  except Exception as ex:  # pylint: disable=broad-except
    return "raised " + type(ex).__name__
  out = []
  body = doc.get_body()
  if body is not None:
    for p in body.dfs_iterator():
      if isinstance(p, m.P):
        txt = "".join(e.get_text() if isinstance(e, m.Text) else "|" for e in p.dfs_iterator() if isinstance(e, (m.Text, m.Br)))
        r = p.get_region()
        out.append("%s-%s %s @%s" % (p.get_begin(), p.get_end(), txt, r.get_id() if r is not None else "-"))
  return "; ".join(out)


def long_stream(count, kind, pad):
  """`count` pop-on captions for channel 1, each followed by a caption addressed to channel 2 (kind "ch2"), by field-2 codes
  with text (kind "f2"), or by a channel-2 caption on a line whose time code runs BACKWARDS (kind "back").  With pad=True the
  words that are not channel-1 data are replaced by null padding: the reader must return the same document either way."""
  lines = []
  f = 30
  for k in range(count):
    a, b = 0x41 + k % 26, 0x61 + (k // 26) % 26
    lines.append((f, "9420 9420 9470 9470 %s 942f 942f" % _w(a * 256 + b)))
    f += 12
    if kind == "ch2":
      other = ["1c20", "1c20", "1c70", "1c70", _w(0x5a5a), _w(0x5a5a), "1c2f", "1c2f"]
    elif kind == "f2":
      other = ["1520", "1520", _w(0x5a5a), "152f", "152f", "152c"]
    else:
      other = ["1c20", "1c20", "1c70", "1c70"]
    words = [_w(0)] * len(other) if pad else [(_w(int(w, 16)) if w[:2] in ("1c", "15") else w) for w in other]
    lines.append((f, " ".join(words)))
    f += 12
    if kind == "back":
      # channel-2 text on a line that is stamped EARLIER than the line before it
      lines.append((f - 20, " ".join([_w(0)] * 2 if pad else [_w(0x5a5a), _w(0x5a5a)])))
      lines.append((f, "9420 9420"))
      f += 6
    lines.append((f, "942c 942c"))
    f += 10
  return "Scenarist_SCC V1.0\n\n" + "".join("00:%02d:%02d:%02d\t%s\n\n" % (t // 1800, (t // 30) % 60, t % 30, ws) for t, ws in lines)


def long_records():
  out = []
  for kind in ("ch2", "f2", "back"):
    for count in (3, 40, 101, 130):
      d = _doc_digest(long_stream(count, kind, False))
      ref = _doc_digest(long_stream(count, kind, True))
      out.append({"kind": "ignlong", "v": count, "how": kind, "same": 1 if d == ref else 0, "n": ref.count(";") + 1 if ref else 0,
                  "doc": d[:200], "ref": ref[:200]})
  return out


def ignored_records():
  out = []
  for hi in range(0x10, 0x20):
    for lo in range(0x20, 0x80):
      v = hi * 256 + lo
      for dbl in (0, 1):
        d = _doc_digest(rec_scc(v, dbl))
        ref = _doc_digest(rec_scc(v, dbl, pad=True))
        out.append({"kind": "ign", "v": v, "dbl": dbl, "same": 1 if d == ref else 0, "doc": d[:300], "ref": ref[:300]})
        if hi >= 0x18 or hi in (0x15,):
          # words for channel 2 / field 2 also inside a row that channel 1 is still composing
          d = _doc_digest(rec_scc_inside(v, dbl))
          ref = _doc_digest(rec_scc_inside(v, dbl, pad=True))
          out.append({"kind": "ign", "v": v, "dbl": dbl, "same": 1 if d == ref else 0, "doc": d[:300], "ref": ref[:300], "inside": 1})
          d = _doc_digest(rec_scc_resume(v, dbl))
          ref = _doc_digest(rec_scc_resume(v, dbl, pad=True))
          out.append({"kind": "ign", "v": v, "dbl": dbl, "same": 1 if d == ref else 0, "doc": d[:300], "ref": ref[:300], "inside": 2})
  return out


def colour_name(c):
  from ttconv.style_properties import NamedColors
  if c is None:
    return "none"
  rgb = tuple(c.components[:3])
  for n in ("white", "green", "blue", "cyan", "red", "yellow", "magenta", "black"):
    if tuple(NamedColors[n].value.components[:3]) == rgb:
      return n
  if rgb == (0, 255, 0):
    return "green"  # CTA-608 names colours only; ttconv uses lime (00FF00) for the background green and CSS green for text
  return "rgb" + str(rgb)


def observe(value):
  """Class/channel/attributes/text of one word through the public API."""
  from ttconv.scc.word import SccWord
  from ttconv.scc.codes import SccChannel
  from ttconv.scc.codes.attribute_codes import SccAttributeCode
  from ttconv.scc.codes.control_codes import SccControlCode
  from ttconv.scc.codes.extended_characters import SccExtendedCharacter
  from ttconv.scc.codes.mid_row_codes import SccMidRowCode
  from ttconv.scc.codes.preambles_address_codes import SccPreambleAddressCode
  from ttconv.scc.codes.special_characters import SccSpecialCharacter
  from ttconv.style_properties import FontStyleType
  wd = SccWord.from_value(value)
  code = wd.get_code()
  o = {"cls": "UNKNOWN", "ch": 0, "row": -1, "ind": -1, "col": "none", "it": 0, "ul": 0, "nm": "", "cps": []}
  chan = wd.get_channel()
  o["ch"] = 1 if chan is SccChannel.CHANNEL_1 else 2 if chan is SccChannel.CHANNEL_2 else 0
  if wd.value == 0:
    o["cls"] = "PAD"
  elif wd.byte_1 >= 0x20:
    o["cls"] = "TEXT"
    o["cps"] = [ord(c) for c in wd.to_text()]
  elif isinstance(code, SccPreambleAddressCode):
    o["cls"] = "PAC"
    o["row"] = code.get_row()
    o["ind"] = -1 if code.get_indent() is None else code.get_indent()
    o["col"] = colour_name(code.get_color())
    o["it"] = 1 if code.get_font_style() is FontStyleType.italic else 0
    td = code.get_text_decoration()
    o["ul"] = flag(td.underline) if td is not None else 0
  elif isinstance(code, SccMidRowCode):
    o["cls"] = "MIDROW"
    o["col"] = colour_name(code.get_color())
    o["it"] = 1 if code.get_font_style() is FontStyleType.italic else 0
    td = code.get_text_decoration()
    o["ul"] = flag(td.underline) if td is not None else 0
  elif isinstance(code, SccControlCode):
    o["cls"] = "CONTROL"
    o["nm"] = code.get_name()
  elif isinstance(code, SccAttributeCode):
    o["cls"] = "ATTR"
    o["col"] = colour_name(code.get_color())
    a = code.get_color().components[3]
    o["nm"] = "fg" if not code.is_background() else {0xFF: "opaque", 0x88: "semi", 0x00: "transparent"}.get(a, "alpha%d" % a)
    td = code.get_text_decoration()
    o["ul"] = flag(td.underline) if td is not None else 0
  elif isinstance(code, SccSpecialCharacter):
    o["cls"] = "SPECIAL"
    o["cps"] = [ord(c) for c in code.get_unicode_value()]
  elif isinstance(code, SccExtendedCharacter):
    o["cls"] = "EXTENDED"
    o["cps"] = [ord(c) for c in code.get_unicode_value()]
  return o


_GROUP = re.compile(r"\{([^{}]*)\}")


def lex_disassembly(text):
  """Lex a disassembly rendering: 'HH:MM:SS:FF<TAB>' head, then {...} groups, '[CCn]' channel prefixes, characters."""
  head = 1 if re.match(r"^\d\d:\d\d:\d\d[:;]\d\d\t", text) else 0
  body = text.split("\t", 1)[1] if "\t" in text else text
  toks = []
  i = 0
  pending_ch = -1
  while i < len(body):
    c = body[i]
    if c == "{":
      m = _GROUP.match(body, i)
      if m is None:
        toks.append({"k": "C", "cp": ord(c), "ch": -1, "row": -1, "rest": ""})
        i += 1
        continue
      inner = m.group(1)
      ch = -1
      mm = re.match(r"^(CC1|CC2|None)\|(.*)$", inner, re.S)
      if mm:
        ch = {"CC1": 1, "CC2": 2, "None": 0}[mm.group(1)]
        inner = mm.group(2)
      row = -1
      rest = inner
      mr = re.match(r"^(\d\d)(.*)$", inner, re.S)
      if mr:
        row = int(mr.group(1))
        rest = mr.group(2)
      toks.append({"k": "G", "ch": ch, "row": row, "rest": rest, "cp": 0})
      i = m.end()
    elif c == "[" and re.match(r"\[(CC1|CC2|None)\]", body[i:]):
      m = re.match(r"\[(CC1|CC2|None)\]", body[i:])
      pending_ch = {"CC1": 1, "CC2": 2, "None": 0}[m.group(1)]
      i += m.end()
    else:
      toks.append({"k": "C", "cp": ord(c), "ch": pending_ch, "row": -1, "rest": ""})
      pending_ch = -1
      i += 1
  return head, toks


def _make_word(SccWord, x, route):
  import copy
  route %= 5
  if route == 0:
    return SccWord.from_value(x)
  if route == 1:
    return SccWord.from_bytes(x >> 8, x & 0xFF)
  if route == 2:
    return SccWord((x >> 8) & 0x7F, x & 0x7F)        # (the constructor takes the two bytes without their parity bits)
  if route == 3:
    return copy.deepcopy(SccWord.from_value(x))
  return SccWord.from_str("%04x" % x)


def _spell(x, variant):
  """Four hexadecimal digits for a word, as files spell them."""
  hi, lo = (x >> 8) & 0x7F, x & 0x7F
  if variant % 2:
    hi |= 0 if bin(hi).count("1") % 2 else 0x80        # odd parity
    lo |= 0 if bin(lo).count("1") % 2 else 0x80
  s = "%02x%02x" % (hi, lo)
  mode = (variant // 2) % 4
  if mode == 1:
    return s.upper()
  if mode == 2:
    return "".join(c.upper() if i % 2 else c for i, c in enumerate(s))
  if mode == 3:
    return "".join(c.upper() if i % 2 == 0 else c for i, c in enumerate(s))
  return s


def run(ctx):
  from ttconv.scc.line import SccLine
  from ttconv.scc.word import SccWord
  from ttconv.time_code import SmpteTimeCode, FPS_30

  ctx.rule = ("all 65 536 word values through SccWord.from_value (class, channel, attributes, text) and all disassembly lines "
              "of bounded length over a 29-word alphabet; non-trivial = distinct (class, channel, decoded attributes/text) "
              "outcome, or a distinct line")
  # 1. design sweep
  res = T.run_tlc("Cea608Word", CFG_SWEEP, workers=8, timeout=900, name="sweep")
  if res.violated:
    raise T.MachineryError("Cea608Word violates its own invariants: " + str(res.violated))
  ctx.tlc(res, "sweep of 65536 words: partition, parity invariance")

  # 2. implementation on all 65 536 words
  recs = []
  for hi in range(256):
    rec = {"kind": "w", "hi": hi}
    obs = [observe(hi * 256 + lo) for lo in range(256)]
    for key in ("cls", "ch", "row", "ind", "col", "it", "ul", "nm", "cps"):
      rec[key] = [o[key] for o in obs]
    recs.append(rec)
    for lo, o in enumerate(obs):
      ctx.nontrivial((o["cls"], o["ch"], o["row"], o["ind"], o["col"], o["it"], o["ul"], o["nm"], tuple(o["cps"])))
  ctx.evaluations = 65536
  import os
  if os.environ.get("VERIF_CORRUPT"):
    recs[0x94]["ch"][0x2C] = 2        # self-test of the binding: EDM (942C) recorded as channel 2

  # 3. disassembly of lines
  maxlen = 4 if ctx.thorough() else 3
  lines = []
  for n in range(1, maxlen + 1):
    if n == 4:
      # all 4-word lines over a 12-word sub-alphabet + random ones over the whole alphabet
      sub = ALPHABET[::3] + [0x1F2D, 0x1B3F]
      lines.extend(itertools.product(sub, repeat=4))
      lines.extend(tuple(ctx.rng.choice(ALPHABET) for _ in range(4)) for _ in range(20000))
    else:
      lines.extend(itertools.product(ALPHABET, repeat=n))
  if not ctx.thorough():
    lines.extend(tuple(ctx.rng.choice(ALPHABET) for _ in range(4)) for _ in range(3000))
  for k, ws in enumerate(lines):
    show = k % 2
    if k % 7 == 3 and ws:
      # the line as it stands in a file: the words may be separated by more than one blank, blanks may follow the tab or
      # the last word
      sep = ["  ", " ", "   "][(k // 7) % 3]
      # ... and are spelled with or without the odd-parity bit of each byte, in lower-case, upper-case or mixed-case digits
      text_line = ("00:00:00:00\t" + ("" if (k // 21) % 2 else " ") + sep.join(_spell(x, k // 7 + j) for j, x in enumerate(ws))
                   + (" " if (k // 42) % 2 else ""))
      line = SccLine.from_str(text_line)
      if line is None:
        recs.append({"kind": "dis", "ws": list(ws), "show": show, "head": 0, "toks": []})
        continue
    else:
      # the word objects are made through every public way there is (and copied, as a caller that keeps lines around does):
      # what a word is depends on its value, not on which object holds it
      line = SccLine(SmpteTimeCode.parse("00:00:00:00", FPS_30), [_make_word(SccWord, x, k + j) for j, x in enumerate(ws)])
    text = line.to_disassembly(show_channels=bool(show))
    head, toks = lex_disassembly(text)
    recs.append({"kind": "dis", "ws": list(ws), "show": show, "head": head, "toks": toks})
  ctx.evaluations += len(lines)
  ctx.count("disassembly_lines", len(lines))

  # "... so that only channel-1 field-1 data is ever decoded": every code word (first byte 10h-1Fh) placed on a line of its
  # own inside a channel-1 caption stream; "same" = the document equals the one read with null padding in its place
  ign = ignored_records()
  if any(r["ref"].startswith("raised") or "ABCD" not in r["ref"] for r in ign) or not any(r["same"] == 0 for r in ign):
    raise T.MachineryError("the reference stream of the channel experiment is not read as two captions, or no word at all "
                           "changes the document: the experiment observes nothing")
  recs.extend(ign)
  lng = long_records()
  if any(r["ref"].startswith("raised") or r["n"] < r["v"] for r in lng):
    raise T.MachineryError("the padded reference of a long channel stream is not read as one caption per channel-1 caption: " + str(lng[0]))
  recs.extend(lng)
  ctx.evaluations += len(ign) + len(lng)
  ctx.count("words_embedded_in_a_channel_1_stream", len(ign))

  text = "\n".join(json.dumps(x, separators=(",", ":")) for x in recs) + "\n"
  res = T.run_tlc("Trace_Cea608Word", CFG_TRACE, workers=1, env={"TRACE_FILE": "trace.ndjson"},
                  extra_files={"trace.ndjson": text}, timeout=3000, name="trace17", java_opts=("-Xmx8g",))
  done = res.values("DONE")
  if not done or done[0][1] != len(recs):
    raise T.MachineryError("trace not consumed: " + res.out[-1500:])
  ctx.tlc(res, "trace validation of 65536 words + disassembly lines")
  ctx.traces = len(recs)
  for _, ri, x, clause in res.values("FAIL"):
    rec = recs[ri - 1]
    if rec["kind"] == "ignlong":
      ctx.violation(clause, {"captions_per_channel": rec["v"], "other_data": rec["how"], "scc": long_stream(rec["v"], rec["how"], False)[:1500],
                             "document": rec["doc"], "document_with_padding": rec["ref"]}, {"count": rec["v"], "how": rec["how"]},
                    "%d captions interleaved with %s data: the reader decodes something else than channel 1" % (rec["v"], rec["how"]))
    elif rec["kind"] == "ign":
      ctx.violation(clause, {"word": "0x%04X" % rec["v"], "scc": (rec_scc_inside if rec.get("inside") else rec_scc)(rec["v"], rec["dbl"]), "document_with_word": rec["doc"],
                             "document_with_padding": rec["ref"]}, {"word": rec["v"], "doubled": rec["dbl"]},
                    "word 0x%04X between two channel-1 captions changes what the reader decodes" % rec["v"])
    elif rec["kind"] == "w":
      lo = x % 256
      obs = {k: rec[k][lo] for k in ("cls", "ch", "row", "ind", "col", "it", "ul", "nm", "cps")}
      ctx.violation(clause, {"word": "0x%04X" % x, "observed": obs}, {"word": x, "stripped": x & 0x7F7F},
                    "word 0x%04X: %s" % (x, json.dumps(obs)))
    else:
      ctx.violation(clause, {"line_words": ["0x%04X" % v for v in rec["ws"]], "show_channels": rec["show"], "tokens": rec["toks"]},
                    {"words": rec["ws"], "word": x}, "disassembly of " + " ".join("%04x" % v for v in rec["ws"]))
  ctx.sample({"word": "0x9470", "observed": observe(0x9470)})
  ctx.sample({"word": "0x1F5E", "observed": observe(0x1F5E)})
  ctx.sample({"disassembly_record": recs[256 + 40]})
  ctx.exhaustive = True
  ctx.assume("glyph alternates accepted for CTA-608 glyphs with several customary Unicode renderings are listed in "
             "spec/Cea608Word.tla (Ext2/Ext3)")
  ctx.assume("second text byte 01h..1Fh is undefined in CTA-608 and is not judged")
