"""C18 - readers and writers fail only in documented ways, on any input.

Design side : spec/Pipeline.tla - input = base file + sequence of structural faults; Read ends in a documented outcome class;
              every post-read stage is total on a returned document.  TLC enumerates all fault sequences up to the bound.
Spec -> code: every enumerated fault sequence (all single faults; a seeded sample of pairs in the quick tier, all pairs on
              two base files per format in the thorough tier) is rendered on base files of the five formats (bundled corpus
              + hand-written grammar-covering files + writer outputs) and pushed through the whole pipeline.
Code -> spec: seeded byte-level mutations of the same files (random bytes, splices, truncations) - plain exploration.
spec/Trace_Pipeline.tla accepts a recorded run iff it is a behaviour of the pipeline machine.
"""
from __future__ import annotations

import glob
import json
import os
import random
from concurrent.futures import ThreadPoolExecutor
from multiprocessing import Pool

from .. import tlc as T
from ..faults import KINDS, UNITS, POSITIONS, STAGES, apply_faults, run_pipeline

PID = "C18"
LEVEL = "fault_enumeration"

RES = "/repo/src/test/resources"

CFG = """CONSTANTS
  Formats <- MCFormats
  Kinds <- MCKinds
  Units <- MCUnits
  Positions <- MCPositions
  MaxFaults = {maxf}
  Stages <- MCStages
SPECIFICATION Spec
INVARIANT StagesOnlyOnDoc
INVARIANT TypeOK
PROPERTY ReadOnce
"""
CFG_TRACE = """CONSTANTS
  Formats <- MCFormats
  Kinds <- MCKinds
  Units <- MCUnits
  Positions <- MCPositions
  MaxFaults = 9
  Stages <- MCStages
INIT TInit
NEXT TNext
"""

TTML_1 = b"""<?xml version="1.0" encoding="UTF-8"?>
<tt xml:lang="en" xmlns="http://www.w3.org/ns/ttml" xmlns:tts="http://www.w3.org/ns/ttml#styling" xmlns:ttp="http://www.w3.org/ns/ttml#parameter"
    ttp:frameRate="30" ttp:frameRateMultiplier="1000 1001" ttp:tickRate="10" ttp:cellResolution="40 20" tts:extent="640px 480px">
 <head>
  <styling>
   <initial tts:color="yellow"/>
   <style xml:id="s1" tts:fontSize="150%" tts:textShadow="1px 1px 2px red, 2px 2px" tts:textOutline="red 5%" tts:fontFamily="Arial, 'Some Font', monospace"/>
   <style xml:id="s3" tts:fontFamily="Architect's Daughter, cursive, a fallback that is rather long, sansSerif" tts:fontSize="1c"/>
   <style xml:id="s4" tts:fontFamily='"unclosed double quote followed by forty more characters, serif'/>
   <style xml:id="s2" style="s1" tts:textEmphasis="filled circle before" tts:textDecoration="underline lineThrough" tts:padding="1c 2c"/>
  </styling>
  <layout>
   <region xml:id="r1" tts:origin="10% 10%" tts:extent="80% 40%" tts:displayAlign="after" begin="1s" end="20s" tts:writingMode="tbrl" tts:position="center bottom 10%">
    <style tts:backgroundColor="#00000080" tts:showBackground="whenActive"/>
    <set begin="2s" dur="1s" tts:opacity="0.5"/>
   </region>
   <region xml:id="r2" tts:origin="64px 48px" tts:extent="10c 2c" tts:rubyReserve="both 1em" tts:luminanceGain="1.5" tts:disparity="2%"/>
  </layout>
 </head>
 <body begin="00:00:01.000" timeContainer="par" style="s2">
  <div region="r1" begin="1s" dur="10s" xml:space="preserve">
   <p begin="00:00:02:15" end="300f" style="s1 s2"> one <span tts:color="rgba(255,0,0,128)" tts:fontStyle="italic">two<br/>three</span>
     <span><ruby><rb>base</rb><rt tts:rubyPosition="after">text</rt></ruby></span></p>
   <p timeContainer="seq" style="s3"><span dur="1.5s" style="s4">a</span><span begin="0.5s" end="20t">b</span><set tts:visibility="hidden" dur="2s"/></p>
  </div>
  <div region="r2" timeContainer="seq"><p dur="2s" tts:textAlign="center" tts:lineHeight="normal" tts:linePadding="0.5c">x&amp;y &lt;z&gt;</p><p end="3s" tts:fillLineGap="true" tts:multiRowAlign="start">second</p></div>
 </body>
</tt>
"""
# ruby whose annotation is only active for part of the time, display=none inside a ruby, an un-associated ruby
TTML_2 = b"""<?xml version="1.0" encoding="UTF-8"?>
<tt xml:lang="ja" xmlns="http://www.w3.org/ns/ttml" xmlns:tts="http://www.w3.org/ns/ttml#styling">
 <head><layout><region xml:id="r1" tts:extent="80% 20%" tts:origin="10% 70%"/></layout></head>
 <body><div>
  <p region="r1" begin="0s" end="10s">x<span tts:ruby="container"><span tts:ruby="base">kanji</span><span tts:ruby="text" begin="2s" end="4s">kana</span></span>y</p>
  <p region="r1" begin="10s" end="12s"><span tts:ruby="container"><span tts:ruby="base">b</span><span tts:ruby="text" tts:display="none">t</span></span></p>
  <p begin="12s" end="14s">no region <span tts:ruby="container"><span tts:ruby="base">b</span><span tts:ruby="text"> </span></span></p>
 </div></body>
</tt>
"""
# style reference cycles and a self reference; intervals shorter than a millisecond that straddle / do not straddle a rounding boundary
TTML_3 = b"""<?xml version="1.0" encoding="UTF-8"?>
<tt xml:lang="en" xmlns="http://www.w3.org/ns/ttml" xmlns:tts="http://www.w3.org/ns/ttml#styling">
 <head><styling>
   <style xml:id="c1" style="c2" tts:color="red"/><style xml:id="c2" style="c1" tts:fontStyle="italic"/>
   <style xml:id="c3" style="c3 c1" tts:fontWeight="bold"/><style xml:id="c4" style="missing c3"/>
 </styling></head>
 <body><div>
  <p begin="1s" end="10.0014s" style="c1">first</p>
  <p begin="10.0006s" end="12s" style="c4">second</p>
  <p begin="12.0004s" end="12.0006s" style="c3">flash</p>
  <p begin="13.00049s" end="13.0005s">tie</p>
  <p begin="59.9996s" end="61s">a hair before the minute</p>
  <p begin="100s" end="119.99951s">ends a hair before two minutes</p>
  <p begin="3599.9997s" end="3600.0004s">around the hour</p>
  <p begin="14s" end="14s">empty</p>
  <p begin="15s" end="14s">backwards</p>
 </div></body>
</tt>
"""
SRT_1 = b"""1
00:00:01,000 --> 00:00:02,500
Hello <b>bold <i>both</i></b> and {u}under{/u}

2
00:01:00,000 --> 00:01:02,000
<font color="#ff0000">red</font> line one
line two


3
100:00:00,001 --> 100:00:01,999
- last & final <3
"""
# colour values at and beyond the edges of what <font color> can say
SRT_2 = b"""1
00:00:01,000 --> 00:00:02,000
<font color="rgba(255,0,0,255)">in range</font> <font color="rgba(255,0,0,256)">alpha too large</font>

2
00:00:03,000 --> 00:00:04,000
<font color="rgb(300,0,0)">red too large</font> <font color="#12345">five digits</font> <font color="rgba(1,2,3)">three of four</font>

3
00:00:05,000 --> 00:00:06,000
<font color="#FF000000">transparent</font> <font color="nosuchcolour">unknown name</font> <font color="">empty</font> <font>none</font>
"""
# formatting carried from one cue into the next: tags left open at the end of a cue, end tags without a start tag in theirs
SRT_3 = b"""1
00:00:01,000 --> 00:00:02,000
<i>Hello

2
00:00:02,000 --> 00:00:03,000
world</i> again

3
00:00:04,000 --> 00:00:05,000
<b>bold <font color="red">and red
second line {u}under

4
00:00:05,000 --> 00:00:06,000
</font></b> after {/u} the end</i></i> tags
"""
VTT_1 = b"""WEBVTT - title

NOTE a comment
spanning lines

STYLE
::cue { color: red }

REGION
id:fred width:40%

id1
00:00.000 --> 00:02.000 line:0 position:20% size:60% align:start vertical:rl
Hello <b>bold</b> <i.cls>it</i> <c.yellow.bg_blue>col</c> &amp; &lt; &nbsp;x <00:00:01.000>later

2
00:00:02.500 --> 01:00:03.000 line:-1,end align:center
<v Bob>voice</v> <lang en>lang</lang> <ruby>base<rt>anno</rt></ruby>
second line

00:00:04.000 --> 00:00:05.000 line:50% position:100%,line-right
<u>u</u>
"""
# nested divisions, paragraphs that never end (the last snapshot is unbounded), two of them active together, one region and none
TTML_4 = b"""<?xml version="1.0" encoding="UTF-8"?>
<tt xml:lang="en" xmlns="http://www.w3.org/ns/ttml" xmlns:tts="http://www.w3.org/ns/ttml#styling">
 <head><layout><region xml:id="r1" tts:extent="80% 20%" tts:origin="10% 70%"/><region xml:id="r2" tts:extent="80% 20%" tts:origin="10% 10%"/></layout></head>
 <body><div region="r1"><div>
  <p begin="1s">first, open ended</p>
  <p begin="2s">second, open ended<br/>two lines</p>
 </div></div>
 </body>
</tt>
"""
TTML_5 = b"""<?xml version="1.0" encoding="UTF-8"?>
<tt xml:lang="en" xmlns="http://www.w3.org/ns/ttml" xmlns:tts="http://www.w3.org/ns/ttml#styling">
 <head><layout><region xml:id="r1" tts:extent="80% 20%" tts:origin="10% 70%"/><region xml:id="r2" tts:extent="80% 20%" tts:origin="10% 10%"/></layout></head>
 <body><div><div><div region="r2"><p begin="3s"><span>third</span></p><div><p begin="3s" end="4s">bounded</p><p begin="3.5s">open</p></div></div></div><p>no region</p></div>
 <div region="r1"><p begin="1s" end="2s">only child</p><p begin="2s" end="3s"><set tts:color="red"><span>inside a set</span></set>after</p></div><div region="r1"/>
 </body>
</tt>
"""
# time containers where they are unusual but allowed: timeContainer on regions, br and set-carrying elements; children under
# elements that normally have none; sequential containers whose children never end
TTML_6 = b"""<?xml version="1.0" encoding="UTF-8"?>
<tt xml:lang="en" xmlns="http://www.w3.org/ns/ttml" xmlns:tts="http://www.w3.org/ns/ttml#styling" timeContainer="seq">
 <head><layout><region xml:id="r1" timeContainer="seq" begin="1s"><set tts:opacity="0.5"/><set begin="1s" tts:opacity="1"/><style tts:color="red"/></region>
  <region xml:id="r2" timeContainer="par" end="9s"><set tts:displayAlign="after" dur="2s"/></region></layout></head>
 <body timeContainer="seq"><div timeContainer="seq" region="r1"><p>never ends</p><p dur="1s">after it</p></div>
  <div region="r2"><p timeContainer="seq">a<br timeContainer="seq"><set tts:color="red"/></br>b<span timeContainer="seq" dur="2s"><set tts:color="lime"/>c<span>d</span></span></p>
   <p begin="1s" timeContainer="seq"><span dur="1s">one</span><span>two</span><set tts:fontStyle="italic"/><span>three</span></p></div>
 </body>
</tt>
"""
# ruby markup in all the places it can turn up: nested, inside other tags, unbalanced, stray annotation tags
VTT_2 = """WEBVTT

00:00:00.000 --> 00:00:01.000
<ruby>\u6f22<rt>kan</rt>\u5b57<rt>ji</rt></ruby> after

00:00:01.000 --> 00:00:02.000
<ruby><ruby>\u6f22\u5b57<rt>kanji</rt></ruby> text</ruby> tail

00:00:02.000 --> 00:00:03.000
<ruby>a<ruby>b</ruby><rt>c</rt></ruby>

00:00:03.000 --> 00:00:04.000
<ruby>x<rt>y<ruby>z</ruby>w</rt>v<rt>u</rt></ruby>

00:00:04.000 --> 00:00:05.000
<b><ruby>in bold<rt>t</rt></ruby></b> <ruby><i>it<ruby>n</ruby>more</i><rt>t</rt>end</ruby>

00:00:05.000 --> 00:00:06.000
stray </ruby> <rt>annotation</rt> <ruby>unclosed <rt>anno

00:00:06.000 --> 00:00:07.000
<ruby>only base</ruby> <ruby><rt>only text</rt></ruby> <ruby></ruby>

00:00:07.000 --> 00:00:08.000 position:50,auto size:40% line:abc,start align:middle vertical:sideways region:none
settings with values that are not quite right

00:00:08.000 --> 00:00:09.000 position:50%,auto line:5,auto size:40 align:start,end position:,line-left
more of them

00:00:09.000 --> 00:00:10.000 position:10%,line-left,extra line:-0 size:100.5% align:
and the last ones
""".encode("utf-8")

SCC_1 = b"""Scenarist_SCC V1.0

00:00:01:00	9420 9420 9470 9470 c8e5 ecec ef80 942c 942c 942f 942f

00:00:03;10	9425 9425 94ad 94ad 9470 9470 d2ef ecec 20f5 7080 94ad 94ad 91ae 91ae cc69 6ee5 20b2

00:00:06:00	9429 9429 9152 9152 97a2 97a2 d0e1 e96e f420 ef6e 9120 9120 a180 1329 92a8 1c20 1c20 c180 942c 942c
"""


def stl_hand():
  """An EBU STL file with everything the TTI header can express: a cumulative set that straddles the programme start
  (its first member begins before TCP), a regular set, an extension-block pair, a comment, user data, double height."""
  from .. import stl_build as B
  def blk(sn, cs, tci, tco, text, ebn=0xFF, cf=0, vp=20, jc=2):
    return {"sgn": 0, "sn": sn, "ebn": ebn, "cs": cs, "tci": tci, "tco": tco, "vp": vp, "jc": jc, "cf": cf, "tf": list(text)}
  blocks = [
    blk(0, 1, [9, 59, 59, 0], [10, 0, 4, 0], b"set one, first"),
    blk(1, 2, [10, 0, 1, 0], [10, 0, 4, 0], b"set one, second"),
    blk(2, 3, [10, 0, 2, 0], [10, 0, 4, 0], b"\x0d\x0d\x0bset one, third\x0a\x0a"),
    blk(3, 0, [10, 0, 5, 0], [10, 0, 6, 12], b"\x80plain\x81 \x82under\x83\x8a\x07white \x01red", vp=18, jc=1),
    blk(4, 0, [10, 0, 7, 0], [10, 0, 8, 0], b"extended, part one ", ebn=0),
    blk(4, 0, [10, 0, 7, 0], [10, 0, 8, 0], b"part two", ebn=0xFF),
    blk(5, 0, [10, 0, 8, 0], [10, 0, 9, 0], b"a comment", cf=1),
    blk(6, 0, [0, 0, 0, 0], [0, 0, 0, 0], b"user data", ebn=0xFE),
    blk(7, 1, [10, 0, 10, 0], [10, 0, 12, 0], b"set two, first", vp=2),
    blk(8, 3, [10, 0, 11, 0], [10, 0, 12, 0], b"set two, last", vp=4),
    blk(9, 0, [10, 0, 13, 0], [10, 0, 13, 1], b"\xc1e\xc8u \xa4 last", vp=22, jc=3),
  ]
  return B.build_file({"dfc": "STL25.01", "dsc": "1", "cct": "00", "tcp": [10, 0, 0, 0], "mnr": 23}, blocks)


def random_scc(rng):
  from .. import scc_util as U
  from .c17 import _w
  ctl = ["RCL", "BS", "DER", "RU2", "RU3", "RU4", "RDC", "EDM", "CR", "ENM", "EOC", "TO1", "TO2", "TO3", "AOF", "AON", "FON", "TR", "RTD"]
  lines = []
  t = rng.randrange(0, 200)
  for _ in range(rng.randint(1, 6)):
    ws = []
    for _ in range(rng.randint(1, 10)):
      x = rng.random()
      if x < 0.4:
        try:
          w = U.w_ctl(rng.choice(ctl))
        except (KeyError, ValueError):
          w = U.w_ctl("EDM")
        ws += [w, w] if rng.random() < 0.7 else [w]
      elif x < 0.55:
        w = U.w_pac(rng.randint(1, 15), rng.randrange(32))
        ws += [w, w] if rng.random() < 0.8 else [w]
      elif x < 0.6:
        w = U.w_midrow(rng.randrange(16))
        ws += [w, w]
      elif x < 0.64:
        ws.append(U.w_special(rng.randrange(16)))
      elif x < 0.68:
        ws.append(U.w_extended(rng.choice([2, 3]), rng.randrange(32)))
      else:
        ws.append(U.w_chars(rng.randint(0x20, 0x7f), rng.choice([0, rng.randint(0x20, 0x7f)])))
    lines.append((t, ws))
    t += len(ws) + rng.randrange(0, 60)
  return ("Scenarist_SCC V1.0\n\n" + "".join("%02d:%02d:%02d:%02d\t%s\n\n" % (0, (f // 1800) % 60, (f // 30) % 60, f % 30, " ".join(_w(w) for w in ws))
                                             for f, ws in lines)).encode("ascii")


def srt_deep(depth=150):
  """One cue with `depth` formatting tags open at the same time, all closed again, and more text after them; a second cue."""
  tags = ["b", "i", "u", 'font color="#ff0000"']
  opens = "".join("<%s>" % tags[k % 4] for k in range(depth))
  closes = "".join("</%s>" % tags[k % 4].split(" ")[0] for k in reversed(range(depth)))
  return ("1\n00:00:01,000 --> 00:00:02,000\nbefore %sdeep%s after <b>bold again</b>\nsecond line\n\n"
          "2\n00:00:03,000 --> 00:00:04,000\nnext cue\n" % (opens, closes)).encode("utf-8")


def seeds():
  """format -> list of (name, bytes)."""
  out = {"ttml": [("hand1", TTML_1), ("hand2_ruby", TTML_2), ("hand3_cycles_subms", TTML_3), ("hand4_nested_open", TTML_4), ("hand5_nested_regions", TTML_5), ("hand6_time_containers", TTML_6)], "srt": [("hand1", SRT_1), ("hand2_colours", SRT_2), ("hand3_deep_tags", srt_deep()), ("hand4_carried_tags", SRT_3), ("hand5_very_deep_tags", srt_deep(700))],
         "vtt": [("hand1", VTT_1), ("hand2_ruby", VTT_2)], "scc": [("hand1", SCC_1)], "stl": [("hand_cumulative", stl_hand())]}
  for f in sorted(glob.glob(RES + "/ttml/*.ttml"))[:4]:
    out["ttml"].append((os.path.basename(f), open(f, "rb").read()))
  for f in sorted(glob.glob(RES + "/scc/*.scc"))[:3]:
    data = open(f, "rb").read()
    # keep corpus SCC files small: header + first 25 lines
    out["scc"].append((os.path.basename(f), b"\n".join(data.split(b"\n")[:40]) + b"\n"))
  stl = sorted(glob.glob(RES + "/stl/**/*.stl", recursive=True))
  for f in stl[::7][:8]:
    out["stl"].append((os.path.basename(f), open(f, "rb").read()))
  vtt = sorted(glob.glob(RES + "/vtt/**/*.vtt", recursive=True))
  for f in vtt[::13][:10]:
    out["vtt"].append((os.path.basename(f), open(f, "rb").read()))
  return out


def writer_outputs():
  """SRT / VTT / TTML files produced by the library's own writers from the hand-written files (valid by construction)."""
  import io
  import xml.etree.ElementTree as et
  from ..faults import read
  import ttconv.srt.writer as srtw
  import ttconv.vtt.writer as vttw
  import ttconv.imsc.writer as imscw
  out = {"srt": [], "vtt": [], "ttml": []}
  for fmt, data in (("vtt", VTT_1), ("srt", SRT_1), ("scc", SCC_1)):
    try:
      doc = read(fmt, data)
      out["srt"].append(("w_" + fmt, srtw.from_model(doc).encode("utf-8")))
      out["vtt"].append(("w_" + fmt, vttw.from_model(doc).encode("utf-8")))
      out["ttml"].append(("w_" + fmt, et.tostring(imscw.from_model(doc).getroot())))
    except Exception:  # pylint: disable=broad-except
      pass
  return out


def _optimize_flag(_x):
  import sys
  return sys.flags.optimize


def _job(args):
  fmt, name, data, faults, seed, cfg, rid = args
  rng = random.Random(seed)
  if faults == "bytes":
    # byte-level mutation: a few random byte edits / splices
    b = bytearray(data)
    for _ in range(rng.randint(1, 6)):
      if not b:
        break
      r = rng.random()
      i = rng.randrange(len(b))
      if r < 0.4:
        b[i] = rng.randrange(256)
      elif r < 0.6:
        del b[i:i + rng.randint(1, 20)]
      elif r < 0.8:
        b[i:i] = bytes(rng.randrange(256) for _ in range(rng.randint(1, 8)))
      else:
        j = rng.randrange(len(b))
        b[i:i] = b[j:j + rng.randint(1, 30)]
    mutated = bytes(b)
    frec = [{"kind": "junk", "unit": "byte", "pos": "middle"}]
  else:
    mutated = apply_faults(data, faults, fmt, rng)
    frec = faults
  res = run_pipeline(fmt, mutated, cfg)
  rec = {"id": rid, "fmt": fmt, "faults": frec, "read": res["read"], "fatal": res["fatal"], "stages": res["stages"],
         "progress": [p for p in res["progress"] if p["v"]]}
  return rec, {"base": name, "where": res["where"], "input": mutated[:4000].hex() if len(mutated) <= 4000 else mutated[:4000].hex() + "...",
               "input_len": len(mutated), "seed": seed, "reader_cfg": cfg, "mode": "bytes" if faults == "bytes" else "faults"}


def run(ctx):
  thorough = ctx.thorough()
  ctx.rule = ("a case is one input (base file x fault sequence x reader configuration) pushed through reader, snapshots, writers and "
              "the LCD filter; non-trivial = the mutated input differs from the base file and the reader returned a document or a "
              "documented error; distinct by (format, base, faults)")
  mc = ("---- MODULE MC_Pipeline ----\nEXTENDS Pipeline\nMCFormats == " + T.to_tla({"ttml", "scc", "stl", "srt", "vtt"}) +
        "\nMCKinds == " + T.to_tla(set(KINDS)) + "\nMCUnits == " + T.to_tla(set(UNITS)) + "\nMCPositions == " + T.to_tla(set(POSITIONS)) +
        "\nMCStages == @STAGES@\n====\n")
  res = T.run_tlc("MC_Pipeline", CFG.format(maxf=2), workers=4, dump="states", timeout=1800, name="pipeline",
                  extra_files={"MC_Pipeline.tla": mc.replace("@STAGES@", T.to_tla({"snapshots", "srt"}))})
  if res.violated:
    raise T.MachineryError("Pipeline.tla violates its own properties: " + str(res.violated))
  ctx.tlc(res, "pipeline machine: all fault sequences of length <= 2 over 5 formats")
  seqs = set()
  for s in T.parse_dump_fast(os.path.join(res.workdir, "states.dump"), {"faults", "phase"}):
    if s["phase"] == "input":
      seqs.add(json.dumps(s["faults"], sort_keys=True))
  seqs = [json.loads(x) for x in sorted(seqs)]
  singles = [s for s in seqs if len(s) == 1]
  pairs = [s for s in seqs if len(s) == 2]
  ctx.count("fault_sequences_enumerated", len(seqs))

  base = seeds()
  for fmt, lst in writer_outputs().items():
    base[fmt].extend(lst)
  cfgs = {"scc": [None, {"text_align": "center"}], "stl": [None, {"disable_fill_line_gap": True, "max_row_count": 12, "program_start_tc": "TCP"}]}
  jobs = []
  rid = 0
  seedbase = ctx.seed * 1000003
  for fmt, files in base.items():
    for k, (name, data) in enumerate(files):
      rid += 1
      jobs.append((fmt, name, data, [], seedbase + rid, None, rid))               # the unmodified file
      for cfg in (cfgs.get(fmt, [None])[1:] if k == 0 else []):                   # ... and under the other reader configuration
        rid += 1
        jobs.append((fmt, name, data, [], seedbase + rid, cfg, rid))
      use_singles = singles if (thorough or k < 2) else ctx.rng.sample(singles, 20)
      for fs in use_singles:
        for cfg in (cfgs.get(fmt, [None]) if k == 0 else [None]):
          rid += 1
          jobs.append((fmt, name, data, fs, seedbase + rid, cfg, rid))
      npairs = (len(pairs) if k < 2 else 600) if thorough else (60 if k < 2 else 10)
      for fs in (pairs if npairs >= len(pairs) else ctx.rng.sample(pairs, npairs)):
        rid += 1
        jobs.append((fmt, name, data, fs, seedbase + rid, None, rid))
      for _ in range(400 if thorough else 20):
        rid += 1
        jobs.append((fmt, name, data, "bytes", seedbase + rid, None, rid))
  # SCC files made of well-formed words in an arbitrary order (no caption protocol is followed: mode switches in the middle
  # of a caption, EOC without RCL, erasures and back spaces anywhere) - every one of them is a legal SCC file
  for _ in range(6000 if thorough else 1500):
    rid += 1
    jobs.append(("scc", "random_words", random_scc(ctx.rng), [], seedbase + rid, None, rid))
  # degenerate inputs
  for fmt in base:
    for name, data in (("empty", b""), ("newline", b"\n"), ("nul", b"\x00" * 64), ("bom", b"\xef\xbb\xbf")):
      rid += 1
      jobs.append((fmt, name, data, [], seedbase + rid, None, rid))
  ctx.count("inputs", len(jobs))
  # one job in five runs in interpreters started with assertions disabled (python -O / PYTHONOPTIMIZE=1, as many services
  # are deployed): whether a malformed file is refused properly does not depend on that
  import multiprocessing
  jobs_o = [j for j in jobs if j[6] % 5 == 3]
  jobs_d = [j for j in jobs if j[6] % 5 != 3]
  with Pool(12, maxtasksperchild=200) as pool:
    results = pool.map(_job, jobs_d, chunksize=16)
  old_opt = os.environ.get("PYTHONOPTIMIZE")
  os.environ["PYTHONOPTIMIZE"] = "1"
  try:
    with multiprocessing.get_context("spawn").Pool(8, maxtasksperchild=400) as pool:
      flags = pool.map(_optimize_flag, range(8))
      results += pool.map(_job, jobs_o, chunksize=16)
  finally:
    if old_opt is None:
      del os.environ["PYTHONOPTIMIZE"]
    else:
      os.environ["PYTHONOPTIMIZE"] = old_opt
  if not all(f >= 1 for f in flags):
    raise T.MachineryError("the -O worker interpreters do not run with assertions disabled: " + str(flags))
  ctx.count("inputs_run_with_assertions_disabled(-O)", len(jobs_o))
  results.sort(key=lambda rm: rm[0]["id"])
  recs = [r for r, _ in results]
  meta = {r["id"]: m for r, m in results}
  jobmap = {j[6]: j for j in jobs}
  ctx.evaluations = len(recs)
  ctx.traces = len(recs)
  for r in recs:
    if r["read"] == "Doc" or r["read"].startswith("FormatError"):
      j = jobmap[r["id"]]
      ctx.nontrivial((r["fmt"], j[1], json.dumps(j[3]) if j[3] != "bytes" else "b%d" % j[4]))
  ctx.count("beyond C18 (spec/Progress.tla): progress-callback sequences validated", sum(len(r["progress"]) for r in recs))
  outcome_hist = {}
  for r in recs:
    outcome_hist[r["fmt"] + ":" + r["read"]] = outcome_hist.get(r["fmt"] + ":" + r["read"], 0) + 1
  for k, v in sorted(outcome_hist.items()):
    ctx.count("read_outcome " + k, v)

  # TLC decides acceptance of every run
  mcs = mc.replace("@STAGES@", T.to_tla(set(STAGES))).replace("MODULE MC_Pipeline", "MODULE MC_Trace_Pipeline").replace("EXTENDS Pipeline", "EXTENDS Trace_Pipeline")
  nproc = 4
  parts = [recs[k::nproc] for k in range(nproc)]

  def one(part):
    text = "\n".join(json.dumps(x, separators=(",", ":")) for x in part) + "\n"
    return part, T.run_tlc("MC_Trace_Pipeline", CFG_TRACE, workers=1, env={"TRACE_FILE": "trace.ndjson"}, timeout=3000,
                           name="tpipe", extra_files={"MC_Trace_Pipeline.tla": mcs, "trace.ndjson": text})

  with ThreadPoolExecutor(max_workers=nproc) as ex:
    outs = list(ex.map(one, parts))
  byid = {r["id"]: r for r in recs}
  for part, tres in outs:
    done = tres.values("DONE")
    if not done or done[0][1] != len(part):
      raise T.MachineryError("pipeline trace not consumed: " + tres.out[-1500:])
    ctx.tlc(tres, "pipeline trace validation")
    for v in tres.values("NOTE"):
      ctx.count("beyond C18 (spec/Progress.tla): " + v[2])
    for _, rid_, k, clause in tres.values("FAIL"):
      r = byid[rid_]
      m = meta[rid_]
      if clause == "c18_stage_raised":
        st = r["stages"][k - 1]
        what = st["s"] + " " + st["o"]
        f = {"fmt": r["fmt"], "stage": st["s"], "exc": st["o"].split(":", 1)[1]}
      else:
        what = r["read"]
        f = {"fmt": r["fmt"], "stage": "read", "exc": r["read"].split(":", 1)[1] if ":" in r["read"] else r["read"]}
      # where in the code: last frame of the traceback (a narrow, stable descriptor for known-finding selectors)
      import re
      frames = re.findall(r'File "[^"]*/ttconv/([^"]+)", line \d+, in (\w+)', m["where"])
      f["site"] = (frames[-1][0] + ":" + frames[-1][1]) if frames else ""
      f["ruby_in_input"] = "3c72756279" in m["input"]          # "<ruby" in the (hex) input
      f["ruby_pattern_error"] = "do not conform to requirements" in m["where"] and "push_children" in m["where"]
      f["mode"] = m["mode"]
      ctx.violation(clause, {"fmt": r["fmt"], "base": m["base"], "faults": r["faults"], "seed": m["seed"], "reader_cfg": m["reader_cfg"],
                             "input_hex": m["input"], "input_len": m["input_len"], "traceback": m["where"]},
                    f, f"{r['fmt']} base={m['base']} {what} at {f['site']}")
  ctx.sample({"fmt": recs[5]["fmt"], "faults": recs[5]["faults"], "read": recs[5]["read"], "stages": recs[5]["stages"][:4]})
  ctx.sample({"fault_sequence_from_TLC": pairs[len(pairs) // 2]})
  ctx.exhaustive = False
  ctx.assume("a reader call is cut off after 20 s (reported as Raised:Timeout); writers are skipped for documents with more than 400 "
             "significant times")
  ctx.assume("documented reader exceptions: xml ParseError, ValueError (exact class), struct.error, UnicodeDecodeError")
