"""C19 - `tt convert` equals the library pipeline, honours options, is deterministic and history independent.

Design side : TLC checks spec/Cli.tla: the dispatch table (option wins over extension, letter case, unsupported types),
              precedence of the configuration file, consistency of the configuration catalogue with the documented domains
              (README), and - on the machine Convert(job) with unconstrained process-global state - that the output of a
              conversion is a function of the job only in every reachable state (all histories of length <= MaxHist over
              the six history jobs, every single job).
Spec -> code: TLC exports the job set, the configurations and (through the state graph) every history; each history is
              replayed in ONE interpreter (a fork of a process that has only imported ttconv.tt) through
              ttconv.tt.main([...]) under hash seeds 0, 1 and 12345; the bytes of every output are compared - as content
              ids - with the bytes of the library composition reader -> filters -> writer run in a FRESH process per
              hash seed; exit status, exception class and existence of the output file are recorded.
              spec/Trace_Cli.tla replays Cli!Convert along every recorded history and judges every step.
"""
from __future__ import annotations

import json
import os
import subprocess
import sys
from concurrent.futures import ThreadPoolExecutor

from .. import tlc as T
from .. import core
from .. import cli_jobs as J

PID = "C19"
LEVEL = "model_checking"

SEEDS = [0, 1, 12345]
N_NAMED_CONFIGS = 8          # Len(Cli!NamedConfigs)

CFG_DESIGN = """CONSTANTS
  MaxHist = {maxhist}
  FullDispatch = {full}
SPECIFICATION Spec
INVARIANT HistoryIndependent
INVARIANT OutputWellFormed
"""
CFG_TRACE = """CONSTANTS
  MaxHist = {maxhist}
  FullDispatch = {full}
INIT TInit
NEXT TNext
"""
MC = """---- MODULE MC_Cli ----
EXTENDS Cli, Json
ASSUME PrintT(<<"SIZES", Cardinality(Catalogue), Cardinality(SingleJobs), Cardinality(AllJobs), Len(Configs)>>)
ASSUME CatalogueConsistent
ASSUME DispatchFacts
ASSUME EffectiveFacts
ASSUME ndJsonSerialize("jobs.ndjson", [n \\in DOMAIN JobSeq |-> [n |-> n, job |-> JobSeq[n], lib |-> Lib(JobSeq[n]), hist |-> JobSeq[n] \\in HistJobs]])
ASSUME ndJsonSerialize("configs.ndjson", [c \\in DOMAIN Configs |-> [c |-> c, settings |-> Configs[c]]])
====
"""


def read_ndjson(path):
  with open(path) as fh:
    return [json.loads(line) for line in fh if line.strip()]


def explore(maxhist, full):
  res = T.run_tlc("MC_Cli", CFG_DESIGN.format(maxhist=maxhist, full="TRUE" if full else "FALSE"), workers=2,
                  extra_files={"MC_Cli.tla": MC}, timeout=1800, name="cli_design", dump="states")
  if res.violated:
    raise T.MachineryError("Cli.tla violates its own invariants: " + str(res.violated))
  jobs = read_ndjson(os.path.join(res.workdir, "jobs.ndjson"))
  configs = {c["c"]: c["settings"] for c in read_ndjson(os.path.join(res.workdir, "configs.ndjson"))}
  hists = set()
  for st in T.parse_dump(os.path.join(res.workdir, "states.dump")):
    h = tuple(st["hist"])
    if h:
      hists.add(h)
  # a history is replayed together with its prefixes: keep the maximal ones
  prefixes = {h[:k] for h in hists for k in range(1, len(h))}
  maximal = sorted(h for h in hists if h not in prefixes)
  return res, jobs, configs, hists, maximal


def pyenv(src, seed):
  env = dict(os.environ)
  env["PYTHONHASHSEED"] = str(seed)
  env["PYTHONPATH"] = src + os.pathsep + core.VERIF
  env["PYTHONDONTWRITEBYTECODE"] = "1"
  return env


def run_cli(src, root, seed, runs, par):
  plan = os.path.join(root, "plan_%d.json" % seed)
  result = os.path.join(root, "result_%d.json" % seed)
  with open(plan, "w") as fh:
    json.dump({"src": src, "par": par, "runs": runs}, fh)
  p = subprocess.run([sys.executable, "-m", "harness.cli_run", plan, result], env=pyenv(src, seed), cwd=core.VERIF,
                     stdout=subprocess.PIPE, stderr=subprocess.STDOUT, text=True, timeout=3000)
  if p.returncode != 0 or not os.path.exists(result):
    raise T.MachineryError("cli_run failed: " + p.stdout[-2000:])
  with open(result) as fh:
    return json.load(fh)["results"]


def run_lib(src, root, seed, n, spec):
  path = os.path.join(root, "lib", "spec_%d_%d.json" % (n, seed))
  spec = dict(spec, out=os.path.join(root, "lib", "out_%d_%d.bin" % (n, seed)), src=src)
  with open(path, "w") as fh:
    json.dump(spec, fh)
  p = subprocess.run([sys.executable, "-m", "harness.cli_lib", path], env=pyenv(src, seed), cwd=core.VERIF,
                     stdout=subprocess.PIPE, stderr=subprocess.PIPE, text=True, timeout=600)
  try:
    return json.loads(p.stdout.strip().splitlines()[-1])
  except Exception:  # pylint: disable=broad-except
    raise T.MachineryError("cli_lib produced no result: " + (p.stdout + p.stderr)[-1500:])


CONFIG_CLAUSES = ("invalid_configuration_accepted", "valid_configuration_rejected", "library_composition_failed_on_accepted_job")


def features(jobs, configs, rec, k, clause):
  """Narrow facts about a failing step: the setting for configuration clauses, the spellings for dispatch clauses, the place
  in the history and the hash seed for byte comparisons."""
  f = {}
  if rec["kind"] == "lib":
    key = rec["key"]
    f.update({"reader": key[1], "writer": key[2], "filters": ",".join(key[4])})
    c = key[3]
    job = None
  else:
    job = rec["jobrecs"][k - 1]
    st = rec["steps"][k - 1]
    c = job["cfgfile"] or job["inline"]
    f.update({"exc": st["exc"], "observed_status": st["status"]})
  if clause in CONFIG_CLAUSES or (clause == "output_file_written_despite_error" and c and len(configs[c]) <= 2):
    if c and len(configs[c]) <= 2:
      s = configs[c][0]
      f.update({"module": s["m"], "key": s["k"], "value": s["json"], "value_class": s["cls"], "value_type": s["v"]["t"]})
    else:
      f["config"] = c
  elif job is not None:
    f.update({"cmd": job["cmd"], "content": job["content"], "itype": job["itype"], "iext": job["iext"], "otype": job["otype"],
              "oext": job["oext"], "filters": ",".join(job["filters"]), "config": c})
    if clause.startswith("bytes_") or clause == "document_lang_not_applied":
      f.update({"position_in_history": k, "hashseed": rec["seed"]})
  return f


def jkey(job):
  return json.dumps(job, sort_keys=True)


def conduct(ctx, deep, jobs, configs, histories, seeds, all_lib_seeds, libkeys=None):
  """Replays `histories` (lists of job records) under `seeds`, runs the library compositions the specification prescribes
  for their jobs (or `libkeys`) in fresh processes, and lets spec/Trace_Cli.tla judge everything."""
  src = core.SRC
  libof = {jkey(j["job"]): j["lib"] for j in jobs}
  ncat = len(configs) - N_NAMED_CONFIGS      # configurations 1..ncat hold one catalogue setting each
  root = T.new_scratch("cli_work")
  for d in ("in", "out", "cfg", "lib"):
    os.makedirs(os.path.join(root, d), exist_ok=True)
  samples = J.write_samples(src, root)

  # command lines of every history (one output path per invocation and hash seed)
  def make_runs(seed):
    outdir = os.path.join(root, "out", "s%d" % seed)
    os.makedirs(outdir, exist_ok=True)
    rs = []
    for rid, h in enumerate(histories):
      rj = []
      for k, job in enumerate(h):
        inp = J.input_path(samples, os.path.join(root, "in"), job["content"], job["iext"])
        if job["oext"].startswith("/"):
          os.makedirs(os.path.join(outdir, "o_%d_%d" % (rid, k)), exist_ok=True)
          out = os.path.join(outdir, "o_%d_%d" % (rid, k), job["oext"][1:])      # the whole name, no dot anywhere in it
        else:
          out = os.path.join(outdir, "o_%d_%d%s" % (rid, k, job["oext"]))
        # a file named without any dot is given as a bare relative name, from inside its directory (an absolute path would
        # carry the dots of the directories above it)
        cwd = ""
        inarg, outarg = inp, out
        if job["oext"].startswith("/"):
          cwd, outarg = os.path.dirname(out), os.path.basename(out)
        elif job["iext"].startswith("/"):
          cwd, inarg = os.path.dirname(inp), os.path.basename(inp)
        rj.append({"argv": J.argv_for(job, inarg, outarg, configs, os.path.join(root, "cfg")), "out": out, "cwd": cwd})
      rs.append({"id": rid, "jobs": rj})
    return rs
  runs_by_seed = {seed: make_runs(seed) for seed in seeds}
  runs = runs_by_seed[seeds[0]]

  # library compositions needed: one per distinct key the specification prescribes for a replayed job
  keys = {}
  if libkeys is None:
    for h in histories:
      for job in h:
        lib = libof[jkey(job)]
        if lib["status"] == "ok":
          keys.setdefault(json.dumps(lib["key"]), lib["key"])
  else:
    for key in libkeys:
      keys.setdefault(json.dumps(key), key)
  libspecs = []
  for n, key in enumerate(keys.values()):
    content, reader, writer, c, filters = key
    libspecs.append((n, key, {"input": samples[content], "reader": reader, "writer": writer,
                              "config": J.config_dict(configs[c]) if c else None, "filters": filters}))
  ctx.count("library_compositions", len(libspecs))

  # hash seeds per composition: all three, except (quick tier) one rotating seed for single-setting configuration jobs
  def seeds_for(n, key):
    if all_lib_seeds or not 0 < key[3] <= ncat:
      return list(SEEDS)
    return [SEEDS[n % len(SEEDS)]]
  libseeds = {n: seeds_for(n, key) for n, key, _ in libspecs}
  ctx.count("library_processes", sum(len(v) for v in libseeds.values()))

  with ThreadPoolExecutor(max_workers=8) as ex:
    cli_f = {seed: ex.submit(run_cli, src, root, seed, runs_by_seed[seed], 2) for seed in seeds}
    lib_f = {(n, seed): ex.submit(run_lib, src, root, seed, n, spec) for n, key, spec in libspecs for seed in libseeds[n]}
    cli_res = {seed: f.result() for seed, f in cli_f.items()}
    lib_res = {k: f.result() for k, f in lib_f.items()}

  # content ids: index into the table of distinct outputs
  table = {}

  def cid(sha):
    if not sha:
      return -1
    return table.setdefault(sha, len(table))

  recs = []
  for c, settings in sorted(configs.items()):
    recs.append({"kind": "config", "c": c, "syns": [J.setting_syn(s) for s in settings]})
  libexc = {}
  for n, key, spec in libspecs:
    rs = [lib_res[(n, seed)] for seed in libseeds[n]]
    recs.append({"kind": "lib", "key": key, "seeds": libseeds[n], "status": [r["status"] for r in rs], "cids": [cid(r["sha"]) for r in rs]})
    libexc[len(recs)] = [r["exc"] for r in rs]
  nsteps = 0
  for seed in seeds:
    for r in cli_res[seed]:
      h = histories[r["id"]]
      if r["steps"] is None or len(r["steps"]) != len(h):
        raise T.MachineryError(f"history {r['id']} was not replayed completely under hash seed {seed}")
      steps = [{"status": s["status"], "exc": s["exc"], "outfile": s["outfile"], "cid": cid(s["sha"]), "lang": s["lang"]} for s in r["steps"]]
      recs.append({"kind": "run", "id": r["id"], "seed": seed, "jobrecs": list(h), "steps": steps})
      nsteps += len(steps)
      for k, st in enumerate(steps):
        if st["outfile"] or libof[jkey(h[k])]["status"] == "error":
          ctx.nontrivial((jkey(h[k]), k, seed))
  ctx.evaluations += nsteps
  ctx.traces += len(recs)
  ctx.count("invocations", nsteps)
  ctx.count("distinct_outputs", len(table))

  text = "\n".join(json.dumps(r, separators=(",", ":")) for r in recs) + "\n"
  tres = T.run_tlc("Trace_Cli", CFG_TRACE.format(maxhist=4 if deep else 3, full="TRUE" if deep else "FALSE"), workers=1,
                   env={"TRACE_FILE": "trace.ndjson"}, extra_files={"trace.ndjson": text}, timeout=3000, name="cli_trace",
                   java_opts=("-Xmx4g",))
  done = tres.values("DONE")
  if not done or done[0][1] != len(recs):
    raise T.MachineryError("trace not consumed: " + tres.out[-2000:])
  ctx.tlc(tres, "trace validation: replay of Cli!Convert along every recorded history")
  for _, ri, k, clause in tres.values("FAIL"):
    rec = recs[ri - 1]
    if clause.startswith("MACHINERY_"):
      raise T.MachineryError(f"{clause} at record {ri} step {k}: {json.dumps(rec)[:1200]}")
    f = features(jobs, configs, rec, k, clause)
    if rec["kind"] == "lib":
      case = {"library_key": rec["key"], "status_per_seed": rec["status"], "content_id_per_seed": rec["cids"], "seeds": rec["seeds"],
              "exceptions": libexc.get(ri)}
      what = f"library composition {rec['key']}: status {rec['status']} {libexc.get(ri)}"
    else:
      rid = rec["id"]
      case = {"hashseed": rec["seed"], "jobs": rec["jobrecs"], "failing_step": k,
              "command_lines": [[a.replace(root, "<work>") for a in j["argv"]] for j in runs[rid]["jobs"]],
              "observed": rec["steps"], "expected": [libof[jkey(j)] for j in rec["jobrecs"]]}
      what = "tt " + " ".join(a.replace(root, "<work>") for a in runs[rid]["jobs"][k - 1]["argv"]) + f" -> {rec['steps'][k - 1]}"
    ctx.violation(clause, case, f, what)
  return recs, runs, root


def replay(ctx, rc, jobs, configs):
  case = rc["case"]
  if "library_key" in case:
    conduct(ctx, rc.get("tier") == "thorough", jobs, configs, [], [SEEDS[0]], True, libkeys=[case["library_key"]])
  else:
    conduct(ctx, rc.get("tier") == "thorough", jobs, configs, [case["jobs"]], [case["hashseed"]], True)
  ctx.rule = "replay of one recorded case"


def run(ctx):
  deep = ctx.thorough() or (ctx.replay_case is not None and ctx.replay_case.get("tier") == "thorough")
  ctx.rule = ("a case is one invocation of ttconv.tt.main inside a history replayed in one interpreter under one hash seed; "
              "distinct by (job, position in history, hash seed); non-trivial = the invocation produced an output file "
              "or was expected to be rejected")
  res, jobs, configs, hists, maximal = explore(4 if deep else 3, deep)
  ctx.tlc(res, "design check + enumeration of jobs and histories")
  if ctx.replay_case is not None:
    return replay(ctx, ctx.replay_case, jobs, configs)
  sizes = res.values("SIZES")[0]
  ctx.count("catalogue_settings", sizes[1])
  ctx.count("single_jobs", sizes[2])
  ctx.count("jobs", sizes[3])
  ctx.count("configurations", sizes[4])
  ctx.count("histories_in_state_graph", len(hists))
  ctx.count("maximal_histories_replayed", len(maximal))
  jobrec = {j["n"]: j["job"] for j in jobs}
  histories = [[jobrec[n] for n in h] for h in maximal]
  recs, runs, root = conduct(ctx, deep, jobs, configs, histories, SEEDS, deep)
  some = max((r for r in recs if r["kind"] == "run"), key=lambda r: len(r["jobrecs"]))
  ctx.sample({"history": [[j["content"], j["itype"], j["iext"], j["otype"], j["oext"], j["cfgfile"], j["inline"], j["filters"]] for j in some["jobrecs"]],
              "hashseed": some["seed"], "steps": some["steps"],
              "command_line_of_first_job": [a.replace(root, "<work>") for a in runs[some["id"]]["jobs"][0]["argv"]]})
  ctx.exhaustive = True
  ctx.assume("the lexical classes of configuration strings (fraction, time code, colour, language tag, font families) are "
             "decided by the regular expressions of harness/cli_jobs.py and cross-checked against the hand-typed catalogue")
  ctx.assume("'one interpreter' = a fork of a process that has imported ttconv.tt and done nothing else; the library "
             "composition runs in a fresh python process per job and hash seed")
  ctx.assume("input samples: one file per format (TTML and SRT written by the harness, SCC/STL/VTT from src/test/resources)")
