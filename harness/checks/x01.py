"""X01 - the ISD filters and element filters of ttconv.filters do what they are for (outside the 19 listed properties).

Design side : spec/IsdFilters.tla.  Operators MergeRegions, MergeParagraphs, KeepSupported, RemoveDefaults (ISDs) and
              RemoveAnimations, KeepInitials, KeepBody (content documents), wrapped in a machine whose Init picks an ISD
              (a document) of a bounded family and whose actions apply one filter each.  TLC explores every order of
              application up to a depth and checks, in every state: the ISD shape, the text runs, the contract of every
              filter applied to the ISD reached (merged id, one paragraph per region, exactly one br between former
              paragraphs, only supported pairs, no computed style changed by RemoveDefaults, idempotence), the
              commutation laws and the normal form the SRT / WebVTT pipeline produces.
Spec -> code: the family is taken from TLC's dump of the initial states; every ISD is built as real ttconv objects
              (ISD / ISD.Region / Body / Div / P / Span / Ruby / Text / Br) and every filter sequence of the same depth
              is applied with the real filters; every distinct (input, filter, output) step is recorded.  The number of
              sequences run is checked against the number of states TLC explored.  Same for documents.
Code -> spec: seeded random ContentDocuments (regions, nested div, nested styled spans, br, ruby, animation, timing),
              ISD.from_model at several times, then the exact filter chains and tables of ttconv.srt.writer and
              ttconv.vtt.writer (all configurations) and random chains with random tables; random sparse ISDs;
              RemoveAnimationFilter / SupportedStylePropertiesFilter on random documents.
spec/Trace_IsdFilters.tla re-computes every step with the spec operators and judges it clause by clause.
"""
from __future__ import annotations

import json
import multiprocessing
import os
import random
import re
from concurrent.futures import ThreadPoolExecutor

from .. import core
from .. import tlc as T
from .. import isdfilters_u as U

PID = "X01"
LEVEL = "model_checking"
FRAGMENT = os.path.join(core.VERIF, "findings_X01.json")

INVARIANTS = ["TypeOK", "FamilyWellFormed", "ShapeKept", "TextRunsKept", "FoldIsMachine", "Contracts", "CommStyleStructure",
              "CommMergeAbsorbed", "CommFlatKS", "CommFlatMR", "CommFlatMP", "PipelineNormalForm", "DocContracts", "FlagMeaning"]

CFG_DESIGN = """SPECIFICATION Spec
CONSTANT Mode = "%s"
CONSTANT MaxDepth = %d
CONSTANT MaxRegions = %d
CONSTANT BodyChoices = {%s}
CONSTANT ChainLevel = %d
""" + "".join("INVARIANT %s\n" % n for n in INVARIANTS)

CFG_TRACE = """INIT TInit
NEXT TNext
CONSTANT Mode = "isd"
CONSTANT MaxDepth = 0
CONSTANT MaxRegions = 0
CONSTANT BodyChoices = {}
CONSTANT ChainLevel = 0
"""

MC_TABLES = """---- MODULE MC_IsdFilters ----
EXTENDS IsdFilters
ASSUME PrintT(<<"TABLES", MSup, MDef, MInh>>)
====
"""

FAMILIES = {           # name -> (MaxRegions, BodyChoices, ChainLevel)
  "small": (2, "1,2,3,4,5,6,7,8,9", 1),
  "large": (3, "1,2,3,4,5,6,7,8,9", 2),
}


def cfg(mode, depth, fam):
  mr, bc, cl = FAMILIES[fam]
  return CFG_DESIGN % (mode, depth, mr, bc, cl)


# ----------------------------------------------------------------------------------------------------
# the family, from TLC
# ----------------------------------------------------------------------------------------------------

def dump_family(mode, fam):
  """Initial states of the machine (depth 0) and the tables of the small model, as TLC has them."""
  res = T.run_tlc("MC_IsdFilters", cfg(mode, 0, fam), workers=1, timeout=600, dump="fam.dump", name="x01fam_" + mode,
                  extra_files={"MC_IsdFilters.tla": MC_TABLES})
  if res.violated:
    raise T.MachineryError("IsdFilters violates its own invariants on the family: " + str(res.violated))
  states = T.parse_dump_fast(os.path.join(res.workdir, "fam.dump"), {"init", "doc0"})
  tabs = res.values("TABLES")
  if not tabs:
    raise T.MachineryError("tables of the small model not printed: " + res.out[-800:])
  _, msup, mdef, minh = tabs[0]
  tables = {"sup": {k: sorted(v) for k, v in msup.items()}, "defs": dict(mdef), "inh": sorted(minh)}
  if mode == "isd":
    items = [[U.norm_node(r) for r in s["init"]] for s in states]
  else:
    items = [U.norm_doc(s["doc0"]) for s in states]
  if len(items) != res.distinct:
    raise T.MachineryError("dump holds %d states, TLC counted %d" % (len(items), res.distinct))
  return items, tables, res


# ----------------------------------------------------------------------------------------------------
# spec -> code: every sequence of the machine, on real objects
# ----------------------------------------------------------------------------------------------------

def run_isd_sequence(aisd, hist, mapping, tables, sink, src):
  """Build `aisd`, apply the filters named in `hist`, record each step.  Returns the number of filter applications."""
  rsup, rdefs = mapping.tables(tables["sup"], tables["defs"], tables["inh"])
  isd = U.build_isd(aisd, mapping.real)
  before = U.project_isd(isd, mapping)
  if before != aisd:
    raise T.MachineryError("builder does not realise the abstract ISD: %s" % json.dumps(aisd)[:300])
  for k, f in enumerate(hist):
    U.make_isd_filter(f, rsup, rdefs).process(isd)
    after = U.project_isd(isd, mapping)
    rec = U.step_record(f, before, after)
    if f == "ks":
      rec["sup"] = tables["sup"]
    if f == "rd":
      rec["defs"], rec["inh"], rec["interned"] = tables["defs"], tables["inh"], 1 if mapping.intern else 0
    sink(rec, dict(src, step=k, mapping=mapping.name))
    before = after
  return len(hist)


def run_doc_sequence(adoc, hist, mapping, tables, sink, src):
  from ttconv.filters.remove_animations import RemoveAnimationFilter
  from ttconv.filters.supported_style_properties import SupportedStylePropertiesFilter
  rsup, _ = mapping.tables(tables["sup"], tables["defs"], tables["inh"])
  doc, body, regions = U.build_doc(adoc, mapping.real)
  anim = RemoveAnimationFilter()             # one instance for the whole sequence, as the LCD filter uses it
  n = 0
  for k, f in enumerate(hist):
    s = dict(src, step=k, mapping=mapping.name)
    if f == "ra":
      for e in ([body] if body is not None else []) + regions:
        before = U.project_element(e, mapping, True)
        flag0 = anim.has_removed_animations()
        anim.process_element(e)
        sink(U.step_record("ra", before, U.project_element(e, mapping, True), rec=1, flag0=int(flag0),
                           flag1=int(anim.has_removed_animations())), s)
        n += 1
    elif f == "ki":
      before = U.project_initials(doc, mapping)
      SupportedStylePropertiesFilter(rsup).process_initial_values(doc)
      sink(U.step_record("ki", before, U.project_initials(doc, mapping), sup=tables["sup"]), s)
      n += 1
    elif body is not None:
      rec = 1 if f == "kb" else 0
      before = U.project_element(body, mapping, True)
      SupportedStylePropertiesFilter(rsup).process_element(body, recursive=bool(rec))
      sink(U.step_record("ke", before, U.project_element(body, mapping, True), rec=rec, sup=tables["sup"]), s)
      n += 1
  return n


def _enum_chunk(args):
  """Worker: items lo..hi-1 of the family, every history up to `depth`."""
  mode, items, lo, depth, tables, nmap = args
  core.use_repo_sources()
  maps = U.mappings()
  recs, seen = [], set()
  counts = {"sequences": 0, "applications": 0}

  def sink(rec, src):
    key = U.key_of(rec)
    if key not in seen:
      seen.add(key)
      recs.append((rec, src))

  for j, item in enumerate(items):
    for hist in U.histories(U.ISD_FILTERS if mode == "isd" else U.DOC_FILTERS, depth):
      # the mapping varies with the item so that every mapping sees every history
      for mk in range(nmap):
        mapping = maps[(lo + j + mk) % len(maps)]
        src = {"source": "enum_" + mode, "item": lo + j, "hist": list(hist)}
        if mode == "isd":
          counts["applications"] += run_isd_sequence(item, hist, mapping, tables, sink, src)
        else:
          counts["applications"] += run_doc_sequence(item, hist, mapping, tables, sink, src)
      counts["sequences"] += 1
  return recs, counts


# ----------------------------------------------------------------------------------------------------
# code -> spec: random material
# ----------------------------------------------------------------------------------------------------

def writer_chains():
  """The filter chains of the writers, as the writers build them: name -> list of filter objects."""
  from ttconv.srt.writer import SrtContext
  from ttconv.vtt.writer import VttContext
  from ttconv.vtt.config import VTTWriterConfiguration
  chains = {"srt": list(SrtContext.filters)}
  for lp in (False, True):
    for ta in (False, True):
      ctxt = VttContext(VTTWriterConfiguration(line_position=lp, text_align=ta))
      chains["vtt_lp%d_ta%d" % (lp, ta)] = list(ctxt._filters)     # pylint: disable=protected-access
  return chains


def rand_tables(rng, namer, cat):
  """Random supported / defaults tables over the catalogue, as real filter arguments."""
  rsup, rdefs = {}, {}
  for n, vals in cat.items():
    if rng.random() < 0.5:
      rsup[U.prop_by_name(n)] = [] if rng.random() < 0.5 else [v for v in vals if rng.random() < 0.6]
    if rng.random() < 0.4:
      rdefs[U.prop_by_name(n)] = vals[0] if rng.random() < 0.7 else rng.choice(vals)
  return rsup, rdefs


def apply_chain(isd, chain, namer, inh, sink, src):
  before = U.project_isd(isd, namer)
  for k, flt in enumerate(chain):
    f, rsup, rdefs = U.classify_isd_filter(flt)
    # tokens of the tables first: the tables may hold values the ISD does not
    extra = {}
    if f == "ks":
      extra["sup"] = namer.sup(rsup)
    if f == "rd":
      extra["defs"], extra["inh"], extra["interned"] = namer.defs(rdefs), inh, 0
    flt.process(isd)
    after = U.project_isd(isd, namer)
    sink(U.step_record(f, before, after, **extra), dict(src, step=k))
    before = after


def _random_chunk(args):
  """Worker: random documents lo..hi-1 (each reproducible from (seed, n))."""
  seed, lo, hi = args
  core.use_repo_sources()
  from ttconv.isd import ISD
  from ttconv.filters.remove_animations import RemoveAnimationFilter
  from ttconv.filters.supported_style_properties import SupportedStylePropertiesFilter
  cat = U.doc_catalogue()
  inh = U.inherited_names()
  maps = U.mappings()
  recs, seen = [], set()
  counts = {"documents": 0, "isds": 0, "snapshot_raised": 0, "sparse_isds": 0, "doc_filter_calls": 0}

  def sink(rec, src):
    key = U.key_of(rec)
    if key not in seen:
      seen.add(key)
      recs.append((rec, src))

  for n in range(lo, hi):
    rng = random.Random("x01:%d:%d" % (seed, n))
    # (a) a document, its snapshots, the writers' chains and one random chain
    doc, times = U.rand_document(rng, cat)
    counts["documents"] += 1
    chain_names = sorted(writer_chains())
    for t in times:
      which = [rng.choice(chain_names), rng.choice(chain_names), "random"]
      for cname in which:
        try:
          isd = ISD.from_model(doc, t)
        except Exception:     # pylint: disable=broad-except
          counts["snapshot_raised"] += 1      # the ruby pruning defect known from C01/C13; not this check's business
          break
        if isd is None:
          break
        namer = U.Tokens()
        if cname == "random":
          rsup, rdefs = rand_tables(rng, namer, cat)
          chain = [U.make_isd_filter(rng.choice(U.ISD_FILTERS), rsup, rdefs) for _ in range(rng.randint(1, 5))]
        else:
          chain = writer_chains()[cname]
        counts["isds"] += 1
        apply_chain(isd, chain, namer, inh, sink, {"source": "from_model", "doc": n, "t": str(t), "chain": cname})
    # (b) sparse ISDs built directly, random chains and tables over the small alphabet
    for q in range(3):
      mapping = maps[(n + q) % len(maps)]
      props = {a: sorted(vals) for a, (_, vals) in mapping.table.items()}
      aisd = U.rand_abstract_isd(rng, props)
      ainh = sorted(a for a, (pn, _) in mapping.table.items() if U.prop_by_name(pn).is_inherited)
      sup = {a: ([] if rng.random() < 0.5 else [t for t in toks if rng.random() < 0.6]) for a, toks in props.items() if rng.random() < 0.7}
      defs = {a: rng.choice(toks) for a, toks in props.items() if rng.random() < 0.7}
      hist = [rng.choice(U.ISD_FILTERS) for _ in range(rng.randint(1, 4))]
      counts["sparse_isds"] += 1
      run_isd_sequence(aisd, hist, mapping, {"sup": sup, "defs": defs, "inh": ainh}, sink,
                       {"source": "sparse_isd", "doc": n, "q": q, "isd": aisd, "hist": hist, "sup": sup, "defs": defs})
    # (c) the element filters on the document itself
    namer = U.Tokens()
    body = doc.get_body()
    anim = RemoveAnimationFilter()
    targets = [body] + list(doc.iter_regions()) + [e for e in body.dfs_iterator()][1:4]
    rng.shuffle(targets)
    for e in targets:
      rec = rng.random() < 0.6
      before = U.project_element(e, namer, True)
      flag0 = anim.has_removed_animations()
      anim.process_element(e, recursive=rec)
      sink(U.step_record("ra", before, U.project_element(e, namer, True), rec=int(rec), flag0=int(flag0),
                         flag1=int(anim.has_removed_animations())), {"source": "document", "doc": n, "call": "ra"})
      counts["doc_filter_calls"] += 1
    rsup, _ = rand_tables(rng, namer, cat)
    flt = SupportedStylePropertiesFilter(rsup)
    before = U.project_initials(doc, namer)
    sup = namer.sup(rsup)
    flt.process_initial_values(doc)
    sink(U.step_record("ki", before, U.project_initials(doc, namer), sup=sup), {"source": "document", "doc": n, "call": "ki"})
    for e in targets[:2]:
      rec = rng.random() < 0.6
      before = U.project_element(e, namer, True)
      flt.process_element(e, recursive=rec)
      sink(U.step_record("ke", before, U.project_element(e, namer, True), rec=int(rec), sup=sup),
           {"source": "document", "doc": n, "call": "ke"})
      counts["doc_filter_calls"] += 2
  return recs, counts


def _dispatch(job):
  return job[0](job[1])


# ----------------------------------------------------------------------------------------------------
# verdicts
# ----------------------------------------------------------------------------------------------------

def run_trace(part, name):
  text = "\n".join(json.dumps(dict(rec, id=j + 1), separators=(",", ":")) for j, (rec, _) in enumerate(part)) + "\n"
  res = T.run_tlc("Trace_IsdFilters", CFG_TRACE, workers=1, env={"TRACE_FILE": "trace.ndjson"},
                  extra_files={"trace.ndjson": text}, timeout=2400, name="x01trace_" + name, java_opts=("-Xmx4g",))
  done = res.values("DONE")
  if not done or done[0][1] != len(part):
    raise T.MachineryError("trace not consumed: " + res.out[-1500:])
  return res


def features(rec, src, clause):
  f = {"filter": rec["f"], "source": src.get("source", ""), "mapping": src.get("mapping", ""), "chain": src.get("chain", "")}
  if rec["f"] in U.ISD_FILTERS:
    kinds = U.kinds_in(rec["before"])
    f["has_ruby"] = "ruby" in kinds
    f["regions"] = len(rec["before"])
    f["regions_with_body"] = sum(1 for r in rec["before"] if r["children"])
  if rec["f"] == "rd":
    f["interned"] = bool(rec["interned"])
    f["gap"] = U.has_gap(rec["before"], rec["defs"], set(rec["inh"]))
  if rec["f"] in ("ra", "ke"):
    f["recursive"] = bool(rec["rec"])
  return f


def show(rec):
  def styles(n):
    return ",".join("%s=%s" % kv for kv in sorted(n["styles"].items()))

  def node(n):
    if n["kind"] == "text":
      return repr(n["text"])
    s = n["kind"] + (":" + n["id"] if n["id"] else "") + ("{" + styles(n) + "}" if n["styles"] else "")
    a = "@%d" % len(n["anims"]) if n.get("anims") else ""
    return s + a + ("[" + " ".join(node(c) for c in n["children"]) + "]" if n["children"] else "")

  def side(x):
    if isinstance(x, list):
      return " | ".join(node(r) for r in x)
    if isinstance(x, dict) and "kind" in x:
      return node(x)
    return json.dumps(x, sort_keys=True)

  return "%s: %s  ->  %s" % (rec["f"], side(rec["before"])[:400], side(rec["after"])[:400])


def report(ctx, res, part, label):
  ctx.tlc(res, "trace validation %s (%d steps)" % (label, len(part)))
  for _, ri, detail, clause in res.values("FAIL"):
    rec, src = part[ri - 1]
    f = features(rec, src, clause)
    extra = {k: v for k, v in rec.items() if k not in ("before", "after", "f")}
    ctx.violation(clause, {"record": rec, "from": src, "detail": detail, "seed": ctx.seed}, f,
                  "%s (detail %s) %s %s from %s" % (show(rec), detail, json.dumps(extra, sort_keys=True)[:200], "",
                                                    {k: v for k, v in src.items() if k not in ("isd",)}))
  ctx.traces += len(part)


def apply_fragment(ctx):
  """Divergences listed in findings_X01.json are reported as NOTE lines, not as violations."""
  if not os.path.exists(FRAGMENT):
    return
  with open(FRAGMENT) as fh:
    entries = json.load(fh).get("findings", [])
  keep, hits = [], {}
  for v in ctx.violations:
    v2 = dict(v)
    v2["pid"] = PID
    hit = next((e for e in entries if core._match(e, v2)), None)  # pylint: disable=protected-access
    if hit is None:
      keep.append(v)
    else:
      hits.setdefault(hit["id"], [hit, 0, v])[1] += 1
  for fid, (e, n, v) in hits.items():
    print(f"NOTE property={PID} {fid}: {e['what']} ({n} step(s) this run; e.g. {v['what'][:300]})")
    ctx.count("note_" + fid, n)
  ctx.violations = keep


def replay(ctx, rp):
  """Re-run the step of a replay file against the current code, where the input can be rebuilt (abstract names)."""
  case = rp["case"]
  rec, src = case["record"], case["from"]
  maps = {m.name: m for m in U.mappings()}
  recs = []
  if src.get("mapping") in maps and rec["f"] in U.ISD_FILTERS:
    tables = {"sup": rec.get("sup", {}), "defs": rec.get("defs", {}), "inh": rec.get("inh", [])}
    if rec["f"] != "rd":
      tables["inh"] = sorted(a for a, (pn, _) in maps[src["mapping"]].table.items() if U.prop_by_name(pn).is_inherited)
    run_isd_sequence(rec["before"], [rec["f"]], maps[src["mapping"]], tables, lambda r, s: recs.append((r, s)), src)
  elif src.get("source") in ("from_model", "document"):
    got, _ = _random_chunk((case.get("seed", ctx.seed), src["doc"], src["doc"] + 1))
    recs = [(r, s) for r, s in got if r["f"] == rec["f"] and r["before"] == rec["before"]][:1]
  if not recs:
    recs = [(rec, src)]             # judge the recorded observation again
  ctx.nontrivial("replay")
  report(ctx, run_trace(recs, "replay"), recs, "replay")
  ctx.evaluations += len(recs)


def run(ctx):
  ctx.rule = ("a case is one application of one filter to one ISD / element (a step), distinct by (input, filter, tables, output); "
              "steps come from every filter sequence up to the depth on every ISD / document of the TLC family, from the writers' "
              "chains on snapshots of random documents, from random chains on random sparse ISDs; non-trivial = the filter changed "
              "its input")
  if ctx.replay_case:
    replay(ctx, ctx.replay_case)
    return apply_fragment(ctx)
  thorough = ctx.thorough()
  fam = "large" if thorough else "small"
  depth = 3 if thorough else 2
  doc_depth = 3 if thorough else 2
  nmap = 1
  nrandom = 2500 if thorough else 160

  pool_tlc = ThreadPoolExecutor(max_workers=4)
  # 1. the design, exhaustively on the bounded families (while the implementation is driven)
  designs = [("isd %s depth %d" % (fam, depth), pool_tlc.submit(T.run_tlc, "IsdFilters", cfg("isd", depth, fam), workers=4,
                                                              timeout=1700, name="x01design_isd", coverage=thorough)),
             ("doc depth %d" % doc_depth, pool_tlc.submit(T.run_tlc, "IsdFilters", cfg("doc", doc_depth, fam), workers=2,
                                                          timeout=1700, name="x01design_doc"))]
  if thorough:
    designs.append(("isd small depth 4", pool_tlc.submit(T.run_tlc, "IsdFilters", cfg("isd", 4, "small"), workers=4,
                                                         timeout=1700, name="x01design_isd4")))

  # 2. the families, from TLC
  isds, tables, res_fi = dump_family("isd", fam)
  docs, tables_d, res_fd = dump_family("doc", fam)
  ctx.tlc(res_fi, "family of ISDs (%s)" % fam)
  ctx.tlc(res_fd, "family of documents")
  if tables != tables_d:
    raise T.MachineryError("tables differ between runs")
  ctx.count("family_isds", len(isds))
  ctx.count("family_documents", len(docs))

  # 3. drive the implementation
  jobs = []
  step = 40 if not thorough else 100
  for lo in range(0, len(isds), step):
    jobs.append((_enum_chunk, ("isd", isds[lo:lo + step], lo, depth, tables, nmap)))
  if thorough:
    small, _, _ = dump_family("isd", "small")
    for lo in range(0, len(small), step):
      jobs.append((_enum_chunk, ("isd", small[lo:lo + step], lo, 4, tables, 1)))
  for lo in range(0, len(docs), 130):
    jobs.append((_enum_chunk, ("doc", docs[lo:lo + 130], lo, doc_depth, tables, 1)))
  rstep = 20 if not thorough else 50
  for lo in range(0, nrandom, rstep):
    jobs.append((_random_chunk, (ctx.seed, lo, min(lo + rstep, nrandom))))

  allrecs, seen = [], set()
  tally = {}
  seqs = {"isd": 0, "doc": 0, "isd4": 0}
  mp = multiprocessing.get_context("fork")
  with mp.Pool(4) as pool:
    for (fn, a), (recs, counts) in zip(jobs, pool.imap(_dispatch, jobs, chunksize=1)):
      for k, v in counts.items():
        tally[k] = tally.get(k, 0) + v
      if fn is _enum_chunk:
        seqs["isd4" if (a[0] == "isd" and a[3] == 4) else a[0]] += counts["sequences"]
      for rec, src in recs:
        key = U.key_of(rec)
        if key not in seen:
          seen.add(key)
          allrecs.append((rec, src))
  for k, v in tally.items():
    ctx.count(k, v)
  ctx.count("distinct_steps", len(allrecs))
  for rec, src in allrecs:
    if rec["before"] != rec["after"]:
      ctx.nontrivial(U.key_of(rec))
  for want in ("enum_isd", "from_model", "sparse_isd", "enum_doc", "document"):
    for rec, src in allrecs:
      if src["source"] == want and rec["before"] != rec["after"]:
        ctx.sample({"from": {k: v for k, v in src.items() if k != "isd"}, "step": show(rec)[:700]})
        break

  # 4. judge: the records are split over a few TLC processes
  nparts = 1 if len(allrecs) <= 2000 else 4 if len(allrecs) <= 60000 else 8
  order = sorted(range(len(allrecs)), key=lambda j: U.size_of(allrecs[j][0]))     # balance the parts by size
  parts = [[allrecs[j] for j in order[k::nparts]] for k in range(nparts)]
  futs = [pool_tlc.submit(run_trace, part, "p%d" % k) for k, part in enumerate(parts) if part]
  for k, fut in enumerate(futs):
    report(ctx, fut.result(), parts[k], "part %d" % k)

  # 5. the design verdicts and the count of what was driven
  for label, fut in designs:
    res = fut.result()
    if res.violated:
      raise T.MachineryError("IsdFilters violates its own invariants (%s): %s" % (label, res.violated))
    ctx.tlc(res, "IsdFilters design: " + label)
    m = re.search(r"Finished computing initial states: (\d+) distinct states", res.out)
    inits = int(m.group(1)) if m else -1
    if label.startswith("isd small depth 4"):
      expect, ran = inits * sum(4 ** k for k in range(5)), seqs["isd4"]
    elif label.startswith("isd"):
      expect, ran = len(isds) * sum(4 ** k for k in range(depth + 1)), seqs["isd"]
      if inits != len(isds):
        raise T.MachineryError("TLC explored %d initial ISDs, the harness built %d" % (inits, len(isds)))
    else:
      expect, ran = len(docs) * sum(4 ** k for k in range(doc_depth + 1)), seqs["doc"]
      if inits != len(docs):
        raise T.MachineryError("TLC explored %d initial documents, the harness built %d" % (inits, len(docs)))
    if res.distinct != expect or ran != expect:
      raise T.MachineryError("%s: TLC explored %d states, %d (family x histories) expected, %d sequences run on the code"
                             % (label, res.distinct, expect, ran))
  pool_tlc.shutdown()
  ctx.count("sequences_run_isd", seqs["isd"] + seqs["isd4"])
  ctx.count("sequences_run_doc", seqs["doc"])
  ctx.evaluations += tally.get("applications", 0) + len(allrecs)
  ctx.exhaustive = True
  ctx.notes.append("notation: kind{property=token,...}[children]; tokens of the small model: d default, x / y other values; "
                   "v<k> the k-th distinct value of a property in a random case")
  ctx.assume("RemoveDefaults is read with TTML inheritance: an absent inherited property takes the value of the nearest ancestor "
             "that specifies it, whether or not the property applies to the elements in between; absent at the root = default")
  ctx.assume("when equal values are distinct objects the default filter may keep a default-valued pair under an equal-valued "
             "parent (both results compute the same styles); with shared objects the result is determined")
  ctx.assume("the merged region and its body carry no style; the merged paragraph carries the pairs all paragraphs agree on")
  apply_fragment(ctx)
