"""X02 - the lexical layer: attribute-value parsers against the grammars of TTML2 / IMSC 1.1.

Covered: ttconv.imsc.utils.parse_time_expression / parse_length / parse_font_families / serialize_font_family /
parse_position, ttconv.utils.parse_color, and the parameter attributes of ttconv.imsc.attributes (ttp:cellResolution,
ttp:frameRate, ttp:frameRateMultiplier, ttp:tickRate, ittp:aspectRatio, ttp:displayAspectRatio, tts:extent on tt,
ittp:activeArea, xml:space, timeContainer).

Design side : spec/Lex.tla gives every grammar twice - a character-level state machine and a recursive-descent operator
              with the abstract value.  spec/LexMC.tla builds strings piece by piece (all short strings over a small
              alphabet; all viable strings with at most one foreign / missing / replaced piece; component lists with odd
              separators; serialised family lists) and TLC checks on every one that the two formulations agree, plus
              facts about the languages (shape and sign of accepted times, prefix-freeness of lengths, colour ranges,
              four-component equivalence of positions, serialise-then-parse = identity, ...).
Spec -> code: every string TLC built (state dump) is given to the real parser (times: under up to four temporal
              contexts); spec/Trace_Lex.tla recomputes verdict and value.
Code -> spec: seeded well-formed and near-miss values from generators that know the shapes (many digits, leading zeros,
              3+ digit hours, non-ASCII digits, signs, exponents, white space, case, trailing characters, ...) -> the
              same trace validation.
"""
from __future__ import annotations

import json
import os
from concurrent.futures import ThreadPoolExecutor

from .. import tlc as T
from .. import lex_u as U

PID = "X02"
LEVEL = "model_checking"

CFG_TRACE = """INIT TInit
NEXT TNext
"""

def _groups(configs, n, thorough):
  """configuration ids split into n groups of similar cost (longest-processing-time first)"""
  groups = [[] for _ in range(n)]
  load = [0] * n
  for cid in sorted(configs, key=lambda c: (-U.weight(c, thorough), c)):
    k = load.index(min(load))
    groups[k].append(cid)
    load[k] += U.weight(cid, thorough)
  return [g for g in groups if g]


def explore(ctx, configs, names, sermax):
  """Run LexMC on the configurations (in parallel TLC processes).
  Returns (strings, family lists): [(grammar, text, config id)], [list of families] - distinct, in a stable order."""
  groups = _groups(configs, 4, ctx.thorough())

  def one(k):
    sub = {cid: configs[cid] for cid in groups[k]}
    mod = "MC_Lex%d" % k
    res = T.run_tlc(mod, U.MC_CFG, workers=1, timeout=3000 if ctx.thorough() else 600, dump="states%d.dump" % k,
                    extra_files={mod + ".tla": U.mc_module(mod, sub, names, sermax)}, name="lexmc%d" % k,
                    java_opts=("-Xmx6g",))
    if res.violated:
      raise T.MachineryError("LexMC violates its own invariants (%s): %s\n%s" % (groups[k], res.violated, res.out[-3000:]))
    path = os.path.join(res.workdir, "states%d.dump" % k)
    strings, fams = set(), set()
    for st in T.parse_dump_fast(path, {"id", "s", "q"}):
      c = configs[st["id"]]
      if c["mode"] == "ser":
        if st["q"]["p"]:
          fams.add(json.dumps(st["q"]["p"]))
      else:
        strings.add((c["gram"], U.text_of(st["s"]), st["id"]))
    os.remove(path)
    return res, strings, fams

  with ThreadPoolExecutor(max_workers=4) as ex:
    results = list(ex.map(one, range(len(groups))))
  strings, fams = set(), set()
  for k, (res, st, fm) in enumerate(results):
    ctx.tlc(res, "LexMC: " + " ".join(groups[k]))
    strings |= st
    fams |= fm
  return sorted(strings), [json.loads(x) for x in sorted(fams)]


def validate(ctx, recs):
  """Trace validation, split over parallel TLC processes; returns [(record index, clause)]."""
  n = len(recs)
  parts = 1 if n <= 4000 else 4 if n <= 400000 else 4 * ((n + 399999) // 400000)
  size = (n + parts - 1) // parts
  chunks = [(k * size, recs[k * size:(k + 1) * size]) for k in range(parts) if recs[k * size:(k + 1) * size]]

  def one(arg):
    off, part = arg
    text = "\n".join(json.dumps(r, separators=(",", ":")) for r in part) + "\n"
    res = T.run_tlc("Trace_Lex", CFG_TRACE, workers=1, env={"TRACE_FILE": "trace.ndjson"},
                    extra_files={"trace.ndjson": text}, timeout=6000 if ctx.thorough() else 900, name="lextrace",
                    java_opts=("-Xmx6g",))
    vals = res.values()                      # parse every printed line once
    done = [v for v in vals if v[0] == "DONE"]
    if not done or done[0][1] != len(part):
      raise T.MachineryError("trace not consumed: " + res.out[-2000:])
    bugs = [v for v in vals if v[0] == "SPECBUG"]
    if bugs:
      raise T.MachineryError("the two formulations of a grammar disagree on recorded strings: " +
                             "; ".join(repr((part[b[1] - 1]["g"], U.text_of(part[b[1] - 1]["s"]))) for b in bugs[:8]))
    return res, [(off + f[1] - 1, f[2]) for f in vals if f[0] == "FAIL"]

  with ThreadPoolExecutor(max_workers=4) as ex:
    results = list(ex.map(one, chunks))
  fails = []
  for res, fl in results:
    ctx.tlc(res, "trace validation")
    fails.extend(fl)
  return fails


def run(ctx):
  thorough = ctx.thorough()
  ctx.rule = ("strings built by TLC on spec/LexMC.tla (every string of bounded length over a small alphabet per grammar; every "
              "viable string of the character-level machines with at most one foreign, missing or replaced piece; component "
              "lists with odd separators; serialised family lists) and seeded well-formed / near-miss values; every one is "
              "given to the real parser; non-trivial = distinct (grammar, string, temporal context)")
  configs = U.model_configs(thorough)
  names = U.ser_names(thorough)
  strings, famlists = explore(ctx, configs, names, 2)

  # ---- spec -> code: one case per distinct (grammar, string) that TLC built
  seen = set()
  cases = []          # (gram, text, origin)
  sers = []
  for gram, text, cid in strings:
    if (gram, text) not in seen:
      seen.add((gram, text))
      cases.append((gram, text, "model:" + cid))
  for fams in famlists:
    seen.add(("ser", json.dumps(fams)))
    sers.append((fams, "model"))
  ctx.count("strings_from_model", len(cases))
  ctx.count("family_lists_from_model", len(sers))

  # ---- code -> spec: seeded values
  per = {"time": 30000, "length": 14000, "colour": 16000, "font": 14000, "position": 14000} if thorough else \
        {"time": 5000, "length": 2500, "colour": 3000, "font": 3000, "position": 3000}
  n_generated = 0
  for gram in U.GRAMMARS:
    n = per.get(gram, 6000 if thorough else 1200)
    for _ in range(n):
      text, tag = U.generate(ctx.rng, gram)
      key = (gram, text)
      if key in seen:
        continue
      seen.add(key)
      cases.append((gram, text, "gen:" + tag))
      n_generated += 1
  for _ in range(6000 if thorough else 1200):
    fams = U.gen_ser(ctx.rng)
    key = ("ser", json.dumps(fams))
    if key not in seen:
      seen.add(key)
      sers.append((fams, "gen"))
  ctx.count("strings_generated", n_generated)

  # ---- run the implementation
  recs = []
  meta = []
  with U.Drivers() as drv:
    for gram, text, origin in cases:
      for c in (U.time_contexts(text) if gram == "time" else [1]):
        acc, v, big = drv.run(gram, text, c)
        recs.append({"kind": "p", "g": gram, "s": U.cps(text), "c": c, "acc": acc, "v": v if acc == 1 else [], "big": big})
        meta.append((gram, text, origin, c, acc, v))
        ctx.nontrivial((gram, text, c))
    for fams, origin in sers:
      try:
        text = drv.serialize(fams)
      except Exception as ex:           # pylint: disable=broad-except
        text = "<" + type(ex).__name__ + ">"
      acc, v, big = drv.font(text)
      recs.append({"kind": "ser", "fams": fams, "s": U.cps(text), "acc": acc, "v": v if acc == 1 else [], "big": big})
      meta.append(("font", text, "ser:" + origin, 1, acc, v))
      ctx.nontrivial(("ser", text))
  ctx.evaluations = len(recs)
  if os.environ.get("VERIF_CORRUPT"):
    # self-test of the binding: one observation falsified
    for r in recs:
      if r["kind"] == "p" and r["g"] == "time" and r["acc"] == 1 and r["v"]:
        r["v"] = [r["v"][0] + 1, r["v"][1]]
        break

  # ---- TLC judges
  fails = validate(ctx, recs)
  ctx.traces = len(recs)
  # identical (clause, lexical description) cases are reported at most PER_SIGNATURE times; all are counted
  PER_SIGNATURE = 4
  signature_count = {}
  for idx, kind in sorted(fails):
    gram, text, origin, c, acc, v = meta[idx]
    clause = "lex_%s_%s" % (gram, kind)
    feats = U.features(gram, text)
    feats["origin"] = origin.split(":")[0]
    feats["context"] = c
    ctx.count("failing_cases", 1)
    ctx.count("failing_" + clause, 1)
    sig = (clause,) + tuple(sorted((k, str(x)) for k, x in feats.items() if k not in ("length", "families", "components")))
    signature_count[sig] = signature_count.get(sig, 0) + 1
    if signature_count[sig] > PER_SIGNATURE:
      continue
    if recs[idx]["kind"] == "ser":
      feats["ser"] = True
      feats["families_in"] = [[f[0], U.text_of(f[1])] for f in recs[idx]["fams"]]
    shown = v
    if gram == "font" and acc == 1:
      shown = [[f[0], U.text_of(f[1])] for f in v]
    ctx.violation(clause, {"grammar": gram, "string": text, "code_points": U.cps(text), "context": U.CONTEXTS[c - 1],
                           "accepted": acc, "observed": shown, "origin": origin},
                  feats, "%s %r (context %d): parser %s %s" % (gram, text, c, {0: "rejected", 1: "returned", 2: "raised"}[acc],
                                                                 json.dumps(shown, ensure_ascii=True)[:200]))
  if os.environ.get("X02_DUMP"):          # debugging aid: every violation of this run, one JSON object per line
    with open(os.environ["X02_DUMP"], "w") as fh:
      for v in ctx.violations:
        fh.write(json.dumps({"clause": v["clause"], "case": v["case"], "features": v["features"]}) + "\n")
  for k in (0, len(recs) // 3, 2 * len(recs) // 3):
    if recs:
      r = dict(recs[k])
      r["text"] = U.text_of(r["s"])
      ctx.sample(r)
  ctx.exhaustive = False
  ctx.assume("grammars as transcribed in the header of spec/Lex.tla (TTML2 2nd ed. 7.2, 10.3, 12.3.1; IMSC 1.1 7): no LWSP "
             "between tokens unless the production says so; keywords, units, metrics and colour names are case-sensitive")
  ctx.assume("not judged: how many white-space characters separate the identifiers of an unquoted family name; escaped "
             "spellings of generic family names; zero / negative / fractional pixel counts in tts:extent on tt; values beyond "
             "32-bit arithmetic (verdict judged, value not); wallclock-time; tts:extent auto / contain")
  ctx.assume("the parameter-attribute extractors accept a value iff they log no error (they report and ignore bad values)")
