"""C19 helpers: abstract jobs of spec/Cli.tla -> concrete command lines, input files and configurations.

Nothing here judges the property: it writes sample inputs, spells command lines, lexes strings (lexical classes of
configuration values, xml:lang of a TTML output) and defines two order-sensitive document filters that are registered
at run time through the public DocumentFilter registry (no repository edit).
"""
from __future__ import annotations

import json
import os
import re
import shutil

# (written in ISO 8859-1, as its XML declaration says: the encoding of a TTML file is the XML parser's business)
TTML_SAMPLE = """<?xml version="1.0" encoding="ISO-8859-1"?>
<tt xml:lang="en" xmlns="http://www.w3.org/ns/ttml" xmlns:tts="http://www.w3.org/ns/ttml#styling"
    xmlns:ttp="http://www.w3.org/ns/ttml#parameter" xmlns:ttm="http://www.w3.org/ns/ttml#metadata"
    xmlns:ex="http://example.com/ns/verif" ttp:cellResolution="32 15" ex:note="foreign">
  <head>
    <styling>
      <style xml:id="s1" tts:color="yellow" tts:fontStyle="italic"/>
      <style xml:id="s2" tts:textAlign="end" tts:backgroundColor="#00000080"/>
    </styling>
    <layout>
      <region xml:id="top" tts:origin="10% 10%" tts:extent="80% 20%" tts:textAlign="start"/>
      <region xml:id="bottom" tts:origin="10% 70%" tts:extent="80% 20%" tts:displayAlign="after"/>
    </layout>
  </head>
  <body>
    <div>
      <p region="bottom" begin="1s" end="3s" style="s2">First <span style="s1">cue</span> of the sample: caf\u00e9 na\u00efve \u00a9</p>
      <p region="top" begin="2.5s" end="4s">Second cue<br/>on <span tts:color="RGB(0,255,0)">two</span> lines</p>
      <p region="bottom" begin="5s" end="6.5s"><span tts:fontWeight="bold">Third</span> &amp; last <span tts:textDecoration="underline">cue</span>
        <set begin="0.5s" end="1s" tts:color="red"/></p>
    </div>
  </body>
</tt>
"""

SRT_SAMPLE = """1
00:00:01,000 --> 00:00:02,500
<i>Hello</i> world

2
00:00:03,000 --> 00:00:04,250
Second <b>cue</b>
on two lines

3
00:01:00,000 --> 00:01:01,000
<font color="#ff0000">Red</font> text <font color="rgb(0,255,0)">green</font>

"""


def resources_root(src):
  return os.path.normpath(os.path.join(src, "..", "..", "test", "resources"))


def write_samples(src, root):
  """One sample per input format under root/samples; returns {format: path}."""
  d = os.path.join(root, "samples")
  os.makedirs(d, exist_ok=True)
  res = resources_root(src)
  out = {}
  out["ttml"] = os.path.join(d, "sample_ttml.bin")
  with open(out["ttml"], "w", encoding="iso-8859-1") as fh:
    fh.write(TTML_SAMPLE)
  out["srt"] = os.path.join(d, "sample_srt.bin")
  with open(out["srt"], "w", encoding="utf-8") as fh:
    fh.write(SRT_SAMPLE)
  for fmt, rel in (("scc", "scc/pop-on.scc"), ("stl", "stl/sandflow/test_tcp_processing.stl"), ("vtt", "vtt/alignment.vtt")):
    out[fmt] = os.path.join(d, "sample_%s.bin" % fmt)
    shutil.copyfile(os.path.join(res, rel), out[fmt])
  # cues that name a setting twice with different values (the last one counts, whatever the order a hash table gives)
  with open(out["vtt"], "a", encoding="utf-8") as fh:
    fh.write(VTT_EXTRA)
  return out


VTT_EXTRA = """
rep1
01:00:01.000 --> 01:00:02.000 align:start align:end line:10% line:80%
a setting given twice

rep2
01:00:03.000 --> 01:00:04.000 position:20% size:50% vertical:lr vertical:rl align:center align:start
and once more
"""


def config_dict(settings):
  """Settings of one configuration of Cli!Configs -> the JSON object given to tt."""
  cfg = {}
  for s in settings:
    cfg.setdefault(s["m"], {})[s["k"]] = json.loads(s["json"])
  return cfg


def config_text(settings):
  """The configuration as TEXT (what --config takes, what a --config_file holds).  A setting of type "notjson" is written as
  its text stands in the catalogue - a string with a raw control character: the result is not JSON."""
  cfg = {}
  raw = {}
  for n, s in enumerate(settings):
    if s["v"]["t"] == "notjson":
      mark = "@@RAW%d@@" % n
      raw[json.dumps(mark)] = s["json"]
      cfg.setdefault(s["m"], {})[s["k"]] = mark
    else:
      cfg.setdefault(s["m"], {})[s["k"]] = json.loads(s["json"])
  text = json.dumps(cfg)
  for mark, rawtext in raw.items():
    text = text.replace(mark, rawtext)
  return text


# lexical classes of string values (Cli!Accept only looks at membership)
_NAMED_COLORS = {"transparent", "black", "silver", "gray", "white", "maroon", "red", "purple", "fuchsia", "magenta", "green", "lime",
                 "olive", "yellow", "navy", "blue", "teal", "aqua", "cyan"}
_RE_FRACTION = re.compile(r"^(\d+)/(\d+)$")
_RE_TIMECODE = re.compile(r"^\d\d:\d\d:\d\d[:;]\d\d$")
_RE_HEXCOLOR = re.compile(r"^#[0-9a-fA-F]{6}([0-9a-fA-F]{2})?$")
_RE_RGB = re.compile(r"^rgba?\(\s*\d{1,3}\s*(,\s*\d{1,3}\s*){2,3}\)$")
_RE_LANGTAG = re.compile(r"^[A-Za-z]{2,8}(-[A-Za-z0-9]{1,8})*$")
_RE_FAMILY = re.compile(r"^\s*(\"[^\"]+\"|'[^']+'|[A-Za-z_][A-Za-z0-9_-]*(\s+[A-Za-z_][A-Za-z0-9_-]*)*)\s*$")


def syn_classes(value):
  if not isinstance(value, str):
    return []
  out = []
  m = _RE_FRACTION.match(value)
  if m and int(m.group(2)) > 0 and int(m.group(1)) > 0:
    out.append("fraction")
  if _RE_TIMECODE.match(value):
    out.append("timecode")
  if value in _NAMED_COLORS or _RE_HEXCOLOR.match(value) or _RE_RGB.match(value):
    out.append("color")
  if _RE_LANGTAG.match(value):
    out.append("langtag")
  if value.strip() and all(_RE_FAMILY.match(part) for part in value.split(",")):
    out.append("fontfamilies")
  return out


# which lexical class matters for a key (the others are not reported, the catalogue lists only the relevant one)
RELEVANT_SYN = {("general", "document_lang"): "langtag", ("imsc_writer", "fps"): "fraction",
                ("stl_reader", "program_start_tc"): "timecode", ("stl_reader", "font_stack"): "fontfamilies",
                ("lcd", "color"): "color", ("lcd", "bg_color"): "color"}


def setting_syn(s):
  want = RELEVANT_SYN.get((s["m"], s["k"]))
  if s["v"]["t"] == "notjson":
    return []
  return [c for c in syn_classes(json.loads(s["json"])) if c == want]


_RE_LANG = re.compile(rb"<(?:\w+:)?tt\b[^>]*?\sxml:lang=\"([^\"]*)\"", re.S)


def root_lang(data: bytes):
  m = _RE_LANG.search(data)
  return m.group(1).decode("utf-8", "replace") if m else ""


def argv_for(job, inpath, outpath, configs, cfgdir):
  """Command line of one abstract job."""
  argv = [job["cmd"], "-i", inpath, "-o", outpath]
  if job["itype"] != "-":
    argv += ["--itype", job["itype"]]
  if job["otype"] != "-":
    argv += ["--otype", job["otype"]]
  for f in job["filters"]:
    argv += ["--filter", f]
  if job["inline"]:
    argv += ["--config", config_text(configs[job["inline"]])]
  if job["cfgfile"]:
    path = os.path.join(cfgdir, "cfg_%d.json" % job["cfgfile"])
    if not os.path.exists(path):
      with open(path, "w", encoding="utf-8") as fh:
        fh.write(config_text(configs[job["cfgfile"]]))
    argv += ["--config_file", path]
  return argv


def input_path(samples, indir, content, iext):
  """The sample of format `content` under a name with extension `iext` (as written, '' = no extension)."""
  if iext.startswith("/"):
    # a file whose whole name is iext[1:] (no dot in it): one directory per format keeps the names apart
    os.makedirs(os.path.join(indir, "named_" + content), exist_ok=True)
    path = os.path.join(indir, "named_" + content, iext[1:])
  else:
    path = os.path.join(indir, "in_%s%s" % (content, iext))
  if not os.path.exists(path):
    shutil.copyfile(samples[content], path)
  return path


def register_stamp_filters():
  """Two document filters whose effects do not commute: each appends its mark to the first text of the document."""
  from dataclasses import dataclass
  from ttconv.config import ModuleConfiguration
  from ttconv.filters.document_filter import DocumentFilter
  import ttconv.model as model

  if DocumentFilter.get_filter_by_name("stampa") is not None:
    return

  def make(name, mark):
    @dataclass
    class Cfg(ModuleConfiguration):
      @classmethod
      def name(cls):
        return name

    class Stamp(DocumentFilter):
      @classmethod
      def get_config_class(cls):
        return Cfg

      def process(self, doc):
        body = doc.get_body()
        if body is None:
          return
        for e in body.dfs_iterator():
          if isinstance(e, model.Text) and e.get_text().strip():
            e.set_text(e.get_text() + mark)
            return
    return Stamp

  make("stampa", "[a]")
  make("stampb", "[b]")
