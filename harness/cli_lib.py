"""C19: the library composition a `tt convert` job must equal, run in a FRESH process.

Run as  python -m harness.cli_lib <spec.json>  (PYTHONHASHSEED chosen by the caller); prints one JSON object.
spec: {"src": TTCONV_SRC, "input": path, "reader": fmt, "writer": fmt, "config": {...} | null, "filters": [names], "out": path}

reader -> (document_lang) -> document filters in order -> writer, every module configuration parsed from its JSON object with
<ConfigurationClass>.parse.  Only the public library API is used (ttconv.tt is not imported).
"""
from __future__ import annotations

import hashlib
import json
import os
import sys


def compose(spec):
  import xml.etree.ElementTree as et
  from pathlib import Path
  from ttconv.config import GeneralConfiguration
  from ttconv.filters.document_filter import DocumentFilter
  from . import cli_jobs as J
  J.register_stamp_filters()
  cfg = spec["config"] or {}

  import copy

  def parsed(cls):
    # every use of a module configuration is parsed from its own copy of the JSON object (a parser must not depend on,
    # or change, what an earlier parse saw)
    return cls.parse(copy.deepcopy(cfg[cls.name()])) if cfg.get(cls.name()) is not None else None

  general = parsed(GeneralConfiguration)
  reader = spec["reader"]
  if reader == "ttml":
    import ttconv.imsc.reader as imsc_reader
    doc = imsc_reader.to_model(et.parse(spec["input"]))
  elif reader == "scc":
    import ttconv.scc.reader as scc_reader
    from ttconv.scc.config import SccReaderConfiguration
    doc = scc_reader.to_model(Path(spec["input"]).read_text(), parsed(SccReaderConfiguration))
  elif reader == "stl":
    import ttconv.stl.reader as stl_reader
    from ttconv.stl.config import STLReaderConfiguration
    with open(spec["input"], "rb") as fh:
      doc = stl_reader.to_model(fh, parsed(STLReaderConfiguration))
  elif reader == "srt":
    import ttconv.srt.reader as srt_reader
    with open(spec["input"], "r", encoding="utf-8") as fh:
      doc = srt_reader.to_model(fh)
  elif reader == "vtt":
    import ttconv.vtt.reader as vtt_reader
    with open(spec["input"], "r", encoding="utf-8") as fh:
      doc = vtt_reader.to_model(fh)
  else:
    raise ValueError("no reader " + reader)

  if general is not None and general.document_lang is not None:
    doc.set_lang(general.document_lang)

  for name in spec["filters"]:
    cls = DocumentFilter.get_filter_by_name(name)
    ccls = cls.get_config_class()
    conf = ccls.parse(copy.deepcopy(cfg[ccls.name()])) if cfg.get(ccls.name()) is not None else ccls()
    cls(conf).process(doc)

  writer = spec["writer"]
  if writer == "ttml":
    import ttconv.imsc.writer as imsc_writer
    from ttconv.imsc.config import IMSCWriterConfiguration
    imsc_writer.from_model(doc, parsed(IMSCWriterConfiguration)).write(spec["out"], encoding="utf-8")
  elif writer == "srt":
    import ttconv.srt.writer as srt_writer
    from ttconv.srt.config import SRTWriterConfiguration
    text = srt_writer.from_model(doc, parsed(SRTWriterConfiguration))
    with open(spec["out"], "w", encoding="utf-8") as fh:
      fh.write(text)
  elif writer == "vtt":
    import ttconv.vtt.writer as vtt_writer
    from ttconv.vtt.config import VTTWriterConfiguration
    text = vtt_writer.from_model(doc, parsed(VTTWriterConfiguration))
    with open(spec["out"], "w", encoding="utf-8") as fh:
      fh.write(text)
  else:
    raise ValueError("no writer " + writer)


def main():
  with open(sys.argv[1]) as fh:
    spec = json.load(fh)
  if spec["src"] not in sys.path:
    sys.path.insert(0, spec["src"])
  import logging
  logging.disable(logging.CRITICAL)
  res = {"status": "ok", "exc": "", "sha": "", "lang": ""}
  if os.path.exists(spec["out"]):
    os.remove(spec["out"])
  try:
    compose(spec)
    with open(spec["out"], "rb") as fh:
      data = fh.read()
    from . import cli_jobs as J
    res["sha"] = hashlib.sha256(data).hexdigest()
    res["lang"] = J.root_lang(data)
  except BaseException as ex:  # pylint: disable=broad-except
    res["status"] = "error"
    res["exc"] = type(ex).__name__ + ": " + str(ex)[:200]
  sys.stdout.write(json.dumps(res) + "\n")


if __name__ == "__main__":
  main()
