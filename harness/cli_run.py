"""C19 driver: replays histories of `tt convert` invocations, each history in ONE interpreter.

Run as  python -m harness.cli_run <plan.json> <result.json>  (PYTHONHASHSEED chosen by the caller).
plan: {"src": <TTCONV_SRC>, "par": n, "runs": [{"id": r, "jobs": [{"argv": [...], "out": path}, ...]}, ...]}

This process imports ttconv.tt (and registers the two stamp filters) and then forks one child per run: a child is an
interpreter whose only past is the import, it calls ttconv.tt.main(argv) for every job of its history in order and
reports, per job: status ("ok" | "error"), exception class, whether the output file exists, its sha256 and the
xml:lang of its root element.  Nothing is judged here.
"""
from __future__ import annotations

import hashlib
import json
import os
import sys


def run_history(tt, jobs):
  from . import cli_jobs as J
  res = []
  for job in jobs:
    out = job["out"]
    if os.path.exists(out):
      os.remove(out)
    status, exc = "ok", ""
    if job.get("cwd"):
      os.chdir(job["cwd"])
    try:
      tt.main(list(job["argv"]))
    except SystemExit as ex:
      exc = "SystemExit"
      status = "ok" if ex.code in (0, None) else "error"
    except BaseException as ex:  # pylint: disable=broad-except
      exc = type(ex).__name__
      status = "error"
    exists = os.path.exists(out)
    sha = ""
    lang = ""
    if exists:
      with open(out, "rb") as fh:
        data = fh.read()
      sha = hashlib.sha256(data).hexdigest()
      lang = J.root_lang(data)
    res.append({"status": status, "exc": exc, "outfile": exists, "sha": sha, "lang": lang})
  return res


def main():
  plan_path, result_path = sys.argv[1], sys.argv[2]
  with open(plan_path) as fh:
    plan = json.load(fh)
  if plan["src"] not in sys.path:
    sys.path.insert(0, plan["src"])
  import logging
  import ttconv.tt as tt
  from . import cli_jobs as J
  J.register_stamp_filters()
  assert os.path.abspath(tt.__file__).startswith(os.path.abspath(plan["src"])), tt.__file__
  par = max(1, int(plan.get("par", 2)))
  runs = plan["runs"]
  results = {}
  live = {}

  def reap(block):
    pid, _ = os.waitpid(-1, 0 if block else os.WNOHANG)
    if pid and pid in live:
      rid, path = live.pop(pid)
      try:
        with open(path) as fh:
          results[rid] = json.load(fh)
        os.remove(path)
      except Exception:  # pylint: disable=broad-except
        results[rid] = None

  for run in runs:
    while len(live) >= par:
      reap(True)
    tmp = result_path + ".%d.part" % run["id"]
    pid = os.fork()
    if pid == 0:
      try:
        devnull = os.open(os.devnull, os.O_WRONLY)
        os.dup2(devnull, 1)
        os.dup2(devnull, 2)
        logging.raiseExceptions = False
        # the caller's process: what `tt convert` writes depends on its arguments only, not on whether anybody listens to
        # its console (a closed or absent standard output, as under a service manager or pythonw) nor on the warning filters
        ctx = run["id"] % 4
        if ctx == 1:
          sys.stdout = open(os.devnull, "w")
          sys.stdout.close()
        elif ctx == 2:
          sys.stdout = None
        elif ctx == 3:
          import warnings
          warnings.simplefilter("error")
        r = run_history(tt, run["jobs"])
        with open(tmp, "w") as fh:
          json.dump(r, fh)
      finally:
        os._exit(0)
    live[pid] = (run["id"], tmp)
  while live:
    reap(True)
  with open(result_path, "w") as fh:
    json.dump({"hashseed": os.environ.get("PYTHONHASHSEED", ""), "results": [{"id": r["id"], "steps": results.get(r["id"])} for r in runs]}, fh)


if __name__ == "__main__":
  main()
