"""Check protocol: context, verdicts, known findings, replay files, evidence.

A check module defines  PID, LEVEL, and  run(ctx).  It reports through ctx:
  ctx.violation(clause, case, features=..., what=...)   a divergence between implementation and spec
  ctx.tlc(res)                                           accumulate TLC statistics
  ctx.count(key, n) / ctx.sample(x) / ctx.assume(text) / ctx.nontrivial(key)
Exit status: 0 held (known findings are printed as KNOWN-FINDING lines), 1 violation, 2 machinery failure.
"""
from __future__ import annotations

import hashlib
import json
import os
import random
import sys
import time
import traceback

from . import tlc as tlcmod

VERIF = os.path.dirname(os.path.dirname(os.path.abspath(__file__)))
EVIDENCE_DIR = os.path.join(VERIF, "evidence")
REPLAY_DIR = os.path.join(VERIF, "replay")
FINDINGS = os.path.join(VERIF, "known_findings.json")

SRC = os.environ.get("TTCONV_SRC", "/repo/src/main/python")


def use_repo_sources():
  """Make `import ttconv` resolve to the current working tree of /repo (or TTCONV_SRC)."""
  if SRC not in sys.path:
    sys.path.insert(0, SRC)
  for k in list(sys.modules):
    if k == "ttconv" or k.startswith("ttconv."):
      f = getattr(sys.modules[k], "__file__", "") or ""
      if not f.startswith(SRC):
        del sys.modules[k]


def jdefault(o):
  from fractions import Fraction
  if isinstance(o, Fraction):
    return f"{o.numerator}/{o.denominator}"
  if isinstance(o, (set, frozenset)):
    return sorted(o, key=repr)
  if isinstance(o, bytes):
    return o.hex()
  if isinstance(o, tuple):
    return list(o)
  return repr(o)


class Ctx:
  def __init__(self, pid, level, tier, seed):
    self.pid = pid
    self.level = level
    self.tier = tier
    self.seed = seed
    self.rng = random.Random(seed)
    self.t0 = time.time()
    self.violations = []
    self.states = 0
    self.transitions = 0
    self.traces = 0
    self.evaluations = 0
    self.nontrivial_keys = set()
    self.samples = []
    self.assumptions = []
    self.counts = {}
    self.tlc_runs = []
    self.exhaustive = None
    self.notes = []
    self.rule = ""
    self.replay_case = None

  # -- reporting --------------------------------------------------------------------------------
  def violation(self, clause, case, features=None, what=""):
    f = dict(features or {})
    f.setdefault("clause", clause)
    self.violations.append({"clause": clause, "case": case, "features": f, "what": what})

  def tlc(self, res: "tlcmod.TlcResult", label=""):
    self.states += res.distinct
    self.transitions += res.generated
    self.tlc_runs.append({"label": label, "distinct": res.distinct, "generated": res.generated,
                          "depth": res.depth, "wall_s": round(res.wall, 2),
                          "coverage": {k: list(v) for k, v in res.coverage.items()} or None})

  def count(self, key, n=1):
    self.counts[key] = self.counts.get(key, 0) + n

  def nontrivial(self, key):
    self.nontrivial_keys.add(key if isinstance(key, (str, int, tuple)) else json.dumps(key, sort_keys=True, default=jdefault))

  def sample(self, x, limit=6):
    if len(self.samples) < limit:
      self.samples.append(x)

  def assume(self, text):
    if text not in self.assumptions:
      self.assumptions.append(text)

  def thorough(self):
    return self.tier == "thorough"


def load_findings():
  """known_findings.json plus the per-property fragments findings_<pid>.json (all committed, never written at run time)."""
  import glob
  out = []
  for path in [FINDINGS] + sorted(glob.glob(os.path.join(VERIF, "findings_*.json"))):
    if not os.path.exists(path):
      continue
    with open(path) as fh:
      out.extend(json.load(fh).get("findings", []))
  return out


def _match(entry, v):
  if entry.get("status") != "known":
    return False
  props = entry.get("property")
  if v["pid"] not in (props if isinstance(props, list) else [props]):
    return False
  sel = entry.get("selector")
  if not sel:
    return False
  env = dict(v["features"])
  try:
    return bool(eval(sel, {"__builtins__": {}, "len": len, "abs": abs, "str": str, "int": int, "any": any,
                           "all": all, "min": min, "max": max, "isinstance": isinstance, "set": set},
                     {"f": env, **{k: x for k, x in env.items() if k.isidentifier()}}))
  except Exception:
    return False


def finish(ctx: Ctx, error=None) -> int:
  os.makedirs(EVIDENCE_DIR, exist_ok=True)
  findings = load_findings()
  real = []
  known = {}
  for v in ctx.violations:
    v["pid"] = ctx.pid
    hit = None
    for e in findings:
      if _match(e, v):
        hit = e
        break
    if hit is not None:
      known.setdefault(hit["id"], [hit, 0])[1] += 1
    else:
      real.append(v)
  for fid, (e, n) in known.items():
    print(f"KNOWN-FINDING: property={ctx.pid} {e['id']}: {e['what']} ({n} case(s) this run)")
  rc = 0
  replay_paths = []
  if real:
    groups = {}
    for v in real:
      key = (v["clause"],) + tuple(sorted((k, str(x)) for k, x in v["features"].items()
                                          if isinstance(x, (bool, str)) and k != "clause" and len(str(x)) < 40))
      groups[key] = groups.get(key, 0) + 1
    print(f"SUMMARY property={ctx.pid}: {len(real)} violating case(s) in {len(groups)} group(s)")
    for key, n in sorted(groups.items(), key=lambda kv: -kv[1])[:40]:
      print(f"  {n:6d} x {key[0]} " + " ".join(f"{k}={x}" for k, x in key[1:]))
    os.makedirs(os.path.join(REPLAY_DIR, ctx.pid), exist_ok=True)
    seen = set()
    for v in real:
      blob = json.dumps({"property": ctx.pid, "seed": ctx.seed, "tier": ctx.tier, "clause": v["clause"],
                         "what": v["what"], "features": v["features"], "case": v["case"]},
                        sort_keys=True, default=jdefault, indent=1)
      h = hashlib.sha1(blob.encode()).hexdigest()[:12]
      if h in seen:
        continue
      seen.add(h)
      path = os.path.join(REPLAY_DIR, ctx.pid, h + ".json")
      if len(seen) <= 25:
        with open(path, "w") as fh:
          fh.write(blob)
        print(f"VIOLATION property={ctx.pid} replay={path}")
        print(f"  clause={v['clause']} {v['what']}"[:600])
        replay_paths.append(path)
    if len(seen) > 25:
      print(f"  ... {len(seen) - 25} more violations not written")
    rc = 1
  if error is not None:
    rc = 2
  cov = {
    "states": ctx.states,
    "transitions": ctx.transitions,
    "traces_validated_against_impl": ctx.traces,
    "evaluations": max(ctx.evaluations, ctx.traces),
    "distinct_nontrivial": len(ctx.nontrivial_keys),
    "rule": ctx.rule,
    "samples": ctx.samples or ["(none)"],
    "tlc_runs": ctx.tlc_runs,
    "counts": ctx.counts,
    "known_findings_hit": {k: n for k, (e, n) in known.items()},
  }
  if ctx.exhaustive is not None:
    cov["exhaustive"] = bool(ctx.exhaustive)
  if ctx.notes:
    cov["notes"] = ctx.notes
  if error is not None:
    cov["machinery_error"] = error[-1500:]
  ev = {
    "property_id": ctx.pid,
    "tier": ctx.tier,
    "seed": ctx.seed,
    "level": ctx.level,
    "coverage": cov,
    "assumptions": ctx.assumptions,
    "wall_s": round(time.time() - ctx.t0, 2),
    "violations": len(real),
  }
  with open(os.path.join(EVIDENCE_DIR, ctx.pid + ".json"), "w") as fh:
    json.dump(ev, fh, indent=1, default=jdefault)
    fh.write("\n")
  if rc == 0:
    print(f"OK property={ctx.pid} tier={ctx.tier} seed={ctx.seed} states={ctx.states} "
          f"traces={ctx.traces} evaluations={cov['evaluations']} wall={ev['wall_s']}s")
  return rc


def main_for(module, argv=None) -> int:
  import argparse
  ap = argparse.ArgumentParser()
  ap.add_argument("--tier", default=os.environ.get("VERIF_TIER", "quick"), choices=["quick", "thorough"])
  ap.add_argument("--seed", type=int, default=int(os.environ.get("VERIF_SEED", "0") or 0))
  ap.add_argument("--replay", default=None)
  args = ap.parse_args(argv)
  use_repo_sources()
  import logging
  logging.getLogger("ttconv").setLevel(logging.CRITICAL + 10)
  ctx = Ctx(module.PID, module.LEVEL, args.tier, args.seed)
  if args.replay:
    with open(args.replay) as fh:
      ctx.replay_case = json.load(fh)
  try:
    module.run(ctx)
    return finish(ctx)
  except tlcmod.MachineryError as ex:
    print(f"MACHINERY-FAILURE property={module.PID}: {ex}", file=sys.stderr)
    return finish(ctx, error=str(ex))
  except Exception:
    tb = traceback.format_exc()
    print(f"MACHINERY-FAILURE property={module.PID}:\n{tb}", file=sys.stderr)
    return finish(ctx, error=tb)
