"""Check protocol: context, verdicts, known findings, replay files, evidence.

A check module defines  PID, LEVEL, and  run(ctx).  It reports through ctx:
  ctx.violation(clause, case, features=..., what=...)   a divergence between implementation and spec
  ctx.tlc(res)                                           accumulate TLC statistics
  ctx.count(key, n) / ctx.sample(x) / ctx.assume(text) / ctx.nontrivial(key)
Exit status: 0 held (known findings are printed as KNOWN-FINDING lines), 1 violation, 2 machinery failure.
"""
from __future__ import annotations

import logging
import hashlib
import json
import os
import random
import sys
import time
import traceback

from . import tlc as tlcmod

VERIF = os.path.dirname(os.path.dirname(os.path.abspath(__file__)))
EVIDENCE_DIR = os.path.join(VERIF, "evidence")
REPLAY_DIR = os.path.join(VERIF, "replay")
FINDINGS = os.path.join(VERIF, "known_findings.json")

SRC = os.environ.get("TTCONV_SRC", "/repo/src/main/python")


def use_repo_sources():
  """Make `import ttconv` resolve to the current working tree of /repo (or TTCONV_SRC)."""
  if SRC not in sys.path:
    sys.path.insert(0, SRC)
  for k in list(sys.modules):
    if k == "ttconv" or k.startswith("ttconv."):
      f = getattr(sys.modules[k], "__file__", "") or ""
      if not f.startswith(SRC):
        del sys.modules[k]


def jdefault(o):
  from fractions import Fraction
  if isinstance(o, Fraction):
    return f"{o.numerator}/{o.denominator}"
  if isinstance(o, (set, frozenset)):
    return sorted(o, key=repr)
  if isinstance(o, bytes):
    return o.hex()
  if isinstance(o, tuple):
    return list(o)
  return repr(o)


class Ctx:
  def __init__(self, pid, level, tier, seed):
    self.pid = pid
    self.level = level
    self.tier = tier
    self.seed = seed
    self.rng = random.Random(seed)
    self.t0 = time.time()
    self.violations = []
    self.states = 0
    self.transitions = 0
    self.traces = 0
    self.evaluations = 0
    self.nontrivial_keys = set()
    self.samples = []
    self.assumptions = []
    self.counts = {}
    self.tlc_runs = []
    self.exhaustive = None
    self.notes = []
    self.rule = ""
    self.replay_case = None

  # -- reporting --------------------------------------------------------------------------------
  def violation(self, clause, case, features=None, what=""):
    f = dict(features or {})
    f.setdefault("clause", clause)
    self.violations.append({"clause": clause, "case": case, "features": f, "what": what})

  def tlc(self, res: "tlcmod.TlcResult", label=""):
    self.states += res.distinct
    self.transitions += res.generated
    self.tlc_runs.append({"label": label, "distinct": res.distinct, "generated": res.generated,
                          "depth": res.depth, "wall_s": round(res.wall, 2),
                          "coverage": {k: list(v) for k, v in res.coverage.items()} or None})

  def count(self, key, n=1):
    self.counts[key] = self.counts.get(key, 0) + n

  def nontrivial(self, key):
    self.nontrivial_keys.add(key if isinstance(key, (str, int, tuple)) else json.dumps(key, sort_keys=True, default=jdefault))

  def sample(self, x, limit=6):
    if len(self.samples) < limit:
      self.samples.append(x)

  def assume(self, text):
    if text not in self.assumptions:
      self.assumptions.append(text)

  def thorough(self):
    return self.tier == "thorough"


def load_findings():
  """known_findings.json plus the per-property fragments findings_<pid>.json (all committed, never written at run time)."""
  import glob
  out = []
  for path in [FINDINGS] + sorted(glob.glob(os.path.join(VERIF, "findings_*.json"))):
    if not os.path.exists(path):
      continue
    with open(path) as fh:
      out.extend(json.load(fh).get("findings", []))
  return out


def _match(entry, v):
  if entry.get("status") != "known":
    return False
  props = entry.get("property")
  if v["pid"] not in (props if isinstance(props, list) else [props]):
    return False
  sel = entry.get("selector")
  if not sel:
    return False
  env = dict(v["features"])
  try:
    return bool(eval(sel, {"__builtins__": {}, "len": len, "abs": abs, "str": str, "int": int, "any": any,
                           "all": all, "min": min, "max": max, "isinstance": isinstance, "set": set},
                     {"f": env, **{k: x for k, x in env.items() if k.isidentifier()}}))
  except Exception:
    return False


def finish(ctx: Ctx, error=None) -> int:
  os.makedirs(EVIDENCE_DIR, exist_ok=True)
  findings = load_findings()
  real = []
  known = {}
  for v in ctx.violations:
    v["pid"] = ctx.pid
    hit = None
    for e in findings:
      if _match(e, v):
        hit = e
        break
    if hit is not None:
      known.setdefault(hit["id"], [hit, 0])[1] += 1
    else:
      real.append(v)
  for fid, (e, n) in known.items():
    print(f"KNOWN-FINDING: property={ctx.pid} {e['id']}: {e['what']} ({n} case(s) this run)")
  rc = 0
  replay_paths = []
  if real:
    groups = {}
    for v in real:
      key = (v["clause"],) + tuple(sorted((k, str(x)) for k, x in v["features"].items()
                                          if isinstance(x, (bool, str)) and k != "clause" and len(str(x)) < 40))
      groups[key] = groups.get(key, 0) + 1
    print(f"SUMMARY property={ctx.pid}: {len(real)} violating case(s) in {len(groups)} group(s)")
    for key, n in sorted(groups.items(), key=lambda kv: -kv[1])[:40]:
      print(f"  {n:6d} x {key[0]} " + " ".join(f"{k}={x}" for k, x in key[1:]))
    os.makedirs(os.path.join(REPLAY_DIR, ctx.pid), exist_ok=True)
    seen = set()
    for v in real:
      blob = json.dumps({"property": ctx.pid, "seed": ctx.seed, "tier": ctx.tier, "clause": v["clause"],
                         "what": v["what"], "features": v["features"], "case": v["case"]},
                        sort_keys=True, default=jdefault, indent=1)
      h = hashlib.sha1(blob.encode()).hexdigest()[:12]
      if h in seen:
        continue
      seen.add(h)
      path = os.path.join(REPLAY_DIR, ctx.pid, h + ".json")
      if len(seen) <= 25:
        with open(path, "w") as fh:
          fh.write(blob)
        print(f"VIOLATION property={ctx.pid} replay={path}")
        print(f"  clause={v['clause']} {v['what']}"[:600])
        replay_paths.append(path)
    if len(seen) > 25:
      print(f"  ... {len(seen) - 25} more violations not written")
    rc = 1
  if error is not None:
    rc = 2
  cov = {
    "states": ctx.states,
    "transitions": ctx.transitions,
    "traces_validated_against_impl": ctx.traces,
    "evaluations": max(ctx.evaluations, ctx.traces),
    "distinct_nontrivial": len(ctx.nontrivial_keys),
    "rule": ctx.rule,
    "samples": ctx.samples or ["(none)"],
    "tlc_runs": ctx.tlc_runs,
    "counts": ctx.counts,
    "known_findings_hit": {k: n for k, (e, n) in known.items()},
  }
  if ctx.exhaustive is not None:
    cov["exhaustive"] = bool(ctx.exhaustive)
  if ctx.notes:
    cov["notes"] = ctx.notes
  if error is not None:
    cov["machinery_error"] = error[-1500:]
  ev = {
    "property_id": ctx.pid,
    "tier": ctx.tier,
    "seed": ctx.seed,
    "level": ctx.level,
    "coverage": cov,
    "assumptions": ctx.assumptions,
    "wall_s": round(time.time() - ctx.t0, 2),
    "violations": len(real),
  }
  with open(os.path.join(EVIDENCE_DIR, ctx.pid + ".json"), "w") as fh:
    json.dump(ev, fh, indent=1, default=jdefault)
    fh.write("\n")
  if rc == 0:
    print(f"OK property={ctx.pid} tier={ctx.tier} seed={ctx.seed} states={ctx.states} "
          f"traces={ctx.traces} evaluations={cov['evaluations']} wall={ev['wall_s']}s")
  return rc


def main_for(module, argv=None) -> int:
  import argparse
  ap = argparse.ArgumentParser()
  ap.add_argument("--tier", default=os.environ.get("VERIF_TIER", "quick"), choices=["quick", "thorough"])
  ap.add_argument("--seed", type=int, default=int(os.environ.get("VERIF_SEED", "0") or 0))
  ap.add_argument("--replay", default=None)
  args = ap.parse_args(argv)
  use_repo_sources()
  import logging
  logging.getLogger("ttconv").setLevel(logging.CRITICAL + 10)
  ctx = Ctx(module.PID, module.LEVEL, args.tier, args.seed)
  if args.replay:
    with open(args.replay) as fh:
      ctx.replay_case = json.load(fh)
  try:
    module.run(ctx)
    return finish(ctx)
  except tlcmod.MachineryError as ex:
    print(f"MACHINERY-FAILURE property={module.PID}: {ex}", file=sys.stderr)
    return finish(ctx, error=str(ex))
  except Exception:
    tb = traceback.format_exc()
    print(f"MACHINERY-FAILURE property={module.PID}:\n{tb}", file=sys.stderr)
    return finish(ctx, error=tb)


# ---------------------------------------------------------------------------------------------------------------------
# the caller's process context
# ---------------------------------------------------------------------------------------------------------------------

def flag(v) -> int:
  """Strict projection of a boolean component of a style value: 1 for True, 0 for False or None, 2 for anything else (an
  int, a string ...: such a value may compare equal to True but is not what the library's own writers test for)."""
  return 1 if v is True else 0 if (v is False or v is None) else 2


class AltContext:
  """What the properties state holds whatever the CALLER has done to the process: here DEBUG logging is switched on for the
  library, with a handler that formats every record it receives (as unittest's assertLogs, pytest's caplog or a JSON log
  handler do), warnings are errors (python -W error), and the thread's decimal context has low precision and ROUND_DOWN.
  Part of the cases of every check are observed inside such a context; the observations must be what they are in the quiet
  default context.  use=0 gives a context manager that does nothing; use=2 additionally makes `.progress` a progress
  callback that OVERLAPS the observed operation with complete other operations (see other_operations)."""

  class _Formats(logging.Handler):
    overlap = None

    def emit(self, record):
      record.getMessage()              # a malformed format / argument pair raises here, in the code that logged
      if self.overlap is not None:
        # a handler is the caller's code too: this one starts other complete operations the first time something is logged
        # (as a handler that reports to a service converting its own payload would) - in the middle of whatever logged
        self.overlap(0)

  def __init__(self, use=1):
    self.use = int(use)
    self.progress = overlapping_callback() if self.use == 2 else (lambda _x: None)

  def __enter__(self):
    if not self.use:
      return self
    import warnings
    if self.use == 2:
      overlapping_callback()(0)        # other operations have also run in this process just before the observed one
    self.logger = logging.getLogger("ttconv")
    self.level = self.logger.level
    self.handler = AltContext._Formats(level=logging.DEBUG)
    if self.use == 2:
      self.handler.overlap = overlapping_callback()
    self.logger.addHandler(self.handler)
    self.logger.setLevel(logging.DEBUG)
    self.cw = warnings.catch_warnings()
    self.cw.__enter__()
    warnings.simplefilter("error")
    import decimal
    self.dc = decimal.localcontext()
    c = self.dc.__enter__()
    c.prec = 7                         # an application that has configured decimal arithmetic for its own purposes
    c.rounding = decimal.ROUND_DOWN
    return self

  def __exit__(self, *exc):
    if not self.use:
      return False
    self.dc.__exit__(*exc)
    self.cw.__exit__(*exc)
    self.logger.removeHandler(self.handler)
    self.logger.setLevel(self.level)
    return False


def alt_for(key) -> int:
  """Deterministic choice of the cases (about one in five) that are observed in the alternative context: 0 = default
  context, 1 = alternative context, 2 = alternative context and overlapping operations."""
  import zlib
  h = zlib.crc32(repr(key).encode()) % 10
  return 1 if h == 2 else 2 if h == 7 else 0


# ---- overlapping operations ---------------------------------------------------------------------------------------------
# A caller may start a second conversion while the first has not finished: from the progress callback of the first (a
# preview, a second deliverable), or from another thread.  The first progress report of the observed operation triggers
# complete other operations of every kind - readers, writers, snapshots, the document filter - on small fixed inputs with
# settings unlike the observed one's; whatever they leave behind (module / class level state) must not show in the result.

_OTHER_TTML = """<?xml version="1.0" encoding="UTF-8"?>
<tt xmlns="http://www.w3.org/ns/ttml" xmlns:ttp="http://www.w3.org/ns/ttml#parameter" xmlns:tts="http://www.w3.org/ns/ttml#styling"
    xmlns:ittp="http://www.w3.org/ns/ttml/profile/imsc1#parameter" xmlns:itts="http://www.w3.org/ns/ttml/profile/imsc1#styling"
    xml:lang="zz" xml:space="preserve" ttp:frameRate="50" ttp:frameRateMultiplier="1000 1001" ttp:tickRate="7"
    ttp:cellResolution="50 20" tts:extent="1000px 500px" ittp:activeArea="10% 10% 80% 80%" ittp:aspectRatio="4 3">
 <head><styling><initial tts:color="#010203" tts:fontSize="200%"/><style xml:id="zs" tts:fontStyle="italic" tts:textAlign="end"/></styling>
  <layout><region xml:id="zr" tts:origin="100px 50px" tts:extent="500px 250px" tts:writingMode="tbrl" begin="3f" end="70t"
    tts:displayAlign="after" tts:backgroundColor="#11223344" tts:showBackground="whenActive"><set begin="7t" tts:opacity="0.5"/></region></layout></head>
 <body timeContainer="seq" style="zs"><div region="zr" begin="1f"><p xml:id="zp" dur="00:00:01:25"><span tts:textDecoration="underline">  nested  <br/>op</span>
 </p><p begin="14t" end="00:00:09.5" tts:ruby="container"><span tts:ruby="base">b</span><span tts:ruby="text">t</span></p></div></body></tt>
"""
_OTHER_SRT = "7\n00:01:02,345 --> 00:01:04,000\n<i>nested</i> {\\an8}<font color=\"#010203\">srt</font>\n\n8\n00:59:59,999 --> 01:00:00,001\nsecond\n"
_OTHER_VTT = ("WEBVTT other\n\nSTYLE\n::cue { color: lime }\n\nzz\n01:02.345 --> 01:04.000 line:3 align:end position:20%\n"
              "<v Other><i>nested</i> &amp; <c.red.bg_blue>vtt</c>\n<ruby>b<rt>t</rt></ruby>\n\n59:59.999 --> 01:00:00.001 line:-2\nsecond\n")
_OTHER_SCC = ("Scenarist_SCC V1.0\n\n00:00:01;05\t9425 9425 94ad 94ad 9470 9470 91ae 91ae cef4 e8e5 f280\n\n"
              "00:00:02;10\t1c20 1c20 1c52 1c52 d3e5 e3ef 6e64 1c2f 1c2f\n\n00:00:03;00\t9420 9420 9454 9454 97a1 97a1 d0ef f080 942f 942f\n\n"
              "00:00:05;00\t942c 942c\n")
_OTHER_STATE = {"depth": 0, "stl": None}


def _other_document():
  """A small document that uses what the fixed inputs above do not reach (built through the model API)."""
  from fractions import Fraction
  import ttconv.model as m
  import ttconv.style_properties as sp
  doc = m.ContentDocument()
  doc.set_lang("zz")
  doc.set_cell_resolution(m.CellResolutionType(rows=19, columns=41))
  doc.put_initial_value(sp.StyleProperties.Color, sp.NamedColors.lime.value)
  r = m.Region("zr2", doc)
  r.set_style(sp.StyleProperties.Origin, sp.CoordinateType(x=sp.LengthType(10, sp.LengthType.Units.pct), y=sp.LengthType(20, sp.LengthType.Units.pct)))
  r.set_style(sp.StyleProperties.Extent, sp.ExtentType(width=sp.LengthType(70, sp.LengthType.Units.pct), height=sp.LengthType(30, sp.LengthType.Units.pct)))
  r.set_begin(Fraction(1, 3))
  doc.put_region(r)
  body = m.Body(doc)
  doc.set_body(body)
  div = m.Div(doc)
  body.push_child(div)
  for k, (b, e) in enumerate([(Fraction(1, 3), Fraction(10, 3)), (Fraction(7, 2), None)]):
    p = m.P(doc)
    p.set_id("zq%d" % k)
    p.set_region(r)
    p.set_begin(b)
    p.set_end(e)
    div.push_child(p)
    s = m.Span(doc)
    s.set_style(sp.StyleProperties.FontWeight, sp.FontWeightType.bold)
    p.push_child(s)
    t = m.Text(doc, "nested %d" % k)
    s.push_child(t)
    if k == 0:
      p.push_child(m.Br(doc))
      s2 = m.Span(doc)
      s2.add_animation_step(m.DiscreteAnimationStep(sp.StyleProperties.Color, Fraction(1, 2), Fraction(2), sp.NamedColors.red.value))
      p.push_child(s2)
      s2.push_child(m.Text(doc, "x"))
  return doc


def other_operations():
  """One complete operation of every kind, on the fixed inputs, with unusual settings."""
  import io
  import xml.etree.ElementTree as et
  from fractions import Fraction
  import ttconv.imsc.reader as imsc_reader
  import ttconv.imsc.writer as imsc_writer
  import ttconv.imsc.config as imsc_config
  from ttconv.imsc.attributes import TimeExpressionSyntaxEnum
  import ttconv.srt.reader as srt_reader
  import ttconv.srt.writer as srt_writer
  from ttconv.srt.config import SRTWriterConfiguration
  import ttconv.vtt.reader as vtt_reader
  import ttconv.vtt.writer as vtt_writer
  from ttconv.vtt.config import VTTWriterConfiguration
  import ttconv.scc.reader as scc_reader
  from ttconv.scc.config import SccReaderConfiguration, TextAlignment
  import ttconv.stl.reader as stl_reader
  from ttconv.stl.config import STLReaderConfiguration
  from ttconv.isd import ISD
  from ttconv.filters.doc.lcd import LCDDocFilter, LCDDocFilterConfig
  import ttconv.style_properties as sp
  doc = _other_document()
  imsc_writer.from_model(doc, imsc_config.IMSCWriterConfiguration(time_format=TimeExpressionSyntaxEnum.frames, fps=Fraction(50)))
  imsc_writer.from_model(doc, imsc_config.IMSCWriterConfiguration(time_format=TimeExpressionSyntaxEnum.clock_time_with_frames,
                                                                  fps=Fraction(24)))
  d2 = imsc_reader.to_model(et.ElementTree(et.fromstring(_OTHER_TTML)))
  ISD.from_model(d2, Fraction(3, 2))
  list(ISD.significant_times(d2))
  srt_writer.from_model(doc, SRTWriterConfiguration(text_formatting=False))
  vtt_writer.from_model(doc, VTTWriterConfiguration(line_position=True, text_align=True, cue_id=False))
  srt_reader.to_model(io.StringIO(_OTHER_SRT))
  vtt_reader.to_model(io.StringIO(_OTHER_VTT))
  scc_reader.to_model(_OTHER_SCC, SccReaderConfiguration(text_align=TextAlignment.RIGHT))
  if _OTHER_STATE["stl"] is None:
    from . import stl_build as SB
    gsi = {"dfc": "STL30.01", "dsc": "0", "cct": "00", "tcp": [9, 59, 59, 0], "mnr": 11}
    blocks = [{"sgn": 1, "sn": 3, "ebn": 0xFF, "cs": 0, "tci": [10, 0, 1, 7], "tco": [10, 0, 2, 11], "vp": 5, "jc": 1, "cf": 0,
               "tf": [0x0D, 0x80, 0x4F, 0x74, 0x68, 0x8A, 0x65, 0x72, 0x81]}]
    _OTHER_STATE["stl"] = SB.build_file(gsi, blocks)
  stl_reader.to_model(io.BytesIO(_OTHER_STATE["stl"]), STLReaderConfiguration(program_start_tc="TCP", max_row_count=11, disable_fill_line_gap=True))
  LCDDocFilter(LCDDocFilterConfig(safe_area=7, color=sp.NamedColors.yellow.value, bg_color=sp.NamedColors.blue.value,
                                  preserve_text_align=True)).process(doc)
  ISD.from_model(doc, Fraction(1))


def overlapping_callback():
  """A progress callback: at the first progress report of the operation it is given to, other_operations() runs."""
  state = {"done": False}

  def cb(_x):
    if state["done"] or _OTHER_STATE["depth"]:
      return
    state["done"] = True
    _OTHER_STATE["depth"] += 1
    was = logging.root.manager.disable
    logging.disable(logging.CRITICAL)        # what the other operations log is not an observation of this one
    try:
      other_operations()
    finally:
      logging.disable(was)
      _OTHER_STATE["depth"] -= 1
  return cb
