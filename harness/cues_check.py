"""Shared driver of C06 and C07: case families, trace validation by TLC, features of a failing case.

Families
  random   seeded random documents (code -> spec)                                   harness/cues_gen.random_doc
  struct   document structures enumerated by TLC from spec/CuesShapes.tla (C06)      harness/cues_gen.struct_doc
  style    style-run shapes enumerated by TLC from spec/CuesShapes.tla (C07)         harness/cues_gen.shape_doc
Every case is built with the model API, written by the writers under the selected configurations, lexed, recorded
(harness/cues_proj.observe) and judged by spec/Trace_Cues.tla.  Python decides nothing about the properties.
"""
from __future__ import annotations

import os
from concurrent.futures import ThreadPoolExecutor

from . import tlc as T
from . import cues_gen as G
from . import cues_proj as P

CFG_TRACE = """CONSTANTS
  MaxLines = 0
  Which = "{which}"
INIT TInit
NEXT TNext
"""
CFG_SHAPES = """CONSTANTS
  MaxLines = 0
  MaxAttrs = {k}
  WithStyle = {style}
  WithStruct = {struct}
SPECIFICATION SSpec
INVARIANT Inv_ReferenceRenderingConforms
INVARIANT Inv_TypeOK
"""


def enumerate_shapes(ctx, fam, max_attrs):
  """Run CuesShapes.tla, return the list of shapes (dicts) of one family."""
  res = T.run_tlc("CuesShapes", CFG_SHAPES.format(k=max_attrs, style="TRUE" if fam == "style" else "FALSE",
                                                  struct="TRUE" if fam == "struct" else "FALSE"),
                  workers=4, dump="states", timeout=1200, name="shapes_" + fam)
  if res.violated:
    raise T.MachineryError("CuesShapes.tla violates its own invariants: " + str(res.violated))
  ctx.tlc(res, f"{fam} shapes enumerated by TLC (reference rendering accepted and matching on every style shape)")
  shapes = []
  for s in T.parse_dump(os.path.join(res.workdir, "states.dump")):
    sh = dict(s["shape"])
    for k in ("A", "B"):
      if k in sh:
        sh[k] = sorted(sh[k])
    shapes.append(sh)
  shapes.sort(key=lambda x: sorted((k, str(v)) for k, v in x.items()))
  return shapes


def record_cases(ctx, cases):
  """cases: list of (family, origin, abstract doc, configs) -> (records, metas); out-of-domain cases are counted."""
  recs = []
  metas = []
  for fam, origin, adoc, configs in cases:
    rec = P.observe(adoc, configs, G.build)
    if "skip" in rec:
      ctx.count("skipped:" + rec["skip"].split(":")[0])
      continue
    recs.append(rec)
    metas.append({"family": fam, "origin": origin, "adoc": adoc, "configs": configs})
  return recs, metas


def _interval_features(rec, k):
  """Narrow facts about snapshot k (1-based; 0 = none) used by known-finding selectors."""
  f = {}
  if not (1 <= k <= len(rec["snaps"])):
    return f
  snap = rec["snaps"][k - 1]

  def has_text(reg):
    return any(it["k"] == "t" and it["ann"] == 0 and any(c not in (9, 10, 11, 12, 13, 32) for c in it["cps"])
               for p in reg["paras"] for it in p["items"])
  live = [r for r in snap if has_text(r)]
  f["regions_with_text"] = len(live)
  f["regions_in_snapshot"] = len(snap)
  f["region_with_several_div"] = any(r["ndiv"] > 1 for r in snap)
  f["nested_div"] = any(r["nesteddiv"] for r in snap)
  f["ruby"] = any(r["ruby"] for r in snap)
  f["paragraphs"] = sum(len(r["paras"]) for r in snap)
  D = rec["D"]
  sig = rec["sig"]
  if k < len(sig):
    f["interval_shorter_than_2ms"] = (sig[k] - sig[k - 1]) * 1000 < 2 * D
  else:
    f["interval_shorter_than_2ms"] = False
  f["last_interval"] = k == len(sig)
  items = [it for r in snap for p in r["paras"] for it in p["items"] if it["k"] == "t" and it["ann"] == 0]
  f["underline_in_snapshot"] = any(it["u"] for it in items)
  f["oblique_in_snapshot"] = any(it.get("ob") for it in items)
  f["style_reset_inside_styled_span"] = any(it.get("rst") for it in items)
  f["background_in_snapshot"] = any(it["bg"] != P.TRANSPARENT for it in items)
  txt = [c for it in items for c in it["cps"]]
  f["text_has_amp"] = 38 in txt
  f["text_has_lt"] = 60 in txt
  f["text_has_gt"] = 62 in txt
  f["text_has_arrow"] = any(txt[i:i + 3] == [45, 45, 62] for i in range(len(txt)))
  f["paragraph_alignments"] = len({(p["ta"], p["dir"]) for r in live for p in r["paras"]})
  return f


def validate(ctx, recs, metas, which, label):
  """Judge the records with Trace_Cues.tla (Which = C06 / C07); report every failing clause through ctx.violation."""
  if not recs:
    return
  nproc = min(4, max(1, len(recs) // 24))
  parts = [list(range(k, len(recs), nproc)) for k in range(nproc)]

  def one(part):
    text = "\n".join(P.dumps(recs[j]) for j in part) + "\n"
    return part, T.run_tlc("Trace_Cues", CFG_TRACE.format(which=which), workers=1, env={"TRACE_FILE": "trace.ndjson"},
                           extra_files={"trace.ndjson": text}, timeout=3000, name="tc_" + label, java_opts=("-Xmx4g",))

  with ThreadPoolExecutor(max_workers=nproc) as ex:
    outs = list(ex.map(one, parts))
  for part, res in outs:
    done = res.values("DONE")
    if not done or done[0][1] != len(part):
      raise T.MachineryError(f"trace {label} not consumed: " + res.out[-2000:])
    ctx.tlc(res, f"trace validation {which} {label}")
    for v in res.values("FAIL"):
      _, ri, oi, clause, detail = v
      j = part[ri - 1]
      rec = recs[j]
      meta = metas[j]
      out = rec["outs"][oi - 1]
      cfg = meta["configs"][oi - 1]
      detail = list(detail)
      k = 0
      if clause.startswith("tag_runs") or clause.endswith("_position") or "align_setting" in clause or "line_setting" in clause \
         or clause.startswith("one_cue_per_region"):
        k = detail[0] if detail else 0
      elif len(detail) == 2 and not clause.startswith("cue_boundary"):
        k = detail[1]
      f = {"fmt": cfg["fmt"], "config": P.config_label(cfg), "family": meta["family"], "raised": out["raised"][:60]}
      f.update({"text_formatting": bool(cfg.get("tf", 1)), "line_position": bool(cfg.get("lp", 0)),
                "text_align": bool(cfg.get("ta", 0)), "cue_id": bool(cfg.get("id", 1))})
      f.update(_interval_features(rec, k))
      if clause == "writer_raised":
        D = rec["D"]
        sig = rec["sig"]
        f["some_interval_shorter_than_2ms"] = any((sig[x + 1] - sig[x]) * 1000 < 2 * D for x in range(len(sig) - 1))
        last = _interval_features(rec, len(sig))
        f["unbounded_final_regions_with_text"] = last.get("regions_with_text", 0)
      if clause.startswith("grammar_"):
        line_no = detail[0] if detail else 0
        f["rejected_line"] = line_no
        raw_lines = out.get("raw", "").split("\n")
        f["rejected_line_text"] = raw_lines[line_no - 1][:60] if 0 < line_no <= len(raw_lines) else "<end of input>"
        allitems = [it for s in rec["snaps"] for r in s for p in r["paras"] for it in p["items"] if it["k"] == "t" and it["ann"] == 0]
        txt = [c for it in allitems for c in it["cps"]]
        f["doc_text_has_arrow"] = any(txt[i:i + 3] == [45, 45, 62] for i in range(len(txt)))
        f["doc_text_has_amp"] = 38 in txt
        f["doc_text_has_lt"] = 60 in txt
      if meta["family"] != "random":
        f["shape"] = {k2: v2 for k2, v2 in meta["origin"].items() if k2 != "fam"}
        for k2, v2 in meta["origin"].items():
          if isinstance(v2, (str, bool)):
            f["shape_" + k2] = v2
      case = {"family": meta["family"], "origin": meta["origin"], "document": meta["adoc"], "configuration": cfg,
              "significant_times": [f"{n}/{rec['D']}" for n in rec["sig"]], "output": out.get("raw", ""),
              "raised": out["raised"], "detail": detail,
              "snapshot": rec["snaps"][k - 1] if 1 <= k <= len(rec["snaps"]) else None}
      ctx.violation(clause, case, f, f"{P.config_label(cfg)} {meta['family']} detail={detail}")


def replay(ctx, which):
  """Re-judge the single case of a replay file (./check Cnn --replay path)."""
  case = ctx.replay_case["case"]
  cases = [(case.get("family", "replay"), case.get("origin", {}), case["document"], [case["configuration"]])]
  recs, metas = record_cases(ctx, cases)
  ctx.evaluations += len(recs)
  ctx.traces += len(recs)
  validate(ctx, recs, metas, which, "replay")
