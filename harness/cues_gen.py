"""Document generator for C06 / C07 (SRT and WebVTT writers).

A document is described by a plain-JSON *abstract document* (so it can be stored in replay files), and `build`
turns it into a real ttconv.model.ContentDocument through the public model API only.

  doc   = {"regions": [region...], "body": [div...]}          (no regions -> the default region)
  region= {"id": str, "b": time|None, "e": time|None, "origin": [x, y], "extent": [w, h]   (percent, "n/d" strings),
           "da": "before"|"center"|"after", "wm": "lrtb"|"rltb"}
  div   = {"k": "div", "reg": region index|-1, "b", "e", "kids": [div|p...]}
  p     = {"k": "p", "reg", "b", "e", "sp": "d"|"p", "st": styles, "kids": [span|br|ruby...]}
  span  = {"k": "span", "b", "e", "sp": "d"|"p"|"", "st": styles, "kids": [span|br|text...]}
  text  = {"k": "t", "s": str}            br = {"k": "br"}
  ruby  = {"k": "ruby", "kids": [{"k": "rb"|"rt"|"rp"|"rbc"|"rtc", "kids": [...]}]}
  styles= {"fw": "bold"|"normal", "fs": "italic"|"oblique"|"normal", "td": "u"|"nou"|"lt", "col": name, "bg": name,
           "ta": "start"|"center"|"end", "dir": "ltr"|"rtl"}      (every key optional)
  time  = "n/d" (seconds, a Fraction)

Two families use it: `random_doc` (code -> spec, seeded) and `shape_doc` (spec -> code: one document per style-run
shape enumerated by TLC from spec/CuesShapes.tla).
"""
from __future__ import annotations

from fractions import Fraction

COLOURS = ["white", "red", "lime", "yellow", "blue", "black", "teal"]


def fr(x):
  return None if x is None else Fraction(x)


def tstr(x):
  if x is None:
    return None
  x = Fraction(x)
  return f"{x.numerator}/{x.denominator}"


_FRESH = [0]


def _styles(m, sp, el, st, kind):
  S = sp.StyleProperties
  if "fw" in st:
    el.set_style(S.FontWeight, sp.FontWeightType.bold if st["fw"] == "bold" else sp.FontWeightType.normal)
  if "fs" in st:
    el.set_style(S.FontStyle, sp.FontStyleType[st["fs"]])
  if "td" in st and kind == "span":
    td = {"u": sp.TextDecorationType(underline=True), "nou": sp.TextDecorationType(underline=False),
          "lt": sp.TextDecorationType(line_through=True)}[st["td"]]
    el.set_style(S.TextDecoration, td)
  # (one time in two the value is an object of its own, equal to - but not the same object as - the named colour that other
  # elements, the initial values and the writers' defaults use: values are compared by value)
  def colour(name, salt):
    v = sp.NamedColors[name].value
    return sp.ColorType(tuple(v.components)) if (_FRESH[0] + salt) % 2 else v
  _FRESH[0] += 1
  if "col" in st and kind == "span":
    el.set_style(S.Color, colour(st["col"], 0))
  if "bg" in st and kind == "span":
    el.set_style(S.BackgroundColor, colour(st["bg"], 1))
  if "ta" in st and kind == "p":
    el.set_style(S.TextAlign, sp.TextAlignType[st["ta"]])
  if "dir" in st and kind == "p":
    el.set_style(S.Direction, sp.DirectionType[st["dir"]])
  if "disp" in st:
    el.set_style(S.Display, sp.DisplayType[st["disp"]])


def build(d):
  """abstract document -> ttconv.model.ContentDocument (public API only)."""
  import ttconv.model as m
  import ttconv.style_properties as sp
  S = sp.StyleProperties
  doc = m.ContentDocument()
  regions = []
  for r in d.get("regions", []):
    reg = m.Region(r["id"], doc)
    if r.get("b") is not None:
      reg.set_begin(fr(r["b"]))
    if r.get("e") is not None:
      reg.set_end(fr(r["e"]))
    if "origin" in r:
      reg.set_style(S.Origin, sp.CoordinateType(x=sp.LengthType(fr(r["origin"][0]), sp.LengthType.Units.pct),
                                                 y=sp.LengthType(fr(r["origin"][1]), sp.LengthType.Units.pct)))
    if "extent" in r:
      reg.set_style(S.Extent, sp.ExtentType(height=sp.LengthType(fr(r["extent"][1]), sp.LengthType.Units.pct),
                                             width=sp.LengthType(fr(r["extent"][0]), sp.LengthType.Units.pct)))
    if "da" in r:
      reg.set_style(S.DisplayAlign, sp.DisplayAlignType[r["da"]])
    if "wm" in r:
      reg.set_style(S.WritingMode, sp.WritingModeType[r["wm"]])
    for st in r.get("anim", []):
      # the region moves / changes its alignment for a while
      if st["p"] == "origin":
        val = sp.CoordinateType(x=sp.LengthType(fr(st["v"][0]), sp.LengthType.Units.pct), y=sp.LengthType(fr(st["v"][1]), sp.LengthType.Units.pct))
        prop = S.Origin
      elif st["p"] == "extent":
        val = sp.ExtentType(height=sp.LengthType(fr(st["v"][1]), sp.LengthType.Units.pct), width=sp.LengthType(fr(st["v"][0]), sp.LengthType.Units.pct))
        prop = S.Extent
      else:
        val = sp.DisplayAlignType[st["v"]]
        prop = S.DisplayAlign
      reg.add_animation_step(m.DiscreteAnimationStep(prop, fr(st.get("b")), fr(st.get("e")), val))
    doc.put_region(reg)
    regions.append(reg)

  classes = {"div": m.Div, "p": m.P, "span": m.Span, "br": m.Br, "ruby": m.Ruby, "rb": m.Rb, "rt": m.Rt, "rp": m.Rp,
             "rbc": m.Rbc, "rtc": m.Rtc}

  def mk(n):
    k = n["k"]
    if k == "t":
      return m.Text(doc, n["s"])
    el = classes[k](doc)
    if n.get("id"):
      el.set_id(n["id"])
    if n.get("b") is not None:
      el.set_begin(fr(n["b"]))
    if n.get("e") is not None:
      el.set_end(fr(n["e"]))
    if n.get("reg", -1) is not None and n.get("reg", -1) >= 0:
      el.set_region(regions[n["reg"]])
    if n.get("sp"):
      el.set_space(m.WhiteSpaceHandling.PRESERVE if n["sp"] == "p" else m.WhiteSpaceHandling.DEFAULT)
    _styles(m, sp, el, n.get("st", {}), k)
    kids = [mk(c) for c in n.get("kids", [])]
    if k in ("ruby", "rtc"):
      if kids:
        el.push_children(kids)
    else:
      for c in kids:
        el.push_child(c)
    return el

  body = m.Body(doc)
  doc.set_body(body)
  for dv in d.get("body", []):
    body.push_child(mk(dv))
  return doc


# -----------------------------------------------------------------------------------------------------------------
# random documents (code -> spec)
# -----------------------------------------------------------------------------------------------------------------

WORDS = ["a", "Bc", "d e", "x", "yz", "&", "<", "a&b", "c<d", "-->", "e-->f", "&amp;", "é", "日本", " ", "  ", "\t", "q ", " r",
         "1", "42", "f>g", "<3",
         # spaces that are not XML white space (kept as they are, wherever they stand), references spelled out in the text
         # (always next to a letter: whether a line of nothing but such spaces is a line of text is not decided here)
         "n\u00a0b", "\u00a0z", "\u3000\u3000w", "v\u2003", "&#60;b&#62;", "&#x41;", "&nbsp;",
         # decomposed sequences and compatibility characters: the text is written code point for code point, not normalised
         "e\u0323\u0302", "\u304b\u3099", "a\u0301b", "\u212b", "\ufa19", "\u0634\u0651\u064e"]
WORDS_NL = ["\n", " \n ", "s\nt"]        # only under xml:space=default (collapsed by the ISD)
# line terminators in text under xml:space=preserve (a TTML file gets them from &#10; / &#13;): they end the line
WORDS_NL_PRESERVE = ["g\nh", "j\r\rk", "m\r\n\r\nn", "p\rq", "\n\nr", "s\n\n"]


def _times(rng, den_choices, horizon):
  """A (begin, end) pair of offsets relative to the parent, on a grid 1/den; may be None (unbounded / from 0)."""
  den = rng.choice(den_choices)
  b = None
  e = None
  r = rng.random()
  if r < 0.25:
    return None, None
  if rng.random() < 0.06:
    # a boundary a fraction of a millisecond away from a whole minute / hour (frame- or tick-based sources produce them:
    # frame 8991 at 30000/1001 fps is 299.9997 s): the clock fields must carry all the way when it is rounded
    whole = rng.choice([60, 60, 120, 300, 3600, 3600 + 60, 59 * 60]) if rng.random() < 0.8 else 60 * rng.randint(1, 100)
    delta = rng.choice([Fraction(1, 3000), Fraction(3, 10000), Fraction(4, 10000), Fraction(1, 8000), Fraction(49, 100000),
                        Fraction(1, 2000), Fraction(6, 10000), Fraction(1, 1000), Fraction(-1, 3000), Fraction(-1, 2000)])
    x = whole - delta
    if rng.random() < 0.5:
      return x, x + Fraction(rng.randint(1, 3 * den), den)
    b = Fraction(rng.randint(0, 50 * den), den)
    return (b if rng.random() < 0.7 else None), x
  if r < 0.85:
    b = Fraction(rng.randint(0, horizon * den), den)
    mode = rng.random()
    if mode < 0.15:
      e = None
    elif mode < 0.35:
      # very short interval (possibly shorter than a millisecond)
      e = b + Fraction(rng.randint(1, 5), rng.choice([1000, 3000, 8000, 2000]))
    else:
      e = b + Fraction(rng.randint(1, 3 * den), den)
  else:
    e = Fraction(rng.randint(1, horizon * den), den)
  return b, e


def _rand_styles(rng, kind, rich):
  st = {}
  if not rich:
    return st
  if rng.random() < 0.3:
    st["fw"] = rng.choice(["bold", "bold", "normal"])
  if rng.random() < 0.3:
    st["fs"] = rng.choice(["italic", "italic", "normal", "oblique"])
  if kind == "span":
    if rng.random() < 0.3:
      st["td"] = rng.choice(["u", "u", "nou", "lt"])
    if rng.random() < 0.3:
      st["col"] = rng.choice(COLOURS)
    if rng.random() < 0.2:
      st["bg"] = rng.choice(["blue", "black", "red", "transparent", "teal"])
  if kind == "p":
    if rng.random() < 0.5:
      st["ta"] = rng.choice(["start", "center", "end"])
    if rng.random() < 0.2:
      st["dir"] = rng.choice(["ltr", "rtl"])
  return st


def _rand_text(rng, preserve, own_preserve=False):
  n = rng.choice([1, 1, 2, 3])
  pool = WORDS if preserve else WORDS + WORDS_NL
  if own_preserve and rng.random() < 0.5:
    # (the span that holds the text says xml:space="preserve" itself: the model does not inherit it)
    pool = WORDS + WORDS_NL_PRESERVE
  return "".join(rng.choice(pool) for _ in range(n))


def _rand_span(rng, depth, dens, rich, timed, preserve):
  sp_ = ""
  if rng.random() < 0.15:
    sp_ = rng.choice(["d", "p"])
  eff_preserve = preserve if sp_ == "" else sp_ == "p"
  n = {"k": "span", "sp": sp_, "st": _rand_styles(rng, "span", rich), "kids": []}
  if timed and rng.random() < 0.3:
    b, e = _times(rng, dens, 6)
    n["b"], n["e"] = tstr(b), tstr(e)
  for _ in range(rng.choice([1, 1, 2, 3])):
    r = rng.random()
    if r < 0.6 or depth >= 2:
      n["kids"].append({"k": "t", "s": _rand_text(rng, eff_preserve, sp_ == "p")})
    elif r < 0.75:
      n["kids"].append({"k": "br"})
    else:
      n["kids"].append(_rand_span(rng, depth + 1, dens, rich, timed, eff_preserve))
  return n


def _rand_ruby(rng, rich):
  def sp_(txt):
    return {"k": "span", "sp": "", "st": _rand_styles(rng, "span", rich), "kids": [{"k": "t", "s": txt}]}
  base = rng.choice(["漢", "kan", "B"])
  ann = rng.choice(["かん", "ji", "A"])
  form = rng.random()
  if form < 0.4:
    kids = [{"k": "rb", "kids": [sp_(base)]}, {"k": "rt", "kids": [sp_(ann)]}]
  elif form < 0.6:
    kids = [{"k": "rb", "kids": [sp_(base)]}, {"k": "rp", "kids": [sp_("(")]}, {"k": "rt", "kids": [sp_(ann)]},
            {"k": "rp", "kids": [sp_(")")]}]
  else:
    kids = [{"k": "rbc", "kids": [{"k": "rb", "kids": [sp_(base)]}, {"k": "rb", "kids": [sp_("字")]}]},
            {"k": "rtc", "kids": [{"k": "rt", "kids": [sp_(ann)]}, {"k": "rt", "kids": [sp_("じ")]}]}]
  return {"k": "ruby", "kids": kids}


def _rand_p(rng, nreg, dens, rich, reg_inherited):
  preserve = rng.random() < 0.25
  p = {"k": "p", "reg": -1, "sp": "p" if preserve else ("d" if rng.random() < 0.2 else ""),
       "st": _rand_styles(rng, "p", rich), "kids": []}
  if nreg and not reg_inherited and rng.random() < 0.85:
    p["reg"] = rng.randrange(nreg)
  if rng.random() < 0.3:
    p["id"] = _new_id("p")
  if rng.random() < 0.8:
    b, e = _times(rng, dens, 8)
    p["b"], p["e"] = tstr(b), tstr(e)
  for _ in range(rng.choice([1, 1, 2, 3])):
    r = rng.random()
    if r < 0.72:
      p["kids"].append(_rand_span(rng, 0, dens, rich, True, preserve))
    elif r < 0.86:
      p["kids"].append({"k": "br"})
    else:
      p["kids"].append(_rand_ruby(rng, rich))
  if rng.random() < 0.12:
    # markup that only forms across text-node boundaries: "--" ending one unstyled span, ">" starting the next
    # (also "&" + "amp;"), which a reader produces for <span>x--</span><span>&gt;y</span>.  A literal "<b>" formed this way
    # is left out: SubRip cannot represent it (same format limitation as the known finding C07-srt-arrow-in-text).
    a, b = rng.choice([("x--", ">y"), ("-", "->"), ("--", ">"), ("&", "amp;")])
    p["kids"].append({"k": "span", "sp": "", "st": {}, "kids": [{"k": "t", "s": a}]})
    p["kids"].append({"k": "span", "sp": "", "st": {}, "kids": [{"k": "t", "s": b}]})
  if nreg and not reg_inherited and p["reg"] < 0 and any(k["k"] == "ruby" for k in p["kids"]):
    # a ruby in a paragraph that no region selects makes ISD generation itself raise (outside C06/C07): keep it selected
    p["reg"] = rng.randrange(nreg)
  return p


_IDS = [0]


def _new_id(prefix):
  _IDS[0] += 1
  return "%s%d" % (prefix, _IDS[0])


def _rand_div(rng, nreg, dens, rich, depth, reg_inherited):
  dv = {"k": "div", "reg": -1, "kids": []}
  if rng.random() < 0.5:
    dv["id"] = _new_id("d")           # xml:id on divisions (their paragraphs may still go to different regions)
  if nreg and not reg_inherited and rng.random() < 0.3:
    dv["reg"] = rng.randrange(nreg)
    reg_inherited = True
  if rng.random() < 0.25:
    b, e = _times(rng, dens, 6)
    dv["b"], dv["e"] = tstr(b), tstr(e)
  for _ in range(rng.choice([1, 1, 2, 2, 3])):
    if depth < 1 and rng.random() < 0.2:
      dv["kids"].append(_rand_div(rng, nreg, dens, rich, depth + 1, reg_inherited))
    else:
      dv["kids"].append(_rand_p(rng, nreg, dens, rich, reg_inherited))
  return dv


def random_doc(rng, rich=True):
  """Seeded random abstract document: 0-3 regions (several active at once), 1-3 div, nested div, several p per div,
  nested spans, br, ruby, default/preserve space, timed div/p/span incl. sub-millisecond and unbounded intervals."""
  _IDS[0] = 0
  dens = rng.choice([[1], [1, 2], [4], [1, 1000], [1, 3000], [2, 8000], [1, 24]])
  nreg = rng.choice([0, 1, 1, 2, 2, 3])
  regions = []
  for i in range(nreg):
    oy = Fraction(rng.randint(0, 160), 4)                 # quarter-percent grid: exercises the rounding ties
    h = Fraction(rng.randint(20, 200), 4)
    r = {"id": "r%d" % (i + 1), "origin": [tstr(Fraction(rng.randint(0, 40), 2)), tstr(oy)],
         "extent": [tstr(Fraction(rng.randint(40, 120), 2)), tstr(h)], "da": rng.choice(["before", "center", "after"])}
    if rng.random() < 0.15:
      r["wm"] = "rltb"
    if rng.random() < 0.25:
      b, e = _times(rng, dens, 6)
      r["b"], r["e"] = tstr(b), tstr(e)
    if rng.random() < 0.2:
      # a region whose position, size or alignment changes for part of the time
      b, e = _times(rng, dens, 6)
      kind = rng.choice(["origin", "extent", "da"])
      if kind == "origin":
        v = [tstr(Fraction(rng.randint(0, 40), 2)), tstr(Fraction(rng.randint(0, 280), 4))]
      elif kind == "extent":
        v = [tstr(Fraction(rng.randint(40, 120), 2)), tstr(Fraction(rng.randint(20, 120), 4))]
      else:
        v = rng.choice(["before", "center", "after"])
      r["anim"] = [{"p": kind, "b": tstr(b), "e": tstr(e), "v": v}]
    regions.append(r)
  body = [_rand_div(rng, nreg, dens, rich, 0, False) for _ in range(rng.choice([1, 1, 2, 3]))]
  if rng.random() < 0.07:
    # an ordinary subtitle file: dozens of consecutive cues in one division (counts, cue numbers and hours beyond one or two
    # digits, long lines, many lines), starting anywhere up to several hundred hours in
    reg = rng.randrange(nreg) if nreg else -1
    if nreg:
      regions[reg].pop("b", None)
      regions[reg].pop("e", None)
    # (milliseconds stay below 2^31); half of the files begin a few seconds before the hour count gains a digit
    t = Fraction(rng.choice([0, 3590, 35990, 359990, 2000000, 360000 * 3 - 10]) + rng.randint(0, 20)) if rng.random() < 0.5 else \
        Fraction(rng.choice([36000, 360000, 360000]) - rng.randint(1, 8))
    if t >= 30000:
      # the rest of the document would put the common denominator out of TLC's reach this far into the timeline
      body = []
      for r in regions:
        r.pop("b", None)
        r.pop("e", None)
    many = []
    for k in range(rng.randint(25, 70)):
      # (far into the timeline the grid is half seconds: milliseconds x denominator must stay below 2^31 for TLC)
      d = Fraction(rng.randint(1, 4000), 1000) if t < 30000 else Fraction(rng.randint(1, 8), 2)
      words = " ".join(rng.choice(["lorem", "ipsum", "dolor", "sit", "amet", "x", "consectetur"]) for _ in range(rng.choice([1, 3, 8, 40])))
      kids = [{"k": "span", "sp": "", "st": rng.choice([{}, {}, {"fw": "bold"}, {"col": "red"}]), "kids": [{"k": "t", "s": "%d %s" % (k, words)}]}]
      for _ in range(rng.choice([0, 0, 1, 6, 14])):
        kids += [{"k": "br"}] * rng.choice([1, 1, 2, 3]) + [{"k": "span", "sp": "", "st": {}, "kids": [{"k": "t", "s": "line " + words[:12]}]}]
      many.append({"k": "p", "reg": reg, "sp": "", "st": {}, "b": tstr(t), "e": tstr(t + d), "kids": kids})
      t = t + d + rng.choice([0, 0, Fraction(1, 2), 3])
    body.append({"k": "div", "reg": -1, "kids": many})
  if rng.random() < 0.2:
    # a paragraph that is alone in its interval and holds nothing but preserved white space inside a styled span (its
    # payload would be tags around white space: no cue, and no cue number either), followed by ordinary cues
    reg = rng.randrange(nreg) if nreg else -1
    if nreg:
      regions[reg].pop("b", None)          # the region of these paragraphs is always active
      regions[reg].pop("e", None)
    blank = {"k": "p", "reg": reg, "sp": "p", "st": {}, "b": tstr(40), "e": tstr(42),
             "kids": [{"k": "span", "sp": "p", "st": rng.choice([{"fw": "bold"}, {"td": "u"}, {"col": "red"}, {"fs": "italic"}, {"col": "lime"}, {"bg": "teal"},
                                                                 {"col": "yellow", "bg": "blue"}]),
                       "kids": [{"k": "t", "s": rng.choice([" ", "  ", " \t "])}]}]}
    # (the cues after it often use the very style that the unwritten paragraph introduced)
    bst = blank["kids"][0]["st"]
    after = [{"k": "p", "reg": reg, "sp": "", "st": {}, "b": tstr(43 + 2 * k), "e": tstr(44 + 2 * k),
              "kids": [{"k": "span", "sp": "", "st": dict(bst) if rng.random() < 0.6 else {}, "kids": [{"k": "t", "s": "after%d" % k}]}]} for k in range(2)]
    extra = []
    if nreg >= 2 and rng.random() < 0.5:
      # ... or NOT alone: at the same time another region, earlier in region order, shows text (with one cue per region the
      # blank paragraph still gives no cue)
      blank["reg"] = nreg - 1
      for r in (regions[0], regions[nreg - 1]):
        r.pop("b", None)
        r.pop("e", None)
      extra = [{"k": "p", "reg": 0, "sp": "", "st": {}, "b": tstr(40), "e": tstr(42),
                "kids": [{"k": "span", "sp": "", "st": {}, "kids": [{"k": "t", "s": "meanwhile"}]}]}]
      if rng.random() < 0.7:
        body = []                 # (nothing else in the document: the blank paragraph is alone in its region)
    body.append({"k": "div", "reg": -1, "kids": extra + [blank] + after})
  # a line break that is not presented (tts:display="none" on the br) between two texts of one line
  if rng.random() < 0.1:
    reg = rng.randrange(nreg) if nreg else -1
    body.append({"k": "div", "reg": -1, "kids": [{"k": "p", "reg": reg, "sp": "", "st": {}, "b": tstr(50), "e": tstr(52), "kids": [
      {"k": "span", "sp": "", "st": {}, "kids": [{"k": "t", "s": "one"}, {"k": "br", "st": {"disp": "none"}}, {"k": "t", "s": "line"},
                                                   {"k": "br"}, {"k": "t", "s": "next"}]}]}]})
  return {"regions": regions, "body": body}


# -----------------------------------------------------------------------------------------------------------------
# style-run shapes (spec -> code); a shape is a state of spec/CuesShapes.tla
# -----------------------------------------------------------------------------------------------------------------

ATTR_ON = {"b": ("fw", "bold"), "i": ("fs", "italic"), "u": ("td", "u"), "c": ("col", "red"), "g": ("bg", "blue")}
ATTR_OFF = {"b": ("fw", "normal"), "i": ("fs", "normal"), "u": ("td", "nou"), "c": ("col", "white"), "g": ("bg", "transparent")}
ATTR_ON2 = {"c": ("col", "yellow"), "g": ("bg", "black")}      # a second colour for the inner / second span

TEXTS = {"plain": ("ab", "cd", "ef"), "amp": ("a&b", "&", "c&"), "lt": ("a<b", "<", "c<d"), "arrow": ("a-->b", "-->", "c"),
         "entity": ("&amp;", "&lt;b&gt;", "&#65;"), "wsline": ("ab", " ", "cd"), "gt": ("a>b", ">", "->")}


def shape_doc(shape):
  """shape = {"form", "A": set, "B": set, "reset": bool, "text"} -> abstract document (one region, one p, [0, 2))."""
  A = sorted(shape["A"])
  B = sorted(shape["B"])
  t1, t2, t3 = TEXTS[shape["text"]]

  def st(attrs, second=False, off=()):
    s = {}
    for a in attrs:
      k, v = (ATTR_ON2 if second and a in ATTR_ON2 else ATTR_ON)[a]
      s[k] = v
    for a in off:
      k, v = ATTR_OFF[a]
      s[k] = v
    return s

  def T(s):
    return {"k": "t", "s": s}
  form = shape["form"]
  preserve = shape["text"] == "wsline"
  if form == "single":
    kids = [{"k": "span", "sp": "", "st": st(A), "kids": [T(t1)]}]
  elif form == "nested":
    off = [a for a in A if a not in B] if shape["reset"] else []
    inner = {"k": "span", "sp": "", "st": st(B, True, off), "kids": [T(t2)]}
    kids = [{"k": "span", "sp": "", "st": st(A), "kids": [T(t1), inner, T(t3)]}]
  elif form == "adjacent":
    kids = [{"k": "span", "sp": "", "st": st(A), "kids": [T(t1)]}, {"k": "span", "sp": "", "st": st(B, True), "kids": [T(t2)]}]
  elif form == "brsplit":
    inner = {"k": "span", "sp": "", "st": st(B, True), "kids": [T(t2)]}
    kids = [{"k": "span", "sp": "", "st": st(A), "kids": [T(t1), {"k": "br"}, inner, {"k": "br"}, T(t3)]}]
  else:
    raise ValueError(form)
  p = {"k": "p", "reg": 0, "sp": "p" if preserve else "", "b": "0/1", "e": "2/1", "st": {"ta": "center"}, "kids": kids}
  return {"regions": [{"id": "r1", "origin": ["10/1", "10/1"], "extent": ["80/1", "80/1"], "da": "after"}],
          "body": [{"k": "div", "reg": -1, "kids": [p]}]}


# -----------------------------------------------------------------------------------------------------------------
# structure shapes (spec -> code, C06); a shape is an initial state of spec/CuesShapes.tla with fam = "struct"
# -----------------------------------------------------------------------------------------------------------------

STRUCTS = {"1div1p": [[1]], "1div2p": [[1, 2]], "2div": [[1], [2]], "2div2p": [[1, 2], [3]], "nested": [[[1]]], "nested2": [[1, [2]]]}


def _content(kind, j):
  def T(s):
    return {"k": "t", "s": s}

  def S(kids, sp_=""):
    return {"k": "span", "sp": sp_, "st": {}, "kids": kids}
  if kind == "plain":
    return "", [S([T("T%d" % j)])]
  if kind == "br":
    return "", [S([T("a%d" % j), {"k": "br"}, T("b%d" % j)])]
  if kind == "ruby":
    return "", [{"k": "ruby", "kids": [{"k": "rb", "kids": [S([T("K%d" % j)])]}, {"k": "rt", "kids": [S([T("r")])]}]}, S([T("x%d" % j)])]
  if kind == "spans":
    return "", [S([T("s%d " % j)]), S([S([T("n%d" % j)])])]
  if kind == "ws":
    return "", [S([T("w%d" % j)]), {"k": "br"}, S([T(" ")]), {"k": "br"}, S([T("v%d" % j)])]
  if kind == "preserve":
    return "p", [S([T("  p%d  " % j), {"k": "br"}, T("  "), {"k": "br"}, T("q%d" % j)])]
  raise ValueError(kind)


def _timing(pattern, j):
  F = Fraction
  if pattern == "same":
    return F(0), F(2)
  if pattern == "staggered":
    return F(j - 1), F(j + 1)
  if pattern == "sub":
    return [(F(0), F(1, 3000)), (F(1), F(1) + F(3, 2000)), (F(2), F(2) + F(1, 8000))][j - 1]
  if pattern == "unbounded":
    return F(j - 1), None
  if pattern == "gap":
    return F(2 * (j - 1)), F(2 * (j - 1) + 1)
  raise ValueError(pattern)


def struct_doc(shape):
  """shape = {"struct", "c1", "c2", "timing", "regs"} -> abstract document."""
  regs = shape["regs"]
  nreg = {"none": 0, "one": 1, "two_alt": 2, "two_div": 2}[regs]
  regions = [{"id": "r%d" % (i + 1), "origin": ["10/1", "%d/1" % (10 + 40 * i)], "extent": ["80/1", "61/2"],
              "da": ["after", "before"][i]} for i in range(nreg)]

  def mk_p(j):
    sp_, kids = _content(shape["c1"] if j == 1 else shape["c2"], j)
    b, e = _timing(shape["timing"], j)
    reg = -1
    if regs == "one":
      reg = 0
    elif regs == "two_alt":
      reg = (j - 1) % 2
    return {"k": "p", "reg": reg, "sp": sp_, "b": tstr(b), "e": tstr(e), "st": {}, "kids": kids}

  def mk_div(entries, top_index):
    d = {"k": "div", "reg": -1, "kids": []}
    if regs == "two_div" and top_index is not None:
      d["reg"] = top_index % 2
    for en in entries:
      d["kids"].append(mk_div(en, None) if isinstance(en, list) else mk_p(en))
    return d
  body = [mk_div(entries, k) for k, entries in enumerate(STRUCTS[shape["struct"]])]
  return {"regions": regions, "body": body}
