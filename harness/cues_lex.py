"""Strict line-level lexers for SRT and WebVTT strings (C06 / C07).

The lexers only split the string into lines, classify each line *lexically* and cut it into tokens.  They accept
nothing and reject nothing: whether the sequence of lines is a grammatical file, whether tags nest, whether an
escape is missing, whether numbers are consecutive ... is decided by TLC (spec/Cues.tla: SrtAcceptor / VttAcceptor).

Every line is a record with the same fields (TLC needs every accessed field to exist):
  k     "blank" | "header" | "style" | "num" | "timing" | "text"
  n     value of a digits-only line (k = "num"), else 0
  b, e  begin / end in milliseconds (k = "timing"), else 0
  tv    1 iff minutes and seconds fields of both times are < 60 (k = "timing")
  set   cue settings after the end time: [{"n": name, "v": value, "v1000", "pct", "al"}...]; a setting without ':' has
        n = ""; for numeric values v1000 = number * 1000, pct = 1 iff followed by '%', al = the word after ','  (else -1, 0, "")
  toks  tokens of the line (every kind, so that TLC can read a digits-only or timing-looking line as payload text)
  css   {"t": "sel"|"decl"|"close"|"other", "sel", "prop", "val"}: shape of the line when read inside a STYLE block
token: {"k": "t", "cps": [...]}                       a run of ordinary characters
       {"k": "arrow", "cps": [45, 45, 62]}             the substring "-->"
       {"k": "o", "n": tag name, "cl": [classes], "a": annotation / attribute value}      start tag
       {"k": "c", "n": tag name}                                                          end tag
       {"k": "ent", "n": name, "cps": [code point or 0]}   WebVTT only: "&name;"
       {"k": "rawamp", "cps": [38]} / {"k": "rawlt", "cps": [60]}      WebVTT only: '&' / '<' that start no escape / tag
Line terminators: "\n" only (a "\r" is an ordinary character of the line and will be judged as such).
"""
from __future__ import annotations

import re

_SRT_TIMING = re.compile(r"^(\d{2,}):(\d{2}):(\d{2}),(\d{3}) --> (\d{2,}):(\d{2}):(\d{2}),(\d{3})$")
_VTT_TIMING = re.compile(r"^(?:(\d{2,}):)?(\d{2}):(\d{2})\.(\d{3}) --> (?:(\d{2,}):)?(\d{2}):(\d{2})\.(\d{3})((?:[ \t]+\S+)*)$")
_SRT_TAG = re.compile(r"<(b|i|u)>|</(b|i|u|font)>|<font color=\"([^\"<>]*)\">")
_VTT_TAG = re.compile(r"<(/?)([A-Za-z]+)((?:\.[^\s.<>&]+)*)(?:[ \t]([^<>&\n]*))?>")
_VTT_ENT = re.compile(r"&([A-Za-z]+|#[0-9]+|#x[0-9A-Fa-f]+);")
_CSS_SEL = re.compile(r"^::cue(?:\(\.([^\s().]+)\))? \{$")
_CSS_DECL = re.compile(r"^\s+([a-z-]+): ([^;]+);$")

ENTITIES = {"amp": 38, "lt": 60, "gt": 62, "nbsp": 160, "lrm": 0x200E, "rlm": 0x200F}


def _ms(h, m, s, ms):
  return ((int(h or 0) * 60 + int(m)) * 60 + int(s)) * 1000 + int(ms)


def _blank_line(kind="blank"):
  return {"k": kind, "n": 0, "b": 0, "e": 0, "tv": 1, "set": [], "toks": [], "css": {"t": "other", "sel": "", "prop": "", "val": ""}}


def _tok_text(cps):
  return {"k": "t", "n": "", "cl": [], "a": "", "cps": cps}


def _tokens(line, fmt):
  toks = []
  cur = []

  def flush():
    if cur:
      toks.append(_tok_text(list(cur)))
      cur.clear()
  i = 0
  n = len(line)
  while i < n:
    c = line[i]
    if line.startswith("-->", i):
      flush()
      toks.append({"k": "arrow", "n": "", "cl": [], "a": "", "cps": [45, 45, 62]})
      i += 3
      continue
    if c == "<":
      if fmt == "srt":
        m = _SRT_TAG.match(line, i)
        if m:
          flush()
          if m.group(1):
            toks.append({"k": "o", "n": m.group(1), "cl": [], "a": "", "cps": []})
          elif m.group(2):
            toks.append({"k": "c", "n": m.group(2), "cl": [], "a": "", "cps": []})
          else:
            toks.append({"k": "o", "n": "font", "cl": [], "a": m.group(3), "cps": []})
          i = m.end()
          continue
      else:
        m = _VTT_TAG.match(line, i)
        flush()
        if m:
          cl = [x for x in m.group(3).split(".") if x]
          toks.append({"k": "c" if m.group(1) else "o", "n": m.group(2), "cl": cl, "a": m.group(4) or "", "cps": []})
          i = m.end()
        else:
          toks.append({"k": "rawlt", "n": "", "cl": [], "a": "", "cps": [60]})
          i += 1
        continue
    if c == "&" and fmt == "vtt":
      m = _VTT_ENT.match(line, i)
      flush()
      if m:
        name = m.group(1)
        if name.startswith("#x"):
          cp = int(name[2:], 16)
        elif name.startswith("#"):
          cp = int(name[1:])
        else:
          cp = ENTITIES.get(name, 0)
        toks.append({"k": "ent", "n": name, "cl": [], "a": "", "cps": [cp if cp < 0x110000 else 0]})
        i = m.end()
      else:
        toks.append({"k": "rawamp", "n": "", "cl": [], "a": "", "cps": [38]})
        i += 1
      continue
    cur.append(ord(c))
    i += 1
  flush()
  return toks


_SET_NUM = re.compile(r"^(-?\d+)(?:\.(\d{1,3}))?(%?)(?:,([A-Za-z]+))?$")


def _setting(s):
  """One cue setting 'name:value' -> {"n", "v", "v1000": value * 1000 (or -1), "pct": 1 iff '%', "al": text after ','}."""
  if ":" not in s:
    return {"n": "", "v": s, "v1000": -1, "pct": 0, "al": ""}
  a, b = s.split(":", 1)
  rec = {"n": a, "v": b, "v1000": -1, "pct": 0, "al": ""}
  m = _SET_NUM.match(b)
  if m and len(m.group(1)) < 6:
    frac = (m.group(2) or "").ljust(3, "0")
    sign = -1 if m.group(1).startswith("-") else 1
    rec["v1000"] = int(m.group(1)) * 1000 + sign * int(frac or 0)
    rec["pct"] = 1 if m.group(3) else 0
    rec["al"] = m.group(4) or ""
  return rec


def _split(text):
  # (line terminators of both formats: CR LF, LF, CR)
  lines = re.split(r"\r\n|\n|\r", text)
  eofnl = 1
  if lines and lines[-1] == "":
    lines.pop()
  elif lines:
    eofnl = 0
  return lines, eofnl


def lex_srt(text):
  lines, eofnl = _split(text)
  out = []
  for ln in lines:
    rec = _blank_line()
    if ln == "":
      out.append(rec)
      continue
    rec["toks"] = _tokens(ln, "srt")
    m = _SRT_TIMING.match(ln)
    if m:
      g = m.groups()
      rec.update(k="timing", b=_ms(*g[0:4]), e=_ms(*g[4:8]), tv=1 if all(int(x) < 60 for x in (g[1], g[2], g[5], g[6])) else 0)
      rec["toks"] = [t for t in rec["toks"] if t["k"] == "arrow"]     # the digits are in b / e
    elif ln.isascii() and ln.isdigit():
      rec.update(k="num", n=int(ln) if len(ln) < 9 else 999999999)
    else:
      rec["k"] = "text"
    out.append(rec)
  return out, eofnl


def lex_vtt(text):
  lines, eofnl = _split(text)
  out = []
  for ln in lines:
    rec = _blank_line()
    if ln == "":
      out.append(rec)
      continue
    rec["toks"] = _tokens(ln, "vtt")
    m = _VTT_TIMING.match(ln)
    ms = _CSS_SEL.match(ln)
    md = _CSS_DECL.match(ln)
    if ms:
      rec["css"] = {"t": "sel", "sel": ms.group(1) or "", "prop": "", "val": ""}
    elif md:
      rec["css"] = {"t": "decl", "sel": "", "prop": md.group(1), "val": md.group(2)}
    elif ln == "}":
      rec["css"] = {"t": "close", "sel": "", "prop": "", "val": ""}
    if m:
      g = m.groups()
      sets = [_setting(s) for s in (g[8] or "").split()]
      rec.update(k="timing", b=_ms(*g[0:4]), e=_ms(*g[4:8]), set=sets,
                 tv=1 if all(int(x) < 60 for x in (g[1], g[2], g[5], g[6])) else 0)
      rec["toks"] = [t for t in rec["toks"] if t["k"] == "arrow"]     # the digits are in b / e / set
    elif ln == "WEBVTT" or ln.startswith("WEBVTT ") or ln.startswith("WEBVTT\t"):
      rec["k"] = "header"
    elif ln == "STYLE":
      rec["k"] = "style"
    elif ln.isascii() and ln.isdigit():
      rec.update(k="num", n=int(ln) if len(ln) < 9 else 999999999)
    else:
      rec["k"] = "text"
    out.append(rec)
  return out, eofnl
