"""Observation side of C06 / C07: projection of ISD snapshots, running the writers, assembling trace records.

The projection of one snapshot (ISD) is, per region in iter_regions() order:
  {"id", "pv": [n, d], "eh": [n, d]   computed Position.v_offset and Extent.height (root-container percent, exact rationals)
   "da": "before"|"center"|"after",
   "paras": [ {"ta": "start"|"center"|"end", "dir": "ltr"|"rtl",
               "items": [ {"k": "t", "cps": [code points], "b", "i", "u": 0/1, "col": "#rrggbbaa", "bg": "#rrggbbaa", "ann": 0/1}
                        | {"k": "br", ...same fields, empty} ]} ... ]}       paragraphs in document order (through nested div)
Per-character computed style = computed style of the span holding the text node (font weight / style / decoration /
colour as computed by the ISD); "bg" = the background visible behind the character: nearest enclosing inline element
whose computed backgroundColor is not fully transparent.  "ann" = 1 for ruby annotation text (rt / rp), which the
cue-text relation leaves out.

Nothing here decides a property: it records what the implementation produced.
"""
from __future__ import annotations

import json
from fractions import Fraction
from math import lcm

from . import cues_lex as L

TRANSPARENT = "#00000000"
MAX_DEN = 30000


def _hex(c):
  if c is None:
    return ""
  r, g, b, a = c.components
  return "#{:02x}{:02x}{:02x}{:02x}".format(r, g, b, a)


def _frac(v):
  f = Fraction(v)
  if f.denominator > 64:
    f = f.limit_denominator(64)          # keeps TLC's 32-bit arithmetic safe; the generated grid is quarter percents
  return [f.numerator, f.denominator]


def project_isd(isd):
  import ttconv.model as m
  import ttconv.style_properties as sp
  S = sp.StyleProperties
  out = []
  for region in isd.iter_regions():
    pos = region.get_style(S.Position)
    ext = region.get_style(S.Extent)
    da = region.get_style(S.DisplayAlign)
    reg = {"id": region.get_id() or "", "pv": _frac(pos.v_offset.value) if pos is not None else [0, 1],
           "eh": _frac(ext.height.value) if ext is not None else [0, 1], "da": da.value if da is not None else "before",
           "paras": [], "ndiv": sum(len(b) for b in region), "nesteddiv": 0, "ruby": 0}

    def flags_of(el):
      fw = el.get_style(S.FontWeight)
      fs = el.get_style(S.FontStyle)
      td = el.get_style(S.TextDecoration)
      col = el.get_style(S.Color)
      out_ = set()
      if fw is sp.FontWeightType.bold:
        out_.add("b")
      if fs is sp.FontStyleType.italic:
        out_.add("i")
      if td is not None and not isinstance(td, sp.SpecialValues) and td.underline:
        out_.add("u")
      if col is not None and _hex(col) != "#ffffffff":
        out_.add("c")
      return out_

    def walk_inline(el, items, ann, bg, above):
      own = flags_of(el) if not isinstance(el, m.P) else set()
      for ch in el:
        if isinstance(ch, m.Br):
          items.append({"k": "br", "cps": [], "b": 0, "i": 0, "ob": 0, "u": 0, "col": "", "bg": "", "ann": ann, "rst": ""})
        elif isinstance(ch, m.Text):
          fs = el.get_style(S.FontStyle)
          items.append({"k": "t", "cps": [ord(c) for c in ch.get_text()],
                        "b": 1 if "b" in own else 0, "i": 1 if "i" in own else 0,
                        "ob": 1 if fs is sp.FontStyleType.oblique else 0, "u": 1 if "u" in own else 0,
                        "col": _hex(el.get_style(S.Color)), "bg": bg_of(el, bg), "ann": ann,
                        # feature only: attributes switched on by an enclosing span and off again for this run
                        "rst": "".join(sorted(above - own))})
        else:
          a2 = 1 if isinstance(ch, (m.Rt, m.Rtc, m.Rp)) else ann
          if isinstance(ch, m.Ruby):
            reg["ruby"] = 1
          walk_inline(ch, items, a2, bg_of(ch, bg), above | own)

    def bg_of(el, inherited):
      c = el.get_style(S.BackgroundColor)
      if c is not None and c.components[3] != 0 and not isinstance(el, m.P):
        return _hex(c)
      return inherited

    def walk_block(el):
      for ch in el:
        if isinstance(ch, m.P):
          ta = ch.get_style(S.TextAlign)
          di = ch.get_style(S.Direction)
          items = []
          walk_inline(ch, items, 0, TRANSPARENT, set())
          reg["paras"].append({"ta": ta.value if ta is not None else "start", "dir": di.value if di is not None else "ltr",
                               "items": items})
        else:
          if isinstance(ch, m.Div) and isinstance(el, m.Div):
            reg["nesteddiv"] = 1
          walk_block(ch)
    walk_block(region)
    out.append(reg)
  return out


SRT_CONFIGS = [{"fmt": "srt", "tf": 1}, {"fmt": "srt", "tf": 0}]
VTT_CONFIGS = [{"fmt": "vtt", "lp": lp, "ta": ta, "id": cid} for lp in (0, 1) for ta in (0, 1) for cid in (1, 0)]


def config_label(c):
  if c["fmt"] == "srt":
    return "srt(text_formatting=%d)" % c["tf"]
  return "vtt(line_position=%d,text_align=%d,cue_id=%d)" % (c["lp"], c["ta"], c["id"])


def run_writer(doc, cfg):
  """Returns (output string or None, exception text)."""
  from .core import AltContext, alt_for
  body = doc.get_body()
  size = sum(1 for _ in body.dfs_iterator()) if body is not None else 0
  try:
    with AltContext(alt_for(("cues", size, cfg["fmt"], cfg.get("tf", 1), cfg.get("lp", 0)))) as ac:
      if cfg["fmt"] == "srt":
        import ttconv.srt.writer as w
        from ttconv.srt.config import SRTWriterConfiguration
        return w.from_model(doc, SRTWriterConfiguration(text_formatting=bool(cfg["tf"])), ac.progress), ""
      import ttconv.vtt.writer as w
      from ttconv.vtt.config import VTTWriterConfiguration
      return w.from_model(doc, VTTWriterConfiguration(line_position=bool(cfg["lp"]), text_align=bool(cfg["ta"]),
                                                       cue_id=bool(cfg["id"])), ac.progress), ""
  except Exception as ex:  # pylint: disable=broad-except
    return None, type(ex).__name__ + ": " + str(ex)[:120]


def observe(adoc, configs, build):
  """abstract document -> trace record (dict) or None when the case is outside the judged domain.

  Records the snapshot sequence the implementation itself produces (ISD.generate_isd_sequence: the significant times
  and the ISD at each of them - taken as GIVEN by C06/C07) and, for each configuration, the lexed writer output."""
  from ttconv.isd import ISD
  doc = build(adoc)
  try:
    seq = ISD.generate_isd_sequence(doc)
  except Exception as ex:  # pylint: disable=broad-except
    return {"skip": "isd_generation_raised: " + type(ex).__name__}
  times = [Fraction(t) for t, _ in seq]
  D = 1
  for t in times:
    D = lcm(D, t.denominator)
  if D > MAX_DEN or (times and (max(times) + 11) * 1000 * D >= 2 ** 31):
    return {"skip": "time grid too fine for 32-bit TLC arithmetic"}
  rec = {"D": D, "sig": [int(t * D) for t in times], "snaps": [project_isd(isd) for _, isd in seq], "outs": []}
  for cfg in configs:
    # the writers consume their own ISD sequence (they modify the ISDs in place): rebuild nothing, the document is not modified
    text, err = run_writer(doc, cfg)
    o = {"fmt": cfg["fmt"], "tf": cfg.get("tf", 1), "lp": cfg.get("lp", 0), "ta": cfg.get("ta", 0), "id": cfg.get("id", 1),
         "raised": err, "eofnl": 1, "lines": []}
    if text is not None:
      o["lines"], o["eofnl"] = (L.lex_srt if cfg["fmt"] == "srt" else L.lex_vtt)(text)
      o["raw"] = text
    else:
      o["raw"] = ""
    rec["outs"].append(o)
  return rec


def dumps(rec):
  """ndjson line for TLC (raw output text is kept out of the trace: it is only for replay files)."""
  slim = dict(rec)
  slim["outs"] = [{k: v for k, v in o.items() if k != "raw"} for o in rec["outs"]]
  slim.pop("adoc", None)
  return json.dumps(slim, separators=(",", ":"), ensure_ascii=True)
