"""Abstract document families for the ISD properties (C01, C02, C13, C14).

* `mc_family(name)`: TLA+ text of an MC module defining `Docs` for spec/Timeline.tla - the bounded families TLC
  explores exhaustively; the same documents are then taken from TLC's state dump and replayed into the code.
* `random_doc(rng, ...)`: seeded random richer documents (more nodes, rational offsets, all features mixed).
* `probe_times(ad)`: the query grid for a document: every candidate boundary, one tick before and after, one point
  before the first and after the last.  (Only chooses where to look; never judges.)
"""
from __future__ import annotations

NONE_T = -1

# ------------------------------------------------------------------------------------------------------
# TLC families.  Document times are even ticks, so that odd ticks fall strictly between boundaries.
# ------------------------------------------------------------------------------------------------------

_COMMON = r"""
N == NoneT
NoAnim(n) == [k \in 1..n |-> <<>>]
Emp(n) == [k \in 1..n |-> ""]
Zero(n) == [k \in 1..n |-> 0]
Nn(n) == [k \in 1..n |-> N]
"""

FAMILIES = {
  # nesting x boundary arithmetic, default region
  "timing": dict(tmax=14, text=_COMMON + r"""
TP == {<<N, N>>, <<0, 4>>, <<2, N>>, <<2, 6>>, <<N, 2>>, <<4, 2>>}
Kinds == <<"body", "div", "p", "span", "text", "br", "p", "span", "text">>
Par   == <<0, 1, 2, 3, 4, 3, 2, 7, 8>>
Docs == { [n |-> 9, kind |-> Kinds, parent |-> Par,
           b |-> <<c.t1[1], c.t2[1], c.t3[1], c.t4[1], N, N, c.t7[1], N, N>>,
           e |-> <<c.t1[2], c.t2[2], c.t3[2], c.t4[2], N, N, c.t7[2], N, N>>,
           reg |-> Zero(9), disp |-> Emp(9), anim |-> NoAnim(9), txt |-> <<0, 0, 0, 0, 1, 0, 0, 0, 1>>,
           nr |-> 0, rb |-> <<>>, re |-> <<>>, rdisp |-> <<>>, ranim |-> <<>>, rbg |-> <<>>, idisp |-> ""]
          : c \in [t1 : {<<N, N>>, <<2, 10>>}, t2 : TP, t3 : TP, t4 : TP, t7 : {<<N, N>>, <<2, 6>>, <<6, N>>}] }
"""),
  # region references at every level, region timing, showBackground
  "regions": dict(tmax=8, text=_COMMON + r"""
Kinds == <<"body", "div", "p", "span", "text", "p", "span", "text">>
Par   == <<0, 1, 2, 3, 4, 2, 6, 7>>
Docs == { [n |-> 8, kind |-> Kinds, parent |-> Par,
           b |-> <<N, N, c.tp[1], N, N, N, N, N>>, e |-> <<N, N, c.tp[2], N, N, N, N, N>>,
           reg |-> <<c.r1, c.r2, c.r3, c.r4, 0, c.r6, 0, 0>>, disp |-> Emp(8), anim |-> NoAnim(8),
           txt |-> <<0, 0, 0, 0, 1, 0, 0, 1>>,
           nr |-> 2, rb |-> <<c.tr[1], N>>, re |-> <<c.tr[2], N>>, rdisp |-> <<"", "">>, ranim |-> <<<<>>, <<>>>>,
           rbg |-> <<"always", c.bg>>, idisp |-> ""]
          : c \in [r1 : {0, 1}, r2 : 0..2, r3 : 0..2, r4 : 0..2, r6 : 0..2, tp : {<<N, N>>, <<2, 6>>},
                   tr : {<<N, N>>, <<2, 4>>}, bg : {"always", "whenActive"}] }
"""),
  # display: specified, animated, initial; on content and on regions
  "display": dict(tmax=12, text=_COMMON + r"""
Kinds == <<"body", "div", "p", "span", "text", "span", "text", "br">>
Par   == <<0, 1, 2, 3, 4, 3, 6, 3>>
St(b, e, v) == [b |-> b, e |-> e, v |-> v]
Anims == {<<>>, <<St(2, 6, "none")>>, <<St(0, N, "none"), St(2, 4, "auto")>>, <<St(N, 4, "none")>>}
Docs == { [n |-> 8, kind |-> Kinds, parent |-> Par,
           b |-> <<N, N, c.tp[1], N, N, N, N, N>>, e |-> <<N, N, c.tp[2], N, N, N, N, N>>,
           reg |-> <<c.nr, 0, 0, 0, 0, 0, 0, 0>>,
           disp |-> <<"", c.d2, c.d3, c.d4, "", "", "", "">>,
           anim |-> <<<<>>, <<>>, c.a3, <<>>, <<>>, c.a6, <<>>, <<>>>>,
           txt |-> <<0, 0, 0, 0, 1, 0, 1, 0>>,
           nr |-> c.nr, rb |-> IF c.nr = 1 THEN <<N>> ELSE <<>>, re |-> IF c.nr = 1 THEN <<N>> ELSE <<>>,
           rdisp |-> IF c.nr = 1 THEN <<"">> ELSE <<>>, ranim |-> IF c.nr = 1 THEN <<c.ar>> ELSE <<>>,
           rbg |-> IF c.nr = 1 THEN <<"whenActive">> ELSE <<>>, idisp |-> c.id]
          : c \in [nr : {0, 1}, d2 : {"", "none"}, d3 : {"", "none", "auto"}, d4 : {"", "none"}, a3 : Anims,
                   a6 : {<<>>, <<St(2, 6, "none")>>}, ar : {<<>>, <<St(4, 8, "none")>>},
                   tp : {<<N, N>>, <<2, 10>>}, id : {"", "none", "auto"}] }
"""),
  # ruby: a base and an annotation with timing / display of their own next to plain text; the base with content or EMPTY
  # (an empty base is a base all the same: while it is active the annotation has something to annotate)
  "ruby": dict(tmax=12, text=_COMMON + r"""
TR == {<<N, N>>, <<2, 6>>, <<4, N>>, <<N, 4>>}
KindsE == <<"body", "div", "p", "span", "text", "ruby", "rb", "rt", "span", "text">>
ParE   == <<0, 1, 2, 3, 4, 3, 6, 6, 8, 9>>
KindsF == <<"body", "div", "p", "span", "text", "ruby", "rb", "span", "text", "rt", "span", "text">>
ParF   == <<0, 1, 2, 3, 4, 3, 6, 7, 8, 6, 10, 11>>
Docs == { [n |-> 10, kind |-> KindsE, parent |-> ParE,
           b |-> <<N, N, c.tp[1], N, N, c.tc[1], c.tb[1], c.tt[1], N, N>>,
           e |-> <<N, N, c.tp[2], N, N, c.tc[2], c.tb[2], c.tt[2], N, N>>,
           reg |-> Zero(10), disp |-> <<"", "", "", "", "", "", c.db, c.dt, "", "">>, anim |-> NoAnim(10),
           txt |-> <<0, 0, 0, 0, 1, 0, 0, 0, 0, 1>>,
           nr |-> 0, rb |-> <<>>, re |-> <<>>, rdisp |-> <<>>, ranim |-> <<>>, rbg |-> <<>>, idisp |-> ""]
          : c \in [tp : {<<N, N>>, <<2, 10>>}, tc : {<<N, N>>, <<2, 8>>}, tb : TR, tt : TR, db : {"", "none"}, dt : {"", "none"}] }
        \cup
        { [n |-> 12, kind |-> KindsF, parent |-> ParF,
           b |-> <<N, N, c.tp[1], N, N, c.tc[1], c.tb[1], N, N, c.tt[1], N, N>>,
           e |-> <<N, N, c.tp[2], N, N, c.tc[2], c.tb[2], N, N, c.tt[2], N, N>>,
           reg |-> Zero(12), disp |-> <<"", "", "", "", "", "", c.db, "", "", c.dt, "", "">>, anim |-> NoAnim(12),
           txt |-> <<0, 0, 0, 0, 1, 0, 0, 0, 1, 0, 0, 1>>,
           nr |-> 0, rb |-> <<>>, re |-> <<>>, rdisp |-> <<>>, ranim |-> <<>>, rbg |-> <<>>, idisp |-> ""]
          : c \in [tp : {<<N, N>>, <<2, 10>>}, tc : {<<N, N>>, <<2, 8>>}, tb : TR, tt : TR, db : {"", "none"}, dt : {"", "none"}] }
"""),
  # ruby x regions: the container, the base and the annotation may each be associated with a region of their own (region
  # selection can leave a container with its base only, or with its annotation only); the base has two spans
  "rubyreg": dict(tmax=8, text=_COMMON + r"""
Kinds == <<"body", "div", "p", "span", "text", "ruby", "rb", "span", "text", "span", "text", "rt", "span", "text">>
Par   == <<0, 1, 2, 3, 4, 3, 6, 7, 8, 7, 10, 6, 12, 13>>
Docs == { [n |-> 14, kind |-> Kinds, parent |-> Par,
           b |-> <<N, N, N, N, N, N, N, N, N, N, N, c.tt[1], N, N>>,
           e |-> <<N, N, N, N, N, N, N, N, N, N, N, c.tt[2], N, N>>,
           reg |-> <<0, c.rd, c.rp, 0, 0, c.rc, c.rb, 0, 0, c.rs, 0, c.rt, 0, 0>>, disp |-> Emp(14), anim |-> NoAnim(14),
           txt |-> <<0, 0, 0, 0, 1, 0, 0, 0, 1, 0, 1, 0, 0, 1>>,
           nr |-> 2, rb |-> <<N, N>>, re |-> <<N, c.re>>, rdisp |-> <<"", "">>, ranim |-> <<<<>>, <<>>>>,
           rbg |-> <<"always", "whenActive">>, idisp |-> ""]
          : c \in [rd : {0, 1}, rp : {0, 1, 2}, rc : {0, 1, 2}, rb : {0, 1, 2}, rs : {0, 2}, rt : {0, 1, 2}, tt : {<<N, N>>, <<2, 6>>},
                   re : {N, 4}] }
        \cup   \* ... and with an EMPTY base (it counts only in the region it is associated with)
        { [n |-> 10, kind |-> <<"body", "div", "p", "span", "text", "ruby", "rb", "rt", "span", "text">>,
           parent |-> <<0, 1, 2, 3, 4, 3, 6, 6, 8, 9>>,
           b |-> <<N, N, N, N, N, N, c.tb[1], N, N, N>>, e |-> <<N, N, N, N, N, N, c.tb[2], N, N, N>>,
           reg |-> <<0, c.rd, c.rp, 0, 0, c.rc, c.rb, c.rt, 0, 0>>, disp |-> Emp(10), anim |-> NoAnim(10),
           txt |-> <<0, 0, 0, 0, 1, 0, 0, 0, 0, 1>>,
           nr |-> 2, rb |-> <<N, N>>, re |-> <<N, N>>, rdisp |-> <<"", "">>, ranim |-> <<<<>>, <<>>>>,
           rbg |-> <<"always", "whenActive">>, idisp |-> ""]
          : c \in [rd : {0, 1}, rp : {0, 1, 2}, rc : {0, 1, 2}, rb : {0, 1, 2}, rt : {0, 1, 2}, tb : {<<N, N>>, <<2, 6>>}] }
"""),
}


def mc_family(name):
  fam = FAMILIES[name]
  return ("---- MODULE MC_Timeline ----\nEXTENDS Timeline\n" + fam["text"] + "\n====\n"), fam["tmax"]


# ------------------------------------------------------------------------------------------------------
# random documents
# ------------------------------------------------------------------------------------------------------

def random_doc(rng, max_nodes=40, anim_styles=False, space=False, ruby=True, ruby_forms=False, ruby_bias=False):
  den = rng.choice([1, 1, 2, 3, 25, 1001] * 6 + [10 ** 9 + 7, 10 ** 9 + 7])
  D = 2 * den                                  # document times are even ticks
  span = 10 * den                              # times within [0, 10 s)
  fine = den > 10 ** 6                         # a grid finer than a nanosecond (times written at full double precision):
  if fine:                                     # a handful of ticks only, the tick NUMBERS stay small
    span = 30

  def t_opt(p_none=0.5):
    if rng.random() < p_none:
      return NONE_T
    if fine:
      return 2 * rng.randrange(0, span + 1)
    return 2 * rng.randrange(0, span + 1) if den <= 3 or rng.random() < 0.5 else 2 * den * rng.randrange(0, 10)

  nr = rng.choice([0, 0, 1, 2, 3])
  # shape of the tree: mostly small fan-out; some documents are WIDE (dozens of siblings), DEEP (long span chains) or have
  # many regions - sizes that a bounded enumeration never reaches
  shape = rng.random()
  wide = shape < 0.06
  deep = 0.06 <= shape < 0.10
  if 0.10 <= shape < 0.13:
    nr = rng.randint(5, 9)
  if wide or deep:
    max_nodes = max(max_nodes, 140)
  kind, parent, b, e, reg, disp, anim, txt = [], [], [], [], [], [], [], []
  spc = []

  def steps():
    out = []
    for _ in range(rng.choice([1, 1, 2, 3])):
      out.append({"b": t_opt(0.3), "e": t_opt(0.3), "v": rng.choice(["none", "none", "auto"])})
    if rng.random() < 0.12:
      # the same step stated again after another one that overlaps it (the LAST active step prevails, so the restatement
      # matters): x, y, x with x and y of different values
      x = dict(out[0])
      y = {"b": x["b"], "e": t_opt(0.5), "v": "auto" if x["v"] == "none" else "none"}
      out = [x, y, dict(x)]
    return out

  def add(k, p, timed=True, regable=True):
    kind.append(k)
    parent.append(p)
    if timed and k not in ("br", "text"):
      b.append(t_opt(0.55))
      e.append(t_opt(0.55))
    else:
      b.append(NONE_T)
      e.append(NONE_T)
    reg.append(rng.randint(1, nr) if (regable and nr and k not in ("br", "text") and rng.random() < 0.3) else 0)
    r = rng.random()
    disp.append("" if (r > 0.13 or k in ("text",)) else ("none" if r < 0.08 else "auto"))
    anim.append(steps() if (k not in ("text",) and rng.random() < 0.15) else [])
    txt.append(1 if k == "text" and rng.random() < 0.93 else 0)
    spc.append(rng.choice(["", "", "default", "preserve"]) if space and k not in ("text", "br") else "")
    return len(kind)

  def grow(p, pk, depth):
    if len(kind) >= max_nodes:
      return
    if pk == "body":
      for _ in range(rng.randint(1, 3) if not wide else rng.randint(1, 12)):
        k = add("div", p)
        grow(k, "div", depth + 1)
    elif pk == "div":
      for _ in range(rng.randint(1, 3) if not wide else rng.randint(1, 25)):
        if len(kind) >= max_nodes:
          return
        if depth < 4 and rng.random() < 0.25:
          k = add("div", p)
          grow(k, "div", depth + 1)
        else:
          k = add("p", p)
          grow(k, "p", depth + 1)
    elif pk == "p":
      for _ in range(rng.randint(1, 4) if not wide else rng.randint(1, 30)):
        if len(kind) >= max_nodes:
          return
        r = rng.random()
        if r < 0.12:
          add("br", p)
        elif r < 0.24 and ruby and ruby_forms and rng.random() < 0.5 and len(kind) + 22 <= max_nodes:
          # the other documented ruby patterns: rb rp rt rp, and rbc rtc [rtc] with delimited annotation containers; any
          # part may carry timing / display of its own (used for shape checks only: Ttml.tla models the plain rb rt pattern)
          rk = add("ruby", p, timed=True, regable=False)

          def part(k_, par):
            own = rng.random() < 0.3
            sk = add(k_, par, timed=own, regable=False)
            if not own:
              disp[sk - 1] = ""
              anim[sk - 1] = []
            if k_ in ("rb", "rt", "rp"):
              sp = add("span", sk, timed=rng.random() < 0.15, regable=False)
              tk = add("text", sp)
              txt[tk - 1] = 1
            return sk
          if rng.random() < 0.4:
            for k_ in ("rb", "rp", "rt", "rp"):
              part(k_, rk)
          else:
            bc = part("rbc", rk)
            for _b in range(rng.choice([1, 2])):
              part("rb", bc)
            for _c in range(rng.choice([1, 1, 2])):
              tc = part("rtc", rk)
              delim = rng.random() < 0.6
              if delim:
                part("rp", tc)
              for _t in range(rng.choice([1, 2])):
                part("rt", tc)
              if delim:
                part("rp", tc)
        elif r < (0.7 if ruby_bias else 0.24) and ruby and len(kind) + 10 <= max_nodes:
          # an untimed ruby skeleton: ruby(rb(span(text)), rt(span(text)))
          # a third of them with timing / display / display animation on the base, the annotation or their spans: the
          # annotation may be presented for part of the time only, the base may disappear under it
          rk = add("ruby", p, timed=True, regable=False)
          loose = rng.random() < (0.9 if ruby_bias else 0.5)
          if rng.random() < 0.5:
            # group ruby: a base container and an annotation container, each with one or two members; timing / display on
            # any of them (all bases may be gone while the annotation is still there, and the other way round)
            for cont, member in (("rbc", "rb"), ("rtc", "rt")):
              own = loose and rng.random() < 0.3
              ck = add(cont, rk, timed=own, regable=False)
              if not own:
                disp[ck - 1] = ""
                anim[ck - 1] = []
              early = loose and member == "rb" and rng.random() < 0.35      # every base ends early, the annotation stays
              for _m in range(rng.choice([1, 2])):
                own_m = loose and rng.random() < 0.6
                mk = add(member, ck, timed=own_m, regable=False)
                if not own_m:
                  disp[mk - 1] = ""
                  anim[mk - 1] = []
                if early:
                  b[mk - 1] = NONE_T
                  e[mk - 1] = t_opt(0.0)
                  disp[mk - 1] = ""
                  anim[mk - 1] = []
                sp = add("span", mk, timed=False, regable=False)
                disp[sp - 1] = ""
                anim[sp - 1] = []
                tk = add("text", sp)
                txt[tk - 1] = 1
            continue
          for sub in ("rb", "rt"):
            empty = loose and rng.random() < (0.3 if ruby_bias else 0.15)
            own = loose and (empty or rng.random() < (0.7 if sub == "rt" else 0.3))
            # (mostly-ruby documents: a base or an annotation may be associated with a region of its own)
            sk = add(sub, rk, timed=own, regable=ruby_bias and rng.random() < 0.6)
            if not own:
              disp[sk - 1] = ""
              anim[sk - 1] = []
            # (a base or an annotation may be EMPTY - no child at all - and still carry timing of its own)
            nspans = rng.choice([1, 2, 2, 3]) if (loose or space) and rng.random() < 0.7 else 1
            if empty:
              nspans = 0
            for _s in range(nspans):
              own_s = loose and rng.random() < 0.3
              sp = add("span", sk, timed=own_s, regable=False)
              if not own_s:
                disp[sp - 1] = ""
                anim[sp - 1] = []
              tk = add("text", sp)
              txt[tk - 1] = 1
        else:
          k = add("span", p)
          grow(k, "span", depth + 1)
    elif pk == "span":
      for _ in range(rng.randint(1, 3) if not wide else rng.randint(1, 20)):
        if len(kind) >= max_nodes:
          return
        r = rng.random()
        if deep and depth < 40 and r < 0.8:
          k = add("span", p)
          grow(k, "span", depth + 1)
        elif r < 0.6:
          add("text", p)
        elif r < 0.72:
          add("br", p)
        elif depth < 7:
          k = add("span", p)
          grow(k, "span", depth + 1)

  add("body", 0)
  grow(1, "body", 1)
  if rng.random() < 0.3:
    # the SAME (value-equal) animation step on several elements that begin at different times: each must be resolved
    # against its own element
    shared = {"b": 2 * rng.randrange(0, (3 * den if not fine else 9) + 1), "e": t_opt(0.4), "v": "none"}
    cands = [k for k in range(len(kind)) if kind[k] in ("p", "span", "div")]
    for k in rng.sample(cands, min(len(cands), rng.randint(2, 3))):
      anim[k] = anim[k] + [dict(shared)]
      if b[k] == NONE_T and rng.random() < 0.7:
        b[k] = 2 * rng.randrange(1, (4 * den if not fine else 12) + 1)
  if rng.random() < 0.15:
    # siblings that begin together and end one after the other, each with the same (value-equal) display step reaching beyond
    # the end of the first: each step is clipped by the end of the element that carries it
    groups = {}
    for k in range(len(kind)):
      if kind[k] in ("p", "span", "div"):
        groups.setdefault(parent[k], []).append(k)
    groups = [g for g in groups.values() if len(g) >= 2]
    if groups:
      g = rng.choice(groups)[:3]
      u = den if not fine else 3
      bb = 2 * rng.randrange(0, 2 * u + 1)
      first_end = bb + 2 * rng.randrange(1, 2 * u + 1)
      step = {"b": 0 if rng.random() < 0.5 else NONE_T, "e": first_end - bb + 2 * rng.randrange(1, 2 * u + 1), "v": "none"}
      for j, k in enumerate(g):
        b[k] = bb
        e[k] = first_end + 2 * j * rng.randrange(1, u + 1)
        anim[k] = [dict(step)]
        disp[k] = ""
  ad = {"n": len(kind), "kind": kind, "parent": parent, "b": b, "e": e, "reg": reg, "disp": disp, "anim": anim, "txt": txt,
        "nr": nr,
        "rb": [t_opt(0.7) for _ in range(nr)], "re": [t_opt(0.7) for _ in range(nr)],
        "rdisp": [rng.choice(["", "", "", "none", "auto"]) for _ in range(nr)],
        "ranim": [steps() if rng.random() < 0.25 else [] for _ in range(nr)],
        "rbg": [rng.choice(["always", "whenActive"]) for _ in range(nr)],
        "idisp": rng.choice(["", "", "", "", "", "", "", "", "none", "auto"]), "D": D}
  if fine and rng.random() < 0.7:
    # the whole timeline shifted by whole seconds (see isdu.build_doc): large times on a grid finer than a nanosecond - two
    # rationals that differ by less than the resolution of a float are still different times
    ad["t0"] = rng.choice([10, 3600, 360000, 10 ** 7])
    # (no animation on the shifted elements themselves - body and regions: their steps would be resolved against an interval
    # that begins at t0, which is the shape of the known finding on animation steps of elements with a non-zero begin)
    ad["anim"][0] = []
    ad["ranim"] = [[] for _ in range(nr)]
  if space:
    ad["space"] = spc
    # literal texts with white space in all positions (exercises collapsing, empty-text and empty-span pruning)
    lits = [" ", "  ", "\n", " a", "a ", " a b ", "a\tb", "\n x \n", "xy", ""]
    ad["text"] = [None] * len(kind)
    for k in range(len(kind)):
      if kind[k] == "text" and rng.random() < 0.45:
        ad["text"][k] = rng.choice(lits)
  import zlib
  if nr and zlib.crc32(repr((kind, parent, b, e, reg)).encode()) % 8 == 0:
    ad["reserved_ids"] = 1        # the first region is called what the library calls the region it makes up (isdu.region_name)
  return ad


def probe_times(ad, extra=()):
  """Candidate boundaries (computed naively) +- 1 tick, plus before-first / after-last."""
  n = ad["n"]
  ab = [0] * n
  ae = [NONE_T] * n
  cands = set(extra)
  for k in range(n):
    p = ad["parent"][k]
    pb = ab[p - 1] if p else 0
    pe = ae[p - 1] if p else NONE_T
    ab[k] = pb + (ad["b"][k] if ad["b"][k] != NONE_T else 0)
    own = pb + ad["e"][k] if ad["e"][k] != NONE_T else NONE_T
    ae[k] = own if pe == NONE_T else (pe if own == NONE_T else min(own, pe))
    cands.add(ab[k])
    if ae[k] != NONE_T:
      cands.add(ae[k])
    steps = list(ad["anim"][k]) + [{"b": s[2], "e": s[3]} for s in (ad.get("anim_styles") or [[]] * n)[k]]
    for st in steps:
      for base in (ab[k], pb):          # both the right and the (suspected) wrong base are worth probing
        cands.add(base + (st["b"] if st["b"] != NONE_T else 0))
        if st["e"] != NONE_T:
          cands.add(base + st["e"])
  for r in range(ad["nr"]):
    rb = ad["rb"][r] if ad["rb"][r] != NONE_T else 0
    cands.add(rb)
    if ad["re"][r] != NONE_T:
      cands.add(ad["re"][r])
    steps = list(ad["ranim"][r]) + [{"b": s[2], "e": s[3]} for s in (ad.get("ranim_styles") or [[]] * ad["nr"])[r]]
    for st in steps:
      cands.add(rb + (st["b"] if st["b"] != NONE_T else 0))
      if st["e"] != NONE_T:
        cands.add(rb + st["e"])
  pts = set()
  for c in cands:
    for d in (-1, 0, 1):
      if c + d >= 0:
        pts.add(c + d)
  pts.add(0)
  pts.add(max(cands) + 3 if cands else 3)
  pts = sorted(pts)
  if len(pts) > 90:
    # a long document: a deterministic sample of its boundaries (first and last ones always), everything around them +- 1
    import random as _r
    rr = _r.Random(len(pts) * 7919 + ad["n"])
    keep = set(pts[:6] + pts[-6:])
    for i in rr.sample(range(1, len(pts) - 1), 26):
      keep.update(pts[i - 1:i + 2])
    pts = sorted(keep)
  return pts


def long_doc(rng, count=None, untimed=False):
  """An ordinary LONG document: one division holding `count` (101..400) consecutive paragraphs (or one paragraph holding that
  many consecutive spans), begin/end back to back with an occasional gap, the container itself beginning at 0 or later, zero to
  two regions.  Sizes of this order are what real subtitle files have and what no bounded enumeration reaches."""
  count = count or rng.choice([101, 130, 180, 260, 301, 400])
  nr = rng.choice([0, 1, 2])
  kind, parent, b, e, reg, disp, anim, txt = [], [], [], [], [], [], [], []

  def add(k, p, bb=NONE_T, ee=NONE_T, rg=0, tx=0):
    kind.append(k); parent.append(p); b.append(bb); e.append(ee); reg.append(rg); disp.append(""); anim.append([]); txt.append(tx)
    return len(kind)
  body = add("body", 0, rg=(1 if nr else 0))
  off = rng.choice([0, 0, 2, 10, 60])
  div = add("div", body, bb=(off if off else NONE_T))
  level = rng.choice(["p", "p", "span"])
  holder = div if level == "p" else add("p", div, bb=rng.choice([NONE_T, 4]))
  t = 0
  for i in range(count):
    d = 2 * rng.randint(1, 3)
    if untimed and (i == count - 1 or rng.random() < 0.03):
      # a sibling without any timing of its own (a running label, a line break): active whenever its container is
      if level == "p":
        sp = add("span", add("p", holder))
        add("text", sp, tx=1)
      elif rng.random() < 0.5:
        add("br", holder)
      else:
        add("text", add("span", holder), tx=1)
      continue
    if level == "p":
      pp = add("p", holder, bb=t, ee=t + d, rg=(rng.randint(1, nr) if nr == 2 and rng.random() < 0.2 else 0))
      sp = add("span", pp)
    else:
      sp = add("span", holder, bb=t, ee=t + d)
    add("text", sp, tx=1)
    if rng.random() < 0.1:
      add("br", sp)
    t += d + (2 if rng.random() < 0.15 else 0)
  return {"n": len(kind), "kind": kind, "parent": parent, "b": b, "e": e, "reg": reg, "disp": disp, "anim": anim, "txt": txt,
          "nr": nr, "rb": [NONE_T] * nr, "re": [NONE_T] * nr, "rdisp": [""] * nr, "ranim": [[] for _ in range(nr)],
          "rbg": [rng.choice(["always", "whenActive"]) for _ in range(nr)], "idisp": "", "D": 2}


def step_boundaries(ad):
  """Absolute begin/end ticks of all animation steps as triples (resolved against the carrying element's OWN interval,
  resolved against its PARENT's interval, element has a non-zero begin offset).  Naive computation, used only to describe a
  failing case (known-finding selector), never to judge one."""
  n = ad["n"]
  ab = [0] * n
  ae = [NONE_T] * n
  out = []

  def clip(x, lim):
    return x if lim == NONE_T else min(x, lim)

  for k in range(n):
    p = ad["parent"][k]
    pb = ab[p - 1] if p else 0
    pe = ae[p - 1] if p else NONE_T
    off = ad["b"][k] if ad["b"][k] != NONE_T else 0
    ab[k] = pb + off
    own = pb + ad["e"][k] if ad["e"][k] != NONE_T else NONE_T
    ae[k] = own if pe == NONE_T else (pe if own == NONE_T else min(own, pe))
    steps = list(ad["anim"][k]) + [{"b": s[2], "e": s[3]} for s in (ad.get("anim_styles") or [[]] * n)[k]]
    for st in steps:
      sb = st["b"] if st["b"] != NONE_T else 0
      out.append((ab[k] + sb, pb + sb, off != 0))
      if st["e"] != NONE_T:
        out.append((clip(ab[k] + st["e"], ae[k]), clip(pb + st["e"], pe), off != 0))
  for r in range(ad["nr"]):
    rb = ad["rb"][r] if ad["rb"][r] != NONE_T else 0
    steps = list(ad["ranim"][r]) + [{"b": s[2], "e": s[3]} for s in (ad.get("ranim_styles") or [[]] * ad["nr"])[r]]
    for st in steps:
      sb = st["b"] if st["b"] != NONE_T else 0
      out.append((rb + sb, sb, rb != 0))
      if st["e"] != NONE_T:
        out.append((clip(rb + st["e"], ad["re"][r]), st["e"], rb != 0))
  return out
