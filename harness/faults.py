"""Structural fault injection and the pipeline runner for C18.

A fault is {"kind", "unit", "pos"} exactly as in spec/Pipeline.tla; `apply_faults` renders it on concrete file content.
`run_pipeline` pushes one input through reader -> snapshots -> writers -> LCD filter -> writers and records outcome classes.
"""
from __future__ import annotations

import io
import logging
import re
import signal
import struct

KINDS = ["truncate", "drop", "dup", "swap", "empty", "junk", "boundary"]
UNITS = ["line", "token", "byte"]
POSITIONS = ["first", "second", "middle", "penult", "last"]
STAGES = ["sigtimes", "snapshots", "sequence", "srt", "srt_plain", "vtt", "vtt_cfg", "imsc", "imsc_clock", "imsc_frames",
          "imsc_clockframes", "lcd", "lcd_snapshots", "lcd_srt", "lcd_vtt", "lcd_imsc"]

BOUNDARY = [b"0", b"-1", b"99999999999999999999", b"1e999", b"00", b"255", b"", b"60", b"59.9999", b"9" * 400, b"0." + b"0" * 400 + b"1"]
JUNK = [b"\x00", b"\xff\xfe", b"<", b">", b"&", b"-->", b"{\\an8}", b"</b>", b"<i>", b"\t", b"%", b"\xe2\x80\xa8", b"[", b"\"", b"'",
        # numerals as lenient number parsers (int(), float(), Fraction()) take them: sign, prefix, digit separator, other digits
        b"-123", b"+123", b"0x1f", b"1_23", b"\xef\xbc\x91\xef\xbc\x92\xef\xbc\x93\xef\xbc\x94", b"%s", b"{0}"]


# format-aware junk: legal-looking tokens of the format dropped where they make no sense
JUNK_BY_FMT = {
  "srt": [b"<![foo[", b"<font color>", b"<font color=\"\">", b"<!DOCTYPE x [", b"<?pi", b"</font>", b"{\\i}", b"<b", b"00:00:01,000 --> 00:00:02",
          b"--> ", b"<font face=\"x\">", b"<font color=\"rgba(255,0,0,256)\">", b"<font color=\"rgb(0,0,999)\">", b"<font color=\"#ff\">"],
  "vtt": [b"<rt>", b"</ruby>", b"<ruby>", b"<c.>", b"<v>", b"<lang>", b"<00:00:01.000>", b"<99:99:99.999>", b"&#x110000;", b"&#xD800;", b"NOTE", b"STYLE",
          b"REGION", b"line:abc", b"position:200%", b"size:-1%", b"align:", b"vertical:xx", b"00:00.000 --> 00:01.000 line:0", b"-->"],
  "scc": [b"94a1 94a1", b"1220 1220", b"9724 9724", b"942f", b"94ad 94ad", b"9425 9425", b"9429 9429", b"9420 9420", b"97a1", b"zzzz", b"94", b"942c942c",
          b"00:00:00:00\t", b"99:99:99;99\t9420", b"1c20 1c20", b"91b0", b"-420", b"+420", b"0x94", b"9_20", b" 942", b"94aE", b"-000"],
  "ttml": [b"tts:color=\"\"", b"begin=\"\"", b"style=\"s1 s1 sX\"", b"region=\"nope\"", b"tts:fontSize=\"1em 2em 3em\"", b"xml:space=\"x\"",
           b"timeContainer=\"x\"", b"tts:textShadow=\"1px\"", b"tts:extent=\"auto\"", b"ttp:frameRate=\"0\"", b"ttp:cellResolution=\"0 0\"",
           b"tts:extent=\"" + b"9" * 400 + b"px 480px\"", b"tts:fontSize=\"" + b"9" * 400 + b"px\"", b"begin=\"" + b"9" * 400 + b"s\"",
           b"<set/>", b"<span/>", b"<br>x</br>", b"<p><p/></p>", b"tts:ruby=\"text\"", b"tts:position=\"left\"", b"end=\"-1s\"", b"dur=\"1e3s\""],
  "stl": [b"\x8f" * 16, b"\x8a" * 16, b"\xff" * 16, b"\x00" * 16, b"STL99.01" + b" " * 8, b"\xc1" * 16, b"\x0b\x0b\x0a\x0a" * 4],
}


def _split(data: bytes, unit: str, fmt: str):
  if fmt == "stl" and unit in ("line", "token"):
    # binary: "line" = TTI/GSI block (GSI 1024 bytes, TTI 128 bytes each), "token" = 16-byte field-ish chunk
    if unit == "line":
      parts = [data[:1024]] + [data[k:k + 128] for k in range(1024, len(data), 128)]
    else:
      parts = [data[k:k + 16] for k in range(0, len(data), 16)]
    return [p for p in parts if p] or [b""]
  if unit == "line":
    return data.splitlines(keepends=True) or [b""]
  if unit == "token":
    return re.findall(rb"\s+|[^\s]+", data) or [b""]
  return [data[k:k + 1] for k in range(len(data))] or [b""]


def _index(n, pos):
  if n <= 0:
    return 0
  return {"first": 0, "second": min(1, n - 1), "middle": n // 2, "penult": max(0, n - 2), "last": n - 1}[pos]


# TTI block header: field -> (offset, length); values a broken authoring tool leaves behind
STL_TTI_FIELDS = {"sgn": (0, 1), "sn": (1, 2), "ebn": (3, 1), "cs": (4, 1), "tci": (5, 4), "tco": (9, 4), "vp": (13, 1), "jc": (14, 1), "cf": (15, 1)}
STL_FIELD_VALUES = [0, 1, 2, 3, 4, 23, 24, 25, 59, 60, 0xEF, 0xF0, 0xFE, 0xFF]


def _stl_header_fault(data: bytes, fault, rng) -> bytes:
  """STL-aware variants of "boundary" (one TTI header field set to a boundary value) and "swap" on tokens (time code in and
  time code out exchanged): the TTI block is the one at the fault's position."""
  n = max(0, (len(data) - 1024 + 127) // 128)
  if n == 0:
    return data
  off = 1024 + 128 * _index(n, fault["pos"])
  b = bytearray(data)
  if fault["kind"] == "swap":
    b[off + 5:off + 9], b[off + 9:off + 13] = b[off + 9:off + 13], b[off + 5:off + 9]
  else:
    o, ln = STL_TTI_FIELDS[rng.choice(sorted(STL_TTI_FIELDS))]
    for k in range(ln):
      if off + o + k < len(b) and (ln == 1 or rng.random() < 0.6):
        b[off + o + k] = rng.choice(STL_FIELD_VALUES)
  return bytes(b)


def apply_fault(data: bytes, fault, fmt: str, rng) -> bytes:
  if fmt == "stl" and ((fault["kind"] == "boundary" and fault["unit"] != "byte") or (fault["kind"] == "swap" and fault["unit"] == "token")):
    return _stl_header_fault(data, fault, rng)
  parts = _split(data, fault["unit"], fmt)
  if fault["unit"] == "token" and fmt != "stl":
    # positions refer to non-blank tokens
    idxs = [k for k, p in enumerate(parts) if p.strip()]
    if not idxs:
      return data
    i = idxs[_index(len(idxs), fault["pos"])]
  else:
    i = _index(len(parts), fault["pos"])
  kind = fault["kind"]
  if kind == "truncate":
    parts = parts[:i]
  elif kind == "drop":
    del parts[i]
  elif kind == "dup":
    parts.insert(i, parts[i])
  elif kind == "swap":
    j = min(i + (2 if fault["unit"] == "token" and fmt != "stl" else 1), len(parts) - 1)
    parts[i], parts[j] = parts[j], parts[i]
  elif kind == "empty":
    eol = b"\n" if parts[i].endswith(b"\n") else b""
    parts[i] = eol if fault["unit"] == "line" else b""
  elif kind == "junk":
    pool = JUNK + JUNK_BY_FMT.get(fmt, []) * 2
    junk = rng.choice(pool)
    if fault["unit"] == "token" and fmt != "stl" and rng.random() < 0.5:
      parts[i] = parts[i] + b" " + junk               # inserted next to the token rather than replacing it
    else:
      parts[i] = junk + (b"\n" if parts[i].endswith(b"\n") else b"")
  elif kind == "boundary":
    # replace the first number in the unit by a boundary value (or the unit itself when it has none)
    val = rng.choice(BOUNDARY)
    new, n = re.subn(rb"\d+", val, parts[i], count=1)
    parts[i] = new if n else val
  return b"".join(parts)


def apply_faults(data: bytes, faults, fmt: str, rng) -> bytes:
  for f in faults:
    data = apply_fault(data, f, fmt, rng)
  return data


class _Timeout(Exception):
  pass


def _alarm(_sig, _frm):
  raise _Timeout()


class _Count(logging.Handler):
  def __init__(self):
    super().__init__(level=logging.ERROR)
    self.n = 0

  def emit(self, record):
    self.n += 1


def classify_read_exception(ex):
  import xml.etree.ElementTree as et
  if isinstance(ex, _Timeout):
    return "Raised:Timeout"
  if isinstance(ex, et.ParseError):
    return "FormatError:ParseError"
  if isinstance(ex, UnicodeDecodeError):
    return "FormatError:UnicodeDecodeError"
  if isinstance(ex, struct.error):
    return "FormatError:struct.error"
  if type(ex) is ValueError:
    return "FormatError:ValueError"
  return "Internal:" + type(ex).__name__


def read(fmt: str, data: bytes, reader_cfg=None, cb=lambda _: None):
  """Calls the reader the way ttconv.tt.convert does."""
  import xml.etree.ElementTree as et
  if fmt == "ttml":
    import ttconv.imsc.reader as r
    try:
      tree = et.parse(io.BytesIO(data))
    except Exception as ex:  # pylint: disable=broad-except
      # the XML layer (python's ElementTree, called by tt.py before the reader) rejected the bytes: whatever it raises
      # (ParseError, or LookupError for an unknown encoding name, ...) is an XML parse error, not a reader failure
      raise et.ParseError("not well-formed XML: " + type(ex).__name__) from ex
    return r.to_model(tree, cb)
  if fmt == "scc":
    import ttconv.scc.reader as r
    from ttconv.scc.config import SccReaderConfiguration
    cfg = SccReaderConfiguration.parse(reader_cfg) if reader_cfg else None
    return r.to_model(data.decode("utf-8"), cfg, cb)
  if fmt == "stl":
    import ttconv.stl.reader as r
    from ttconv.stl.config import STLReaderConfiguration
    cfg = STLReaderConfiguration.parse(reader_cfg) if reader_cfg else None
    return r.to_model(io.BytesIO(data), cfg, cb)
  if fmt == "srt":
    import ttconv.srt.reader as r
    return r.to_model(io.TextIOWrapper(io.BytesIO(data), encoding="utf-8"), None, cb)
  if fmt == "vtt":
    import ttconv.vtt.reader as r
    return r.to_model(io.TextIOWrapper(io.BytesIO(data), encoding="utf-8"), None, cb)
  raise AssertionError(fmt)


def run_pipeline(fmt: str, data: bytes, reader_cfg=None, timeout=20, stages=True):
  """Returns {"read": class, "fatal": 0/1, "stages": [{"s":..., "o":...}], "where": first failing traceback tail}."""
  import traceback
  from fractions import Fraction
  log = logging.getLogger("ttconv")
  old_level = log.level
  log.setLevel(logging.ERROR)
  counter = _Count()
  log.addHandler(counter)
  out = {"read": "", "fatal": 0, "stages": [], "where": "", "progress": []}

  def collector(who):
    vals = []
    out["progress"].append({"who": who, "v": vals})

    def cb(x):
      try:
        vals.append(int(round(float(x) * 1000)))
      except Exception:  # pylint: disable=broad-except
        vals.append(-1)
    return cb

  signal.signal(signal.SIGALRM, _alarm)
  signal.alarm(timeout)
  doc = None
  from .core import AltContext, alt_for
  import zlib
  alt = alt_for(("faults", fmt, zlib.crc32(bytes(data))))
  try:
    try:
      with AltContext(alt):
        doc = read(fmt, data, reader_cfg, collector("reader_" + fmt))
      out["read"] = "Doc" if doc is not None else "NoneAfterFatal"
      out["fatal"] = 1 if counter.n > 0 else 0
    except BaseException as ex:  # pylint: disable=broad-except
      if isinstance(ex, (KeyboardInterrupt, SystemExit)):
        raise
      out["read"] = classify_read_exception(ex)
      out["where"] = traceback.format_exc()[-900:]
    finally:
      signal.alarm(0)
    if doc is None or not stages:
      return out

    def stage(name, fn):
      signal.alarm(timeout)
      try:
        with AltContext(alt):
          fn()
        out["stages"].append({"s": name, "o": "Ok"})
      except BaseException as ex:  # pylint: disable=broad-except
        if isinstance(ex, (KeyboardInterrupt, SystemExit)):
          raise
        out["stages"].append({"s": name, "o": "Raised:" + ("Timeout" if isinstance(ex, _Timeout) else type(ex).__name__)})
        if not out["where"]:
          out["where"] = name + ": " + traceback.format_exc()[-900:]
      finally:
        signal.alarm(0)

    from ttconv.isd import ISD
    import ttconv.srt.writer as srtw
    import ttconv.vtt.writer as vttw
    import ttconv.imsc.writer as imscw
    from ttconv.srt.config import SRTWriterConfiguration
    from ttconv.vtt.config import VTTWriterConfiguration
    from ttconv.imsc.config import IMSCWriterConfiguration
    from ttconv.filters.doc.lcd import LCDDocFilter, LCDDocFilterConfig
    import xml.etree.ElementTree as et
    sig = []

    def do_sig():
      sig[:] = list(ISD.significant_times(doc))

    def do_snaps():
      ts = list(sig[:6])
      probes = set(ts)
      for a, b in zip(ts, ts[1:]):
        probes.add((a + b) / 2)
      probes.add((ts[-1] if ts else Fraction(0)) + 1)
      for t in sorted(probes):
        ISD.from_model(doc, t)

    def snaps_limited():
      # generate_isd_sequence on large documents is slow: bound the work
      if len(sig) <= 400:
        ISD.generate_isd_sequence(doc)

    stage("sigtimes", do_sig)
    stage("snapshots", do_snaps)
    stage("sequence", snaps_limited)
    small = len(sig) <= 400
    if small:
      stage("srt", lambda: srtw.from_model(doc, None, collector("srt_writer")))
      stage("srt_plain", lambda: srtw.from_model(doc, SRTWriterConfiguration.parse({"text_formatting": False})))
      stage("vtt", lambda: vttw.from_model(doc, None, collector("vtt_writer")))
      stage("vtt_cfg", lambda: vttw.from_model(doc, VTTWriterConfiguration.parse({"line_position": True, "text_align": True, "cue_id": False})))
    stage("imsc", lambda: et.tostring(imscw.from_model(doc, None, collector("imsc_writer")).getroot()))
    stage("imsc_clock", lambda: et.tostring(imscw.from_model(doc, IMSCWriterConfiguration.parse({"time_format": "clock_time"})).getroot()))
    stage("imsc_frames", lambda: et.tostring(imscw.from_model(doc, IMSCWriterConfiguration.parse({"time_format": "frames", "fps": "25/1"})).getroot()))
    stage("imsc_clockframes", lambda: et.tostring(imscw.from_model(doc, IMSCWriterConfiguration.parse({"time_format": "clock_time_with_frames", "fps": "30/1"})).getroot()))
    stage("lcd", lambda: LCDDocFilter(LCDDocFilterConfig()).process(doc))
    if out["stages"][-1]["o"] == "Ok":
      stage("lcd_snapshots", do_snaps)
      if small:
        stage("lcd_srt", lambda: srtw.from_model(doc))
        stage("lcd_vtt", lambda: vttw.from_model(doc))
      stage("lcd_imsc", lambda: et.tostring(imscw.from_model(doc).getroot()))
    return out
  finally:
    signal.alarm(0)
    log.removeHandler(counter)
    log.setLevel(old_level)
