"""C04, lexical forms of style values: every legal form of every style attribute must be read (no exception, no
error record, the value present on the element), and forms that TTML2 defines as equivalent must give the same computed
value.  One tiny document per form; the value is observed as the computed style of the hosting element in the snapshot
at t = 0.  Records of kind "forms" are judged by spec/Trace_Imsc.tla (CheckForms)."""
from __future__ import annotations

import xml.etree.ElementTree as et
from fractions import Fraction

from . import imsc_xml as X

TEMPLATE = ('<tt xmlns="http://www.w3.org/ns/ttml" xmlns:tts="http://www.w3.org/ns/ttml#styling" '
            'xmlns:ttp="http://www.w3.org/ns/ttml#parameter" xmlns:ebutts="urn:ebu:tt:style" '
            'xmlns:itts="http://www.w3.org/ns/ttml/profile/imsc1#styling" xml:lang="en" tts:extent="640px 480px">'
            '<head><layout><region xml:id="r1"{r}/></layout></head>'
            '<body region="r1"><div><p{p}><span{s}>X</span></p></div></body></tt>')

PREFIX = {"linePadding": "ebutts", "multiRowAlign": "ebutts", "fillLineGap": "itts"}

# (property, host element, groups of equivalent forms)
FORMS = [
  ("color", "s", [["red", "#ff0000", "#FF0000", "#ff0000ff", "rgb(255,0,0)", "rgba(255,0,0,255)"],
                  ["transparent", "#00000000", "rgba(0,0,0,0)"], ["#12345678", "rgba(18,52,86,120)"]]),
  ("backgroundColor", "s", [["lime", "#00ff00", "rgb(0,255,0)"], ["transparent"]]),
  ("extent", "r", [["auto", "100% 100%"], ["50% 50%", "16c 7.5c", "50rw 50rh", "320px 240px"]]),
  ("origin", "r", [["auto", "0% 0%", "0px 0px", "0c 0c"], ["10% 20%", "3.2c 3c", "10rw 20rh", "64px 96px"], [".5% .25%", "0.5% 0.25%"]]),
  ("padding", "r", [["1c", "1c 1c", "1c 1c 1c", "1c 1c 1c 1c"], ["1c 2c", "1c 2c 1c", "1c 2c 1c 2c"], ["1% 2% 3% 4%"]]),
  ("displayAlign", "r", [["before"], ["center"], ["after"]]),
  ("overflow", "r", [["visible"], ["hidden"]]),
  ("showBackground", "r", [["always"], ["whenActive"]]),
  ("writingMode", "r", [["lr", "lrtb"], ["rl", "rltb"], ["tb", "tbrl"], ["tblr"]]),
  ("opacity", "r", [["0.5", "0.50", ".5"], ["1", "1.0"], ["0"]]),
  ("luminanceGain", "r", [["1.5", "1.50"], ["2"]]),
  ("disparity", "r", [["1%"], ["-2%"], ["4px"], ["-.25%", "-0.25%"]]),
  ("textAlign", "p", [["start"], ["center"], ["end"], ["left"], ["right"]]),
  ("lineHeight", "p", [["normal"], ["125%", "1.25em", "1.25c", "40px"]]),
  ("multiRowAlign", "p", [["start"], ["center"], ["end"], ["auto"]]),
  ("linePadding", "p", [["0.5c", ".5c", "+.5c", "0.50c", "00.5c"], ["0c", "0.0c", ".0c"]]),
  ("fillLineGap", "p", [["true"], ["false"]]),
  ("rubyReserve", "p", [["none"], ["both"], ["before"], ["after"], ["outside"], ["both 1em", "both 1c"], ["outside 50%"]]),
  ("shear", "p", [["0%"], ["16.67%"], ["-10%"], ["-.5%", "-0.5%"]]),
  ("direction", "p", [["ltr"], ["rtl"]]),
  ("fontFamily", "s", [["Arial", '"Arial"', "'Arial'"], ["default", "monospaceSerif"], ["Arial, sansSerif", "Arial,sansSerif"],
                       ["proportionalSansSerif"], ['"Times New Roman", serif']]),
  ("fontSize", "s", [["100%", "1c", "1em", "32px", "+100%", "1.0em", "032px"], ["150%", "1.5c", "1.5em", "48px"], ["50%", ".5em", "+.5c", "0.5em"]]),
  ("fontStyle", "s", [["normal"], ["italic"], ["oblique"]]),
  ("fontWeight", "s", [["normal"], ["bold"]]),
  ("textDecoration", "s", [["none", "noUnderline noLineThrough noOverline"], ["underline"], ["lineThrough"], ["overline"],
                           ["underline overline", "overline underline"], ["noUnderline"], ["underline noLineThrough"]]),
  ("textEmphasis", "s", [["none"], ["auto"], ["filled", "circle", "filled circle", "circle filled", "filled circle outside"],
                         ["open sesame", "sesame open"], ["dot", "filled dot"], ["filled dot before", "before filled dot"],
                         ["open circle after"], ["circle red", "red circle", "filled circle #ff0000"], ["auto before"]]),
  ("textOutline", "s", [["none"], ["2px"], ["red 2px", "#ff0000 2px"], ["10%", "0.1em", "0.1c", ".1em"]]),
  ("textShadow", "s", [["none"], ["1px 1px"], ["1px 1px 2px"], ["1px 1px red", "1px 1px #ff0000"], ["1px 1px 2px red"],
                       ["1px 1px,2px 2px", "1px 1px, 2px 2px", "1px 1px , 2px 2px"], ["1em 1em", "1c 1c"]]),
  ("textCombine", "s", [["none"], ["all"]]),
  ("wrapOption", "s", [["wrap"], ["noWrap"]]),
  ("unicodeBidi", "s", [["normal"], ["embed"], ["bidiOverride"]]),
  ("visibility", "s", [["visible"], ["hidden"]]),
  ("display", "s", [["auto"]]),
]


# forms that denote DIFFERENT values than the first of their group (a quoted generic name is an ordinary family name)
DISTINCT = [
  ("fontFamily", "s", ["serif", '"serif"', "'serif'"]),
  ("fontFamily", "s", ["monospace, Arial", "Arial, monospace"]),
  ("color", "s", ["#ff0000", "#ff000080", "#00ff00"]),
  ("textDecoration", "s", ["underline", "overline", "lineThrough"]),
  ("padding", "r", ["1c 2c", "2c 1c"]),
  ("origin", "r", ["10% 20%", "20% 10%"]),
  ("extent", "r", ["50% 40%", "40% 50%"]),
  ("textOutline", "s", ["2px", "red 2px", "4px"]),
]


def _observe(prop, host, form):
  import ttconv.imsc.reader as reader
  import ttconv.model as m
  import ttconv.style_properties as sp
  from ttconv.isd import ISD
  attr = ' %s:%s="%s"' % (PREFIX.get(prop, "tts"), prop, form.replace("&", "&amp;").replace('"', "&quot;"))
  xml = TEMPLATE.format(r=attr if host == "r" else "", p=attr if host == "p" else "", s=attr if host == "s" else "")
  item = {"form": form, "crashed": 0, "tok": "-", "logs": 0, "err": ""}
  sprop = getattr(sp.StyleProperties, prop[0].upper() + prop[1:])
  with X.LogCapture() as cap:
    try:
      doc = reader.to_model(et.ElementTree(et.fromstring(xml)))
      isd = ISD.from_model(doc, Fraction(0))
      region = next(iter(isd.iter_regions()), None)
      el = region
      if host in ("p", "s") and el is not None:
        el = el[0][0][0]           # body > div > p
        if host == "s":
          el = el[0]
      specified = {"r": doc.get_region("r1"), "p": doc.get_body()[0][0], "s": doc.get_body()[0][0][0]}[host].get_style(sprop)
      if specified is not None and el is not None:
        v = el.get_style(sprop)
        # a computed value may legitimately be folded into another property (position -> origin): fall back to specified
        item["tok"] = X.value_token(v if v is not None else specified)
    except Exception as ex:  # pylint: disable=broad-except
      item["crashed"] = 1
      item["err"] = type(ex).__name__ + ": " + str(ex)[:100]
  item["logs"] = cap.count()
  return item, xml


def run_forms():
  out = []
  for prop, host, groups, distinct in [(p, h, gs, 0) for p, h, gs in FORMS] + [(p, h, [g], 1) for p, h, g in DISTINCT]:
    for g in groups:
      items = []
      xmls = []
      for form in g:
        it, xml = _observe(prop, host, form)
        items.append(it)
        xmls.append(xml)
      rec = {"id": 0, "kind": "forms", "prop": prop, "distinct": distinct, "items": [{k: v for k, v in it.items() if k != "err"} for it in items]}
      meta = {"origin": "forms", "prop": prop, "err": "; ".join(it["err"] for it in items if it["err"]), "xml": xmls[0],
              "logmsgs": [], "forms": g}
      out.append((rec, meta))
  return out
