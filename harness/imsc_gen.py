"""Input generators for C04: parameter profiles, the bounded family of spec/Imsc.tla rendered with real time
expressions, seeded random richer documents, the catalogue of malformed attribute values, value forms.

Only inputs are produced here; nothing is judged.
"""
from __future__ import annotations

import copy
from fractions import Fraction
from math import gcd

from . import imsc_xml as X

SYNTAXES = ["clock", "clockFrames", "h", "m", "s", "ms", "f", "t"]

# (ttp:frameRate, multiplier numerator, denominator, ttp:tickRate); 0 = attribute not specified
PROFILES = [
  (0, 1, 1, 0), (24, 1, 1, 0), (25, 1, 1, 0), (30, 1, 1, 0), (30, 1000, 1001, 0), (24, 1000, 1001, 0),
  (25, 1, 1, 1), (25, 1, 1, 10), (30, 1, 1, 1000), (30, 1000, 1001, 1000), (24, 1, 1, 1000), (0, 1, 1, 10),
  (0, 1, 1, 1), (25, 1, 1, 10000000), (0, 1, 1, 1000), (30, 1000, 1001, 10), (50, 1, 1, 0), (60, 1000, 1001, 0),
  # multipliers that give an effective rate that is not a whole number (12.5, 22.5 frames per second): the frames
  # field counts up to the last whole frame below the rate
  (25, 1, 2, 0), (30, 3, 4, 0), (25, 1, 2, 10),
]


def lcm(a, b):
  return a * b // gcd(a, b)


def make_profile(fr, mn, md, tr):
  """Choose the tick base D of a case: milliseconds, frames and ticks are whole numbers of base ticks."""
  D = 1000
  if tr:
    D = lcm(D, tr)
  eff = Fraction((fr or 30) * mn, md)            # frames per second
  if tr != 10000000 or fr:
    D = lcm(D, eff.numerator)                    # D * den / num integral
  return {"D": D, "fr": fr, "mn": mn, "md": md, "tr": tr}


def frames_ok(P):
  return (P["D"] * P["md"]) % ((P["fr"] or 30) * P["mn"]) == 0


def unit_for(P, syntax):
  """A duration (base ticks, even) of roughly 0.2 .. 0.6 s that the given syntax can express exactly."""
  D = P["D"]
  if syntax in ("clockFrames", "f") and frames_ok(P):
    u = 6 * X.ticks_per_frame(P)
  elif syntax == "t":
    tpt = X.ticks_per_tick(P)
    u = tpt * max(1, round(Fraction(2 * D, 5) / tpt))
  elif syntax == "s":
    u = D // 4
  elif syntax == "ms":
    u = D // 8
  elif syntax == "m" and 3600 * D < 2 ** 31:
    u = 60 * D // 100
  elif syntax == "h" and 3600 * D < 2 ** 31:
    u = 3600 * D // 10000
  else:
    u = D // 2
  if u % 2:
    u *= 2
  return u


def expr(v, P, prefer, rng=None):
  """An expression record for v base ticks, in the preferred syntax when it can denote v exactly."""
  c = X.exprs_for(v, P)
  if prefer in c:
    return c[prefer]
  order = [s for s in SYNTAXES if s in c]
  if not order:
    raise ValueError("no syntax for %r under %r" % (v, P))
  if rng is not None:
    return c[rng.choice(order)]
  return c[order[0]]


def blank_node(kind, parent):
  return {"kind": kind, "parent": parent, "kids": [], "tc": "par", "b": dict(X.NONE_EXPR), "d": dict(X.NONE_EXPR),
          "e": dict(X.NONE_EXPR), "reg": "", "rid": "", "srefs": [], "attrs": [], "nested": [], "nrefs": [], "space": "", "lang": "",
          "tag": "", "sprop": "", "sval": ""}


def blank_doc(P):
  return {"P": P, "space": "", "lang": "en", "N": [], "S": [], "I": []}


def add(doc, kind, parent, **kw):
  nd = blank_node(kind, parent)
  nd.update(kw)
  doc["N"].append(nd)
  i = len(doc["N"])
  if parent:
    doc["N"][parent - 1]["kids"].append(i)
  return i


# ---- the bounded family of spec/Imsc.tla ---------------------------------------------------------

def sk(*items):
  return [{"kind": k, "parent": p, "vary": v} for k, p, v in items]


SHAPES = {
  # nested containers down to a text leaf (depth 4 with the body)
  "chain": sk(("body", 0, False), ("div", 1, True), ("p", 2, True), ("text", 3, False)),
  "chain_body": sk(("body", 0, True), ("div", 1, True), ("p", 2, False), ("text", 3, False)),
  "deep": sk(("body", 0, False), ("div", 1, True), ("div", 2, True), ("p", 3, True), ("text", 4, False)),
  # two paragraphs in a division
  "siblings": sk(("body", 0, False), ("div", 1, True), ("p", 2, True), ("text", 3, False), ("p", 2, True), ("text", 5, False)),
  # two spans in a paragraph
  "spans": sk(("body", 0, False), ("div", 1, False), ("p", 2, True), ("span", 3, True), ("text", 4, False),
              ("span", 3, True), ("text", 6, False)),
  # mixed content: text and a span with text
  "mixed": sk(("body", 0, False), ("div", 1, False), ("p", 2, True), ("text", 3, False), ("span", 3, True), ("text", 5, False)),
  # a leaf without text next to one with text
  "empty_leaf": sk(("body", 0, False), ("div", 1, True), ("p", 2, True), ("p", 2, True), ("text", 4, False)),
  # animation: a set next to a span (par parents only)
  "set": sk(("body", 0, False), ("div", 1, False), ("p", 2, True), ("set", 3, True), ("span", 3, True), ("text", 5, False)),
}

TIMINGS_FULL = [(b, d, e) for b in (-1, 1, 2) for d in (-1, 1, 2) for e in (-1, 1, 2)]
TIMINGS_SMALL = [(-1, -1, -1), (1, -1, -1), (-1, 1, -1), (-1, -1, 1), (-1, -1, 2), (1, 1, -1), (1, -1, 2), (2, -1, -1),
                 (1, 2, 2), (-1, 2, 1)]


def family_doc(shape, asg, P, prefer, serial=0):
  """Abstract document of the family (shape name, assignment = list of (b, d, e, tc) in abstract ticks) with the
  times rendered in the preferred syntax.  Returns (doc, grid times in base ticks)."""
  skel = SHAPES[shape]
  u = unit_for(P, prefer)
  doc = blank_doc(P)
  vi = 0
  total = 0
  for i, s in enumerate(skel, 1):
    nd_i = add(doc, s["kind"], s["parent"])
    nd = doc["N"][nd_i - 1]
    if s["kind"] == "text":
      nd["tag"] = "T%d" % i
    if s["kind"] == "set":
      nd["sprop"], nd["sval"] = "color", "red"
    if s["vary"]:
      b, d, e, tc = asg[vi]
      vi += 1
      nd["tc"] = tc
      for name, val in (("b", b), ("d", d), ("e", e)):
        if val != -1:
          nd[name] = expr(val * u, P, prefer)
          total += val
  # grid: every half unit from 0 to one unit past the sum of all attribute values (a bound on every boundary)
  # and one base tick before every whole unit (an interval that is a fraction of a frame too early shows there)
  times = sorted(set([k * (u // 2) for k in range(0, 2 * total + 3)] + [k * u - 1 for k in range(1, total + 2)]))
  return doc, times


# ---- seeded random richer documents --------------------------------------------------------------

COLORS = ["red", "green", "blue", "yellow", "white", "black"]
VALUES = {
  "color": COLORS, "backgroundColor": COLORS + ["transparent"], "fontStyle": ["normal", "italic", "oblique"],
  "fontWeight": ["normal", "bold"], "visibility": ["visible", "hidden"], "wrapOption": ["wrap", "noWrap"],
  "textAlign": ["start", "center", "end"], "displayAlign": ["before", "center", "after"],
  "showBackground": ["always", "whenActive"],
  # a numeric property whose values include 0 (a value is a value, also when it is falsy in the implementation language)
  "opacity": ["0", "0.5", "1", "0", "0.25"],
}
CONTENT_PROPS = ["color", "backgroundColor", "fontStyle", "fontWeight", "visibility", "wrapOption", "textAlign"]
REGION_PROPS = ["backgroundColor", "displayAlign", "showBackground", "visibility", "color", "opacity"]
SET_PROPS = ["color", "backgroundColor", "visibility", "fontStyle"]


def rand_attrs(rng, props, lo, hi):
  n = rng.randint(lo, hi)
  ps = rng.sample(props, min(n, len(props)))
  return [[p, rng.choice(VALUES[p])] for p in ps]


def gen_rich(rng, P, serial=0):
  """A random document: regions with timing, nested styles and animation; a style graph with chains, diamonds, cycles
  and missing ids; initial elements; nested par/seq containers; mixed content, br, ruby; xml:space / xml:lang."""
  prefer = rng.choice(SYNTAXES)
  g = unit_for(P, prefer)
  doc = blank_doc(P)
  doc["lang"] = rng.choice(["en", "fr", "", "en-US"])
  doc["space"] = rng.choice(["", "", "default", "preserve"])
  doc["spell"] = rng.choice([0, 0, 1, 2, 3, 4, 5])        # how named colours are spelled in the XML (see X.render)
  doc["ignorable"] = (doc["spell"] * 7 + len(doc["lang"])) % 5 if doc["spell"] % 2 else 0   # non-content nodes before text (X.render)
  total = [0]
  tagno = [0]

  def timing(nd, pb=0.35, pd=0.25, pe=0.35, seq_parent=False):
    vals = {}
    if rng.random() < pb:
      vals["b"] = rng.randint(1, 3)
    if rng.random() < pd:
      vals["d"] = rng.randint(1, 4)
    if rng.random() < pe:
      lo = vals.get("b", 0)            # an end before the begin is outside the domain of the timing clauses
      vals["e"] = rng.randint(max(1, lo), max(1, lo) + 4)
    for k, v in vals.items():
      nd[k] = expr(v * g, P, prefer if rng.random() < 0.6 else rng.choice(SYNTAXES), rng)
      total[0] += v

  # styling
  big = rng.random() < 0.06            # sizes no enumeration reaches: a dozen chained styles, wide and deep content
  nstyles = rng.choice([0, 0, 1, 2, 3, 4]) if not big else (rng.randint(8, 14) if rng.random() < 0.6 else rng.randint(65, 100))
  ids = ["s%d" % (k + 1) for k in range(nstyles)]
  for sid in ids:
    pool = ids + ["sX"]
    refs = [rng.choice(pool) for _ in range(rng.choice([0, 0, 1, 1, 2]))]
    if len(ids) >= 3 and rng.random() < 0.1:
      others = [x for x in ids if x != sid]
      refs = [others[0], others[1], others[0]]
    doc["S"].append({"id": sid, "refs": refs, "attrs": rand_attrs(rng, CONTENT_PROPS + ["displayAlign", "opacity"], 1, 3)})
  forced = None
  if big:
    # one long chain s1 -> s2 -> ... -> sN; the value of a property comes from the NEAREST style of the chain that sets it
    S = doc["S"]
    for k, st in enumerate(S):
      st["refs"] = [ids[k + 1]] if k + 1 < len(S) else []
      st["attrs"] = rand_attrs(rng, CONTENT_PROPS + ["displayAlign", "showBackground", "opacity"], 1, 2) if (k >= len(S) - 3 or rng.random() < 0.3) else []
    forced = "s1"
  elif nstyles >= 3 and rng.random() < 0.35:
    # a chain (or diamond) of three styles declared BEFORE the styles they reference, each contributing its own property:
    # chained referential styling must be resolved recursively whatever the declaration order
    S = doc["S"]
    diamond = nstyles >= 4 and rng.random() < 0.5
    S[0]["refs"] = ["s2", "s3"] if diamond else ["s2"]
    S[1]["refs"] = ["s4"] if diamond else ["s3"]
    S[2]["refs"] = ["s4"] if diamond else []
    if diamond:
      S[3]["refs"] = []
    props = rng.sample(["color", "fontStyle", "fontWeight", "wrapOption"], 4)
    for k, st in enumerate(S[:4 if diamond else 3]):
      st["attrs"] = [[props[k], rng.choice(VALUES[props[k]][1:])]]
    forced = "s1"
  for p in rng.sample(["color", "backgroundColor", "fontStyle", "visibility", "textAlign", "displayAlign"], rng.choice([0, 0, 0, 1, 2])):
    doc["I"].append([p, rng.choice(VALUES[p])])

  def srefs():
    if forced and rng.random() < 0.4:
      return [forced]
    if not ids or rng.random() < 0.5:
      return []
    refs = [rng.choice(ids + ["sX"]) for _ in range(rng.choice([1, 1, 2, 3]) if not big else rng.randint(1, 9))]
    if len(ids) >= 2 and rng.random() < 0.25:
      a, b = rng.sample(ids, 2)
      refs = [a, b, a]              # the same id repeated after a different one: the LAST occurrence decides
    return refs

  def text(parent):
    ks = doc["N"][parent - 1]["kids"]
    if ks and doc["N"][ks[-1] - 1]["kind"] == "text":
      return ks[-1]                   # two adjacent text nodes would be one text node in XML
    tagno[0] += 1
    return add(doc, "text", parent, tag="T%d" % tagno[0])

  def maybe_set(parent):
    if doc["N"][parent - 1]["tc"] == "par" and rng.random() < 0.15:
      p = rng.choice(SET_PROPS)
      i = add(doc, "set", parent, sprop=p, sval=rng.choice(VALUES[p]))
      timing(doc["N"][i - 1], 0.5, 0.3, 0.5)

  def common(nd):
    if rng.random() < 0.12:
      nd["space"] = rng.choice(["default", "preserve"])
    if rng.random() < 0.12:
      nd["lang"] = rng.choice(["de", "ja", "en-GB", "-"])        # "-": xml:lang="" (specified, empty)
    if rng.random() < 0.4:
      nd["attrs"] = rand_attrs(rng, CONTENT_PROPS, 1, 2)
    nd["srefs"] = srefs()

  nreg = rng.choice([0, 1, 1, 2, 2])
  rids = ["r%d" % (k + 1) for k in range(nreg)]

  def container(kind, parent, depth):
    i = add(doc, kind, parent)
    nd = doc["N"][i - 1]
    seq_parent = parent != 0 and doc["N"][parent - 1]["tc"] == "seq"
    nd["tc"] = "seq" if rng.random() < 0.25 else "par"
    if rng.random() < 0.1:
      nd["tcattr"] = True
    timing(nd, seq_parent=seq_parent)
    common(nd)
    return i

  body = container("body", 0, 0)
  maybe_set(body)
  region_level = rng.choice(["body", "div", "div", "p"]) if rids else None
  if region_level == "body":
    doc["N"][body - 1]["reg"] = rng.choice(rids)

  def span(parent, depth):
    i = container("span", parent, depth)
    maybe_set(i)
    nd = doc["N"][i - 1]
    n = rng.choice([1, 1, 2, 3]) if not big else rng.randint(1, 10)
    for _ in range(n):
      r = rng.random()
      if r < 0.6 or depth >= (2 if not big else 7) or len(doc["N"]) > 150:
        text(i)
      elif r < 0.85:
        span(i, depth + 1)
      elif nd["tc"] == "par":
        add(doc, "br", i)
      else:
        text(i)
    return i

  def ruby(parent):
    i = add(doc, "ruby", parent)
    if rng.random() < 0.5:
      rb = add(doc, "rb", i)
      text(rb)
      rt = add(doc, "rt", i)
      text(rt)
    else:
      rbc = add(doc, "rbc", i)
      rb = add(doc, "rb", rbc)
      text(rb)
      rtc = add(doc, "rtc", i)
      rt = add(doc, "rt", rtc)
      text(rt)
    return i

  def para(parent):
    i = container("p", parent, 0)
    maybe_set(i)
    nd = doc["N"][i - 1]
    if region_level == "p":
      nd["reg"] = rng.choice(rids)
    elif rids and rng.random() < 0.04:
      nd["reg"] = rng.choice(rids)         # possibly conflicting with an ancestor: the content is then in no region
    n = rng.choice([1, 2, 2, 3])
    for _ in range(n):
      r = rng.random()
      if r < 0.4:
        text(i)
      elif r < 0.85:
        span(i, 1)
      elif r < 0.93 and nd["tc"] == "par":
        add(doc, "br", i)
      elif nd["tc"] == "par" and rng.random() < 0.5:
        ruby(i)
      else:
        text(i)
    return i

  def div(parent, depth):
    i = container("div", parent, depth)
    maybe_set(i)
    nd = doc["N"][i - 1]
    if region_level == "div" and depth == 0:
      nd["reg"] = rng.choice(rids)
    for _ in range(rng.choice([1, 1, 2])):
      if depth < 1 and rng.random() < 0.25:
        div(i, depth + 1)
      else:
        para(i)
    return i

  for _ in range(rng.choice([1, 1, 2])):
    if len(doc["N"]) < 22:
      div(body, 0)

  if rng.random() < 0.08 and len(doc["N"]) < 40:
    # a paragraph whose ONLY direct text is white space before its first child (xml:space="default": it shows nothing, but it
    # is an anonymous span all the same and makes the paragraph's implicit duration indefinite), in a sequential division
    # where the next paragraph waits for it to end
    dv = add(doc, "div", body, tc="seq", tcattr=True)
    # (under xml:space="preserve", explicit or inherited, the same white space is presented: Trace_Imsc!TVisible)
    p1 = add(doc, "p", dv, space=rng.choice(["default", "default", "preserve", ""]))
    add(doc, "text", p1, tag=" ")
    sp1 = add(doc, "span", p1)
    v = rng.randint(1, 3)
    doc["N"][sp1 - 1][rng.choice(["d", "e"])] = expr(v * g, P, prefer, rng)
    total[0] += v
    text(sp1)
    p2 = add(doc, "p", dv)
    v = rng.randint(1, 3)
    doc["N"][p2 - 1]["d"] = expr(v * g, P, prefer, rng)
    total[0] += v
    text(p2)
    if region_level in ("div", "p") and rids:
      doc["N"][dv - 1]["reg"] = rng.choice(rids)

  for rid in rids:
    i = add(doc, "region", 0, rid=rid)
    nd = doc["N"][i - 1]
    timing(nd, 0.25, 0.15, 0.3)
    if rng.random() < 0.6:
      nd["attrs"] = rand_attrs(rng, REGION_PROPS, 1, 2)
    nd["srefs"] = srefs()
    for _ in range(rng.choice([0, 0, 1, 2])):
      nd["nested"].append(rand_attrs(rng, REGION_PROPS, 1, 2))
      nd["nrefs"].append(srefs() if rng.random() < 0.3 else [])
    if big and rng.random() < 0.8:
      # a nested style that has nothing of its own and points INTO the long chain (at a style nothing else has referenced)
      nd["nested"].append([])
      nd["nrefs"].append([rng.choice(ids[1:])])
    if rng.random() < 0.3:
      p = rng.choice(["backgroundColor", "displayAlign", "visibility"])
      s = add(doc, "set", i, sprop=p, sval=rng.choice(VALUES[p]))
      timing(doc["N"][s - 1], 0.5, 0.3, 0.5)

  # grid of half units: 0, a random sample, and one point past the bound
  top = 2 * total[0] + 2
  pts = set([0, top])
  k = 14
  pts.update(rng.sample(range(0, top + 1), min(k, top + 1)))
  times = sorted(set([p * (g // 2) for p in pts] + [p * (g // 2) - 1 for p in pts if p > 0 and p % 2 == 0]))
  return doc, times, prefer


# ---- malformed / unknown attributes ---------------------------------------------------------------

BAD_TIME = ["", "abc", "1", "1.s", ".5s", "1x", "5fx", "-1s", "+1s", "1 s", "1S", "00:00:01:99", "00:00:1", "0:00:01",
            "00:60:00", "00:00:61", "01:75:00.5", "00:99:00:00", "00:00:75:00",
            "00:00:01.", "00:00:01:", "1.5.5s", "1,5s", "1e3s", "1h30m", "10ss", "s", "٣s", "12frames", "3tt", "1.0.0f"]
BAD_COLOR = ["", "#ff", "#gg0000", "rgb(1,2)", "reddish", "#ff0000zz", "#ff00001", "rgba(1,2,3)", "rgb(255,0,0,0)",
             "rgb(300,0,0)", "ff0000",
             # the function names of <color> are lower case; these differ from a legal spelling in letter case only
             "RGB(255,0,0)", "Rgb(0,0,255)", "RGBA(255,255,0,255)", "rgbA(0,128,0,255)", "RGB(0,0,0)", "Rgba(255,255,255,255)"]
BAD_VALUES = {
  "color": BAD_COLOR, "backgroundColor": BAD_COLOR,
  "fontStyle": ["", "Italic", "slanted"], "fontWeight": ["", "600", "bolder"], "visibility": ["", "invisible", "Hidden"],
  "wrapOption": ["", "nowrap", "no-wrap"], "textAlign": ["", "middle", "Center"], "displayAlign": ["", "middle", "top"],
  "showBackground": ["", "never", "Always"],
  # values that are well-formed for the attribute's syntax but that the property does not admit (units the model rejects):
  # malformed all the same - wherever they are written (inline, in a referenced or nested style, in an <initial>)
  "extent": ["10rh 10rw", "10em 10em"], "origin": ["1em 1em", "1rh 1rw"], "position": ["1em 1em"], "linePadding": ["1px", "1em"],
  "disparity": ["1em 1em"], "lineHeight": ["1rw 1rw"],
}
BAD_TC = ["", "PAR", "sequence", "par seq"]
BAD_SPACE = ["", "Preserve", "collapse"]
BAD_TT = {
  X.qn(X.NS_TTP, "frameRate"): ["", "abc", "-25", "25fps", "0", "25.5"],
  X.qn(X.NS_TTP, "frameRateMultiplier"): ["", "1000", "1000/1001", "1000 0", "a b", "0 1", "1000 1001 1"],
  X.qn(X.NS_TTP, "tickRate"): ["", "abc", "10.5", "0", "-10", "10Hz"],
  X.qn(X.NS_TTP, "cellResolution"): ["", "32", "a b", "0 0", "32x15"],
  X.qn(X.NS_TTS, "extent"): ["", "640px", "640 480", "640px 480", "0px 0px", "abc def", "50% 50%"],
  X.qn(X.NS_ITTP, "activeArea"): ["", "10% 10% 80%", "a b c d", "10 10 80 80", "150% 0% 10% 10%"],
  X.qn(X.NS_ITTP, "aspectRatio"): ["", "16:9", "16 0", "abc"],
  X.qn(X.NS_TTP, "displayAspectRatio"): ["", "16:9", "16 0", "abc"],
}
# junk that is hostile to whoever REPORTS it (printf-style and brace formatting, escapes): malformed everywhere
HOSTILE = ["%s", "10%", "%d %%", "{0}", "%(x)s", "\\", "%"]
BAD_TIME.extend(HOSTILE)
BAD_COLOR.extend(HOSTILE)
BAD_TC.extend(HOSTILE[:3])
BAD_SPACE.extend(HOSTILE[:3])
for _k, _v in list(BAD_VALUES.items()):
  if _v is not BAD_COLOR:
    # ("10%" is a length: not junk for the properties that take one)
    _v.extend([h for h in HOSTILE[:4] if not (h == "10%" and _k in ("extent", "origin", "position", "linePadding", "disparity", "lineHeight"))])
for _k, _v in BAD_TT.items():
  _v.extend(HOSTILE[:3])
MODEL_INVALID = ("extent", "origin", "position", "linePadding", "disparity", "lineHeight")
UNKNOWN_ATTRS = [(X.qn(X.NS_TTS, "fooBar"), "x"), ("{urn:example:foreign}foo", "1"), ("foo", "1"),
                 (X.qn(X.NS_TTP, "unknownParameter"), "3"), (X.qn(X.NS_XML, "base"), "http://example.com/")]

TIMED_KINDS = ("body", "div", "p", "span", "region", "set")
STYLED_KINDS = ("body", "div", "p", "span", "region")


def corruptions(doc, rng, count):
  """Pick `count` single-attribute corruptions of the document.  Each is (baseline abstract document - the document
  without that attribute, override for the renderer, description, demands_log)."""
  out = []
  N = doc["N"]
  tries = 0
  while len(out) < count and tries < 50 * count:
    tries += 1
    r = rng.random()
    base = copy.deepcopy(doc)
    if r < 0.40:
      cands = [i for i, nd in enumerate(N, 1) if nd["kind"] in TIMED_KINDS]
      i = rng.choice(cands)
      a = rng.choice(["b", "d", "e"])
      base["N"][i - 1][a] = dict(X.NONE_EXPR)
      name = {"b": "begin", "d": "dur", "e": "end"}[a]
      out.append((base, (("node", i), name, rng.choice(BAD_TIME)), {"attr": name, "on": N[i - 1]["kind"]}, True))
    elif r < 0.62:
      cands = [i for i, nd in enumerate(N, 1) if nd["kind"] in STYLED_KINDS]
      i = rng.choice(cands)
      props = list(BAD_VALUES) if N[i - 1]["kind"] != "region" else ["backgroundColor", "displayAlign", "showBackground", "visibility", "color", "extent", "origin", "position", "disparity"]
      p = rng.choice(props)
      base["N"][i - 1]["attrs"] = [a for a in base["N"][i - 1]["attrs"] if a[0] != p]
      out.append((base, (("node", i), X.style_qn(p), rng.choice(BAD_VALUES[p])), {"attr": "tts:" + p, "on": N[i - 1]["kind"]}, True))
    elif r < 0.68 and doc["S"]:
      k = rng.randint(1, len(doc["S"]))
      # (a value that only the model rejects is noticed when the style is APPLIED: only on styles that some element references)
      referenced = any(doc["S"][k - 1]["id"] in (nd.get("srefs") or []) for nd in N)
      p = rng.choice([q for q in BAD_VALUES if referenced or q not in MODEL_INVALID])
      base["S"][k - 1]["attrs"] = [a for a in base["S"][k - 1]["attrs"] if a[0] != p]
      out.append((base, (("style", k), X.style_qn(p), rng.choice(BAD_VALUES[p])), {"attr": "tts:" + p, "on": "style"}, True))
    elif r < 0.72 and doc["I"]:
      k = rng.randint(1, len(doc["I"]))
      p = doc["I"][k - 1][0]
      del base["I"][k - 1]
      out.append((base, (("initial_new",), X.style_qn(p), rng.choice(BAD_VALUES[p])), {"attr": "tts:" + p, "on": "initial"}, True))
    elif r < 0.78:
      cands = [i for i, nd in enumerate(N, 1) if nd["kind"] in ("body", "div", "p", "span", "region")]
      i = rng.choice(cands)
      base["N"][i - 1]["tc"] = "par"
      base["N"][i - 1]["tcattr"] = False
      # the element is a par in the baseline: only legal when no set / br child and it keeps the generator's domain
      out.append((base, (("node", i), "timeContainer", rng.choice(BAD_TC)), {"attr": "timeContainer", "on": N[i - 1]["kind"]}, True))
    elif r < 0.83:
      cands = [i for i, nd in enumerate(N, 1) if nd["kind"] in ("body", "div", "p", "span")]
      i = rng.choice(cands)
      base["N"][i - 1]["space"] = ""
      out.append((base, (("node", i), X.qn(X.NS_XML, "space"), rng.choice(BAD_SPACE)), {"attr": "xml:space", "on": N[i - 1]["kind"]}, True))
    elif r < 0.93:
      name = rng.choice(list(BAD_TT))
      local = name.split("}")[1]
      if local == "frameRate":
        base["P"] = dict(base["P"], fr=0)
      elif local == "frameRateMultiplier":
        base["P"] = dict(base["P"], mn=1, md=1)
      elif local == "tickRate":
        base["P"] = dict(base["P"], tr=0)
      ok = True
      try:
        # the baseline must still be exactly expressible (frame / tick values re-read under the default parameters)
        # and its times must stay small enough for 32-bit arithmetic
        total = 0
        for nd in base["N"]:
          for a in ("b", "d", "e"):
            x = nd[a]
            if x["syntax"] in ("f", "clockFrames"):
              if not frames_ok(base["P"]):
                ok = False
              else:
                v = (x["num"] if x["syntax"] == "f" else x["f"]) * X.ticks_per_frame(base["P"])
                if x["syntax"] == "f" and v % x["den"]:
                  ok = False
                if x["syntax"] == "clockFrames" and x["f"] >= (base["P"]["fr"] or 30):
                  ok = False
                total += v
            elif x["syntax"] == "t":
              v = X.ticks_per_tick(base["P"]) * x["num"]
              if v % x["den"] or v >= 2 ** 30:
                ok = False
              total += v // x["den"]
        if total >= 2 ** 29:
          ok = False
      except AssertionError:
        ok = False
      if not ok:
        continue
      out.append((base, (("tt",), name, rng.choice(BAD_TT[name])), {"attr": local, "on": "tt"}, True))
    else:
      cands = [i for i, nd in enumerate(N, 1) if nd["kind"] not in ("text",)]
      i = rng.choice(cands)
      name, val = rng.choice(UNKNOWN_ATTRS)
      foreign = name.startswith("{") and not name.startswith("{http://www.w3.org/ns/ttml")
      out.append((base, (("node", i), name, val), {"attr": "unknown:" + name.split("}")[-1], "on": N[i - 1]["kind"],
                                                    "foreign": foreign}, False))
  return out


def max_ticks(doc, times):
  """A bound on every finite time the specification can compute for the document (sum of all attribute values)."""
  return max(times) if times else 0
