"""C05 helpers: documents built with the canonical-model API, the catalogue of style value forms, the projection of a
document for structural comparison (spec/Trace_ImscWrite.tla: SameModuloQ) and the write -> bytes -> read runner.

The projection is a canonical form, it decides nothing:
  * times as integer ticks of the case base D; an absent begin is 0, an absent end is -1
  * style values as tokens (imsc_xml.value_token: numbers to the written precision %g)
  * adjacent text nodes are one text node (XML cannot tell them apart)
  * the generic font family `default` is monospaceSerif (IMSC 1.1 sec. 8.4.? maps it there; both render the same)
"""
from __future__ import annotations

import io
import json
import xml.etree.ElementTree as et
from fractions import Fraction
from math import gcd

from . import imsc_xml as X


def lcm(a, b):
  return a * b // gcd(a, b)


KIND_NAMES = ["body", "div", "p", "span", "br", "text", "ruby", "rb", "rt", "rp", "rbc", "rtc"]


def style_catalogue():
  """(property name, value): every value FORM of every style property that the model accepts."""
  import ttconv.style_properties as sp
  L = sp.LengthType
  U = sp.LengthType.Units
  C = sp.ColorType
  red = sp.NamedColors.red.value
  cat = []

  def add(prop, *values):
    for v in values:
      cat.append((prop, v))

  add("BackgroundColor", red, sp.NamedColors.transparent.value, C((1, 2, 3, 4)), C((0, 0, 0, 255)))
  add("Color", red, C((18, 52, 86, 120)), sp.NamedColors.transparent.value, sp.NamedColors.white.value)
  add("Direction", sp.DirectionType.ltr, sp.DirectionType.rtl)
  add("Disparity", L(2, U.px), L(-1.5, U.pct), L(0.5, U.c), L(1, U.rw))
  add("Display", sp.DisplayType.auto, sp.DisplayType.none)
  add("DisplayAlign", sp.DisplayAlignType.before, sp.DisplayAlignType.center, sp.DisplayAlignType.after)
  add("Extent", sp.ExtentType(height=L(50, U.pct), width=L(60, U.pct)), sp.ExtentType(height=L(240, U.px), width=L(320, U.px)),
      sp.ExtentType(height=L(7.5, U.c), width=L(16, U.c)), sp.ExtentType(height=L(33.3333, U.rh), width=L(66.6667, U.rw)))
  add("FillLineGap", True, False)
  add("FontFamily", tuple("Family %d" % k for k in range(1, 13)) + (sp.GenericFontFamilyType.sansSerif,), ("Arial",), (sp.GenericFontFamilyType.serif, "Helvetica"), (sp.GenericFontFamilyType.default,),
      ("Times New Roman", sp.GenericFontFamilyType.proportionalSansSerif), ('A"B',), ("A'B",), ("A\\B",), ("A,B",), ("serif",),
      (sp.GenericFontFamilyType.monospace, sp.GenericFontFamilyType.sansSerif, sp.GenericFontFamilyType.monospaceSansSerif,
       sp.GenericFontFamilyType.monospaceSerif, sp.GenericFontFamilyType.proportionalSerif))
  add("FontSize", L(2, U.em), L(80, U.pct), L(1, U.c), L(24, U.px), L(5, U.rh), L(3.5, U.rw), L(0.00001, U.em))
  add("FontStyle", sp.FontStyleType.normal, sp.FontStyleType.italic, sp.FontStyleType.oblique)
  add("FontWeight", sp.FontWeightType.normal, sp.FontWeightType.bold)
  add("LineHeight", sp.SpecialValues.normal, L(120, U.pct), L(1.5, U.em), L(30, U.px), L(1.2, U.c), L(6, U.rh), L(1234567.5, U.px),
      # values on which a six-significant-digit rendering carries into the next power of ten, or needs an exponent
      L(999999.5, U.px), L(999999.96875, U.c), L(99999.95, U.pct), L(0.000099999995, U.em), L(123456789.25, U.px))
  add("LinePadding", L(0.5, U.c), L(0, U.c), L(1, U.rh), L(1.5, U.rw))
  add("LuminanceGain", 1.5, 2, 0.25)
  add("MultiRowAlign", sp.MultiRowAlignType.start, sp.MultiRowAlignType.center, sp.MultiRowAlignType.end, sp.MultiRowAlignType.auto)
  add("Opacity", 0.5, 1, 0, 0.333333333, Fraction(1, 3), 0.00001)
  add("Origin", sp.CoordinateType(x=L(10, U.pct), y=L(20, U.pct)), sp.CoordinateType(x=L(64, U.px), y=L(48, U.px)),
      sp.CoordinateType(x=L(3.2, U.c), y=L(1.5, U.c)), sp.CoordinateType(x=L(12.5, U.rw), y=L(0, U.rh)))
  add("Overflow", sp.OverflowType.visible, sp.OverflowType.hidden)
  add("Padding", sp.PaddingType(L(1, U.pct), L(2, U.pct), L(3, U.pct), L(4, U.pct)), sp.PaddingType(L(1, U.c), L(1, U.c), L(1, U.c), L(1, U.c)),
      sp.PaddingType(L(4, U.px), L(0.5, U.em), L(1, U.rh), L(2, U.rw)))
  add("Position", sp.PositionType(L(10, U.pct), L(20, U.pct)), sp.PositionType(L(5, U.px), L(6, U.px), sp.PositionType.HEdge.right, sp.PositionType.VEdge.bottom),
      sp.PositionType(L(1, U.c), L(2, U.c), sp.PositionType.HEdge.left, sp.PositionType.VEdge.bottom),
      sp.PositionType(L(50, U.rw), L(50, U.rh), sp.PositionType.HEdge.right, sp.PositionType.VEdge.top))
  add("RubyAlign", sp.RubyAlignType.center, sp.RubyAlignType.spaceAround)
  add("RubyPosition", sp.AnnotationPositionType.before, sp.AnnotationPositionType.after, sp.AnnotationPositionType.outside)
  add("RubyReserve", sp.SpecialValues.none, sp.RubyReserveType(sp.RubyReserveType.Position.both, L(1, U.em)),
      sp.RubyReserveType(sp.RubyReserveType.Position.outside, None), sp.RubyReserveType(sp.RubyReserveType.Position.before, L(50, U.pct)),
      sp.RubyReserveType(sp.RubyReserveType.Position.after, L(12, U.px)))
  add("Shear", 0.0, 16.67, -10.0, 100, 0, 0.00001)
  add("ShowBackground", sp.ShowBackgroundType.always, sp.ShowBackgroundType.whenActive)
  add("TextAlign", sp.TextAlignType.start, sp.TextAlignType.center, sp.TextAlignType.end)
  add("TextCombine", sp.TextCombineType.none, sp.TextCombineType.all)
  add("TextDecoration", sp.TextDecorationType(underline=True), sp.TextDecorationType(False, False, False),
      sp.TextDecorationType(None, True, None), sp.TextDecorationType(True, False, True), sp.TextDecorationType(None, None, False),
      sp.TextDecorationType())      # no component specified: everything is inherited
  E = sp.TextEmphasisType
  add("TextEmphasis", sp.SpecialValues.none, E(E.Style.auto), E(E.Style.filled_circle, red, E.Position.after),
      E(E.Style.filled_dot, None, E.Position.before), E(E.Style.filled_sesame), E(E.Style.open_circle, C((0, 0, 255, 128))),
      E(E.Style.open_dot, None, E.Position.outside), E(E.Style.open_sesame, red, E.Position.before))
  add("TextOutline", sp.SpecialValues.none, sp.TextOutlineType(L(5, U.pct), red), sp.TextOutlineType(L(2, U.px), None),
      sp.TextOutlineType(L(0.1, U.em), C((0, 255, 0, 128))), sp.TextOutlineType(L(0.05, U.c)))
  S = sp.TextShadowType.Shadow
  add("TextShadow", sp.SpecialValues.none, sp.TextShadowType((S(L(1, U.em), L(1.2, U.em)),)),
      sp.TextShadowType((S(L(1, U.px), L(2, U.px), L(3, U.px)),)), sp.TextShadowType((S(L(1, U.pct), L(2, U.pct), None, red),)),
      sp.TextShadowType((S(L(1, U.em), L(1, U.em), L(0.5, U.em), red),)),
      sp.TextShadowType((S(L(1, U.em), L(1.2, U.em)), S(L(0.5, U.em), L(0.7, U.em), L(1, U.em), red))),
      sp.TextShadowType((S(L(1, U.px), L(1, U.px)), S(L(-1, U.px), L(-1, U.px), None, red), S(L(2, U.c), L(0, U.c), L(1, U.c)))),
      # pixel lengths only in a LATER shadow, after one with a non-pixel blur radius (the pixel extent must still be written)
      sp.TextShadowType((S(L(0.1, U.em), L(0.1, U.em), L(0.2, U.em)), S(L(2, U.px), L(3, U.px)))),
      sp.TextShadowType((S(L(1, U.c), L(1, U.c), L(1, U.c), red), S(L(1, U.pct), L(1, U.pct)), S(L(1, U.em), L(1, U.em), L(4, U.px)))),
      # a long list, with a shadow that occurs twice (and a value-equal one: 2 and 2.0)
      sp.TextShadowType((S(L(1, U.px), L(1, U.px)), S(L(2, U.px), L(2, U.px), None, red), S(L(1, U.px), L(1, U.px)), S(L(2.0, U.px), L(2.0, U.px), None, red),
                         S(L(3, U.px), L(0, U.px), L(1, U.px)), S(L(0.5, U.em), L(0.5, U.em)), S(L(4, U.pct), L(4, U.pct), L(1, U.pct), red))))
  add("UnicodeBidi", sp.UnicodeBidiType.normal, sp.UnicodeBidiType.embed, sp.UnicodeBidiType.bidiOverride)
  add("Visibility", sp.VisibilityType.visible, sp.VisibilityType.hidden)
  add("WrapOption", sp.WrapOptionType.wrap, sp.WrapOptionType.noWrap)
  add("WritingMode", sp.WritingModeType.lrtb, sp.WritingModeType.rltb, sp.WritingModeType.tbrl, sp.WritingModeType.tblr)
  return cat


# ---- time profiles -------------------------------------------------------------------------------------

def time_value(rng, profile, fps, lo, hi):
  """A time in [lo, hi] seconds (Fraction) of the given class."""
  base = Fraction(rng.randint(int(lo * 4), int(hi * 4)), 4)
  if (fps is None or Fraction(fps).denominator == 1) and profile in ("frame", "ms", "") and rng.random() < 0.06:
    base += 86400        # a day later (integer rates only: 32-bit tick products)
  if profile == "frame":
    f = fps if fps else Fraction(25)
    return Fraction(round(base * f)) / f
  if profile == "ms":
    return base + Fraction(rng.randint(0, 240), 1000)
  if profile == "offgrid":
    if rng.random() < 0.25:
      # a hair below a whole minute / hour: rounding to the millisecond (or frame) must carry into the next minute
      # (small magnitudes and one denominator only: the tick base of the case must stay within TLC's 32-bit integers)
      return rng.choice([60, 120, 180, 300]) - Fraction(1, 3000)
    return base + Fraction(rng.randint(1, 6), rng.choice([7, 21, 3]) * 4)
  return base


# ---- building ----------------------------------------------------------------------------------------------

SKELETONS = ["plain", "mixed", "ruby2", "ruby4", "rubyc", "rubycc", "nested", "regions2"]


def build_doc(rng, skeleton, profile, fps, tokens):
  """Build a document with the model API.  `tokens`: indexes into the style catalogue that must be placed (one style
  per element, the rest random).  Returns (doc, description)."""
  import ttconv.model as m
  import ttconv.style_properties as sp
  cat = style_catalogue()
  doc = m.ContentDocument()
  doc.set_lang(rng.choice(["en", "fr-CA", ""]))
  if rng.random() < 0.4:
    doc.set_cell_resolution(m.CellResolutionType(rows=rng.choice([20, 15, 24]), columns=rng.choice([40, 32])))
  if rng.random() < 0.5:
    doc.set_px_resolution(m.PixelResolutionType(width=rng.choice([1280, 640]), height=rng.choice([720, 480])))
  if rng.random() < 0.4:
    doc.set_active_area(rng.choice([m.ActiveAreaType(0.1, 0.1, 0.8, 0.8), m.ActiveAreaType(1 / 3, 0.125, 1 / 3, 0.5),
                                    m.ActiveAreaType(0, 0, 1, 1)]))
  if rng.random() < 0.4:
    doc.set_display_aspect_ratio(rng.choice([Fraction(16, 9), Fraction(4, 3), Fraction(2)]))
  todo = list(tokens)
  counter = [0]
  textno = [0]

  def next_style():
    if todo:
      return cat[todo.pop(0)]
    return cat[rng.randrange(len(cat))]

  def prop_of(name):
    return getattr(sp.StyleProperties, name)

  def decorate(e, parent_lang, parent_space, timed=True, lo=0, hi=8, force_style=True):
    counter[0] += 1
    if rng.random() < 0.7 and not isinstance(e, m.Region):
      e.set_id("e%d" % counter[0])
    lang = parent_lang if rng.random() < 0.8 else rng.choice(["de", "ja", "en-GB"])
    space = parent_space if rng.random() < 0.8 else rng.choice([m.WhiteSpaceHandling.DEFAULT, m.WhiteSpaceHandling.PRESERVE])
    e.set_lang(lang)
    e.set_space(space)
    if force_style or rng.random() < 0.5:
      name, val = next_style()
      e.set_style(prop_of(name), val)
      if rng.random() < 0.3:
        name, val = next_style()
        e.set_style(prop_of(name), val)
    if rng.random() < 0.25:
      name, val = next_style()
      b = time_value(rng, profile, fps, 0, 2) if rng.random() < 0.6 else None
      en = (b or 0) + time_value(rng, profile, fps, 1, 3) if rng.random() < 0.6 else None
      if en is None and rng.random() < 0.1:
        en = Fraction(0)               # a step that never applies
      e.add_animation_step(m.DiscreteAnimationStep(prop_of(name), b, en, val))
    if timed and not isinstance(e, m.Br):
      b = None
      if rng.random() < 0.45:
        b = time_value(rng, profile, fps, lo, lo + 3)
        e.set_begin(b)
      r_end = rng.random()
      if r_end < 0.45:
        e.set_end((b or 0) + time_value(rng, profile, fps, 2, hi))
      elif r_end < 0.49:
        # an end of exactly zero (or not after the begin): the element is never active - not the same as no end at all
        e.set_end(Fraction(0) if (b is None or rng.random() < 0.6) else b)
    return lang, space

  regions = []
  nreg = 2 if skeleton == "regions2" else rng.choice([0, 1, 1])
  for k in range(nreg):
    r = m.Region("r%d" % (k + 1), doc)
    decorate(r, doc.get_lang(), m.WhiteSpaceHandling.DEFAULT, hi=12)
    if rng.random() < 0.2:
      # properties that interact, specified TOGETHER (the direction that the writing mode would imply anyway, or the other
      # one), with an animation step on one of them
      import ttconv.style_properties as sp_
      wm = rng.choice([sp_.WritingModeType.lrtb, sp_.WritingModeType.rltb, sp_.WritingModeType.tbrl])
      r.set_style(sp_.StyleProperties.WritingMode, wm)
      r.set_style(sp_.StyleProperties.Direction, rng.choice([sp_.DirectionType.ltr, sp_.DirectionType.rtl]))
      if rng.random() < 0.7:
        b_ = time_value(rng, profile, fps, 0, 2)
        if rng.random() < 0.6:
          other = rng.choice([x for x in (sp_.WritingModeType.lrtb, sp_.WritingModeType.rltb, sp_.WritingModeType.tblr) if x is not wm])
          r.add_animation_step(m.DiscreteAnimationStep(sp_.StyleProperties.WritingMode, b_, b_ + time_value(rng, profile, fps, 1, 3), other))
        else:
          r.add_animation_step(m.DiscreteAnimationStep(sp_.StyleProperties.Direction, b_, b_ + time_value(rng, profile, fps, 1, 3),
                                                       rng.choice([sp_.DirectionType.ltr, sp_.DirectionType.rtl])))
    doc.put_region(r)
    regions.append(r)

  def text(parent):
    textno[0] += 1
    extra = rng.choice(["", "", "", "", " &<>]]>", "\u00e9\u6f22\U0001f600", "\"q'", "  two  spaces ", "\ttab\nline",
                         # characters from the corners of Unicode that XML 1.0 can hold: private use (BMP, planes 15 and 16), the
                         # last code points, the replacement character, zero-width and bidi controls, NEL / LS
                         "\ue000\uf8ff", "\U000f0000\U000ffffd", "\U00100000\U0010fffd", "\ufffd\ufeff", "\u200b\u200d\u202e", "\u0085\u2028"])
    t = m.Text(doc, "T%d%s" % (textno[0], extra))
    parent.push_child(t)

  def span_with_text(parent, lang, space, timed=True):
    s = m.Span(doc)
    l2, s2 = decorate(s, lang, space, timed=timed)
    text(s)
    parent.push_child(s)
    return s

  body = m.Body(doc)
  bl, bs = decorate(body, doc.get_lang(), m.WhiteSpaceHandling.DEFAULT, hi=12)
  doc.set_body(body)
  if regions and rng.random() < 0.3:
    body.set_region(rng.choice(regions))

  def para(parent, lang, space):
    p = m.P(doc)
    pl, ps = decorate(p, lang, space)
    if regions and rng.random() < 0.7:
      p.set_region(rng.choice(regions))
    parent.push_child(p)
    if skeleton == "plain":
      span_with_text(p, pl, ps)
    elif skeleton in ("mixed", "nested", "regions2"):
      n = rng.choice([1, 2, 3])
      for _ in range(n):
        r = rng.random()
        if r < 0.55:
          span_with_text(p, pl, ps)
        elif r < 0.7:
          br = m.Br(doc)
          decorate(br, pl, ps, timed=False, force_style=False)
          p.push_child(br)
        else:
          s = m.Span(doc)
          sl, ss = decorate(s, pl, ps)
          text(s)
          inner = span_with_text(s, sl, ss)
          if rng.random() < 0.5:
            text(s)
          if rng.random() < 0.3:
            br = m.Br(doc)
            decorate(br, sl, ss, timed=False, force_style=False)
            s.push_child(br)
          p.push_child(s)
    else:
      # ruby patterns: untimed inside (Ruby.push_children raises in the ISD when an annotation is temporarily inactive: C18)
      ruby = m.Ruby(doc)
      rl, rs = decorate(ruby, pl, ps, timed=False)

      def leafy(cls):
        e = cls(doc)
        el, es = decorate(e, rl, rs, timed=False)
        span_with_text(e, el, es, timed=False)
        return e

      if skeleton == "ruby2":
        kids = [leafy(m.Rb), leafy(m.Rt)]
      elif skeleton == "ruby4":
        kids = [leafy(m.Rb), leafy(m.Rp), leafy(m.Rt), leafy(m.Rp)]
      else:
        rbc = m.Rbc(doc)
        decorate(rbc, rl, rs, timed=False)
        rbc.push_child(leafy(m.Rb))
        if rng.random() < 0.5:
          rbc.push_child(leafy(m.Rb))
        kids = [rbc]
        for _ in range(2 if skeleton == "rubycc" else 1):
          rtc = m.Rtc(doc)
          decorate(rtc, rl, rs, timed=False)
          if rng.random() < 0.5:
            rtc.push_children([leafy(m.Rp), leafy(m.Rt), leafy(m.Rp)])
          else:
            rtc.push_children([leafy(m.Rt)] + ([leafy(m.Rt)] if rng.random() < 0.4 else []))
          kids.append(rtc)
      ruby.push_children(kids)
      p.push_child(ruby)
      if rng.random() < 0.5:
        span_with_text(p, pl, ps)
    return p

  def div(parent, lang, space, depth):
    d = m.Div(doc)
    dl, ds = decorate(d, lang, space)
    if regions and rng.random() < 0.3:
      d.set_region(rng.choice(regions))
    parent.push_child(d)
    if skeleton == "nested" and depth == 0:
      div(d, dl, ds, 1)
    for _ in range(rng.choice([1, 1, 2])):
      para(d, dl, ds)

  for _ in range(rng.choice([1, 1, 2])):
    div(body, bl, bs, 0)
  ninit = rng.choice([0, 0, 1, 2])
  for _ in range(ninit):
    name, val = next_style()
    doc.put_initial_value(prop_of(name), val)
  # place what is left of the mandatory tokens as further initial values / region styles
  while todo:
    name, val = next_style()
    if not doc.has_initial_value(prop_of(name)):
      doc.put_initial_value(prop_of(name), val)
    else:
      body.set_style(prop_of(name), val)
  return doc


# ---- projection ----------------------------------------------------------------------------------------

def edit_doc(doc, rng):
  """One or two in-place edits of a document that has already been written: a style set on an element or a region (often the
  first pixel length of the document), an initial value put or replaced."""
  import ttconv.model as m
  import ttconv.style_properties as sp
  cat = style_catalogue()
  px = [(p, v) for p, v in cat if uses_px(v)]
  targets = [e for e in doc.get_body().dfs_iterator() if not isinstance(e, (m.Text, m.Br))] if doc.get_body() is not None else []
  regions = list(doc.iter_regions())
  for _ in range(rng.choice([1, 1, 2])):
    name, val = rng.choice(px) if rng.random() < 0.5 else rng.choice(cat)
    prop = getattr(sp.StyleProperties, name)
    r = rng.random()
    if r < 0.25:
      doc.put_initial_value(prop, val)
    elif r < 0.45 and regions:
      rng.choice(regions).set_style(prop, val)
    elif targets:
      rng.choice(targets).set_style(prop, val)


def all_times(doc):
  out = []

  def item(e):
    for v in (e.get_begin(), e.get_end()):
      if v is not None:
        out.append(Fraction(v))
    for st in e.iter_animation_steps():
      for v in (st.begin, st.end):
        if v is not None:
          out.append(Fraction(v))

  for r in doc.iter_regions():
    item(r)
  if doc.get_body() is not None:
    for e in doc.get_body().dfs_iterator():
      item(e)
  return out


def case_base(doc, fn, fd):
  """Ticks per second in which every time of the document, a millisecond and a frame are whole numbers."""
  D = 1000
  if fn:
    D = lcm(D, fn // gcd(fn, fd))
  for v in all_times(doc):
    D = lcm(D, v.denominator)
  return D


def _canon(prop_name, value):
  import ttconv.style_properties as sp
  if prop_name == "FontFamily" and isinstance(value, tuple):
    return tuple(sp.GenericFontFamilyType.monospaceSerif if f is sp.GenericFontFamilyType.default else f for f in value)
  return value


def uses_px(v):
  """Does a style value contain a length in pixels (then the pixel extent of the document matters)?"""
  import dataclasses
  import ttconv.style_properties as sp
  if isinstance(v, sp.LengthType):
    return v.units is sp.LengthType.Units.px
  if isinstance(v, (tuple, list)):
    return any(uses_px(x) for x in v)
  if dataclasses.is_dataclass(v) and not isinstance(v, type):
    return any(uses_px(getattr(v, f.name)) for f in dataclasses.fields(v))
  return False


def project(doc, D):
  import ttconv.model as m

  def ticks(v, absent):
    if v is None:
      return absent
    q = Fraction(v) * D
    if q.denominator != 1:
      return int(q * 1000) * 1000003 + 7            # not a whole number of ticks: a value that nothing admits
    return int(q)

  def styles_of(e):
    return sorted([p.__name__, X.value_token(_canon(p.__name__, e.get_style(p)))] for p in e.iter_styles())

  def steps_of(e):
    return [[st.style_property.__name__, X.value_token(_canon(st.style_property.__name__, st.value)), ticks(st.begin, 0), ticks(st.end, -1)]
            for st in e.iter_animation_steps()]

  def common(e):
    sp_ = e.get_space()
    return {"id": e.get_id() or "", "space": sp_.value if sp_ is not None else "", "lang": e.get_lang() if e.get_lang() is not None else "",
            "b": ticks(e.get_begin(), 0), "e": ticks(e.get_end(), -1), "styles": styles_of(e), "steps": steps_of(e)}

  px = doc.get_px_resolution()
  cell = doc.get_cell_resolution()
  aa = doc.get_active_area()
  has_px = 0
  els = list(doc.iter_regions()) + (list(doc.get_body().dfs_iterator()) if doc.get_body() is not None else [])
  for e in els:
    for p in e.iter_styles():
      if uses_px(e.get_style(p)):
        has_px = 1
    for st in e.iter_animation_steps():
      if uses_px(st.value):
        has_px = 1
  for _p, v in doc.iter_initial_values():
    if uses_px(v):
      has_px = 1
  out = {"lang": doc.get_lang(), "cell": [cell.columns, cell.rows], "px": [px.width, px.height], "has_px": has_px,
         "aa": [] if aa is None else ["%g" % (x * 100) for x in (aa.left_offset, aa.top_offset, aa.width, aa.height)],
         "dar": "" if doc.get_display_aspect_ratio() is None else "%d/%d" % (doc.get_display_aspect_ratio().numerator, doc.get_display_aspect_ratio().denominator),
         "initials": sorted([p.__name__, X.value_token(_canon(p.__name__, v))] for p, v in doc.iter_initial_values()),
         "regions": [], "N": []}
  for r in doc.iter_regions():
    out["regions"].append(common(r))
  N = out["N"]

  alive_memo = {}

  def alive(e):
    """Does the element ever present anything?  Not when its interval is empty (end <= begin), and a container not when
    none of its descendants does.  Such elements present nothing at any time, so whether a document carries them is
    immaterial to "presents identically" - the IMSC reader keeps neither never-active elements nor the containers they
    leave empty."""
    k = id(e)
    if k not in alive_memo:
      if isinstance(e, m.Text):
        alive_memo[k] = True
      elif e.get_end() is not None and e.get_end() <= (e.get_begin() or 0):
        alive_memo[k] = False
      elif isinstance(e, m.Br):
        alive_memo[k] = True
      else:
        alive_memo[k] = any(alive(c) for c in e)
    return alive_memo[k]

  def walk(e, parent):
    if not alive(e):
      return
    if isinstance(e, m.Text):
      # adjacent text nodes are one text node
      if parent and N[parent - 1]["kids"]:
        last = N[N[parent - 1]["kids"][-1] - 1]
        if last["kind"] == "text":
          last["text"] += e.get_text()
          return
      nd = {"kind": "text", "parent": parent, "kids": [], "id": "", "reg": "", "space": "", "lang": "", "b": 0, "e": -1,
            "styles": [], "steps": [], "text": e.get_text()}
    else:
      nd = common(e)
      nd.update({"kind": X.kind_of(e), "parent": parent, "kids": [], "reg": e.get_region().get_id() if e.get_region() is not None else "",
                 "text": ""})
    N.append(nd)
    i = len(N)
    if parent:
      N[parent - 1]["kids"].append(i)
    for c in e:
      walk(c, i)

  if doc.get_body() is not None:
    walk(doc.get_body(), 0)
  return out


def boundaries(doc):
  """Every absolute time at which something of the document may change (a superset: no clipping), for choosing probe
  times only.  (ISD.significant_times is not used: it misplaces animation steps, property C02.)"""
  out = {Fraction(0)}

  def walk(e, parent_begin):
    b = parent_begin + (Fraction(e.get_begin()) if e.get_begin() is not None else 0)
    out.add(b)
    if e.get_end() is not None:
      out.add(parent_begin + Fraction(e.get_end()))
    for st in e.iter_animation_steps():
      out.add(b + (Fraction(st.begin) if st.begin is not None else 0))
      if st.end is not None:
        out.add(b + Fraction(st.end))
    for c in e:
      walk(c, b)

  for r in doc.iter_regions():
    walk(r, Fraction(0))
  if doc.get_body() is not None:
    walk(doc.get_body(), Fraction(0))
  return sorted(out)


def snapshot_simple(doc, t):
  """Per region: the text leaves with the element kinds above them (C05 compares two documents at the same time)."""
  s = X.snapshot(doc, t)
  return [[rg["rid"], [[l["path"], l["tag"]] for l in rg["leaves"]]] for rg in s["regs"] if rg["leaves"]]


# ---- write -> bytes -> read --------------------------------------------------------------------------------

def roundtrip(doc, cfg):
  """cfg = {"fmt", "fn", "fd"}.  Returns a record for spec/Trace_ImscWrite.tla and the bytes written."""
  import ttconv.imsc.writer as writer
  import ttconv.imsc.reader as reader
  import ttconv.imsc.config as imsc_config
  from ttconv.imsc.attributes import TimeExpressionSyntaxEnum
  from ttconv.isd import ISD
  fps = Fraction(cfg["fn"], cfg["fd"]) if cfg["fn"] else None
  D = case_base(doc, cfg["fn"], cfg["fd"])
  rec = {"cfg": cfg, "D": D, "outcome": "written", "err": "", "errtype": "", "errs": 0, "A": project(doc, D), "B": {}, "probes": []}
  data = b""
  if cfg["fmt"] == "none" and not cfg["fn"]:
    config = None
  else:
    config = imsc_config.IMSCWriterConfiguration(
      time_format=None if cfg["fmt"] == "none" else TimeExpressionSyntaxEnum[cfg["fmt"]], fps=fps)
  from .core import AltContext, alt_for
  import zlib
  size = len(json.dumps(rec["A"], sort_keys=True, default=str))
  if zlib.crc32(repr(("prior", D, size, cfg["fmt"], cfg["fn"])).encode()) % 4 == 1:
    # the same document has been converted to the other formats earlier in this process (whatever those conversions
    # keep - time objects, caches - must not show in this one)
    import logging
    was = logging.root.manager.disable
    logging.disable(logging.CRITICAL)
    try:
      import ttconv.srt.writer as srt_writer
      import ttconv.vtt.writer as vtt_writer
      which = zlib.crc32(repr(("which", size, D)).encode()) % 4
      for other in [(srt_writer,), (vtt_writer,), (vtt_writer, srt_writer), (srt_writer, vtt_writer)][which]:
        try:
          other.from_model(doc)
        except Exception:  # pylint: disable=broad-except
          pass
    finally:
      logging.disable(was)
  try:
    with AltContext(alt_for(("imscw", D, size, cfg["fmt"]))) as ac:
      tree = writer.from_model(doc, config, ac.progress)
    buf = io.BytesIO()
    tree.write(buf, encoding="utf-8", xml_declaration=True)
    data = buf.getvalue()
  except Exception as ex:  # pylint: disable=broad-except
    rec["outcome"] = "writer_exception"
    rec["errtype"] = type(ex).__name__
    rec["err"] = type(ex).__name__ + ": " + str(ex)[:100]
    return rec, data
  with X.LogCapture() as cap:
    try:
      doc2 = reader.to_model(et.ElementTree(et.fromstring(data)))
    except Exception as ex:  # pylint: disable=broad-except
      rec["outcome"] = "reader_raised"
      rec["err"] = type(ex).__name__ + ": " + str(ex)[:100]
      return rec, data
  if doc2 is None:
    rec["outcome"] = "reader_none"
    return rec, data
  rec["errs"] = cap.count()
  msgs = [msg for n, l, msg in cap.records if n.startswith("ttconv.imsc")]
  if msgs:
    rec["err"] = "; ".join(sorted(set(msgs)))[:200]
  rec["B"] = project(doc2, D)
  # probes: midpoints between neighbouring significant times of the original that are further apart than any
  # accumulated quantisation error could move a boundary, and the time origin
  if cfg["fn"] and cfg["fmt"] != "clock_time":
    unit = Fraction(cfg["fd"], cfg["fn"])
  else:
    unit = Fraction(1, 1000)
  try:
    st = boundaries(doc)
    margin = 8 * unit
    pts = []
    exact = all((Fraction(v) / unit).denominator == 1 for v in all_times(doc))
    for a, b in zip(st, st[1:]):
      if b - a > 2 * margin:
        pts.append((a + b) / 2)
    if st:
      pts.append(st[-1] + 1)
    if exact:
      pts.extend(st)
    pts = sorted(set(pts))
    if len(pts) > 12:
      step = len(pts) / 12.0
      pts = [pts[int(k * step)] for k in range(12)]
    for t in pts:
      rec["probes"].append({"t": "%d/%d" % (Fraction(t).numerator, Fraction(t).denominator),
                            "a": snapshot_simple(doc, Fraction(t)), "b": snapshot_simple(doc2, Fraction(t))})
  except Exception as ex:  # pylint: disable=broad-except
    rec["probes"] = []
    rec["snapshot_error"] = type(ex).__name__ + ": " + str(ex)[:100]
  return rec, data
