"""Abstract XML tree (the node table of spec/Imsc.tla) -> real TTML, and projection of snapshots (C04).

Nothing here decides the property: the renderer turns records into strings (one direction only), the projection
turns an ISD into plain JSON (which tagged text leaves are present in which region, under which element kinds, with
which computed style tokens / xml:space / xml:lang).  spec/Trace_Imsc.tla computes what is expected.
"""
from __future__ import annotations

import logging
import zlib
import xml.etree.ElementTree as et
from fractions import Fraction

NS_XML = "http://www.w3.org/XML/1998/namespace"
NS_TT = "http://www.w3.org/ns/ttml"
NS_TTP = "http://www.w3.org/ns/ttml#parameter"
NS_TTS = "http://www.w3.org/ns/ttml#styling"
NS_ITTP = "http://www.w3.org/ns/ttml/profile/imsc1#parameter"
NS_ITTS = "http://www.w3.org/ns/ttml/profile/imsc1#styling"
NS_EBUTTS = "urn:ebu:tt:style"

for _p, _u in (("", NS_TT), ("ttp", NS_TTP), ("tts", NS_TTS), ("ittp", NS_ITTP), ("itts", NS_ITTS), ("ebutts", NS_EBUTTS)):
  et.register_namespace(_p, _u)

RUBY_KINDS = {"ruby": "container", "rb": "base", "rt": "text", "rp": "delimiter", "rbc": "baseContainer", "rtc": "textContainer"}
NONE_EXPR = {"syntax": "none", "h": 0, "m": 0, "s": 0, "f": 0, "num": 0, "den": 1}

# the observed style properties per element kind: must equal ObsProps of spec/Imsc.tla
OBS_PROPS = {
  "body": ["backgroundColor", "visibility"],
  "div": ["backgroundColor", "visibility"],
  "p": ["backgroundColor", "visibility", "textAlign"],
  "span": ["color", "backgroundColor", "fontStyle", "fontWeight", "visibility", "wrapOption"],
  "region": ["backgroundColor", "displayAlign", "showBackground", "visibility", "opacity"],
}


def qn(ns, local):
  return "{%s}%s" % (ns, local)


def style_qn(prop):
  if prop in ("linePadding", "multiRowAlign"):
    return qn(NS_EBUTTS, prop)
  if prop in ("fillLineGap",):
    return qn(NS_ITTS, prop)
  return qn(NS_TTS, prop)


# ---- time expressions --------------------------------------------------------------------------

def _dec(num, den):
  """num/den with den = 10^k as a decimal string."""
  k = len(str(den)) - 1
  if k == 0:
    return str(num)
  s = str(num).zfill(k + 1)
  return s[:-k] + "." + s[-k:]


def render_expr(x):
  sy = x["syntax"]
  if sy == "clock":
    base = "%02d:%02d:%02d" % (x["h"], x["m"], x["s"])
    if x["den"] == 1:
      return base
    k = len(str(x["den"])) - 1
    return base + "." + str(x["num"]).zfill(k)
  if sy == "clockFrames":
    return "%02d:%02d:%02d:%02d" % (x["h"], x["m"], x["s"], x["f"])
  return _dec(x["num"], x["den"]) + sy


def _decimal_of(fr: Fraction, maxdigits=5):
  """(num, den=10^k) if fr is a finite decimal with at most maxdigits digits, else None."""
  for k in range(0, maxdigits + 1):
    den = 10 ** k
    if (fr * den).denominator == 1:
      return int(fr * den), den
  return None


def ticks_per_frame(P):
  fr = P["fr"] or 30
  q = Fraction(P["D"] * P["md"], fr * P["mn"])
  assert q.denominator == 1, P
  return int(q)


def ticks_per_tick(P):
  if P["tr"]:
    assert P["D"] % P["tr"] == 0
    return P["D"] // P["tr"]
  if P["fr"]:
    return ticks_per_frame(P)
  return P["D"]


def exprs_for(v, P):
  """All expression records (by syntax) that denote exactly v ticks of base P['D']; the 32-bit products of the
  specification's Ticks operator stay in range for each."""
  D = P["D"]
  out = {}
  lim = 2 ** 31 - 1
  whole, rem = divmod(v, D)
  h, m, s = whole // 3600, (whole // 60) % 60, whole % 60
  d = _decimal_of(Fraction(rem, D))
  if d is not None and d[0] * D < lim:
    out["clock"] = dict(NONE_EXPR, syntax="clock", h=h, m=m, s=s, num=d[0], den=d[1])
  tpf = ticks_per_frame(P)
  if rem % tpf == 0 and rem // tpf < (P["fr"] or 30):
    out["clockFrames"] = dict(NONE_EXPR, syntax="clockFrames", h=h, m=m, s=s, f=rem // tpf)
  for sy, unit in (("h", 3600 * D), ("m", 60 * D), ("s", D), ("ms", Fraction(D, 1000))):
    if sy in ("h", "m") and 3600 * D >= lim:
      continue
    d = _decimal_of(Fraction(v) / unit, 4)
    if d is not None:
      # Ticks: num * (unit \div den)  must be exact
      if (Fraction(unit) / d[1]).denominator == 1 and d[0] * int(Fraction(unit) / d[1]) == v:
        out[sy] = dict(NONE_EXPR, syntax=sy, num=d[0], den=d[1])
  d = _decimal_of(Fraction(v, tpf), 1)
  if d is not None and d[0] * tpf < lim:
    out["f"] = dict(NONE_EXPR, syntax="f", num=d[0], den=d[1])
  tpt = ticks_per_tick(P)
  d = _decimal_of(Fraction(v, tpt), 1)
  if d is not None and d[0] * tpt < lim:
    out["t"] = dict(NONE_EXPR, syntax="t", num=d[0], den=d[1])
  return out


# ---- rendering ---------------------------------------------------------------------------------

def _xml_name(kind):
  return "span" if kind in RUBY_KINDS else kind


def render(doc, override=None):
  """doc -> ElementTree.  override = (where, qualified attribute name, value or None) replaces / adds / removes ONE
  attribute: where = ("node", index) | ("tt",) | ("style", index) | ("initial", index) | ("nested", node, index)."""
  P = doc["P"]
  N = doc["N"]
  tt = et.Element(qn(NS_TT, "tt"))
  if doc.get("lang", "") != "" or doc.get("lang_present"):
    tt.set(qn(NS_XML, "lang"), doc.get("lang", ""))
  if doc.get("space", ""):
    tt.set(qn(NS_XML, "space"), doc["space"])
  if P["fr"]:
    tt.set(qn(NS_TTP, "frameRate"), str(P["fr"]))
  if (P["mn"], P["md"]) != (1, 1):
    tt.set(qn(NS_TTP, "frameRateMultiplier"), "%d %d" % (P["mn"], P["md"]))
  if P["tr"]:
    tt.set(qn(NS_TTP, "tickRate"), str(P["tr"]))
  for k, v in (doc.get("ttattrs") or []):
    tt.set(k, v)
  where = override[0] if override else None

  def apply(el, w):
    if override and tuple(where) == tuple(w):
      if override[2] is None:
        el.attrib.pop(override[1], None)
      else:
        el.set(override[1], override[2])

  apply(tt, ("tt",))
  head = et.SubElement(tt, qn(NS_TT, "head"))
  regions = [i for i, nd in enumerate(N, 1) if nd["kind"] == "region"]
  if doc["S"] or doc["I"] or where == ("initial_new",):
    styling = et.SubElement(head, qn(NS_TT, "styling"))
    if where == ("initial_new",):
      el = et.SubElement(styling, qn(NS_TT, "initial"))
      el.set(override[1], override[2])
    for i, (p, v) in enumerate(doc["I"], 1):
      el = et.SubElement(styling, qn(NS_TT, "initial"))
      el.set(style_qn(p), v)
      apply(el, ("initial", i))
    for i, s in enumerate(doc["S"], 1):
      el = et.SubElement(styling, qn(NS_TT, "style"))
      el.set(qn(NS_XML, "id"), s["id"])
      if s["refs"]:
        el.set("style", " ".join(s["refs"]))
      for p, v in s["attrs"]:
        el.set(style_qn(p), v)
      apply(el, ("style", i))

  def timing(el, nd):
    for a in ("b", "d", "e"):
      if nd[a]["syntax"] != "none":
        el.set({"b": "begin", "d": "dur", "e": "end"}[a], render_expr(nd[a]))
    if nd["tc"] == "seq" or nd.get("tcattr"):
      el.set("timeContainer", nd["tc"])

  def common(el, nd):
    if nd["space"]:
      el.set(qn(NS_XML, "space"), nd["space"])
    if nd["lang"]:
      el.set(qn(NS_XML, "lang"), "" if nd["lang"] == "-" else nd["lang"])
    if nd["srefs"]:
      el.set("style", " ".join(nd["srefs"]))
    for p, v in nd["attrs"]:
      el.set(style_qn(p), v)

  def build(parent_el, i):
    nd = N[i - 1]
    kind = nd["kind"]
    el = et.SubElement(parent_el, qn(NS_TT, _xml_name(kind)))
    if kind in RUBY_KINDS:
      el.set(qn(NS_TTS, "ruby"), RUBY_KINDS[kind])
    if kind == "region":
      el.set(qn(NS_XML, "id"), nd["rid"])
    if kind == "set":
      el.set(style_qn(nd["sprop"]), nd["sval"])
      timing(el, nd)
      apply(el, ("node", i))
      return el
    if kind != "br":
      timing(el, nd)
    if nd["reg"]:
      el.set("region", nd["reg"])
    common(el, nd)
    apply(el, ("node", i))
    if kind == "region":
      for j, attrs in enumerate(nd["nested"], 1):
        se = et.SubElement(el, qn(NS_TT, "style"))
        if nd.get("nrefs") and nd["nrefs"][j - 1]:
          se.set("style", " ".join(nd["nrefs"][j - 1]))
        for p, v in attrs:
          se.set(style_qn(p), v)
        apply(se, ("nested", i, j))
    last = None
    for k in nd["kids"]:
      kd = N[k - 1]
      if kd["kind"] == "text" and doc.get("ignorable") and zlib.crc32(repr((doc["ignorable"], i, k)).encode()) % 3 == 0:
        # something that is NOT content in front of the text (which then is its tail in the XML tree): an element in a foreign
        # namespace with content of its own, a comment, a processing instruction, TT metadata
        which = zlib.crc32(repr((k, doc["ignorable"])).encode()) % 4
        if which == 0:
          last = et.SubElement(el, "{urn:example:foreign}note", {"begin": "1s", "{urn:example:foreign}a": "1"})
          last.text = "IGNORED"
          et.SubElement(last, "{urn:example:foreign}inner").tail = "IGNORED"
        elif which == 1:
          last = et.Comment(" not content ")
          el.append(last)
        elif which == 2:
          last = et.ProcessingInstruction("app", "not content")
          el.append(last)
        else:
          last = et.SubElement(el, qn(NS_TT, "metadata"))
          et.SubElement(last, "{http://www.w3.org/ns/ttml#metadata}desc").text = "IGNORED"
      if kd["kind"] == "text":
        if last is None:
          el.text = (el.text or "") + kd["tag"]
        else:
          last.tail = (last.tail or "") + kd["tag"]
      else:
        last = build(el, k)
    return el

  if regions:
    layout = et.SubElement(head, qn(NS_TT, "layout"))
    for r in regions:
      build(layout, r)
  if not len(head):
    tt.remove(head)
  bodies = [i for i, nd in enumerate(N, 1) if nd["kind"] == "body"]
  for b in bodies:
    build(tt, b)
  if doc.get("spell"):
    _respell_colours(tt, doc["spell"], override[1:] if override else None)
  return et.ElementTree(tt)


_SPELL_RGB = {"red": (255, 0, 0), "green": (0, 128, 0), "blue": (0, 0, 255), "yellow": (255, 255, 0), "white": (255, 255, 255),
              "black": (0, 0, 0)}


def _respell_colours(root, spell, keep):
  """Write named colours in the other spellings of TTML2 <color> (#rrggbb, #RRGGBBAA, rgb(), rgba()): same value, so the
  abstract document is unchanged.  `spell` selects the rotation; the one overridden (corrupted) attribute is left alone."""
  n = spell
  for el in root.iter():
    for name in (style_qn("color"), style_qn("backgroundColor")):
      v = el.get(name)
      if v in _SPELL_RGB and not (keep and keep[0] == name and keep[1] == v):
        r, g, b = _SPELL_RGB[v]
        n += 1
        el.set(name, [v, "#%02x%02x%02x" % (r, g, b), "#%02X%02X%02XFF" % (r, g, b), "rgb(%d,%d,%d)" % (r, g, b),
                      "rgba(%d,%d,%d,255)" % (r, g, b)][n % 5])


def reparse(tree):
  """Serialise and parse again, so that the reader sees what an XML parser delivers."""
  data = et.tostring(tree.getroot(), encoding="utf-8", xml_declaration=True)
  # (the caller's parser keeps comments and processing instructions in the tree, as lxml and TreeBuilder(insert_comments) do)
  parser = et.XMLParser(target=et.TreeBuilder(insert_comments=True, insert_pis=True))
  return et.ElementTree(et.fromstring(data, parser=parser)), data


# ---- logging -----------------------------------------------------------------------------------

class LogCapture(logging.Handler):
  """Collects the records of the ttconv loggers (core.py silences them globally; this re-enables them locally)."""

  def __init__(self, prefix="ttconv"):
    super().__init__(level=logging.DEBUG)
    self.records = []
    self.prefix = prefix

  def emit(self, record):
    self.records.append((record.name, record.levelno, record.getMessage()))

  def __enter__(self):
    self.logger = logging.getLogger("ttconv")
    self.old_level = self.logger.level
    self.old_prop = self.logger.propagate
    self.logger.setLevel(logging.WARNING)
    self.logger.propagate = False
    self.logger.addHandler(self)
    self.records = []
    return self

  def __exit__(self, *a):
    self.logger.removeHandler(self)
    self.logger.setLevel(self.old_level)
    self.logger.propagate = self.old_prop

  def count(self, prefix="ttconv.imsc", level=logging.WARNING):
    return sum(1 for n, l, _ in self.records if n.startswith(prefix) and l >= level)


# ---- projection --------------------------------------------------------------------------------

_KIND = None
_COLORS = None


def _tables():
  global _KIND, _COLORS
  if _KIND is None:
    import ttconv.model as m
    import ttconv.style_properties as sp
    _KIND = {m.Body: "body", m.Div: "div", m.P: "p", m.Span: "span", m.Br: "br", m.Text: "text", m.Ruby: "ruby",
             m.Rb: "rb", m.Rt: "rt", m.Rp: "rp", m.Rbc: "rbc", m.Rtc: "rtc"}
    _COLORS = {}
    for name in ("transparent", "black", "white", "red", "green", "blue", "yellow", "lime", "navy", "maroon", "teal"):
      _COLORS[sp.NamedColors[name].value.components] = name
  return _KIND, _COLORS


def kind_of(e):
  kinds, _ = _tables()
  for c, k in kinds.items():
    if type(e) is c:
      return k
  import ttconv.model as m
  if isinstance(e, m.Region):
    return "region"
  return type(e).__name__


def token(value):
  """Opaque token of a style value (only the observed properties: colours and enumerations)."""
  import ttconv.style_properties as sp
  if value is None:
    return "-"
  if isinstance(value, sp.ColorType):
    _, colors = _tables()
    c = tuple(value.components)
    return colors.get(c, "#%02x%02x%02x%02x" % c)
  if hasattr(value, "value") and isinstance(getattr(value, "value"), str):
    return value.value
  if isinstance(value, bool):
    return "true" if value else "false"
  if isinstance(value, (int, float)):
    return "%g" % value
  return repr(value)


def _obs_tokens(el, kind):
  import ttconv.style_properties as sp
  out = []
  for p in OBS_PROPS.get(kind, []):
    prop = getattr(sp.StyleProperties, p[0].upper() + p[1:])
    out.append(token(el.get_style(prop)))
  return out


def snapshot(model_doc, t: Fraction):
  """ISD.from_model(model_doc, t) as plain JSON: per region the text leaves in document order."""
  from ttconv.isd import ISD
  import ttconv.model as m
  isd = ISD.from_model(model_doc, t)
  regs = []
  for r in isd.iter_regions():
    leaves = []

    def walk(e, path, chain):
      k = kind_of(e)
      if isinstance(e, m.Text):
        holder = e.parent()
        sp_ = holder.get_space()
        leaves.append({"tag": e.get_text(), "path": path + ["text"], "chain": chain,
                       "space": sp_.value if sp_ is not None else "", "lang": holder.get_lang() or ""})
        return
      npath = path + [k]
      nchain = chain + [_obs_tokens(e, k)]
      for c in e:
        walk(c, npath, nchain)

    for c in r:
      walk(c, [], [])
    rid = r.get_id()
    regs.append({"rid": "" if rid == ISD.DEFAULT_REGION_ID else rid, "leaves": leaves, "rsty": _obs_tokens(r, "region")})
  return {"regs": regs}


def observe(tree, times, D):
  """Read the XML tree with the IMSC reader and take snapshots at the given tick times.
  Returns (record fields, model document or None)."""
  import ttconv.imsc.reader as reader
  out = {"crashed": 0, "err": "", "obs": [], "logs": 0, "logmsgs": []}
  from .core import AltContext, alt_for
  size = sum(1 for _ in tree.iter()) if hasattr(tree, "iter") else 0
  with LogCapture() as cap:
    try:
      with AltContext(alt_for(("imscr", size, len(times), D))) as ac:
        model_doc = reader.to_model(tree, ac.progress)
    except Exception as ex:  # pylint: disable=broad-except
      out["crashed"] = 1
      out["err"] = type(ex).__name__ + ": " + str(ex)[:120]
      model_doc = None
  out["logs"] = cap.count()
  out["logmsgs"] = [msg for n, l, msg in cap.records if n.startswith("ttconv.imsc") and l >= logging.WARNING][:12]
  if model_doc is None:
    if not out["crashed"]:
      out["crashed"] = 1
      out["err"] = "reader returned None"
    return out, None
  try:
    for t in times:
      out["obs"].append(snapshot(model_doc, Fraction(t, D)))
  except Exception as ex:  # pylint: disable=broad-except
    out["crashed"] = 2
    out["err"] = "ISD: " + type(ex).__name__ + ": " + str(ex)[:120]
    out["obs"] = []
  return out, model_doc


# ---- generic value tokens (C04 value forms, C05 projections) -----------------------------------------

def value_token(v):
  """A canonical string for any style value: numbers to the written precision (%g), enumerations by value,
  dataclasses field by field."""
  import dataclasses
  import enum
  import numbers
  from fractions import Fraction as Fr
  import ttconv.style_properties as sp
  if v is None:
    return "-"
  if isinstance(v, bool):
    return "true" if v else "false"
  if isinstance(v, sp.LengthType):
    return "%g%s" % (v.value, v.units.value)
  if isinstance(v, sp.ColorType):
    return "#%02x%02x%02x%02x" % tuple(v.components)
  if isinstance(v, enum.Enum):
    return type(v).__name__ + "." + v.name
  if isinstance(v, Fr):
    return "%g" % float(v)
  if isinstance(v, numbers.Number):
    return "%g" % v
  if isinstance(v, str):
    return "'" + v + "'"
  if isinstance(v, (tuple, list)):
    return "(" + ",".join(value_token(x) for x in v) + ")"
  if dataclasses.is_dataclass(v):
    return type(v).__name__ + "(" + ",".join(f.name + "=" + value_token(getattr(v, f.name)) for f in dataclasses.fields(v)) + ")"
  return repr(v)
