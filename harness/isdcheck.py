"""Shared machinery of C01 / C02 / C13 / C14: Timeline design runs, document families, trace validation."""
from __future__ import annotations

import json
import os
from concurrent.futures import ThreadPoolExecutor
from multiprocessing import Pool

from . import tlc as T
from .docgen import FAMILIES, mc_family, random_doc
from .isdrun import observe

CFG_TIMELINE = """CONSTANTS
  Docs <- Docs
  TMAX = {tmax}
SPECIFICATION Spec
INVARIANT Inv_NoDuplicates
INVARIANT Inv_ActiveOnly
INVARIANT Inv_WellFormed
INVARIANT Inv_Ordered
INVARIANT Inv_EmptyRegion
INVARIANT NothingBeforeFirst
PROPERTY ChangesOnlyAtSigTimes
"""

CFG_TRACE = """CONSTANTS
  Families <- MCFamilies
INIT TInit
NEXT TNext
"""


def design_families(ctx, names=None):
  """Model-check Timeline on each family; return {family: (docs, tmax)} taken from TLC's state dump."""
  out = {}

  def one(name):
    mc, tmax = mc_family(name)
    # MC module must not redefine Docs as a constant override name clash: Docs is a CONSTANT of Timeline, the MC
    # module defines an operator of another name
    mc = mc.replace("\nDocs == {", "\nMCDocs == {")
    cfg = CFG_TIMELINE.format(tmax=tmax).replace("Docs <- Docs", "Docs <- MCDocs")
    res = T.run_tlc("MC_Timeline", cfg, workers=4, extra_files={"MC_Timeline.tla": mc}, dump="states", timeout=1800,
                    name="timeline_" + name)
    return name, tmax, res

  with ThreadPoolExecutor(max_workers=3) as ex:
    results = list(ex.map(one, names or list(FAMILIES)))
  for name, tmax, res in results:
    if res.violated:
      raise T.MachineryError(f"Timeline/Ttml violates its own design properties on family {name}: {res.violated}\n" + res.out[-1500:])
    ctx.tlc(res, f"Timeline design model, family '{name}' (t = 0..{tmax})")
    states = T.parse_dump_fast(os.path.join(res.workdir, "states.dump"), {"doc", "t"})
    docs = {}
    for s in states:
      if s["t"] == 0:
        docs[json.dumps(s["doc"], sort_keys=True)] = s["doc"]
    out[name] = (list(docs.values()), tmax)
  return out


def _obs_job(args):
  retime_seed = None
  if len(args) == 6:
    ad, rid, times, detail, use_cache, retime_seed = args
  else:
    ad, rid, times, detail, use_cache = args
  import logging
  logging.getLogger("ttconv").setLevel(logging.CRITICAL + 10)
  try:
    cat = None
    if ad.get("styles") is not None or ad.get("anim_styles") is not None or ad.get("initials") is not None:
      from .stylecat import catalogue
      cat = catalogue()[0]
    import random
    return observe(ad, rid, times=times, detail=detail, use_cache=use_cache, style_catalogue=cat,
                   retime_rng=None if retime_seed is None else random.Random(retime_seed))
  except Exception as ex:  # pylint: disable=broad-except
    import traceback
    return {"id": rid, "error": repr(ex), "tb": traceback.format_exc()[-1500:], "doc": ad}


def observe_all(jobs, procs=12):
  """jobs: list of (abstract doc, id, times or None, detail, use_cache)."""
  with Pool(procs) as pool:
    out = []
    for r in pool.map(_obs_job, jobs, chunksize=8):
      out.extend(r if isinstance(r, list) else [r])
    return out


def validate(ctx, recs, families, label, nproc=6):
  """Run Trace_Ttml over recs with the given clause families; returns list of (id, tick, clause)."""
  mc = ("---- MODULE MC_Trace_Ttml ----\nEXTENDS Trace_Ttml\nMCFamilies == " + T.to_tla(set(families)) + "\n====\n")
  nproc = max(1, min(nproc, len(recs) // 20))
  parts = [recs[k::nproc] for k in range(nproc)]

  def one(part):
    text = "\n".join(json.dumps(r, separators=(",", ":")) for r in part) + "\n"
    return part, T.run_tlc("MC_Trace_Ttml", CFG_TRACE, workers=1, env={"TRACE_FILE": "trace.ndjson"},
                           extra_files={"MC_Trace_Ttml.tla": mc, "trace.ndjson": text}, timeout=5400, name="tt_" + label,
                           java_opts=("-Xmx6g",))

  with ThreadPoolExecutor(max_workers=nproc) as ex:
    outs = list(ex.map(one, parts))
  fails = []
  for part, res in outs:
    done = res.values("DONE")
    if not done or done[0][1] != len(part):
      raise T.MachineryError(f"trace {label} not consumed: " + res.out[-2000:])
    ctx.tlc(res, f"trace validation {label}")
    for _, rid, tick, clause in res.values("FAIL"):
      fails.append((rid, tick, clause))
  return fails
