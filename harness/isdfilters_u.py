"""X01 helpers: abstract ISDs / documents of spec/IsdFilters.tla <-> real ttconv objects, filter application, projections.

Abstract node  = {"kind", "id", "styles": {property: token}, "children": [...], "text"}      (+ "anims" for document elements)
Abstract ISD   = [region node, ...];  a region has 0 or 1 child (its body).
Nothing here judges anything: it builds inputs, runs the filters and writes down what it sees.
"""
from __future__ import annotations

import copy
import hashlib
import itertools
import json
from fractions import Fraction

ISD_FILTERS = ("mr", "mp", "ks", "rd")
DOC_FILTERS = ("ra", "ki", "kb", "kb1")


# ----------------------------------------------------------------------------------------------------
# names
# ----------------------------------------------------------------------------------------------------

def kind_classes():
  import ttconv.model as m
  return {"body": m.Body, "div": m.Div, "p": m.P, "span": m.Span, "br": m.Br, "text": m.Text, "ruby": m.Ruby,
          "rb": m.Rb, "rt": m.Rt, "rp": m.Rp, "rbc": m.Rbc, "rtc": m.Rtc}


def kind_of(e):
  import ttconv.model as m
  if isinstance(e, m.Region):
    return "region"
  for k, c in kind_classes().items():
    if type(e) is c:          # pylint: disable=unidiomatic-typecheck
      return k
  return type(e).__name__.lower()


def prop_by_name(name):
  import ttconv.style_properties as sp
  return getattr(sp.StyleProperties, name)


def inherited_names():
  import ttconv.style_properties as sp
  return sorted(p.__name__ for p in sp.StyleProperties.ALL if p.is_inherited)


class Mapping:
  """Abstract (property, token) <-> real (StyleProperty, value) for the enumerated family.

  `table` = {abstract property: (real property name, {token: value})}.  With intern=True a token is always the same
  object; otherwise every use is a fresh equal copy (dataclass values) - enum members are one object in any case.
  """

  def __init__(self, name, table, intern=True):
    self.name = name
    self.table = table
    self.intern = intern

  def real(self, aprop, tok):
    pname, vals = self.table[aprop]
    v = vals[tok]
    return prop_by_name(pname), (v if self.intern else copy.deepcopy(v))

  def name_of(self, prop, value):
    for aprop, (pname, vals) in self.table.items():
      if pname == prop.__name__:
        for tok, v in vals.items():
          if v == value:
            return aprop, tok
        return aprop, "?" + repr(value)[:20]
    return prop.__name__, "?" + repr(value)[:20]

  def tables(self, sup, defs, inh):
    """Real filter arguments for the abstract tables of the small model."""
    rsup = {prop_by_name(self.table[a][0]): [self.table[a][1][t] for t in toks] for a, toks in sup.items()}
    rdefs = {prop_by_name(self.table[a][0]): self.table[a][1][t] for a, t in defs.items()}
    for a in self.table:
      if prop_by_name(self.table[a][0]).is_inherited != (a in inh):
        raise ValueError("mapping %s: %s and %s differ in inheritance" % (self.name, a, self.table[a][0]))
    return rsup, rdefs


def mappings():
  import ttconv.style_properties as sp
  C = sp.ColorType
  white, red, blue, tr = C((255, 255, 255, 255)), C((255, 0, 0, 255)), C((0, 0, 255, 255)), C((0, 0, 0, 0))
  fonts = {"fs": ("FontStyle", {"d": sp.FontStyleType.normal, "x": sp.FontStyleType.italic, "y": sp.FontStyleType.oblique}),
           "bg": ("BackgroundColor", {"d": tr, "x": red}),
           "td": ("TextDecoration", {"x": sp.TextDecorationType(underline=True), "d": sp.TextDecorationType()}),
           "op": ("Opacity", {"x": 0.5, "d": 1.0})}
  colours = {"fs": ("Color", {"d": white, "x": red, "y": blue}),
             "bg": ("Opacity", {"d": 1.0, "x": 0.5}),
             "td": ("FontWeight", {"x": sp.FontWeightType.bold, "d": sp.FontWeightType.normal}),
             "op": ("BackgroundColor", {"x": red, "d": tr})}
  return [Mapping("fontstyle", fonts), Mapping("colour", colours), Mapping("colour_copies", colours, intern=False)]


class Tokens:
  """Generic naming for arbitrary real objects: property = class name, token = v<k>, k-th distinct (==) value seen."""

  def __init__(self):
    self.seen = {}

  def name_of(self, prop, value):
    vals = self.seen.setdefault(prop.__name__, [])
    for k, v in enumerate(vals):
      if v == value:
        return prop.__name__, "v%d" % k
    vals.append(value)
    return prop.__name__, "v%d" % (len(vals) - 1)

  def sup(self, real_sup):
    return {p.__name__: [self.name_of(p, v)[1] for v in vs] for p, vs in real_sup.items()}

  def defs(self, real_defs):
    return {p.__name__: self.name_of(p, v)[1] for p, v in real_defs.items()}


# ----------------------------------------------------------------------------------------------------
# abstract -> real
# ----------------------------------------------------------------------------------------------------

def _tick(x):
  return None if x == -1 else Fraction(x)


def build_element(owner, a, realize, with_anims=False):
  """Real element (and descendants) for the abstract node `a`, owned by document / ISD `owner`."""
  import ttconv.model as m
  if a["kind"] == "text":
    e = m.Text(owner, a["text"])
  else:
    e = kind_classes()[a["kind"]](owner)
  for p, tok in a["styles"].items():
    prop, val = realize(p, tok)
    e.set_style(prop, val)
  if with_anims:
    for st in a.get("anims", []):
      prop, val = realize(st["p"], st["v"])
      e.add_animation_step(m.DiscreteAnimationStep(prop, _tick(st["b"]), _tick(st["e"]), val))
  kids = [build_element(owner, c, realize, with_anims) for c in a["children"]]
  if a["kind"] in ("ruby", "rtc"):
    if kids:
      e.push_children(kids)
  else:
    for k in kids:
      e.push_child(k)
  return e


def build_isd(aisd, realize):
  from ttconv.isd import ISD
  isd = ISD(None)
  for r in aisd:
    region = ISD.Region(r["id"], isd)
    for p, tok in r["styles"].items():
      prop, val = realize(p, tok)
      region.set_style(prop, val)
    for c in r["children"]:
      region.push_child(build_element(isd, c, realize))
    isd.put_region(region)
  return isd


def build_doc(adoc, realize):
  """ContentDocument for an abstract document {initials, regions, body}; returns (doc, body or None, [regions])."""
  import ttconv.model as m
  doc = m.ContentDocument()
  for p, tok in adoc["initials"].items():
    prop, val = realize(p, tok)
    doc.put_initial_value(prop, val)
  regions = []
  for r in adoc["regions"]:
    region = m.Region(r["id"], doc)
    for p, tok in r["styles"].items():
      prop, val = realize(p, tok)
      region.set_style(prop, val)
    for st in r.get("anims", []):
      prop, val = realize(st["p"], st["v"])
      region.add_animation_step(m.DiscreteAnimationStep(prop, _tick(st["b"]), _tick(st["e"]), val))
    doc.put_region(region)
    regions.append(region)
  body = None
  for b in adoc["body"]:
    body = build_element(doc, b, realize, with_anims=True)
    doc.set_body(body)
  return doc, body, regions


# ----------------------------------------------------------------------------------------------------
# real -> abstract
# ----------------------------------------------------------------------------------------------------

def _t(x):
  if x is None:
    return -1
  x = Fraction(x)
  return int(x) if x.denominator == 1 else int(x * 1000)


def project_element(e, namer, with_anims=False):
  import ttconv.model as m
  styles = {}
  for prop in e.iter_styles():
    n, tok = namer.name_of(prop, e.get_style(prop))
    styles[n] = tok
  out = {"kind": kind_of(e), "id": (e.get_id() or "") if isinstance(e, m.Region) else "", "styles": styles,
         "children": [project_element(c, namer, with_anims) for c in e],
         "text": e.get_text() if isinstance(e, m.Text) else ""}
  if with_anims:
    out["anims"] = []
    for s in e.iter_animation_steps():
      n, tok = namer.name_of(s.style_property, s.value)
      out["anims"].append({"p": n, "v": tok, "b": _t(s.begin), "e": _t(s.end)})
  return out


def project_isd(isd, namer):
  return [project_element(r, namer) for r in isd.iter_regions()]


def project_initials(doc, namer):
  out = {}
  for prop, v in doc.iter_initial_values():
    n, tok = namer.name_of(prop, v)
    out[n] = tok
  return out


# ----------------------------------------------------------------------------------------------------
# TLC dump -> python
# ----------------------------------------------------------------------------------------------------

def norm_node(n):
  """A node of a parsed TLC dump: the empty function is printed as the empty tuple."""
  out = {"kind": n["kind"], "id": n["id"], "styles": dict(n["styles"]) if isinstance(n["styles"], dict) else {},
         "children": [norm_node(c) for c in n["children"]], "text": n["text"]}
  if "anims" in n:
    out["anims"] = [dict(s) for s in n["anims"]]
  return out


def norm_doc(d):
  return {"initials": dict(d["initials"]) if isinstance(d["initials"], dict) else {},
          "regions": [norm_node(r) for r in d["regions"]], "body": [norm_node(b) for b in d["body"]]}


def histories(alphabet, depth):
  for n in range(depth + 1):
    yield from itertools.product(alphabet, repeat=n)


# ----------------------------------------------------------------------------------------------------
# running the filters
# ----------------------------------------------------------------------------------------------------

def make_isd_filter(f, rsup=None, rdefs=None):
  from ttconv.filters.isd.merge_regions import RegionsMergingISDFilter
  from ttconv.filters.isd.merge_paragraphs import ParagraphsMergingISDFilter
  from ttconv.filters.isd.supported_style_properties import SupportedStylePropertiesISDFilter
  from ttconv.filters.isd.default_style_properties import DefaultStylePropertyValuesISDFilter
  if f == "mr":
    return RegionsMergingISDFilter()
  if f == "mp":
    return ParagraphsMergingISDFilter()
  if f == "ks":
    return SupportedStylePropertiesISDFilter(rsup)
  if f == "rd":
    return DefaultStylePropertyValuesISDFilter(rdefs)
  raise ValueError(f)


def classify_isd_filter(flt):
  """(name, real supported table or None, real defaults table or None) of a filter object taken from a writer."""
  from ttconv.filters.isd.merge_regions import RegionsMergingISDFilter
  from ttconv.filters.isd.merge_paragraphs import ParagraphsMergingISDFilter
  from ttconv.filters.isd.supported_style_properties import SupportedStylePropertiesISDFilter
  from ttconv.filters.isd.default_style_properties import DefaultStylePropertyValuesISDFilter
  if isinstance(flt, RegionsMergingISDFilter):
    return "mr", None, None
  if isinstance(flt, ParagraphsMergingISDFilter):
    return "mp", None, None
  if isinstance(flt, SupportedStylePropertiesISDFilter):
    return "ks", flt.filter.supported_style_properties, None
  if isinstance(flt, DefaultStylePropertyValuesISDFilter):
    return "rd", None, flt.style_property_default_values
  raise ValueError(type(flt))


def step_record(f, before, after, **extra):
  rec = {"f": f, "before": before, "after": after}
  rec.update(extra)
  return rec


def key_of(rec):
  """Identity of a step: digest of its canonical JSON text."""
  return hashlib.md5(json.dumps(rec, sort_keys=True, separators=(",", ":")).encode()).hexdigest()


def size_of(rec):
  return len(json.dumps(rec, separators=(",", ":")))


# ----------------------------------------------------------------------------------------------------
# facts about a case (features of a violation; selectors of known findings read them)
# ----------------------------------------------------------------------------------------------------

def has_gap(aisd, defs, inh):
  """A default-valued pair of an inherited property whose parent lacks the property while a more distant ancestor
  holds another value (IsdFilters!HasGap)."""
  def walk(n, ctx, pst):
    for p, v in n["styles"].items():
      if p in defs and p in inh and v == defs[p] and p not in pst and ctx.get(p, defs[p]) != defs[p]:
        return True
    nctx = dict(ctx)
    for p, v in n["styles"].items():
      if p in inh:
        nctx[p] = v
    return any(walk(c, nctx, n["styles"]) for c in n["children"])
  for r in aisd:
    ctx = {p: v for p, v in r["styles"].items() if p in inh}
    if any(walk(c, ctx, r["styles"]) for c in r["children"]):
      return True
  return False


def kinds_in(a, out=None):
  out = set() if out is None else out
  for n in (a if isinstance(a, list) else [a]):
    out.add(n["kind"])
    kinds_in(n["children"], out)
  return out


def count_nodes(a):
  return sum(1 + count_nodes(n["children"]) for n in (a if isinstance(a, list) else [a]))


# ----------------------------------------------------------------------------------------------------
# random material
# ----------------------------------------------------------------------------------------------------

def rand_styles(rng, props, density):
  st = {}
  for p, toks in props.items():
    if rng.random() < density:
      st[p] = rng.choice(toks)
  return st


def rand_abstract_isd(rng, props):
  """Random abstract ISD with sparse styles (the kind of ISD that exists between two filters)."""
  density = rng.choice([0.15, 0.35, 0.7])
  counter = [0]

  def text():
    counter[0] += 1
    return {"kind": "text", "id": "", "styles": {}, "children": [], "text": rng.choice(["t%d", "t%d ", " t%d", " "]).replace("%d", str(counter[0]))}

  def el(kind, children):
    return {"kind": kind, "id": "", "styles": rand_styles(rng, props, density), "children": children, "text": ""}

  def br():
    return {"kind": "br", "id": "", "styles": rand_styles(rng, props, density / 3), "children": [], "text": ""}

  def span(depth):
    kids = []
    for _ in range(rng.randint(0, 3)):
      r = rng.random()
      if r < 0.6:
        kids.append(text())
      elif r < 0.75:
        kids.append(br())
      elif depth < 3:
        kids.append(span(depth + 1))
    return el("span", kids)

  def ruby():
    return el("ruby", [el("rb", [span(2)]), el("rt", [span(2)])])

  def para():
    kids = []
    for _ in range(rng.randint(0, 3)):
      r = rng.random()
      kids.append(span(1) if r < 0.7 else br() if r < 0.85 else ruby())
    return el("p", kids)

  def div(depth):
    kids = []
    for _ in range(rng.randint(0, 3)):
      kids.append(div(depth + 1) if depth < 2 and rng.random() < 0.25 else para())
    return el("div", kids)

  regions = []
  for k in range(rng.randint(1, 4)):
    r = {"kind": "region", "id": "r%d" % (k + 1), "styles": rand_styles(rng, props, density), "children": [], "text": ""}
    if rng.random() < 0.8:
      r["children"] = [el("body", [div(1) for _ in range(rng.randint(0, 3))])]
    regions.append(r)
  return regions


def doc_catalogue():
  """Values used to decorate random documents: per property, [default of the writers or initial value, others...]."""
  import ttconv.style_properties as sp
  C = sp.ColorType
  L = sp.LengthType
  U = sp.LengthType.Units
  return {
    "Color": [C((255, 255, 255, 255)), C((255, 0, 0, 255)), C((0, 255, 255, 255)), C((1, 2, 3, 128))],
    "BackgroundColor": [C((0, 0, 0, 0)), C((0, 0, 0, 255)), C((255, 0, 0, 255))],
    "FontStyle": [sp.FontStyleType.normal, sp.FontStyleType.italic, sp.FontStyleType.oblique],
    "FontWeight": [sp.FontWeightType.normal, sp.FontWeightType.bold],
    "TextDecoration": [sp.TextDecorationType(), sp.TextDecorationType(underline=True), sp.TextDecorationType(line_through=True)],
    "TextAlign": [sp.TextAlignType.start, sp.TextAlignType.center, sp.TextAlignType.end],
    "Direction": [sp.DirectionType.ltr, sp.DirectionType.rtl],
    "Opacity": [1.0, 0.5],
    "Visibility": [sp.VisibilityType.visible, sp.VisibilityType.hidden],
    "FontSize": [L(100, U.pct), L(150, U.pct)],
    "WrapOption": [sp.WrapOptionType.wrap, sp.WrapOptionType.noWrap],
    "DisplayAlign": [sp.DisplayAlignType.before, sp.DisplayAlignType.after, sp.DisplayAlignType.center],
    "ShowBackground": [sp.ShowBackgroundType.always, sp.ShowBackgroundType.whenActive],
    "Origin": [sp.CoordinateType(L(10, U.pct), L(10, U.pct)), sp.CoordinateType(L(20, U.pct), L(50, U.pct))],
    "Extent": [sp.ExtentType(L(30, U.pct), L(80, U.pct)), sp.ExtentType(L(20, U.pct), L(40, U.pct))],
  }


CONTENT_PROPS = ["Color", "BackgroundColor", "FontStyle", "FontWeight", "TextDecoration", "TextAlign", "Direction", "Opacity",
                 "Visibility", "FontSize", "WrapOption"]
REGION_PROPS = ["BackgroundColor", "Opacity", "Visibility", "DisplayAlign", "ShowBackground", "Origin", "Extent", "Color", "FontStyle"]


def rand_document(rng, cat, timed=True):
  """A random ContentDocument: several regions, nested divisions, styled (nested) spans, br, ruby, inherited and
  not inherited properties set to default and other values, discrete animation.  Returns (doc, probe times)."""
  import ttconv.model as m
  doc = m.ContentDocument()
  density = rng.choice([0.1, 0.25, 0.5])
  counter = [0]

  def decorate(e, names, dens=None):
    for n in names:
      if rng.random() < (density if dens is None else dens):
        vals = cat[n]
        v = vals[0] if rng.random() < 0.4 else rng.choice(vals)
        e.set_style(prop_by_name(n), copy.deepcopy(v) if rng.random() < 0.5 else v)
    if rng.random() < 0.2:
      n = rng.choice([x for x in names if prop_by_name(x).is_animatable])
      for _ in range(rng.randint(1, 3)):
        b = rng.choice([None, 0, 1, 2])
        e.add_animation_step(m.DiscreteAnimationStep(prop_by_name(n), None if b is None else Fraction(b),
                                                     rng.choice([None, Fraction(3), Fraction(5)]), rng.choice(cat[n])))

  def timing(e):
    if timed and rng.random() < 0.2:
      b = rng.choice([0, 1, 2])
      e.set_begin(Fraction(b))
      e.set_end(rng.choice([None, Fraction(b + 2)]))

  nreg = rng.randint(0, 3)
  regions = []
  for k in range(nreg):
    r = m.Region("r%d" % (k + 1), doc)
    decorate(r, REGION_PROPS, 0.4)
    if rng.random() < 0.4:
      r.set_style(prop_by_name("ShowBackground"), cat["ShowBackground"][0])
      r.set_style(prop_by_name("BackgroundColor"), cat["BackgroundColor"][1])
    doc.put_region(r)
    regions.append(r)
  for n in CONTENT_PROPS:
    if rng.random() < 0.1:
      doc.put_initial_value(prop_by_name(n), rng.choice(cat[n]))

  def text():
    counter[0] += 1
    return m.Text(doc, rng.choice(["w%d", "w%d x", " w%d", "w%d&<"]).replace("%d", str(counter[0])))

  def span(depth):
    s = m.Span(doc)
    decorate(s, CONTENT_PROPS)
    timing(s)
    for _ in range(rng.randint(1, 3)):
      r = rng.random()
      if r < 0.65:
        s.push_child(text())
      elif r < 0.75:
        s.push_child(m.Br(doc))
      elif depth < 3:
        s.push_child(span(depth + 1))
    return s

  def plain_span():
    s = m.Span(doc)
    decorate(s, CONTENT_PROPS)
    s.push_child(text())
    return s

  def ruby():
    ru = m.Ruby(doc)
    decorate(ru, ["BackgroundColor", "Opacity", "Visibility"])
    rb, rt = m.Rb(doc), m.Rt(doc)
    decorate(rb, CONTENT_PROPS)
    decorate(rt, CONTENT_PROPS)
    rb.push_child(plain_span())
    rt.push_child(plain_span())
    ru.push_children([rb, rt])
    return ru

  def para():
    p = m.P(doc)
    decorate(p, CONTENT_PROPS)
    timing(p)
    if regions and rng.random() < 0.3:
      p.set_region(rng.choice(regions))
    for _ in range(rng.randint(1, 3)):
      r = rng.random()
      if r < 0.72:
        p.push_child(span(1))
      elif r < 0.84:
        p.push_child(m.Br(doc))
      else:
        wrapper = m.Span(doc)
        decorate(wrapper, CONTENT_PROPS, 0.5)
        p.push_child(wrapper)
        # a ruby container between two levels of spans cannot sit in a span: it is a child of p
        p.push_child(ruby())
    return p

  def div(depth):
    d = m.Div(doc)
    decorate(d, CONTENT_PROPS)
    timing(d)
    if regions and rng.random() < 0.6:
      d.set_region(rng.choice(regions))
    for _ in range(rng.randint(1, 3)):
      d.push_child(div(depth + 1) if depth < 2 and rng.random() < 0.2 else para())
    return d

  body = m.Body(doc)
  decorate(body, CONTENT_PROPS)
  if regions and rng.random() < 0.3:
    body.set_region(regions[0])
  for _ in range(rng.randint(1, 3)):
    body.push_child(div(1))
  doc.set_body(body)
  return doc, [Fraction(0), Fraction(1), Fraction(5, 2), Fraction(4)]
