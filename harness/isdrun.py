"""Common driver for the ISD properties: builds real documents from abstract ones, observes snapshots."""
from __future__ import annotations

from fractions import Fraction

from .docgen import probe_times
from .isdu import build_doc, project_isd, doc_params, region_name, region_names

TTML_FIELDS = ("n", "kind", "parent", "b", "e", "reg", "disp", "anim", "txt", "nr", "rb", "re", "rdisp", "ranim", "rbg", "idisp")


def ticks_of(fr, D):
  x = fr * D
  return (int(x), True) if x.denominator == 1 else (int(x), False)


def observe(ad, rid, times=None, detail=False, style_catalogue=None, use_cache=False, retime_rng=None):
  """One trace record for Trace_Ttml.tla (two when retime_rng is given: the same document OBJECT is re-timed through the
  model API after the first round of snapshots and observed again - nothing remembered from the first round may leak)."""
  D = ad.get("D", 2)
  doc, elems, _regions = build_doc(ad, D, style_catalogue)
  rec = _observe_doc(doc, ad, rid, times, detail, use_cache)
  if retime_rng is None or ad.get("t0"):
    return rec
  import copy
  cands = [k for k in range(ad["n"]) if ad["kind"][k] not in ("text", "br")]
  if not cands:
    return rec
  ad2 = copy.deepcopy(ad)
  for k in retime_rng.sample(cands, min(len(cands), retime_rng.randint(1, 2))):
    nb = retime_rng.choice([NONE_T, 2 * retime_rng.randrange(0, 4 * _unit(D) + 1)])
    ne = retime_rng.choice([NONE_T, 2 * retime_rng.randrange(0, 8 * _unit(D) + 1)])
    ad2["b"][k], ad2["e"][k] = nb, ne
    elems[k].set_begin(None if nb == NONE_T else Fraction(nb, D))
    elems[k].set_end(None if ne == NONE_T else Fraction(ne, D))
  rec2 = _observe_doc(doc, ad2, rid + 1000000, None, detail, use_cache)
  return [rec, rec2]


NONE_T = -1


def _unit(D):
  return D // 2 if D < 10 ** 6 else 3


def _may_paint(doc, ad):
  """rpaint[R + 1] = 1 when region R (0: the default region) could put a background on screen WITHOUT content at some time:
  a background colour that is not fully transparent is specified on it, animated on it, or is the document's initial value.
  A region that cannot paint and has no content presents nothing: whether a snapshot lists it is immaterial (C01 speaks of
  content; the cached and the direct snapshot paths differ on exactly this, harmlessly)."""
  import ttconv.style_properties as sp
  BG = sp.StyleProperties.BackgroundColor

  def visible(c):
    return c is not None and c.components[3] != 0
  init = visible(doc.get_initial_value(BG)) if doc.has_initial_value(BG) else False
  out = [1 if init else 0]
  for k in range(1, ad.get("nr", 0) + 1):
    r = doc.get_region(region_name(ad, k))
    if r is None:
      out.append(1)
      continue
    may = init or visible(r.get_style(BG)) or any(st.style_property is BG and visible(st.value) for st in r.iter_animation_steps())
    out.append(1 if may else 0)
  return out


def _take_apart(isd):
  """Empty every region of a snapshot and strip the styles of what it held."""
  if isd is None:
    return
  for region in list(isd.iter_regions()):
    for e in list(region.dfs_iterator()):
      for prop in list(e.iter_styles()):
        try:
          e.set_style(prop, None)
        except Exception:  # pylint: disable=broad-except
          pass
    region.remove_children()


def _observe_doc(doc, ad, rid, times, detail, use_cache):
  from .core import AltContext, alt_for
  with AltContext(alt_for(("isd", rid))):
    return _observe_doc_in_context(doc, ad, rid, times, detail, use_cache)


def _observe_doc_in_context(doc, ad, rid, times, detail, use_cache):
  from ttconv.isd import ISD
  D = ad.get("D", 2)
  # use_cache == "snap": every snapshot of this record is taken THROUGH the SignificantTimes cache (a snapshot is a snapshot
  # whichever way it is asked for); True: both ways, side by side, plus source fingerprints (C14)
  t0 = ad.get("t0", 0)
  snap_cached = use_cache == "snap"
  use_cache = use_cache is True
  fps = []
  if use_cache:
    from .isdu import fingerprint
    fps.append(fingerprint(doc))
  sig = ISD.significant_times(doc)
  if use_cache:
    fps.append(fingerprint(doc))
  sigticks = []
  sigok = 1
  for s in sig:
    if t0 and Fraction(s) < t0:
      continue            # a significant time before the shifted timeline begins (nothing can be presented there)
    tk, ok = ticks_of(Fraction(s) - t0, D)
    sigticks.append(tk)
    if not ok:
      sigok = 0
  if times is None:
    times = probe_times(ad, extra=sigticks if sigok else ())
  else:
    times = sorted(set(times) | set(sigticks if sigok else ()))
  obs = []
  obsc = []
  params = []
  names = region_names(ad)
  for tno, t in enumerate(times):
    isd = ISD.from_model(doc, t0 + Fraction(t, D), sig) if snap_cached else ISD.from_model(doc, t0 + Fraction(t, D))
    if snap_cached and tno % 3 == 1 and isd is not None:
      # a snapshot belongs to whoever asked for it: this one is taken apart (as the writers' filters take theirs apart) and the
      # same snapshot is asked for again - what is observed is the second one
      _take_apart(isd)
      isd = ISD.from_model(doc, t0 + Fraction(t, D), sig)
    obs.append(project_isd(isd, detail, names))
    params.append(doc_params(isd))
    if use_cache:
      obsc.append(project_isd(ISD.from_model(doc, t0 + Fraction(t, D), sig), detail, names))
  if use_cache:
    fps.append(fingerprint(doc))
  seq = ISD.generate_isd_sequence(doc)
  if use_cache:
    fps.append(fingerprint(doc))
  seqt = []
  seqd = []
  for (st, isd) in seq:
    if t0 and Fraction(st) < t0:
      continue
    tk, ok = ticks_of(Fraction(st) - t0, D)
    seqt.append(tk if ok else -7)
    seqd.append([r["digest"] for r in project_isd(isd, False, names) if r["paints"]])
  from .docgen import step_boundaries
  rec = {"id": rid, "doc": {k: ad[k] for k in TTML_FIELDS}, "times": times, "obs": obs, "sig": sigticks, "sigok": sigok,
         "rpaint": _may_paint(doc, ad),
         "own": sorted({own for own, par, has_off in step_boundaries(ad) if has_off and own != par and own >= 0}),
         "seqt": seqt, "seqd": seqd, "params": params, "srcparams": doc_params(doc)}
  if use_cache:
    rec["obsc"] = obsc
    rec["fps"] = fps            # fingerprints: before, after significant_times, after all snapshots, after the sequence
  return rec
