"""Abstract documents <-> real canonical-model documents, and projections of ISD snapshots (C01, C02, C13, C14).

Abstract document = the record of spec/Ttml.tla (python dict, 1-based sequences as 0-based lists):
  n, kind[], parent[], b[], e[], reg[], disp[], anim[][{b,e,v}], txt[], nr, rb[], re[], rdisp[], ranim[], rbg[], idisp
plus optional fields used only by the builder: space[] ("" | "default" | "preserve"), text[] (literal text of text
nodes; default "t<k>"), styles[] (list of [prop name, value token] applied to node k), rstyles[], D (ticks per second).
Times are ticks of 1/D second; NoneT = -1.
"""
from __future__ import annotations

import dataclasses
import hashlib
from fractions import Fraction

NONE_T = -1


def frac(tick, D):
  return None if tick == NONE_T else Fraction(tick, D)


def kind_classes():
  import ttconv.model as m
  return {"body": m.Body, "div": m.Div, "p": m.P, "span": m.Span, "br": m.Br, "text": m.Text, "ruby": m.Ruby,
          "rb": m.Rb, "rt": m.Rt, "rp": m.Rp, "rbc": m.Rbc, "rtc": m.Rtc}


def build_doc(ad, D=None, style_catalogue=None):
  """Build a ContentDocument from an abstract document."""
  import ttconv.model as m
  import ttconv.style_properties as sp
  D = D or ad.get("D", 1)
  doc = m.ContentDocument()
  disp_val = {"auto": sp.DisplayType.auto, "none": sp.DisplayType.none}
  if ad.get("idisp"):
    doc.put_initial_value(sp.StyleProperties.Display, disp_val[ad["idisp"]])
  for prop, tok in ad.get("initials", []):
    doc.put_initial_value(getattr(sp.StyleProperties, prop), style_catalogue[tok])
  if ad.get("ishowbg"):
    # <initial tts:showBackground="whenActive"/>: what the made-up region of a document without regions computes; declared
    # regions whose rbg is "always" say so themselves (rbg stays the computed value)
    doc.put_initial_value(sp.StyleProperties.ShowBackground, sp.ShowBackgroundType.whenActive)
  if "cell" in ad:
    doc.set_cell_resolution(m.CellResolutionType(rows=ad["cell"][0], columns=ad["cell"][1]))
  if "px" in ad:
    doc.set_px_resolution(m.PixelResolutionType(width=ad["px"][0], height=ad["px"][1]))
  if ad.get("lang"):
    doc.set_lang(ad["lang"])
  regions = []
  for r in range(ad["nr"]):
    reg = m.Region(region_name(ad, r + 1), doc)
    # t0 (whole seconds): the whole timeline is shifted by t0 - the body and every region begin t0 later; snapshots are then
    # asked for at t0 + t and reported times have t0 taken off again (TTML timing is translation invariant), so that TLC
    # sees the same small tick numbers while the implementation computes with large and finely resolved rationals
    t0 = ad.get("t0", 0)
    rb_, re_ = frac(ad["rb"][r], D), frac(ad["re"][r], D)
    reg.set_begin(rb_ if not t0 else t0 + (rb_ or 0))
    reg.set_end(re_ if (not t0 or re_ is None) else t0 + re_)
    if ad["rdisp"][r]:
      reg.set_style(sp.StyleProperties.Display, disp_val[ad["rdisp"][r]])
    if ad["rbg"][r] == "whenActive":
      reg.set_style(sp.StyleProperties.ShowBackground, sp.ShowBackgroundType.whenActive)
    elif ad.get("ishowbg"):
      reg.set_style(sp.StyleProperties.ShowBackground, sp.ShowBackgroundType.always)
    for st in ad["ranim"][r]:
      reg.add_animation_step(m.DiscreteAnimationStep(sp.StyleProperties.Display, frac(st["b"], D), frac(st["e"], D), disp_val[st["v"]]))
    for prop, tok in (ad.get("rstyles") or [[]] * ad["nr"])[r]:
      reg.set_style(getattr(sp.StyleProperties, prop), _own(style_catalogue[tok], (r, prop)))
      _rejected_attempt(reg, getattr(sp.StyleProperties, prop), (r, prop, tok))
    for prop, tok, sb, se in (ad.get("ranim_styles") or [[]] * ad["nr"])[r]:
      reg.add_animation_step(m.DiscreteAnimationStep(getattr(sp.StyleProperties, prop), frac(sb, D), frac(se, D), style_catalogue[tok]))
    doc.put_region(reg)
    regions.append(reg)
  kc = kind_classes()
  elems = []
  for k in range(ad["n"]):
    kind = ad["kind"][k]
    if kind == "text":
      if "text" in ad and ad["text"][k] is not None:
        e = m.Text(doc, ad["text"][k])
      else:
        e = m.Text(doc, ("t%d" % (k + 1)) if ad["txt"][k] else "")
    else:
      e = kc[kind](doc)
      e.set_id("e%d" % (k + 1))
      if kind != "br":
        b_, e_ = frac(ad["b"][k], D), frac(ad["e"][k], D)
        if ad.get("t0") and ad["parent"][k] == 0:
          b_ = ad["t0"] + (b_ or 0)
          e_ = None if e_ is None else ad["t0"] + e_
        e.set_begin(b_)
        e.set_end(e_)
        if ad["reg"][k]:
          e.set_region(regions[ad["reg"][k] - 1])
      if ad["disp"][k]:
        e.set_style(sp.StyleProperties.Display, disp_val[ad["disp"][k]])
      for st in ad["anim"][k]:
        e.add_animation_step(m.DiscreteAnimationStep(sp.StyleProperties.Display, frac(st["b"], D), frac(st["e"], D), disp_val[st["v"]]))
      if ad.get("space") and ad["space"][k]:
        e.set_space(m.WhiteSpaceHandling.PRESERVE if ad["space"][k] == "preserve" else m.WhiteSpaceHandling.DEFAULT)
      for prop, tok in (ad.get("styles") or [[]] * ad["n"])[k]:
        e.set_style(getattr(sp.StyleProperties, prop), _own(style_catalogue[tok], (k, prop)))
        _rejected_attempt(e, getattr(sp.StyleProperties, prop), (k, prop, tok))
      for prop, tok, sb, se in (ad.get("anim_styles") or [[]] * ad["n"])[k]:
        e.add_animation_step(m.DiscreteAnimationStep(getattr(sp.StyleProperties, prop), frac(sb, D), frac(se, D), style_catalogue[tok]))
    elems.append(e)
  # link: ruby and rtc need push_children with the whole list
  kids = [[] for _ in range(ad["n"])]
  for k in range(ad["n"]):
    p = ad["parent"][k]
    if p:
      kids[p - 1].append(k)
  for k in range(ad["n"] - 1, -1, -1):      # bottom-up so that push_children sees complete children
    if kids[k]:
      if ad["kind"][k] in ("ruby", "rtc"):
        elems[k].push_children([elems[c] for c in kids[k]])
      else:
        for c in kids[k]:
          elems[k].push_child(elems[c])
  if ad["n"]:
    doc.set_body(elems[0])
  return doc, elems, regions


# ----------------------------------------------------------------------------------------------------
# projections
# ----------------------------------------------------------------------------------------------------

def _lengths(v, out):
  import ttconv.style_properties as sp
  if isinstance(v, sp.LengthType):
    out.append(v)
  elif dataclasses.is_dataclass(v) and not isinstance(v, type):
    for f in dataclasses.fields(v):
      _lengths(getattr(v, f.name), out)
  elif isinstance(v, (tuple, list)):
    for x in v:
      _lengths(x, out)


def style_digest(e):
  items = sorted((p.__name__, repr(e.get_style(p))) for p in e.iter_styles())
  return hashlib.md5(repr(items).encode()).hexdigest()[:10]


def _node_k(e):
  import ttconv.model as m
  if isinstance(e, m.Text):
    t = e.get_text()
    if t.startswith("t") and t[1:].isdigit():
      return int(t[1:])
    return 0
  i = e.get_id()
  if i and i[0] == "e" and i[1:].isdigit():
    return int(i[1:])
  return 0


def _own(value, key):
  """One time in two an object of its own, equal to the catalogue's value (which other elements share): style values are
  compared by value, whichever object holds them."""
  import copy
  import zlib
  return copy.deepcopy(value) if zlib.crc32(repr(key).encode()) % 2 else value


def _rejected_attempt(element, prop, key):
  """One time in four: a further set_style on the same property with a value that the property does not admit.  The call is
  rejected (ValueError) and the caller goes on, as imsc.reader does; the element keeps the value it had."""
  import zlib
  if zlib.crc32(repr(key).encode()) % 4:
    return
  for bad in ("no such value", 12345.678, ("x", 1)):
    if not prop.validate(bad):
      try:
        element.set_style(prop, bad)
      except ValueError:
        pass
      return


def region_name(ad, k):
  """Identifier of the k-th declared region: r<k>, or - "reserved_ids" - an identifier that the library uses for a purpose
  of its own (ISD.DEFAULT_REGION_ID names the region it makes up for documents WITHOUT regions): ids are the author's."""
  if ad.get("reserved_ids") and k == 1:
    return "default_region"
  return "r%d" % k


def region_names(ad):
  return {region_name(ad, k): k for k in range(1, ad.get("nr", 0) + 1)}


def project_isd(isd, detail=False, names=None):
  """Projection of an ISD: list of regions in iteration order (names: identifier -> index of the declared regions)."""
  import ttconv.model as m
  import ttconv.style_properties as sp
  from ttconv.isd import ISD
  out = []
  for region in isd.iter_regions():
    rid = region.get_id()
    ridx = names[rid] if names and rid in names else int(rid[1:]) if rid and rid[0] == "r" and rid[1:].isdigit() else 0
    leaves = []
    containers = []
    tree = []

    def walk(e, depth, ppos):
      pos = len(tree) + 1
      if not isinstance(e, m.Region):
        k = _node_k(e)
        if isinstance(e, (m.Text, m.Br)):
          leaves.append(k)
        else:
          containers.append(k)
      if detail:
        kind = "region" if isinstance(e, m.Region) else type(e).__name__.lower()
        bad = []
        lens_all = 0
        for p in e.iter_styles():
          ls = []
          _lengths(e.get_style(p), ls)
          lens_all += len(ls)
          if any(x.units not in (sp.LengthType.Units.rh, sp.LengthType.Units.rw) for x in ls):
            bad.append(p.__name__)
        node = {"kind": kind, "k": _node_k(e) if not isinstance(e, m.Region) else 0, "depth": depth, "ppos": ppos,
                "txt": e.get_text() if isinstance(e, m.Text) else "",
                "hasb": 0 if e.get_begin() is None else 1, "hase": 0 if e.get_end() is None else 1,
                "nsteps": len(list(e.iter_animation_steps())),
                "regref": 0 if e.get_region() is None else 1,
                "owner": 1 if e.get_doc() is isd else 0,
                "styles": sorted(p.__name__ for p in e.iter_styles()),
                "inapplicable": sorted(p.__name__ for p in e.iter_styles() if not e.is_style_applicable(p)),
                "nonroot": sorted(bad),
                "dispnone": 1 if e.get_style(sp.StyleProperties.Display) is sp.DisplayType.none else 0,
                "space": e.get_space().value if not isinstance(e, (m.Text, m.Br)) else "",
                "digest": style_digest(e)}
        if isinstance(e, m.Region):
          o = e.get_style(sp.StyleProperties.Origin)
          p = e.get_style(sp.StyleProperties.Position)
          node["origin_is_position"] = 1 if (o is not None and p is not None and o.x == p.h_offset and o.y == p.v_offset
                                             and p.h_edge is sp.PositionType.HEdge.left and p.v_edge is sp.PositionType.VEdge.top) else 0
          node["showbg"] = e.get_style(sp.StyleProperties.ShowBackground).value if e.get_style(sp.StyleProperties.ShowBackground) else ""
        tree.append(node)
      for c in e:
        walk(c, depth + 1, pos)

    walk(region, 0, 0)
    # does the region put anything on screen?  content, or a background that is shown without content
    bg = region.get_style(sp.StyleProperties.BackgroundColor)
    op = region.get_style(sp.StyleProperties.Opacity)
    paints = 1 if (leaves or (
      region.get_style(sp.StyleProperties.ShowBackground) is sp.ShowBackgroundType.always
      and bg is not None and bg.components[3] != 0 and op != 0
      and region.get_style(sp.StyleProperties.Visibility) is not sp.VisibilityType.hidden)) else 0
    rec = {"rid": ridx, "leaves": leaves, "containers": sorted(containers), "paints": paints}
    if detail:
      rec["tree"] = tree
      rec["nbody"] = sum(1 for c in region if isinstance(c, m.Body))
      rec["nchildren"] = len(region)
    rec["digest"] = hashlib.md5(repr([(type(e).__name__, e.get_text() if isinstance(e, m.Text) else "", style_digest(e))
                                      for e in region.dfs_iterator()]).encode()).hexdigest()[:10]
    out.append(rec)
  return out


def doc_params(d):
  """Document parameters as a comparable token."""
  aa = d.get_active_area()
  cr = d.get_cell_resolution()
  px = d.get_px_resolution()
  return repr((d.get_lang(), (cr.rows, cr.columns), (px.width, px.height),
               None if aa is None else (aa.left_offset, aa.top_offset, aa.width, aa.height), d.get_display_aspect_ratio()))


def fingerprint(doc):
  """Deep structural fingerprint of a ContentDocument through public getters (C14)."""
  parts = [doc_params(doc)]
  parts.append(sorted((p.__name__, repr(v)) for p, v in doc.iter_initial_values()))

  def one(e):
    import ttconv.model as m
    return (type(e).__name__, e.get_id(), repr(e.get_begin()), repr(e.get_end()),
            e.get_region().get_id() if e.get_region() is not None else None,
            e.get_lang(), e.get_space().value, e.get_text() if isinstance(e, m.Text) else None,
            sorted((p.__name__, repr(e.get_style(p))) for p in e.iter_styles()),
            [(s.style_property.__name__, repr(s.begin), repr(s.end), repr(s.value)) for s in e.iter_animation_steps()],
            len(e))

  for r in doc.iter_regions():
    parts.append(("region", one(r)))
  body = doc.get_body()
  if body is not None:
    def rec(e, depth):
      parts.append((depth, one(e)))
      for c in e:
        rec(c, depth + 1)
    rec(body, 0)
  return hashlib.md5(repr(parts).encode()).hexdigest()
