"""C16 helpers: abstract documents of spec/Lcd.tla <-> real ttconv.model documents.

  build(adoc)        abstract document (dict, the JSON shape of Lcd.tla) -> ContentDocument (model API only)
  project(doc)       ContentDocument -> abstract document (public getters only)
  grid(adoc)         the ticks worth looking at (every boundary, 0, one after the last)
  visible(doc, ticks) per tick: what ISD.from_model shows: [[tid, colour, paragraph background, paragraph textAlign]..]
  random_doc(rng)    a seeded random abstract document, richer than the enumerated family

Ticks are half seconds.  Nothing here judges the property: values are parsed, built, projected and lexed only.
"""
from __future__ import annotations

import re
from fractions import Fraction

TICK = 2   # ticks per second

_LEN = re.compile(r"^(-?\d+(?:\.\d+)?)(%|px|c|rw|rh|em)$")


def _sp():
  import ttconv.style_properties as sp
  return sp


def parse_len(tok):
  sp = _sp()
  m = _LEN.match(tok)
  if not m:
    raise ValueError("bad length token " + tok)
  v = m.group(1)
  return sp.LengthType(float(v) if "." in v else int(v), sp.LengthType.Units(m.group(2)))


def fmt_num(v):
  if isinstance(v, bool):
    return repr(v)
  if isinstance(v, int):
    return str(v)
  if isinstance(v, Fraction):
    return str(v.numerator) if v.denominator == 1 else f"{v.numerator}/{v.denominator}"
  if isinstance(v, float) and v == int(v) and abs(v) < 1e9:
    return str(int(v))
  return repr(v)


def fmt_len(l):
  return fmt_num(l.value) + l.units.value


def parse_org(tok):
  sp = _sp()
  x, y = tok.split(",")
  return sp.CoordinateType(x=parse_len(x), y=parse_len(y))


def fmt_org(v):
  return fmt_len(v.x) + "," + fmt_len(v.y)


def parse_ext(tok):
  sp = _sp()
  w, h = tok.split(",")
  return sp.ExtentType(height=parse_len(h), width=parse_len(w))


def fmt_ext(v):
  return fmt_len(v.width) + "," + fmt_len(v.height)


def parse_pos(tok):
  sp = _sp()
  he, ho, ve, vo = tok.split(" ")
  return sp.PositionType(h_offset=parse_len(ho), v_offset=parse_len(vo), h_edge=sp.PositionType.HEdge(he),
                         v_edge=sp.PositionType.VEdge(ve))


def fmt_pos(v):
  return f"{v.h_edge.value} {fmt_len(v.h_offset)} {v.v_edge.value} {fmt_len(v.v_offset)}"


def parse_color(tok):
  sp = _sp()
  return sp.ColorType(tuple(int(tok[k:k + 2], 16) for k in (0, 2, 4, 6)))


def fmt_color(c):
  return "".join("%02x" % int(x) for x in c.components)


def catalogue():
  """One valid value per style property name, used for the opaque `sty` names and for animation steps."""
  sp = _sp()
  L = sp.LengthType
  U = L.Units
  return {
    "BackgroundColor": sp.ColorType((18, 52, 86, 255)),
    "Color": sp.ColorType((171, 205, 239, 255)),
    "Direction": sp.DirectionType.rtl,
    "Disparity": L(1, U.pct),
    "Display": sp.DisplayType.none,
    "DisplayAlign": sp.DisplayAlignType.center,
    "Extent": sp.ExtentType(height=L(40, U.pct), width=L(60, U.pct)),
    "FillLineGap": True,
    "FontFamily": ("Arial", sp.GenericFontFamilyType.sansSerif),
    "FontSize": L(80, U.pct),
    "FontStyle": sp.FontStyleType.italic,
    "FontWeight": sp.FontWeightType.bold,
    "LineHeight": L(120, U.pct),
    "LinePadding": L(0.5, U.c),
    "LuminanceGain": 1.5,
    "MultiRowAlign": sp.MultiRowAlignType.center,
    "Opacity": 0.0,
    "Origin": sp.CoordinateType(x=L(20, U.pct), y=L(30, U.pct)),
    "Overflow": sp.OverflowType.visible,
    "Padding": sp.PaddingType(L(1, U.pct), L(1, U.pct), L(1, U.pct), L(1, U.pct)),
    "Position": sp.PositionType(L(10, U.pct), L(10, U.pct)),
    "RubyAlign": sp.RubyAlignType.spaceAround,
    "RubyPosition": sp.AnnotationPositionType.before,
    "Shear": 10.0,
    "ShowBackground": sp.ShowBackgroundType.whenActive,
    "TextAlign": sp.TextAlignType.end,
    "TextCombine": sp.TextCombineType.all,
    "TextDecoration": sp.TextDecorationType(underline=True),
    "UnicodeBidi": sp.UnicodeBidiType.embed,
    "Visibility": sp.VisibilityType.hidden,
    "WrapOption": sp.WrapOptionType.noWrap,
    "WritingMode": sp.WritingModeType.tbrl,
  }


VALUED = ("Color", "BackgroundColor", "TextAlign")
REGION_FIELDS = {"WritingMode": "wm", "DisplayAlign": "da", "Origin": "org", "Position": "pos", "Extent": "ext"}


def _prop(name):
  return getattr(_sp().StyleProperties, name)


def _time(t):
  return None if t == -1 else Fraction(t, TICK)


def _apply_common(el, x, cat):
  """sty names, then the three valued properties, timing and steps (insertion order is the abstract order)."""
  sp = _sp()
  import ttconv.model as model
  for name in x["sty"]:
    el.set_style(_prop(name), cat[name])
  if x["color"] != "none":
    el.set_style(sp.StyleProperties.Color, parse_color(x["color"]))
  if x["bg"] != "none":
    el.set_style(sp.StyleProperties.BackgroundColor, parse_color(x["bg"]))
  if x["ta"] != "none":
    el.set_style(sp.StyleProperties.TextAlign, sp.TextAlignType(x["ta"]))
  if not isinstance(el, model.Br):           # a line break has no timing of its own (it may well carry styles and steps)
    el.set_begin(_time(x["b"]))
    el.set_end(_time(x["e"]))
  for st in x["steps"]:
    el.add_animation_step(model.DiscreteAnimationStep(_prop(st["p"]), _time(st["b"]), _time(st["e"]), cat[st["p"]]))


def build(adoc):
  """Abstract document -> ContentDocument."""
  import ttconv.model as model
  sp = _sp()
  cat = catalogue()
  doc = model.ContentDocument()
  ini = adoc["init"]
  for name in ini["sty"]:
    doc.put_initial_value(_prop(name), cat[name])
  if ini["color"] != "none":
    doc.put_initial_value(sp.StyleProperties.Color, parse_color(ini["color"]))
  if ini["bg"] != "none":
    doc.put_initial_value(sp.StyleProperties.BackgroundColor, parse_color(ini["bg"]))
  if ini["ta"] != "none":
    doc.put_initial_value(sp.StyleProperties.TextAlign, sp.TextAlignType(ini["ta"]))
  regions = {}
  for r in adoc["regions"]:
    reg = model.Region(r["id"], doc)
    if r["wm"] != "none":
      reg.set_style(sp.StyleProperties.WritingMode, sp.WritingModeType(r["wm"]))
    if r["da"] != "none":
      reg.set_style(sp.StyleProperties.DisplayAlign, sp.DisplayAlignType(r["da"]))
    if r["org"] != "none":
      reg.set_style(sp.StyleProperties.Origin, parse_org(r["org"]))
    if r["pos"] != "none":
      reg.set_style(sp.StyleProperties.Position, parse_pos(r["pos"]))
    if r["ext"] != "none":
      reg.set_style(sp.StyleProperties.Extent, parse_ext(r["ext"]))
    _apply_common(reg, r, cat)
    doc.put_region(reg)
    regions[r["id"]] = reg
  kinds = {"body": model.Body, "div": model.Div, "p": model.P, "span": model.Span, "br": model.Br}
  els = []
  for k, x in enumerate(adoc["nodes"]):
    el = kinds[x["kind"]](doc)
    if x["par"] == 0:
      doc.set_body(el)
    else:
      els[x["par"] - 1].push_child(el)
    els.append(el)
    if x["reg"] != "":
      el.set_region(regions[x["reg"]])
    _apply_common(el, x, cat)
    if x["tid"] > 0:
      el.set_id("t%d" % x["tid"])
      el.push_child(model.Text(doc, "text%d" % x["tid"]))
    else:
      el.set_id("e%d" % (k + 1))
  return doc


def _project_common(el):
  sp = _sp()
  names = [p.__name__ for p in el.iter_styles()]
  c = el.get_style(sp.StyleProperties.Color)
  b = el.get_style(sp.StyleProperties.BackgroundColor)
  t = el.get_style(sp.StyleProperties.TextAlign)
  steps = [{"p": s.style_property.__name__, "b": _tick(s.begin), "e": _tick(s.end)} for s in el.iter_animation_steps()]
  return names, {"b": _tick(el.get_begin()), "e": _tick(el.get_end()), "steps": steps,
                 "color": "none" if c is None else fmt_color(c), "bg": "none" if b is None else fmt_color(b),
                 "ta": "none" if t is None else t.value}


def _tick(t):
  if t is None:
    return -1
  v = Fraction(t) * TICK
  if v.denominator != 1:
    raise ValueError("time off the tick grid: %r" % (t,))
  return int(v)


def project(doc):
  """ContentDocument -> abstract document (dict)."""
  import ttconv.model as model
  sp = _sp()
  ini_names = []
  ini = {"color": "none", "bg": "none", "ta": "none"}
  for prop, value in doc.iter_initial_values():
    n = prop.__name__
    if n == "Color":
      ini["color"] = fmt_color(value)
    elif n == "BackgroundColor":
      ini["bg"] = fmt_color(value)
    elif n == "TextAlign":
      ini["ta"] = value.value
    else:
      ini_names.append(n)
  ini["sty"] = sorted(ini_names)
  regions = []
  for reg in doc.iter_regions():
    names, r = _project_common(reg)
    r["id"] = reg.get_id()
    wm = reg.get_style(sp.StyleProperties.WritingMode)
    da = reg.get_style(sp.StyleProperties.DisplayAlign)
    org = reg.get_style(sp.StyleProperties.Origin)
    pos = reg.get_style(sp.StyleProperties.Position)
    ext = reg.get_style(sp.StyleProperties.Extent)
    r["wm"] = "none" if wm is None else wm.value
    r["da"] = "none" if da is None else da.value
    r["org"] = "none" if org is None else fmt_org(org)
    r["pos"] = "none" if pos is None else fmt_pos(pos)
    r["ext"] = "none" if ext is None else fmt_ext(ext)
    r["sty"] = sorted(n for n in names if n not in VALUED and n not in REGION_FIELDS)
    regions.append(r)
  nodes = []

  def walk(el, par):
    if isinstance(el, model.Text):
      return
    kind = {model.Body: "body", model.Div: "div", model.P: "p", model.Span: "span", model.Br: "br"}.get(type(el))
    if kind is None:
      raise ValueError("element kind outside the abstract domain: " + type(el).__name__)
    names, x = _project_common(el)
    x["kind"] = kind
    x["par"] = par
    reg = el.get_region()
    x["reg"] = "" if reg is None else reg.get_id()
    x["sty"] = sorted(n for n in names if n not in VALUED)
    tid = 0
    if any(isinstance(c, model.Text) and c.get_text() for c in el):
      m = re.match(r"^t(\d+)$", el.get_id() or "")
      tid = int(m.group(1)) if m else 0
    x["tid"] = tid
    nodes.append(x)
    me = len(nodes)
    for c in el:
      walk(c, me)

  if doc.get_body() is not None:
    walk(doc.get_body(), 0)
  return {"init": ini, "regions": regions, "nodes": nodes}


def grid(adoc):
  """Ticks at which the presentation of the abstract document can change (absolute begin/end of every region, element and
  animation step), tick 0 and one tick after the last: between two of them every snapshot is constant."""
  ts = {0}

  def add(pb, pe, b, e):
    ab = pb + max(b, 0)
    if e == -1:
      ae = pe
    elif pe == -1:
      ae = pb + e
    else:
      ae = min(pb + e, pe)
    ts.add(ab)
    if ae != -1:
      ts.add(ae)
    return ab, ae

  for r in adoc["regions"]:
    rb, re_ = add(0, -1, r["b"], r["e"])
    for st in r["steps"]:
      add(rb, re_, st["b"], st["e"])
  ab = []
  for x in adoc["nodes"]:
    pb, pe = (0, -1) if x["par"] == 0 else ab[x["par"] - 1]
    iv = add(pb, pe, x["b"], x["e"])
    ab.append(iv)
    for st in x["steps"]:
      add(iv[0], iv[1], st["b"], st["e"])
  ts.add(max(ts) + 1)
  return sorted(t for t in ts if t >= 0)


def visible(doc, ticks):
  """What ISD.from_model shows at every tick of `ticks`: per visible text id the computed colour of its span and the computed
  background colour and text alignment of the enclosing paragraph."""
  import ttconv.model as model
  from ttconv.isd import ISD
  sp = _sp()
  out = []
  for t in ticks:
    isd = ISD.from_model(doc, Fraction(t, TICK))
    seen = []

    def walk(el, para):
      if isinstance(el, model.P):
        para = el
      if isinstance(el, model.Span) and any(isinstance(c, model.Text) and c.get_text() for c in el):
        m = re.match(r"^t(\d+)$", el.get_id() or "")
        if m:
          c = el.get_style(sp.StyleProperties.Color)
          b = para.get_style(sp.StyleProperties.BackgroundColor) if para is not None else None
          a = para.get_style(sp.StyleProperties.TextAlign) if para is not None else None
          seen.append({"tid": int(m.group(1)), "color": "none" if c is None else fmt_color(c),
                       "bg": "none" if b is None else fmt_color(b), "ta": "none" if a is None else a.value})
      for c in el:
        walk(c, para)

    for region in isd.iter_regions():
      walk(region, None)
    seen.sort(key=lambda s: s["tid"])
    out.append(seen)
  return out


# ----------------------------------------------------------------------------------------------------------------
# seeded random documents, richer than the enumerated family
# ----------------------------------------------------------------------------------------------------------------

CONTENT_STYLES = ["Direction", "FillLineGap", "FontFamily", "FontSize", "FontStyle", "FontWeight", "LineHeight", "LinePadding",
                  "MultiRowAlign", "RubyAlign", "Shear", "TextCombine", "TextDecoration", "UnicodeBidi", "WrapOption"]
REGION_STYLES = ["Disparity", "LuminanceGain", "Overflow", "Padding", "ShowBackground"]
HIDING = ["Display", "Visibility", "Opacity"]
COLORS = ["ff0000ff", "00ff00ff", "0000ffff", "ffffff80", "00000000", "c0c0c0ff"]
TAS = ["start", "center", "end"]
STEP_PROPS_CONTENT = ["Color", "BackgroundColor", "TextAlign", "FontStyle", "FontWeight", "TextDecoration"]
STEP_PROPS_REGION = ["BackgroundColor", "DisplayAlign", "Origin", "Extent", "Padding", "ShowBackground"]


def _rnd_len(rng, unit, lo, hi):
  v = rng.randint(lo, hi)
  if rng.random() < 0.15:
    v = v + 0.5
  return fmt_num(v) + unit


def _rnd_geo(rng):
  """origin / position / extent tokens in a random unit each (percent-scale magnitudes converted to the unit)."""
  def pair(kind):
    u = rng.choice(["%", "px", "c", "r"])
    if u == "%":
      return _rnd_len(rng, "%", 0, 60), _rnd_len(rng, "%", 0, 60)
    if u == "px":
      return _rnd_len(rng, "px", 0, 1100), _rnd_len(rng, "px", 0, 600)
    if u == "c":
      return _rnd_len(rng, "c", 0, 20), _rnd_len(rng, "c", 0, 9)
    return _rnd_len(rng, "rw", 0, 60), _rnd_len(rng, "rh", 0, 60)
  org = pos = ext = "none"
  r = rng.random()
  if rng.random() < 0.06:
    # the geometry that the filter itself would produce for some safe area (a document that has been through it already, or
    # an author who laid the region out over the safe area): it is still a region like any other
    sa = rng.choice([0, 5, 10, 10, 17, 30])
    org = "%s%%,%s%%" % (sa, sa)
    ext = "%s%%,%s%%" % (100 - 2 * sa, 100 - 2 * sa)
    if rng.random() < 0.3:
      pos = "left %s%% top %s%%" % (sa, sa)
    return org, pos, ext
  if r < 0.45:
    org = ",".join(pair("o"))
  elif r < 0.75:
    h, v = pair("p")
    pos = f"{rng.choice(['left', 'right'])} {h} {rng.choice(['top', 'bottom'])} {v}"
    if rng.random() < 0.3:
      org = ",".join(pair("o"))
  if rng.random() < 0.7:
    ext = ",".join(pair("e"))
  return org, pos, ext


def _rnd_steps(rng, props, hide):
  n = rng.choice([0, 0, 0, 1, 2, 3, 4])
  steps = []
  for _ in range(n):
    p = rng.choice(props + (HIDING if hide else []))
    b = rng.choice([-1, 0, 1, 2, 4])
    e = rng.choice([-1, 3, 5, 8])
    steps.append({"p": p, "b": b, "e": e})
  return steps


def _rnd_timing(rng, p=0.35):
  if rng.random() > p:
    return -1, -1
  b = rng.choice([-1, 0, 1, 2, 4])
  e = rng.choice([-1, -1, 3, 5, 8, 12])
  return b, e


def huge_doc(rng, count):
  """One division holding `count` paragraphs (a feature-length subtitle file): depth of any per-sibling recursion = count."""
  d = random_doc(rng)
  while not d["nodes"] or len([n for n in d["nodes"] if n["kind"] == "div"]) == 0:
    d = random_doc(rng)
  div = next(i for i, n in enumerate(d["nodes"], 1) if n["kind"] == "div")
  tid = max([n["tid"] for n in d["nodes"]] + [0])
  for k in range(count):
    b = 100 + 2 * k
    d["nodes"].append({"kind": "p", "par": div, "reg": "", "b": b, "e": b + 2, "sty": [], "steps": [], "tid": 0, "color": "none", "bg": "none", "ta": "none"})
    p = len(d["nodes"])
    tid += 1
    d["nodes"].append({"kind": "span", "par": p, "reg": "", "b": -1, "e": -1, "sty": [], "steps": [], "tid": tid, "color": "none", "bg": "none", "ta": "none"})
  return d


def random_doc(rng):
  hide = rng.random() < 0.12            # documents that hide content (timeline not asserted for them)
  conflict = rng.random() < 0.12        # nested references to different regions
  odd_end = rng.random() < 0.06         # a region with end = 0
  nreg = rng.choice([0, 1, 1, 2, 2, 3, 4])
  ini = {"sty": sorted(rng.sample(CONTENT_STYLES + ["Extent", "Origin", "DisplayAlign", "WritingMode"], rng.choice([0, 0, 1, 2]))),
         "color": rng.choice(["none", "none"] + COLORS), "bg": rng.choice(["none", "none", "none"] + COLORS),
         "ta": rng.choice(["none", "none"] + TAS)}
  if rng.random() < 0.04:
    ini["sty"] = sorted(set(ini["sty"]) | {"Position"})
  regions = []
  for k in range(nreg):
    org, pos, ext = _rnd_geo(rng)
    b, e = _rnd_timing(rng, 0.3)
    if odd_end and k == nreg - 1:
      b, e = -1, 0
    sty = rng.sample(REGION_STYLES, rng.choice([0, 0, 1, 2]))
    if hide and rng.random() < 0.3:
      sty.append(rng.choice(HIDING))
    regions.append({"id": "r%d" % (k + 1), "b": b, "e": e, "wm": rng.choice(["none", "none", "lrtb", "rltb", "tblr", "tbrl"]),
                    "da": rng.choice(["none", "none", "before", "center", "after"]), "org": org, "pos": pos, "ext": ext,
                    "sty": sorted(sty), "steps": _rnd_steps(rng, STEP_PROPS_REGION, hide),
                    "color": rng.choice(["none"] * 4 + COLORS), "bg": rng.choice(["none"] * 3 + COLORS),
                    "ta": rng.choice(["none"] * 3 + TAS)})
  if regions and rng.random() < 0.1:
    # a document-wide initial tts:extent, and a region that takes its extent from it while using tts:position
    ini["sty"] = sorted(set(ini["sty"]) | {"Extent"})
    victim = rng.choice(regions)
    if victim["pos"] == "none":
      donors = [_rnd_geo(rng) for _ in range(8)]
      withpos = [g[1] for g in donors if g[1] != "none"]
      if withpos:
        victim["pos"] = withpos[0]
    victim["org"] = "none"
    victim["ext"] = "none"
  nodes = []
  if nreg > 0 and rng.random() < 0.06:
    return {"init": ini, "regions": regions, "nodes": nodes}      # no body
  tid = [0]

  def node(kind, par, refp):
    b, e = _rnd_timing(rng)
    sty = rng.sample(CONTENT_STYLES, rng.choice([0, 0, 1, 2, 3]))
    if hide and rng.random() < 0.2:
      sty.append(rng.choice(HIDING))
    if rng.random() < 0.02:
      sty.append(rng.choice(["Origin", "Extent", "DisplayAlign", "Position"]))
    reg = ""
    if nreg and rng.random() < refp:
      reg = "r%d" % rng.randint(1, nreg)
    x = {"kind": kind, "par": par, "reg": reg, "b": b, "e": e, "sty": sorted(set(sty)),
         "steps": _rnd_steps(rng, STEP_PROPS_CONTENT, hide), "tid": 0,
         "color": rng.choice(["none"] * 3 + COLORS), "bg": rng.choice(["none"] * 3 + COLORS), "ta": rng.choice(["none"] * 3 + TAS)}
    nodes.append(x)
    return len(nodes)

  if rng.random() < 0.06:
    # a body without any content: its own styles, animation steps and region reference are still subject to the filter
    node("body", 0, 0.8)
    if rng.random() < 0.3:
      node("div", 1, 0.5)                # ... or with one empty division
    return {"init": ini, "regions": regions, "nodes": nodes}
  body = node("body", 0, 0.0 if rng.random() < 0.9 else 0.8)
  for _ in range(rng.randint(1, 3)):
    div = node("div", body, 0.25)
    holder = div
    if rng.random() < 0.25:
      holder = node("div", div, 0.15)
    for _ in range(rng.randint(1, 3)):
      # a reference below another reference only when the document is meant to have conflicts
      above = nodes[holder - 1]["reg"] != "" or nodes[div - 1]["reg"] != ""
      p = node("p", holder, 0.0 if (above and not conflict) else 0.7)
      if above and not conflict:
        pass
      for _ in range(rng.randint(1, 3)):
        if rng.random() < 0.08:
          # a line break - which may carry styles and animation steps of its own like any other element
          bk = node("br", p, 0.0)
          nodes[bk - 1]["b"] = nodes[bk - 1]["e"] = -1
        s = node("span", p, 0.3 if conflict else 0.0)
        if rng.random() < 0.25:
          s2 = node("span", s, 0.0)
          tid[0] += 1
          nodes[s2 - 1]["tid"] = tid[0]
          if rng.random() < 0.5:
            continue
        tid[0] += 1
        nodes[s - 1]["tid"] = tid[0]
  return {"init": ini, "regions": regions, "nodes": nodes}
