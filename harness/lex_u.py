"""Helpers of check X02 (lexical layer): TLC model configurations, drivers of the library's attribute-value parsers,
seeded generators of well-formed / near-miss values, and purely lexical feature extraction.

Nothing in this module decides whether a parser is right: drivers run the code and project what it returned to
plain integers / strings, generators only produce inputs, features only describe the input text.
"""
from __future__ import annotations

import logging
import re
from fractions import Fraction

from . import tlc as T

LIMIT = 2 ** 31 - 1


def cps(text):
  return [ord(c) for c in text]


def text_of(cp_list):
  return "".join(chr(c) for c in cp_list)


def chars(text):
  """single-character pieces"""
  return [cps(c) for c in text]


def pieces(*words):
  return [cps(w) for w in words]


# ---------------------------------------------------------------------------------------------------------------
# 1. TLC model configurations
# ---------------------------------------------------------------------------------------------------------------
LOWER = "abcdefghijklmnopqrstuvwxyz"
FW0 = "\uff10"        # FULLWIDTH DIGIT ZERO
FW1 = "\uff11"
AI5 = "\u0665"        # ARABIC-INDIC DIGIT FIVE
NBSP = "\u00a0"
EMSP = "\u2003"


def _c(gram, mode, alpha=(), junk=(), dense=0, maxlen=0, run=99, edits=0, odd=(), oddlen=0):
  return dict(gram=gram, mode=mode, alpha=list(alpha), junk=list(junk), dense=dense, maxlen=maxlen, run=run, edits=edits,
              odd=list(odd), oddlen=oddlen)


def model_configs(thorough):
  """{config id: config}; every config is one family of strings built by LexMC."""
  t = thorough
  cf = {}
  # --- time expressions
  cf["time_d"] = _c("time", "dense", chars("05:.msft -+"), dense=5 if t else 4)
  cf["time_g"] = _c("time", "guided", chars("036:.hmsft" if t else "06:.hmsft"), maxlen=13 if t else 12, run=3)
  cf["time_e"] = _c("time", "guided", chars("06:.hmsft" if t else "0:.hmsft"),
                    junk=chars("6 -+x\n" + FW0 + "HS;,e" + NBSP), maxlen=13 if t else 12, run=2, edits=1)
  # --- lengths
  cf["length_d"] = _c("length", "dense", chars("05-.px%c " + ("+e" if t else "")), dense=5 if t else 4)
  cf["length_d3"] = _c("length", "dense", chars("05+-.pxemc%rhw "), dense=4 if t else 3)
  cf["length_g"] = _c("length", "guided", chars("05+-.pxemc%rhw" + ("9" if t else "")), maxlen=9 if t else 8, run=4 if t else 3)
  cf["length_e"] = _c("length", "guided", chars("0+-.pxemc%rhw"),
                      junk=chars("5 ,P\n" + FW0 + ("E" + NBSP if t else "")), maxlen=8 if t else 6, run=2, edits=1)
  # --- colours
  cf["colour_d"] = _c("colour", "dense", chars("#0fred(,)" + ("aF" if t else "")), dense=5 if t else 4)
  cf["colour_hex"] = _c("colour", "guided", chars("#0fA9" if t else "#fA"), maxlen=10)
  cf["colour_fn"] = _c("colour", "guided", chars(LOWER + "(,)0") + pieces("255"), maxlen=22 if t else 20, run=2)
  cf["colour_e_hex"] = _c("colour", "guided", chars("#0f" if t else "#0"), junk=chars("fFg \n" + FW0 + "x"), maxlen=10, edits=1)
  cf["colour_e_fn"] = _c("colour", "guided", chars(LOWER + "(,)0"), junk=(chars(" Rx\n-" + FW0 + ".%") + pieces("255", "256", "1000")) if t else (chars(" R\n") + pieces("256")),
                         maxlen=18, run=2 if t else 1, edits=1)
  # --- font families
  cf["font_d"] = _c("font", "dense", chars("a-1 ,\"'\\\u00e9" + ("_b" if t else "")), dense=5 if t else 4)
  fams = ["a", "ab", "a b", "\"a\"", "'a b'", "\"a\\\"b\"", "serif", "\"serif\"", "-a", "a1", "\\,a", "sansSerif"]
  seps = [",", ", ", " ,", " "]
  bad = ["1a", "\"", "''", "\\"]
  cf["font_c"] = _c("font", "dense", pieces(*(fams + seps + bad)), dense=4 if t else 3)
  cf["font_g"] = _c("font", "guided", chars("ab-1 ,\"'\\_" + "\u00e9") + pieces("serif"), maxlen=5 if t else 4, run=2)
  cf["font_ser"] = _c("font", "ser")
  # --- positions (components)
  odd = pieces("\t", "  ", "", NBSP, "\n", EMSP) if t else pieces("\t", "  ", NBSP)
  pos = ["left", "top", "center", "10%", "-5px", "1x"] + (["right", "bottom", "Left"] if t else [])
  cf["position_g"] = _c("position", "guided", pieces(*pos), maxlen=4, edits=1, odd=odd, oddlen=2)
  cf["position_5"] = _c("position", "guided", pieces("left", "10%", "top", "center"), maxlen=6 if t else 5)
  # --- parameters
  cf["extent_g"] = _c("extent", "guided", pieces(*(["10px", "+5px", "2em", "10", "-1px", "5%"] + (["0px", "px"] if t else []))), maxlen=3, edits=1,
                      odd=odd, oddlen=2)
  cf["area_g"] = _c("area", "guided", pieces("0%", "100%", "101%", "5px", "50") + (pieces("+10%", "-0%") if t else []), maxlen=4,
                    edits=1, odd=odd, oddlen=3 if t else 1)
  cf["area_5"] = _c("area", "guided", pieces("0%", "100%", "5px") + (pieces("101%") if t else []), maxlen=6 if t else 5)
  for g in ("cellres", "fmult", "aspect", "dar"):
    cf[g + "_d"] = _c(g, "dense", chars("012 \tx" + ("-." if t else "")), dense=5 if t else 4)
    if g == "dar" and not t:
      continue          # same code shape as ittp:aspectRatio: the dense family is enough in the quick tier
    cf[g + "_e"] = _c(g, "guided", chars("01 \t"), junk=chars("x-.\n" + NBSP + FW1 + (",+" if t else "")), maxlen=7 if t else 5, run=2, edits=1)
  for g in ("frate", "trate"):
    cf[g + "_d"] = _c(g, "dense", chars("019 x." + ("-+" if t else "")), dense=4 if t else 3)
    cf[g + "_e"] = _c(g, "guided", chars("01"), junk=chars("x-+. \n" + FW1 + AI5), maxlen=5 if t else 4, run=4, edits=1)
  cf["space_e"] = _c("space", "guided", chars("defaultprsv"), junk=chars(" PDx\n"), maxlen=10, edits=1)
  cf["tcont_e"] = _c("tcont", "guided", chars("parseq"), junk=chars(" PSx\n"), maxlen=5, edits=1)
  return cf


# measured numbers of states (thousands) per configuration, only used to balance the parallel TLC runs
WEIGHT = {
  False: {"time_d": 16, "time_g": 3, "time_e": 10, "length_d": 7, "length_d3": 4, "length_g": 5, "length_e": 12, "colour_d": 7,
          "colour_hex": 1, "colour_fn": 2, "colour_e_hex": 1, "colour_e_fn": 30, "font_d": 7, "font_c": 8, "font_g": 8, "font_ser": 2,
          "position_g": 14, "position_5": 2, "extent_g": 4, "area_g": 6, "area_5": 1},
  True: {"time_d": 177, "time_g": 88, "time_e": 220, "length_d": 177, "length_d3": 54, "length_g": 136, "length_e": 60, "colour_d": 177,
         "colour_hex": 87, "colour_fn": 2, "colour_e_hex": 45, "colour_e_fn": 82, "font_d": 177, "font_c": 164, "font_g": 80,
         "font_ser": 66, "position_g": 100, "position_5": 7, "extent_g": 9, "area_g": 61, "area_5": 7},
}


def weight(cid, thorough):
  w = WEIGHT[thorough].get(cid)
  if w is None:
    w = {"_d": 37, "_e": 49}[cid[-2:]] if thorough else {"_d": 2, "_e": 5}[cid[-2:]]
    if cid.startswith(("frate", "trate", "space", "tcont")):
      w = 4 if thorough else 1
  return w


def ser_names(thorough):
  """names (lists of code points) of the serialisation model: all strings of 1..n characters over a small alphabet"""
  import itertools
  alphabet = "a \"'\\,"
  n = 3 if thorough else 2
  out = []
  for k in range(1, n + 1):
    for tup in itertools.product(alphabet, repeat=k):
      out.append([0, cps("".join(tup)), 1])
  out.append([1, cps("serif"), 0])
  out.append([1, cps("monospaceSansSerif"), 0])
  return out


def mc_module(name, configs, names, sermax):
  def setof(ws):
    return "{" + ", ".join(T.to_tla(w) for w in ws) + "}"
  body = ",\n  ".join(
    "%s |-> [gram |-> %s, mode |-> %s, alpha |-> %s, junk |-> %s, dense |-> %d, maxlen |-> %d, run |-> %d, edits |-> %d, "
    "odd |-> %s, oddlen |-> %d]" % (cid, T.to_tla(c["gram"]), T.to_tla(c["mode"]), setof(c["alpha"]), setof(c["junk"]),
                                    c["dense"], c["maxlen"], c["run"], c["edits"], setof(c["odd"]), c["oddlen"])
    for cid, c in configs.items())
  return ("---- MODULE %s ----\nEXTENDS LexMC\nMCCfg == [\n  %s]\nMCSerNames == %s\nMCSerMax == %d\n====\n"
          % (name, body, setof(names), sermax))


MC_CFG = """SPECIFICATION Spec
CONSTANT Cfg <- MCCfg
CONSTANT SerNames <- MCSerNames
CONSTANT SerMax <- MCSerMax
INVARIANT FormulationsAgree
INVARIANT GuideIsMachineState
INVARIANT DeadIsAbsorbing
INVARIANT TimeFacts
INVARIANT LengthFacts
INVARIANT ColourFacts
INVARIANT PositionFacts
INVARIANT FontRoundTrip
INVARIANT FontFacts
INVARIANT ParamFacts
"""

# ---------------------------------------------------------------------------------------------------------------
# 2. drivers: run the library on one string, project the result
# ---------------------------------------------------------------------------------------------------------------
# temporal contexts, the same list as Lex!Contexts: (frame rate, multiplier numerator, denominator, tick rate)
CONTEXTS = [(30, 1, 1, 10000000), (30, 1000, 1001, 1), (25, 1, 1, 90000), (30, 1, 2, 1000)]


def small(*ints):
  return all(isinstance(i, int) and abs(i) <= LIMIT for i in ints)


def frac_of_float(x):
  """the shortest decimal that denotes the float, as an exact fraction"""
  return Fraction(repr(float(x)))


class _Counter(logging.Handler):
  def __init__(self):
    super().__init__(level=logging.ERROR)
    self.n = 0

  def emit(self, record):
    record.getMessage()          # formats the record, as a real handler does: a malformed format / argument pair raises here
    self.n += 1


class Drivers:
  """Binds the parsers of the implementation under test (imported from $TTCONV_SRC)."""

  def __init__(self):
    import xml.etree.ElementTree as et
    import ttconv.imsc.utils as iu
    import ttconv.utils as u
    import ttconv.imsc.attributes as at
    import ttconv.style_properties as sp
    import ttconv.model as model
    self.et, self.iu, self.u, self.at, self.sp, self.model = et, iu, u, at, sp, model
    self.counter = _Counter()
    self.log = logging.getLogger("ttconv.imsc.attributes")

  def __enter__(self):
    self._saved = (self.log.level, self.log.propagate, self.log.disabled)
    self.log.setLevel(logging.ERROR)
    self.log.propagate = False
    self.log.disabled = False
    self.log.addHandler(self.counter)
    return self

  def __exit__(self, *a):
    self.log.removeHandler(self.counter)
    self.log.setLevel(self._saved[0])
    self.log.propagate = self._saved[1]
    self.log.disabled = self._saved[2]

  # every driver returns (acc, v, big): acc 1 accepted / 0 rejected / 2 raised something that is not a rejection
  def _call(self, fn):
    try:
      return fn()
    except ValueError:
      return 0, [], 0
    except Exception as ex:          # pylint: disable=broad-except
      return 2, [type(ex).__name__], 0

  def time(self, text, ctx):
    fr, mn, md, tick = CONTEXTS[ctx - 1]

    def go():
      v = self.iu.parse_time_expression(tick, Fraction(fr * mn, md), text)
      v = Fraction(v)
      if small(v.numerator, v.denominator):
        return 1, [v.numerator, v.denominator], 0
      return 1, [], 1
    return self._call(go)

  def _len(self, value, units):
    f = frac_of_float(value)
    if small(f.numerator, f.denominator):
      return [f.numerator, f.denominator, units if isinstance(units, str) else units.value]
    return None

  def length(self, text, ctx=0):
    def go():
      value, units = self.iu.parse_length(text)
      p = self._len(value, units)
      return (1, p, 0) if p is not None else (1, [], 1)
    return self._call(go)

  def colour(self, text, ctx=0):
    def go():
      c = self.u.parse_color(text)
      comps = [int(x) for x in c.components]
      return 1, comps, 0
    return self._call(go)

  def position(self, text, ctx=0):
    def go():
      he, ho, ve, vo = self.iu.parse_position(text)
      a = self._len(ho.value, ho.units)
      b = self._len(vo.value, vo.units)
      if a is None or b is None:
        return 1, [], 1
      return 1, [he, a, ve, b], 0
    return self._call(go)

  def font(self, text, ctx=0):
    def go():
      fams = self.iu.parse_font_families(text)
      out = []
      for f in fams:
        if isinstance(f, self.sp.GenericFontFamilyType):
          out.append([1, cps(f.value)])
        else:
          out.append([0, cps(f)])
      return 1, out, 0
    return self._call(go)

  def serialize(self, fams):
    """fams: [[gen, cps, quoted]]; returns the text written by the library"""
    items = tuple(self.sp.GenericFontFamilyType(text_of(f[1])) if f[0] == 1 else text_of(f[1]) for f in fams)
    return self.iu.serialize_font_family(items)

  def _attr(self, qn, text, extract):
    el = self.et.Element("tt")
    el.set(qn, text)
    self.counter.n = 0
    r = extract(el)
    return r, self.counter.n

  def _param(self, fn):
    try:
      return fn()
    except Exception as ex:          # pylint: disable=broad-except
      return 2, [type(ex).__name__], 0      # the extractors report and ignore bad values: nothing may escape

  def frate(self, text, ctx=0):
    def go():
      r, errs = self._attr(self.at.FrameRateAttribute.frame_rate_qn, text, self.at.FrameRateAttribute.extract)
      if errs:
        return 0, [], 0
      r = Fraction(r)
      return (1, [r.numerator], 0) if r.denominator == 1 and small(r.numerator) else (1, [], 1)
    return self._param(go)

  def fmult(self, text, ctx=0):
    def go():
      r, errs = self._attr(self.at.FrameRateAttribute.frame_rate_multiplier_qn, text, self.at.FrameRateAttribute.extract)
      if errs:
        return 0, [], 0
      r = Fraction(r) / 30
      return (1, [r.numerator, r.denominator], 0) if small(r.numerator, r.denominator) else (1, [], 1)
    return self._param(go)

  def trate(self, text, ctx=0):
    def go():
      r, errs = self._attr(self.at.TickRateAttribute.qn, text, self.at.TickRateAttribute.extract)
      if errs:
        return 0, [], 0
      r = Fraction(r)
      return (1, [r.numerator], 0) if r.denominator == 1 and small(r.numerator) else (1, [], 1)
    return self._param(go)

  def cellres(self, text, ctx=0):
    def go():
      r, errs = self._attr(self.at.CellResolutionAttribute.qn, text, self.at.CellResolutionAttribute.extract)
      if errs:
        return 0, [], 0
      return (1, [r.columns, r.rows], 0) if small(r.columns, r.rows) else (1, [], 1)
    return self._param(go)

  def _ratio(self, cls, text):
    def go():
      r, errs = self._attr(cls.qn, text, cls.extract)
      if errs or r is None:
        return 0, [], 0
      r = Fraction(r)
      return (1, [r.numerator, r.denominator], 0) if small(r.numerator, r.denominator) else (1, [], 1)
    return self._param(go)

  def aspect(self, text, ctx=0):
    return self._ratio(self.at.AspectRatioAttribute, text)

  def dar(self, text, ctx=0):
    return self._ratio(self.at.DisplayAspectRatioAttribute, text)

  def extent(self, text, ctx=0):
    def go():
      r, errs = self._attr(self.at.ExtentAttribute.qn, text, self.at.ExtentAttribute.extract)
      if errs or r is None:
        return 0, [], 0
      return (1, [int(r.width), int(r.height)], 0) if small(int(r.width), int(r.height)) else (1, [], 1)
    return self._param(go)

  def area(self, text, ctx=0):
    def go():
      r, errs = self._attr(self.at.ActiveAreaAttribute.qn, text, self.at.ActiveAreaAttribute.extract)
      if errs or r is None:
        return 0, [], 0
      out = []
      for x in (r.left_offset, r.top_offset, r.width, r.height):
        f = frac_of_float(round(x * 100, 6))          # the library stores fractions of 1 as floats: per cent, to 1e-6
        if not small(f.numerator, f.denominator):
          return 1, [], 1
        out.append([f.numerator, f.denominator])
      return 1, out, 0
    return self._param(go)

  def space(self, text, ctx=0):
    def go():
      r, errs = self._attr(self.at.XMLSpaceAttribute.qn, text, self.at.XMLSpaceAttribute.extract)
      if errs or r is None:
        return 0, [], 0
      return 1, [1 if r is self.model.WhiteSpaceHandling.PRESERVE else 0], 0
    return self._param(go)

  def tcont(self, text, ctx=0):
    def go():
      r, errs = self._attr(self.at.TimeContainerAttribute.qn, text, self.at.TimeContainerAttribute.extract)
      if errs:
        return 0, [], 0
      return 1, [1 if r.is_seq() else 0], 0
    return self._param(go)

  def run(self, gram, text, ctx=0):
    return getattr(self, gram)(text, ctx)


def time_contexts(text):
  """which temporal contexts can matter for this text (purely lexical): frames, ticks"""
  if text.count(":") >= 3 or re.search(r"[ftFT]\s*$", text):
    return [1, 2, 3, 4]
  return [1]


# ---------------------------------------------------------------------------------------------------------------
# 3. seeded generators: well-formed values of every shape of the grammars, and near misses of them
# ---------------------------------------------------------------------------------------------------------------
ASCII_DIGITS = "0123456789"
ODD_DIGITS = [FW0, FW1, "\uff15", AI5, "\u0967", "\u00b2", "\u2460"]    # Nd: fullwidth, Arabic-Indic, Devanagari; No: superscript two, circled one
SPACES = [" ", "\t", "\n", "\r", NBSP, EMSP, "  "]


def digits(rng, lo, hi, lead_zero=None):
  n = rng.randint(lo, hi)
  s = "".join(rng.choice(ASCII_DIGITS) for _ in range(n))
  if lead_zero is True:
    s = "0" * rng.randint(1, 3) + s
  return s


def natural(rng):
  """digit strings of assorted magnitude"""
  k = rng.random()
  if k < 0.35:
    return str(rng.randint(0, 9))
  if k < 0.6:
    return str(rng.randint(10, 999))
  if k < 0.75:
    return "0" * rng.randint(1, 4) + str(rng.randint(0, 999))
  if k < 0.9:
    return str(rng.randint(1000, 99999999))
  return digits(rng, 10, 24)


def mutate(rng, text, extra=()):
  """one near-miss edit of a text; returns (text, tag)"""
  ops = ["lead_ws", "trail_ws", "inner_ws", "trail_junk", "lead_sign", "odd_digit", "upper", "drop", "dup", "swap",
         "comma_dot", "exp", "newline", "insert_ws_digit"] + list(extra)
  op = rng.choice(ops)
  n = len(text)
  if op == "lead_ws":
    return rng.choice(SPACES) + text, op
  if op == "trail_ws":
    return text + rng.choice(SPACES), op
  if op == "newline":
    return text + "\n", op
  if op == "inner_ws" and n > 1:
    i = rng.randint(1, n - 1)
    return text[:i] + rng.choice(SPACES) + text[i:], op
  if op == "trail_junk":
    return text + rng.choice(["x", ";", "0", ".", ",", "s", "px", "%", ")", "\u200b"]), op
  if op == "lead_sign":
    return rng.choice("+-") + text, op
  if op == "odd_digit":
    idx = [i for i, c in enumerate(text) if c in ASCII_DIGITS]
    if idx:
      i = rng.choice(idx)
      return text[:i] + rng.choice(ODD_DIGITS) + text[i + 1:], op
  if op == "upper":
    idx = [i for i, c in enumerate(text) if c.isalpha() and c.islower()]
    if idx:
      if rng.random() < 0.5:
        return text.upper(), "upper_all"
      i = rng.choice(idx)
      return text[:i] + text[i].upper() + text[i + 1:], op
  if op == "drop" and n > 1:
    i = rng.randint(0, n - 1)
    return text[:i] + text[i + 1:], op
  if op == "dup" and n > 0:
    i = rng.randint(0, n - 1)
    return text[:i] + text[i] + text[i:], op
  if op == "swap" and n > 1:
    i = rng.randint(0, n - 2)
    return text[:i] + text[i + 1] + text[i] + text[i + 2:], op
  if op == "comma_dot" and "." in text:
    return text.replace(".", ",", 1), op
  if op == "exp":
    idx = [i for i, c in enumerate(text) if c in ASCII_DIGITS]
    if idx:
      i = max(idx) + 1
      return text[:i] + rng.choice(["e3", "E2", "e-1", "e+2"]) + text[i:], op
  if op == "insert_ws_digit":
    idx = [i for i, c in enumerate(text) if c in ASCII_DIGITS]
    if idx:
      i = rng.choice(idx)
      return text[:i] + " " + text[i:], op
  if op == "semicolon" and ":" in text:
    i = text.rindex(":")
    return text[:i] + ";" + text[i + 1:], op
  if op == "srt_comma" and "." in text:
    return text.replace(".", ",", 1), op
  if op == "no_paren":
    return text.replace(")", "", 1), op
  if op == "pct_comp":
    return re.sub(r"(\d+)", r"\1%", text, count=1), op
  if op == "neg_comp":
    return re.sub(r"(\d+)", r"-\1", text, count=1), op
  if op == "dec_comp":
    return re.sub(r"(\d+)", r"\1.0", text, count=1), op
  if op == "inner_comma_ws" and "," in text:
    i = rng.choice([m.start() for m in re.finditer(",", text)])
    w = rng.choice([" ", "  ", "\t"])
    return (text[:i] + w + text[i:], op + "_before") if rng.random() < 0.5 else (text[:i + 1] + w + text[i + 1:], op + "_after")
  if op == "paren_ws" and "(" in text:
    i = text.index("(")
    return (text[:i + 1] + " " + text[i + 1:], op + "_open") if rng.random() < 0.5 else (text.replace(")", " )", 1), op + "_close")
  return text + "x", "trail_junk"


def gen_time(rng):
  """(text, shape tag)"""
  k = rng.random()
  two = lambda hi: "%02d" % rng.randint(0, hi)
  if k < 0.5:
    hk = rng.random()
    hours = two(99) if hk < 0.6 else ("%03d" % rng.randint(0, 999) if hk < 0.8 else digits(rng, 3, 12))
    mm = two(59) if rng.random() < 0.85 else rng.choice(["59", "60", "61", "99"])
    ss = two(59) if rng.random() < 0.8 else rng.choice(["59", "60", "61", "99"])
    base = "%s:%s:%s" % (hours, mm, ss)
    f = rng.random()
    if f < 0.3:
      return base, "clock"
    if f < 0.6:
      fr = digits(rng, 1, 9) if rng.random() < 0.8 else digits(rng, 10, 14)
      if rng.random() < 0.2:
        fr = "0" * rng.randint(1, 6)
      return base + "." + fr, "clock_fraction"
    frames = rng.choice(["00", "01", "24", "25", "29", "30", "31", "23", "59", "99", "029", "030", "0029", "100", "0000000029",
                         "%02d" % rng.randint(0, 40)])
    if f < 0.88:
      return base + ":" + frames, "clock_frames"
    return base + ":" + frames + "." + rng.choice(["0", "00", "1", "5", "000", "01"]), "clock_subframes"
  metric = rng.choice(["h", "m", "s", "ms", "f", "t"])
  count = natural(rng)
  if rng.random() < 0.5:
    count += "." + (digits(rng, 1, 9) if rng.random() < 0.85 else digits(rng, 10, 14))
  return count + metric, "offset_" + metric


def near_time(rng):
  text, shape = gen_time(rng)
  k = rng.random()
  if k < 0.25:
    # structural near misses of the clock / offset shapes
    alts = ["1:02:03", "01:2:03", "01:02:3", "01:02:03:4", "001:02:03", "01:002:03", "01:02:003", "01:02", "01:02:03:", "01:02:03.",
            ":02:03", "01::03", "01:02:03:04:05", "01:02:03.4:05", "01:02:03:04.", "01:02:03:04.5.6", ".5s", "5.s", "5", "5.5", "s", "5ss",
            "5sm", "5 s", "5S", "5H", "5M", "5MS", "5Ms", "5F", "5T", "5min", "5sec", "5hr", "5us", "5d", "5m5s", "1h30m", "-5s", "+5s",
            "5e3s", "1,5s", "0x10s", "5.5.5s", "5..5s", "01:02:03,500", "01:02:03;04", "01.02.03", "01:02:03.5s", "01:02:03s", "1e1:00:00",
            "wallclock(01:02:03)", "now", "indefinite", "", " ", "00:00:00:00.0", "00:00:00:29.00", "00:00:60", "00:00:60.0", "00:00:60.5",
            "00:60:00", "24:00:00", "100:00:00", "00:00:00:30", "00:00:00:29", "00:00:00:24", "00:00:00:25", "00:00:59.999999999",
            "\uff10\uff11:00:00", "0\u0661:00:00", "1\u0660s", "\u0665s", "5\uff53", "10f\n", "10t\n", "10s\n", "00:00:01\n", "00:00:01:02\n",
            "10f ", "10fx", "10.5f", "10.5t", "0f", "0t", "007f", "3600000ms", "0.001ms", "1.5h", "0.5m", "2.25s"]
    return rng.choice(alts), "fixed"
  if k < 0.6:
    t, tag = mutate(rng, text, extra=("semicolon", "srt_comma"))
    return t, shape + "+" + tag
  return text, shape


def gen_number(rng):
  k = rng.random()
  if k < 0.3:
    return natural(rng)
  if k < 0.6:
    return natural(rng) + "." + digits(rng, 1, 6)
  if k < 0.7:
    return "." + digits(rng, 1, 9)
  if k < 0.8:
    return str(rng.randint(0, 99)) + "." + digits(rng, 7, 12)
  if k < 0.9:
    return str(rng.randint(0, 2000))
  return rng.choice(["0", "00", "0.0", ".0", "000.000", "1.50", "100", "1", "12.5", "0.125"])


def gen_length(rng):
  sign = rng.choice(["", "", "", "+", "-"])
  unit = rng.choice(["px", "em", "c", "%", "rh", "rw"])
  return sign + gen_number(rng) + unit, "length_" + unit


def near_length(rng):
  text, shape = gen_length(rng)
  k = rng.random()
  if k < 0.2:
    alts = ["px", "+px", "-%", ".px", "1.px", "1.", "1", "1.5", "+", "-", "", " ", "1 px", " 1px", "1px ", "1px\n", "1PX", "1Px", "1EM", "1C",
            "1pt", "1cm", "1mm", "1in", "1vh", "1vw", "1rem", "1ex", "1r", "1rhw", "1pxpx", "1%%", "1e2px", "1E2%", "1e-2em", "1,5px", "1_000px",
            "--1px", "+-1px", "1+px", "0x10px", "\uff11px", "\uff11\uff10%", "1\u0660c", "\u0665em", "1.\uff15px", "\u00b2px", "1.5.5px",
            "1..5px", "inf%", "nan%", "infinitypx", "1px;", "auto", "10 px", "10% ", "-0px", "+0%", "-.5em", "+.5c", "00012.500rh", "1e5", "1rw\n"]
    return rng.choice(alts), "fixed"
  if k < 0.55:
    t, tag = mutate(rng, text)
    return t, shape + "+" + tag
  return text, shape


NAMED = ["transparent", "black", "silver", "gray", "white", "maroon", "red", "purple", "fuchsia", "magenta", "green", "lime", "olive",
         "yellow", "navy", "blue", "teal", "aqua", "cyan"]
HEXD = "0123456789abcdefABCDEF"


def comp(rng):
  k = rng.random()
  if k < 0.5:
    return str(rng.randint(0, 255))
  if k < 0.65:
    return rng.choice(["0", "255", "254", "128", "1"])
  if k < 0.8:
    return "0" * rng.randint(1, 8) + str(rng.randint(0, 255))
  if k < 0.9:
    return rng.choice(["256", "257", "300", "999", "1000", "65535"])
  return "0" * rng.randint(10, 20) + str(rng.randint(0, 255))


def gen_colour(rng):
  k = rng.random()
  if k < 0.25:
    return "#" + "".join(rng.choice(HEXD) for _ in range(6)), "hex6"
  if k < 0.45:
    return "#" + "".join(rng.choice(HEXD) for _ in range(8)), "hex8"
  if k < 0.65:
    return "rgb(%s,%s,%s)" % (comp(rng), comp(rng), comp(rng)), "rgb"
  if k < 0.85:
    return "rgba(%s,%s,%s,%s)" % (comp(rng), comp(rng), comp(rng), comp(rng)), "rgba"
  return rng.choice(NAMED), "named"


def near_colour(rng):
  text, shape = gen_colour(rng)
  k = rng.random()
  if k < 0.2:
    alts = ["#fff", "#ffff", "#fffff", "#fffffff", "#fffffffff", "#", "#gggggg", "#12345g", "ffffff", "0xffffff", "# ffffff", "#ffffff ",
            "#ffffff\n", "#ffffffff\n", "#FFFFFF", "#FfFfFf80", "rgb(1,2)", "rgb(1,2,3,4)", "rgba(1,2,3)", "rgba(1,2,3,4,5)", "rgb()", "rgb(,,)",
            "rgb(1,2,3", "rgb1,2,3)", "rgb (1,2,3)", "rgb( 1,2,3)", "rgb(1 ,2,3)", "rgb(1, 2,3)", "rgb(1,2 ,3)", "rgb(1,2, 3)", "rgb(1,2,3 )",
            "rgba( 1,2,3,4)", "rgba(1 ,2,3,4)", "rgba(1, 2,3,4)", "rgba(1,2 ,3,4)", "rgba(1,2, 3,4)", "rgba(1,2,3 ,4)", "rgba(1,2,3, 4)",
            "rgba(1,2,3,4 )", "rgb(\t1,2,3)", "rgb(1,\n2,3)", "RGB(1,2,3)", "Rgb(1,2,3)", "RGBA(1,2,3,4)", "rgbA(1,2,3,4)", "rgb(1,2,3)\n",
            "rgba(1,2,3,4)\n", "rgb(1,2,3);", "rgb(100%,0%,0%)", "rgb(-1,2,3)", "rgb(+1,2,3)", "rgb(1.0,2,3)", "rgb(1e1,2,3)", "rgb(0x10,2,3)",
            "rgb(256,0,0)", "rgb(0,256,0)", "rgb(0,0,256)", "rgba(0,0,0,256)", "rgba(0,0,0,0.5)", "rgba(0,0,0,1.0)", "rgb(\uff11,2,3)",
            "rgb(1,\u0662,3)", "#\uff11\uff11\uff11\uff11\uff11\uff11", "hsl(0,0,0)", "red", "Red", "RED", "rEd", " red", "red ", "red\n", "grey",
            "orange", "pink", "brown", "darkred", "lightgray", "Transparent", "WHITE", "currentColor", "inherit", "", " ", "aqua", "cyan",
            "fuchsia", "magenta", "windowtext"]
    return rng.choice(alts), "fixed"
  if k < 0.55:
    t, tag = mutate(rng, text, extra=("no_paren", "pct_comp", "neg_comp", "dec_comp", "inner_comma_ws", "paren_ws", "inner_comma_ws",
                                      "paren_ws"))
    return t, shape + "+" + tag
  return text, shape


GENERIC = ["default", "monospace", "sansSerif", "serif", "monospaceSansSerif", "monospaceSerif", "proportionalSansSerif", "proportionalSerif"]
WORDS = ["Arial", "Helvetica", "Times", "New", "Roman", "Noto", "Sans", "CJK", "JP", "a", "B", "x1", "_u", "-moz", "f-g", "\u00e9t\u00e9",
         "\u30d2\u30e9\u30ae\u30ce", "Courier", "serif", "Serif", "SERIF", "sansserif", "Mono9", "z"]


def gen_family(rng):
  """(text, tag)"""
  k = rng.random()
  if k < 0.25:
    return rng.choice(GENERIC), "generic"
  if k < 0.5:
    n = rng.choice([1, 1, 2, 3])
    ws = [rng.choice(WORDS) for _ in range(n)]
    sep = " " if rng.random() < 0.85 else rng.choice(["  ", "\t", " \n "])
    tag = "unquoted1" if n == 1 else ("unquoted_n" if sep == " " else "unquoted_ws")
    if n == 1 and len(ws[0]) == 1:
      tag = "unquoted_single_char"
    return sep.join(ws), tag
  if k < 0.6:
    w = rng.choice(["a\\ b", "\\31 x", "x\\,y", "a\\\\b", "\\\"q", "\\'q", "se\\rif", "\\-a", "a\\"])
    return w, "unquoted_escape"
  q = rng.choice("\"'")
  body = rng.choice(["Arial", "Times New Roman", "a", " ", "a,b", "x  y", "serif", "default", "it's" if q == "\"" else "say \"hi\"",
                     "a\\%sb" % q, "a\\\\", "\\\\", "a\\\\b", "tab\there", "\u00e9", "1st", "-", "a\\ b", "trailing "])
  return q + body + q, ("quoted_escape" if "\\" in body else "quoted")


def gen_font(rng):
  n = rng.choice([1, 1, 2, 2, 3, 4])
  parts = []
  tags = []
  for i in range(n):
    f, tag = gen_family(rng)
    tags.append(tag)
    if i > 0:
      parts.append(rng.choice([",", ", ", ", ", " ,", " , ", ",  ", "\t,\n"]))
    parts.append(f)
  return "".join(parts), "+".join(sorted(set(tags)))


def near_font(rng):
  text, shape = gen_font(rng)
  k = rng.random()
  if k < 0.2:
    alts = ["", " ", ",", "a,", ",a", "a,,b", "a, ,b", "\"\"", "''", "\"a", "a\"", "'a", "\"a'", "1a", "-1a", "--a", "-", "a b,", "a;b", "a/b",
            "a.b", "a+b", "a!b", "(a)", "a,\"b", "\"a\"b", "\"a\" b", "\"a\"\"b\"", "a \"b\"", "\"a\",b", "serif,", "serif serif", "\"serif\"",
            "'serif'", "Serif", "sans-serif", "sansSerif", "sansserif", "monospace, serif", "a", "a, b", "ab", "a b", "\u00e9", "\u00e9\u00e9",
            "_a", "a_", "a-", "a1", "\\a", "\\1", "a\\", "\\", "\"a\\\"", "\"a\\\\\"", "\"a\\\\\", \"b\"", "'a\\\\', 'b'", "\"\\\"\"", "Arial ",
            " Arial", "Arial , serif", "serif , Arial", "Arial,serif", "Arial\n", "Arial\t,serif", "\"Arial\" ", " \"Arial\"", "\"Arial\"\n",
            "\"x\" , \"y\"", "a  b", "a\tb", "default", "monospaceSansSerif , a"]
    return rng.choice(alts), "fixed"
  if k < 0.45:
    t, tag = mutate(rng, text)
    return t, shape + "+" + tag
  return text, shape


def gen_ser(rng):
  """a list of families for the serialiser: [[gen, cps, quoted]]"""
  n = rng.choice([1, 1, 2, 3])
  out = []
  for _ in range(n):
    if rng.random() < 0.25:
      out.append([1, cps(rng.choice(GENERIC)), 0])
    else:
      name = rng.choice(["Arial", "Times New Roman", "a", "a\"b", "a'b", "a\\", "\\", "a\\b", "\\\"", "a,b", " a ", "serif", "\u00e9", "a\\\\",
                         "x  y", "\"", "'", ",", "a\\\"", "tab\t", "1"])
      out.append([0, cps(name), 1])
  return out


def pos_component(rng):
  k = rng.random()
  if k < 0.55:
    return rng.choice(["left", "right", "top", "bottom", "center"])
  if k < 0.9:
    return gen_length(rng)[0]
  return rng.choice(["Left", "middle", "centre", "10", "%", "start", "end", "0", "auto", "1e1%", "\uff11%"])


def gen_position(rng):
  shapes = [
    ["hk"], ["len"], ["vk"], ["hk", "vk"], ["hk", "len"], ["len", "vk"], ["len", "len"], ["center", "center"], ["vk", "hk"],
    ["center", "hk"], ["vk", "center"], ["hk", "center"], ["center", "vk"], ["hk", "vk", "len"], ["center", "vk", "len"],
    ["vk", "hk", "len"], ["center", "hk", "len"], ["hk", "len", "vk"], ["hk", "len", "center"], ["vk", "len", "hk"],
    ["vk", "len", "center"], ["hk", "len", "vk", "len"], ["vk", "len", "hk", "len"]]
  sh = rng.choice(shapes)
  out = []
  for x in sh:
    if x == "hk":
      out.append(rng.choice(["left", "right"]))
    elif x == "vk":
      out.append(rng.choice(["top", "bottom"]))
    elif x == "len":
      out.append(gen_length(rng)[0])
    else:
      out.append("center")
  return out, "-".join(sh)


def near_position(rng):
  comps, shape = gen_position(rng)
  k = rng.random()
  sep = " "
  tag = shape
  if k < 0.3:
    n = rng.choice([0, 1, 2, 2, 3, 3, 4, 4, 5, 6])
    comps = [pos_component(rng) for _ in range(n)]
    tag = "random%d" % n
  elif k < 0.4:
    rng.shuffle(comps)
    tag = shape + "+shuffled"
  elif k < 0.5 and comps:
    i = rng.randrange(len(comps))
    comps[i] = pos_component(rng)
    tag = shape + "+replaced"
  text = sep.join(comps)
  k = rng.random()
  if k < 0.06:
    return " " + text, tag + "+lead_ws"
  if k < 0.12:
    return text + rng.choice([" ", "\n"]), tag + "+trail_ws"
  if k < 0.25 and len(comps) > 1:
    w = rng.choice(["  ", "\t", "\n", "\r\n", NBSP, EMSP, " \t "])
    return w.join(comps), tag + ("+odd_ws" if w in (NBSP, EMSP) else "+lwsp")
  if k < 0.28 and len(comps) > 1:
    return "".join(comps), tag + "+glued"
  if k < 0.31:
    return text.upper(), tag + "+upper"
  return text, tag


def gen_nat(rng):
  k = rng.random()
  if k < 0.6:
    return natural(rng), "nat"
  alts = ["0", "00", "000", "1", "30", "030", "24", "25", "60", "1000", "10000000", "90000", "+30", "-30", "30.0", "30 ", " 30", "30\n", "3 0",
          "30fps", "30/1", "1e3", "0x1e", "", " ", "\uff13\uff10", "3\u0660", "\u00b2", "29.97", "30,0", "1_000", "30\t", "auto"]
  return rng.choice(alts), "fixed"


def gen_pair(rng):
  k = rng.random()
  a, b = natural(rng), natural(rng)
  if k < 0.45:
    return a + " " + b, "pair"
  if k < 0.6:
    return a + rng.choice(["  ", "\t", "\n", " \t", "\r\n", "   "]) + b, "pair_lwsp"
  if k < 0.66:
    return a + rng.choice([NBSP, EMSP, ",", "/", ":", "x", ""]) + b, "pair_odd_sep"
  if k < 0.85:
    t, tag = mutate(rng, a + " " + b)
    return t, "pair+" + tag
  alts = ["32 15", "1000 1001", "1001 1000", "16 9", "4 3", "0 15", "32 0", "0 0", "00 00", "032 015", "1 1", "999 1000", "16 9 ", " 16 9",
          "16 9\n", "16 9x", "16 9 1", "16", "16 ", " ", "", "16:9", "16/9", "1.78 1", "16 9.0", "+16 9", "16 -9", "\uff11\uff16 \uff19",
          "1\u0666 9", "16 9junk", "16  9", "16\t9", "1 2 3", "a b"]
  return rng.choice(alts), "fixed"


def gen_extent(rng):
  k = rng.random()
  w, h = str(rng.randint(1, 4000)), str(rng.randint(1, 4000))
  if k < 0.35:
    return "%spx %spx" % (w, h), "extent"
  if k < 0.45:
    return "%spx%s%spx" % (w, rng.choice(["  ", "\t", "\n", " \t"]), h), "extent_lwsp"
  if k < 0.5:
    return "%spx%s%spx" % (w, rng.choice([NBSP, EMSP, ",", ""]), h), "extent_odd_sep"
  if k < 0.7:
    t, tag = mutate(rng, "%spx %spx" % (w, h))
    return t, "extent+" + tag
  alts = ["1920px 1080px", "+1920px +1080px", "01920px 001080px", "1920px", "1920px 1080px 1px", "1920 1080", "1920px 1080", "1920em 1080em",
          "100% 100%", "1920px 1080em", "1920c 1080c", "auto", "contain", "", " ", "1920px,1080px", "1920pxx1080px", "1920PX 1080PX",
          "1920px 1080px ", " 1920px 1080px", "1920px 1080px\n", "\uff11\uff19\uff12\uff10px 1080px", "1e3px 1e3px", "10rw 10rh"]
  return rng.choice(alts), "fixed"


def gen_area(rng):
  def pct():
    k = rng.random()
    if k < 0.6:
      return str(rng.randint(0, 100))
    if k < 0.75:
      return str(rng.randint(0, 99)) + rng.choice([".5", ".25", ".75", ".0", ".125"])
    if k < 0.85:
      return "0" * rng.randint(1, 3) + str(rng.randint(0, 100))
    return rng.choice(["100", "0", "101", "100.5", "200", "1000"])
  comps = [pct() + "%" for _ in range(4)]
  k = rng.random()
  if k < 0.4:
    return " ".join(comps), "area"
  if k < 0.5:
    return rng.choice(["  ", "\t", "\n", " \t"]).join(comps), "area_lwsp"
  if k < 0.55:
    return rng.choice([NBSP, EMSP, ","]).join(comps), "area_odd_sep"
  if k < 0.62:
    n = rng.choice([0, 1, 2, 3, 5, 6])
    return " ".join((comps * 2)[:n]), "area_count%d" % n
  if k < 0.8:
    t, tag = mutate(rng, " ".join(comps))
    return t, "area+" + tag
  alts = ["0% 0% 100% 100%", "10% 10% 80% 80%", "10 10 80 80", "10px 10px 80px 80px", "10% 10% 80% 80px", "-10% 10% 80% 80%", "+10% 10% 80% 80%",
          "10% 10% 80% 101%", "10% 10% 80% 80% ", " 10% 10% 80% 80%", "10% 10% 80% 80%\n", "12.5% 12.5% 75% 75%", ".5% .5% 99% 99%",
          "\uff11\uff10% 10% 80% 80%", "1e1% 10% 80% 80%", "10%,10%,80%,80%", "-0% 0% 100% 100%"]
  return rng.choice(alts), "fixed"


def gen_enum(rng, words):
  k = rng.random()
  if k < 0.4:
    return rng.choice(words), "enum"
  if k < 0.8:
    t, tag = mutate(rng, rng.choice(words))
    return t, "enum+" + tag
  return rng.choice(["", " ", "true", "false", "none", "auto", "Default", "PRESERVE", "Par", "SEQ", "excl", "default preserve", "par seq",
                     "preserved", "defaults", "parr", "se"]), "fixed"


def generate(rng, gram):
  if gram == "time":
    return near_time(rng)
  if gram == "length":
    return near_length(rng)
  if gram == "colour":
    return near_colour(rng)
  if gram == "font":
    return near_font(rng)
  if gram == "position":
    return near_position(rng)
  if gram in ("frate", "trate"):
    return gen_nat(rng)
  if gram in ("cellres", "fmult", "aspect", "dar"):
    return gen_pair(rng)
  if gram == "extent":
    return gen_extent(rng)
  if gram == "area":
    return gen_area(rng)
  if gram == "space":
    return gen_enum(rng, ["default", "preserve"])
  if gram == "tcont":
    return gen_enum(rng, ["par", "seq"])
  raise KeyError(gram)


GRAMMARS = ["time", "length", "colour", "font", "position", "frate", "trate", "cellres", "fmult", "aspect", "dar", "extent", "area",
            "space", "tcont"]

# ---------------------------------------------------------------------------------------------------------------
# 4. lexical features of an input (for grouping violations and for the selectors of known findings)
#    Facts about the *text* only - never about what the parser did, never a verdict.
# ---------------------------------------------------------------------------------------------------------------
XML_WS = " \t\n\r"
_NUM = r"(?:[0-9]+|[0-9]*\.[0-9]+)"
_LEN = r"[+-]?%s(?:px|em|c|%%|rh|rw)" % _NUM
_LEN_RE = re.compile(_LEN)
_CLOCK_RE = re.compile(r"([0-9]{2,}):([0-9]{2}):([0-9]{2})(?:\.([0-9]+)|:([0-9]{2,})(?:\.([0-9]+))?)?")
_OFFSET_RE = re.compile(r"[0-9]+(?:\.[0-9]+)?(?:h|m|s|ms|f|t)")
_HEX_RE = re.compile(r"#(?:[0-9a-fA-F]{6}|[0-9a-fA-F]{8})")
_FN_RE = re.compile(r"rgb\(([0-9]+),([0-9]+),([0-9]+)\)|rgba\(([0-9]+),([0-9]+),([0-9]+),([0-9]+)\)")


def ascii_digits(text):
  """every non-ASCII decimal digit (category Nd) replaced by the ASCII digit of the same value"""
  import unicodedata
  out = []
  for c in text:
    d = unicodedata.decimal(c, None) if ord(c) > 127 else None
    out.append(str(d) if d is not None else c)
  return "".join(out)


def features(gram, text):
  import unicodedata
  f = {"gram": gram, "length": len(text)}
  f["odd_digit"] = any(ord(c) > 127 and unicodedata.decimal(c, None) is not None for c in text)
  f["trailing_newline"] = text.endswith("\n") and "\n" not in text[:-1]
  # the text without one final newline, with foreign decimal digits replaced: what the remaining facts describe
  strip = f["trailing_newline"] and gram in ("time", "length", "colour", "extent", "area")
  core = ascii_digits(text[:-1] if strip else text)
  f["lead_ws"] = core[:1].isspace()
  f["trail_ws"] = core[-1:].isspace()
  f["non_xml_ws"] = any(c.isspace() and c not in XML_WS for c in core)
  f["upper"] = any(c.isupper() for c in core)
  f["empty"] = text == ""
  if gram == "time":
    m = _CLOCK_RE.fullmatch(core)
    shape = "none"
    f["minutes_over_59"] = f["seconds_over_60"] = f["subframes_zero"] = False
    f["frames"] = -1
    if m:
      shape = "clock" if m.group(4) is None and m.group(5) is None else "clock_fraction" if m.group(4) is not None else \
        "clock_frames" if m.group(6) is None else "clock_subframes"
      f["minutes_over_59"] = int(m.group(2)) > 59
      f["seconds_over_60"] = int(m.group(3)) > 60 or (int(m.group(3)) == 60 and m.group(4) is not None and int(m.group(4)) != 0)
      f["frames"] = min(int(m.group(5)), 1000) if m.group(5) is not None else -1
      f["subframes_zero"] = m.group(6) is not None and int(m.group(6)) == 0
    elif _OFFSET_RE.fullmatch(core):
      shape = "offset"
    f["core_shape"] = shape
  elif gram == "length":
    f["core_ok"] = bool(_LEN_RE.fullmatch(core))
  elif gram == "colour":
    squeezed = "".join(c for c in core if not c.isspace())
    m = _FN_RE.fullmatch(squeezed)
    if _HEX_RE.fullmatch(core) or core in NAMED or (_FN_RE.fullmatch(core) and all(int(x) <= 255 for x in _FN_RE.fullmatch(core).groups() if x)):
      cls = "strict"
    elif core.lower() in NAMED:
      cls = "named_ci"
    elif m and squeezed != core and all(int(x) <= 255 for x in m.groups() if x) and core[:4] in ("rgb(", "rgba") and core.endswith(")"):
      cls = "fn_ws"
    else:
      cls = "none"
    f["core_class"] = cls
  elif gram == "font":
    f.update(font_features(core))
  elif gram in ("position", "extent", "area"):
    toks = core.split()
    f["components"] = len(toks)
    f["single_spaces"] = core == " ".join(toks)
    f["lwsp_only"] = all(c in XML_WS for c in core if c.isspace())
    f["inner_lwsp_only"] = f["lwsp_only"] and not f["lead_ws"] and not f["trail_ws"]
    kinds = []
    for tk in toks:
      kinds.append("H" if tk in ("left", "right") else "V" if tk in ("top", "bottom") else "C" if tk == "center"
                   else "L" if _LEN_RE.fullmatch(tk) else "X")
    f["kinds"] = "".join(kinds)
    f["units"] = "".join(sorted(set(re.sub(r"^[+-]?[0-9.]*", "", tk) for tk in toks if _LEN_RE.fullmatch(tk))))
  elif gram in ("cellres", "fmult", "aspect", "dar"):
    m = re.fullmatch(r"([0-9]+)([ \t\n\r]+)([0-9]+)", core)
    f["pair_lwsp"] = bool(m)                                  # digits LWSP digits
    f["pair_full"] = bool(m) and m.group(2) == " "            # digits SPACE digits
    f["zero_component"] = bool(m) and (int(m.group(1)) == 0 or int(m.group(3)) == 0)
    f["pair_prefix"] = bool(re.match(r"[0-9]+ [0-9]+", core)) and not f["pair_full"]
  return f


_ID_START = r"(?:[_a-zA-Z\u00a0-\U0010ffff]|\\.)"
_ID_FOLLOW = r"(?:[_a-zA-Z0-9\u00a0-\U0010ffff-]|\\.)"
_IDENT = r"-?%s%s*" % (_ID_START, _ID_FOLLOW)
_UNQ = r"%s(?:[ \t\n\r]+%s)*" % (_IDENT, _IDENT)
_DQ = r"\"(?:[^\"\\]|\\.)+\""
_SQ = r"'(?:[^'\\]|\\.)+'"
_FAMILY = r"(?:%s|%s|%s)" % (_UNQ, _DQ, _SQ)
_SEP = r"[ \t\n\r]*,[ \t\n\r]*"
_FAMILIES_RE = re.compile(r"%s(?:%s%s)*" % (_FAMILY, _SEP, _FAMILY), re.S)
_FAMILY_RE = re.compile(_FAMILY, re.S)
_SEP_RE = re.compile(_SEP)


def font_features(text):
  """which constructs of <font-families> occur in the text"""
  f = {"well_formed": bool(_FAMILIES_RE.fullmatch(text))}
  items = []          # (family text, separator text before it, separator text after it)
  if f["well_formed"]:
    pos = 0
    before = ""
    while pos < len(text):
      m = _FAMILY_RE.match(text, pos)
      fam = m.group(0)
      pos = m.end()
      m2 = _SEP_RE.match(text, pos)
      after = m2.group(0) if m2 and pos < len(text) else ""
      items.append((fam, before, after))
      before = after
      pos = m2.end() if after else pos
      if not after:
        break
  unq = [x for x in items if x[0][:1] not in "\"'"]
  quo = [x for x in items if x[0][:1] in "\"'"]
  f["families"] = len(items)
  # an unquoted name made of a single identifier character (a character or one escape)
  f["one_char_name"] = any(re.fullmatch(r"(?:\\.|[^\\])", x[0], re.S) is not None for x in unq)
  # white space between an unquoted name and the following comma
  f["ws_after_unquoted"] = any(x[2][:1] != "," and x[2] != "" for x in unq)
  # white space other than SPACE in a separator (before or after the comma)
  f["odd_ws_in_separator"] = any(re.search(r"[\t\n\r]", x[1]) is not None for x in items)
  # a LINE FEED inside a quoted name, or escaped in an unquoted one
  f["line_feed_in_name"] = any("\n" in x[0] for x in quo) or any("\\\n" in x[0] for x in unq)
  # a quoted name whose last character is an escaped backslash
  f["quoted_ends_in_backslash"] = any(re.search(r"(?<!\\)(?:\\\\)+$", x[0][1:-1]) is not None for x in quo)
  f["has_escape"] = "\\" in text
  return f
