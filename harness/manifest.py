"""Generates /verif/MANIFEST.json from the table below (single source of truth for what is claimed)."""
import json
import os

VERIF = os.path.dirname(os.path.dirname(os.path.abspath(__file__)))

ALL = ["C%02d" % i for i in range(1, 20)]

# pid -> dict(level, text, note, technique, design_ref)
CLAIMED = {
  "C12": dict(
    level="model_checking",
    text="TLC model-checks the SMPTE label odometer (spec/Timecode.tla: Tick with drop-frame skipping) for every rate and "
         "ties the closed forms ToFrames/FromFrames/OffsetOf to it by invariants on every reachable label (24 h exhaustively "
         "in the thorough tier); every admissible millisecond quantiser is shown monotone (spec/MsSweep.tla). The "
         "implementation is bound by trace validation: ttconv.time_code is driven over windows around every minute boundary "
         "of 24 h (quick) or over every frame count of 24 h (thorough) and spec/Trace_Timecode.tla walks the odometer, one "
         "Tick per recorded frame, comparing from_frames/to_frames/str/parse/from_seconds/add_frames/to_temporal_offset and "
         "ClockTime.from_seconds observations with the odometer state.",
    note="Trusted: TLC, the harness packing of labels (HHMMSSFF) and the strict lexer of printed time codes. 24000/1001 is "
         "specified as non-drop counting at 24. Float arguments of ClockTime.from_seconds that are not exactly representable "
         "with a denominator <= 10^6 are judged against a one-microsecond bracket.",
    technique="TLA+ odometer state machine model-checked with TLC + trace validation of implementation observations against it",
    design_ref="6/C12"),
  "C17": dict(
    level="model_checking",
    text="spec/Cea608Word.tla writes the CEA-608 code space as class predicates over the bit patterns of the two "
         "parity-stripped bytes (independently of ttconv's enumerated tables) with PAC/mid-row/control/attribute decoding and "
         "the standard/special/extended character tables; TLC sweeps all 65 536 word values and checks that the predicates "
         "partition the space and that class and channel ignore parity. The implementation is bound exhaustively in both "
         "tiers: SccWord.from_value is observed on all 65 536 values (class via get_code()/byte ranges as SccLine.process "
         "uses them, channel, row, indent, colour, italics, underline, control name, decoded code points) and "
         "spec/Trace_Cea608Word.tla compares every observation with the operators; disassembly renderings of all lines of "
         "<= 3 (quick) / <= 4 (thorough) words over a 29-word alphabet are lexed and checked to render every word in order.",
    note="Trusted: TLC, the harness projection (colour -> name, text -> code points) and the disassembly lexer. CTA-608 names "
         "glyphs, not code points: where several Unicode renderings are customary the spec accepts a listed set (Ext2/Ext3 in "
         "the module). Second text bytes 01h..1Fh are undefined and not judged.",
    technique="TLA+ transcription of the CEA-608 code space checked exhaustively by TLC + exhaustive trace validation of all 65 536 words",
    design_ref="6/C17"),
  "C15": dict(
    level="model_checking",
    text="spec/Model.tla specifies the canonical-model API as a state machine over a fixed universe of elements (one action "
         "per API call with an accept/reject guard and an effect; WellFormed = link agreement, acyclicity, one owner per tree, "
         "content model incl. ruby/rtc patterns, region references = registered objects). TLC explores three focused "
         "universes exhaustively (tree operations; two documents with two regions sharing an id; ruby patterns) and checks "
         "WellFormed and 'rejected => unchanged' on every transition. Spec -> code: every state of those graphs (a seeded "
         "sample in the quick tier) is rebuilt on real objects and every operation of the configuration is applied to it - one "
         "implementation test per edge. Code -> spec: seeded random histories of 40 calls on a 22-element universe with "
         "valid and invalid arguments and style/animation/initial values. spec/Trace_Model.tla validates every recorded call: "
         "WellFormed and agreeing link views after every call, rejected single-element call => model unchanged, only "
         "catalogue-valid values stored.",
    note="Trusted: TLC; the projection through public getters (bounded sibling walks); the hand-typed catalogue of valid/invalid "
         "style values; the builder that reconstructs model states with the base-class push_child. The exact effect of an "
         "accepted call is compared with the contract but only counted (the property states well-formedness, not effects).",
    technique="TLA+ state machine of the model API model-checked with TLC; every edge replayed into the code; recorded histories validated against the spec",
    design_ref="6/C15"),
}

NOT_YET = "check not built yet in this round; see DESIGN.md section 6 for the planned TLA+ specification"


def build():
  checks = []
  for pid in ALL:
    if pid not in CLAIMED:
      continue
    c = CLAIMED[pid]
    checks.append({
      "property_id": pid,
      "quick_cmd": f"./check {pid} --tier quick",
      "thorough_cmd": f"./check {pid} --tier thorough",
      "evidence_file": f"/verif/evidence/{pid}.json",
      "replay_cmd_template": f"./check {pid} --replay {{path}}",
      "engine": "tlc",
      "level_claimed": {"category": c["level"], "text": c["text"], "design_ref": "DESIGN.md section " + c["design_ref"]},
      "level_note": c["note"],
      "technique": c["technique"],
    })
  man = {
    "version": 1,
    "setup_cmd": "./check setup",
    "hooks": {
      "guard": "TTCONV_VERIF",
      "enable": "no hooks are needed: the library is sequential and every abstract state is observable through public "
                "getters; checks import ttconv from /repo/src/main/python (TTCONV_SRC) at run time",
      "baseline_off_cmd": "/venv/bin/python -m harness.baseline",
      "source_commits": [],
      "add_only": True,
    },
    "engines": [
      {"name": "tlc", "path": "/verif/harness/tlc.py", "serves_properties": sorted(CLAIMED),
       "kind_free_text": "TLC 1.8 explicit-state model checker on the TLA+ modules in /verif/spec; trace validation of "
                         "implementation recordings (ndjson via the Json/IOUtils community modules) and replay of "
                         "TLC-generated states/behaviours into the implementation"},
    ],
    "checks": checks,
    "not_applicable": [{"property_id": p, "reason": NOT_YET} for p in ALL if p not in CLAIMED],
    "notes": "Every check: ./check <id> --tier quick|thorough [--seed N] [--replay file]; exit 0 held, 1 VIOLATION, 2 machinery "
             "failure. Known genuine defects are listed in /verif/known_findings.json.",
  }
  return man


if __name__ == "__main__":
  with open(os.path.join(VERIF, "MANIFEST.json"), "w") as fh:
    json.dump(build(), fh, indent=1)
    fh.write("\n")
  print("MANIFEST.json written with", len(CLAIMED), "checks")
