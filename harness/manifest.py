"""Generates /verif/MANIFEST.json from the table below (single source of truth for what is claimed)."""
import json
import os

VERIF = os.path.dirname(os.path.dirname(os.path.abspath(__file__)))

ALL = ["C%02d" % i for i in range(1, 20)]

# pid -> dict(level, text, note, technique, design_ref)
CLAIMED = {
  "C12": dict(
    level="model_checking",
    text="TLC model-checks the SMPTE label odometer (spec/Timecode.tla: Tick with drop-frame skipping) for every rate and "
         "ties the closed forms ToFrames/FromFrames/OffsetOf to it by invariants on every reachable label (24 h exhaustively "
         "in the thorough tier); every admissible millisecond quantiser is shown monotone (spec/MsSweep.tla). The "
         "implementation is bound by trace validation: ttconv.time_code is driven over windows around every minute boundary "
         "of 24 h (quick) or over every frame count of 24 h (thorough) and spec/Trace_Timecode.tla walks the odometer, one "
         "Tick per recorded frame, comparing from_frames/to_frames/str/parse/from_seconds/add_frames/to_temporal_offset and "
         "ClockTime.from_seconds observations with the odometer state.",
    note="Trusted: TLC, the harness packing of labels (HHMMSSFF) and the strict lexer of printed time codes. 24000/1001 is "
         "specified as non-drop counting at 24. Float arguments of ClockTime.from_seconds that are not exactly representable "
         "with a denominator <= 10^6 are judged against a one-microsecond bracket.",
    technique="TLA+ odometer state machine model-checked with TLC + trace validation of implementation observations against it",
    design_ref="6/C12"),
  "C17": dict(
    level="model_checking",
    text="spec/Cea608Word.tla writes the CEA-608 code space as class predicates over the bit patterns of the two "
         "parity-stripped bytes (independently of ttconv's enumerated tables) with PAC/mid-row/control/attribute decoding and "
         "the standard/special/extended character tables; TLC sweeps all 65 536 word values and checks that the predicates "
         "partition the space and that class and channel ignore parity. The implementation is bound exhaustively in both "
         "tiers: SccWord.from_value is observed on all 65 536 values (class via get_code()/byte ranges as SccLine.process "
         "uses them, channel, row, indent, colour, italics, underline, control name, decoded code points) and "
         "spec/Trace_Cea608Word.tla compares every observation with the operators; disassembly renderings of all lines of "
         "<= 3 (quick) / <= 4 (thorough) words over a 29-word alphabet are lexed and checked to render every word in order.",
    note="Trusted: TLC, the harness projection (colour -> name, text -> code points) and the disassembly lexer. CTA-608 names "
         "glyphs, not code points: where several Unicode renderings are customary the spec accepts a listed set (Ext2/Ext3 in "
         "the module). Second text bytes 01h..1Fh are undefined and not judged.",
    technique="TLA+ transcription of the CEA-608 code space checked exhaustively by TLC + exhaustive trace validation of all 65 536 words",
    design_ref="6/C17"),
  "C15": dict(
    level="model_checking",
    text="spec/Model.tla specifies the canonical-model API as a state machine over a fixed universe of elements (one action "
         "per API call with an accept/reject guard and an effect; WellFormed = link agreement, acyclicity, one owner per tree, "
         "content model incl. ruby/rtc patterns, region references = registered objects). TLC explores three focused "
         "universes exhaustively (tree operations; two documents with two regions sharing an id; ruby patterns) and checks "
         "WellFormed and 'rejected => unchanged' on every transition. Spec -> code: every state of those graphs (a seeded "
         "sample in the quick tier) is rebuilt on real objects and every operation of the configuration is applied to it - one "
         "implementation test per edge. Code -> spec: seeded random histories of 40 calls on a 22-element universe with "
         "valid and invalid arguments and style/animation/initial values. spec/Trace_Model.tla validates every recorded call: "
         "WellFormed and agreeing link views after every call, rejected single-element call => model unchanged, only "
         "catalogue-valid values stored.",
    note="Trusted: TLC; the projection through public getters (bounded sibling walks); the hand-typed catalogue of valid/invalid "
         "style values; the builder that reconstructs model states with the base-class push_child. The exact effect of an "
         "accepted call is compared with the contract but only counted (the property states well-formedness, not effects).",
    technique="TLA+ state machine of the model API model-checked with TLC; every edge replayed into the code; recorded histories validated against the spec",
    design_ref="6/C15"),
  "C01": dict(
    level="model_checking",
    text="spec/Ttml.tla transcribes TTML2 time containment, [associate region] and display pruning into Snapshot(doc, t) over an "
         "abstract document; spec/Timeline.tla sweeps a time cursor over every document of three exhaustive families (timing "
         "nesting x boundary arithmetic; region references at every level x region timing x showBackground; display "
         "specified / animated / initial on content and regions) and TLC checks no-duplicates, document order, active-only "
         "and that the presentation changes only at change points. Every family document (from TLC's state dump) and "
         "seeded random documents (<= 40 nodes, depth 7, rational offsets with denominators 1,2,3,25,1001, 0-3 regions, "
         "display animation, ruby) are built with the model API and snapshotted at every candidate boundary +- 1 tick; "
         "spec/Trace_Ttml.tla compares each recorded snapshot (regions shown, region order, leaves in order, kept "
         "containers) with Snapshot(doc, t).",
    note="Trusted: TLC; the builder abstract document -> model API; the projection (text nodes identified by content t<k>, "
         "elements by id e<k>). Probe times are chosen by a naive boundary computation (only decides where to look). Ruby "
         "sub-trees carry no timing of their own in generated documents.",
    technique="TLA+ transcription of TTML2 region/time semantics model-checked with TLC; exhaustive families replayed into the code; recorded snapshots validated against the spec",
    design_ref="6/C01"),
  "C02": dict(
    level="model_checking",
    text="On the design, TLC checks in spec/Timeline.tla that Present(doc, t) (snapshot + display values) changes only at "
         "SpecSigTimes(doc) for every document of the three exhaustive families. The implementation is bound through its own "
         "observations: for every family document and for seeded random documents decorated with style animation steps "
         "on elements and regions that begin at non-zero offsets, ISD.significant_times, the snapshots (with a digest of "
         "all computed styles) at every candidate boundary +- 1 tick and generate_isd_sequence are recorded; "
         "spec/Trace_Ttml.tla (clause family c02) demands: strictly increasing, nothing visible before the first time, the "
         "snapshot at every probe equals the snapshot at the greatest significant time not after it, the sequence is "
         "exactly the snapshots at those times (as renderings).",
    note="Trusted: TLC, projection digests (md5 of computed style reprs). Minimality of the significant times is not demanded. "
         "Probe times include both the own-interval and the parent-interval resolution of every animation step.",
    technique="TLC action property on the TLA+ timeline + trace validation of recorded significant times against observed snapshots",
    design_ref="6/C02"),
  "C13": dict(
    level="model_checking",
    text="The documented ISD shape (doc/isd.md and the content model) is the TLA+ invariant C13At of spec/Trace_Ttml.tla, "
         "evaluated by TLC on every node of every recorded snapshot of the exhaustive families and of seeded random "
         "documents decorated with every style property in every unit on every element kind, initial values, "
         "cell/pixel resolutions and xml:space variations: no timing, no animation steps, no region references, owner = "
         "the snapshot, at most one body per region, content model, only applicable styles and all of them, none on "
         "br/text, all lengths in rh/rw, origin = position, no display:none, no empty text, no childless span, document "
         "parameters equal the source's, empty regions only with showBackground=always.",
    note="Trusted: TLC; the projection of each ISD node; the applicability tables in the spec are reviewed constants restating "
         "ttconv.model (the property anchors them there). The white-space clause is covered only through the no-empty-text / "
         "childless-span rules (no character-level Lwsp machine yet).",
    technique="TLA+ shape invariant evaluated by TLC on every recorded snapshot (trace validation)",
    design_ref="6/C13"),
  "C14": dict(
    level="model_checking",
    text="spec/IsdOps.tla: every history of <= 4 read-only operations (significant_times, from_model uncached and with the "
         "significant-times object at two times, generate_isd_sequence, SRT / WebVTT / IMSC writers) is enumerated by TLC and "
         "executed on one real document object per history (documents aimed at the cache short cuts: backgrounds visible "
         "by style, animation, initial value; plus random ones); spec/Trace_IsdOps.tla replays each history: the deep "
         "fingerprint of the source is unchanged after every call, a repeated call returns an equal result, a cached "
         "snapshot renders like the uncached one. Sweeps: random documents observed with and without the cache at every "
         "candidate boundary +- 1 tick, rendering equality demanded by spec/Trace_Ttml.tla (family c14).",
    note="Trusted: TLC; fingerprints and result tokens are md5 digests over public getters / output strings; rendering "
         "equality ignores regions without content that paint nothing (computed background alpha, opacity, visibility, "
         "showBackground). Calls that raise are counted, not judged (C18).",
    technique="TLC-enumerated operation histories replayed on real objects + trace validation of cached vs uncached snapshots",
    design_ref="6/C14"),
  "C06": dict(
    level="model_checking",
    text="spec/Cues.tla specifies TextAt(snapshot) (regions then document order, line breaks at br / paragraph / region ends, "
         "ruby base text included, white-space-only lines dropped) and the relation Covers between the recorded snapshot "
         "sequence and a cue list (boundaries are nearest-millisecond roundings of significant times, unbounded last "
         "interval = begin + 10 s, ordered, non-overlapping, every millisecond slot certainly inside an interval shows "
         "exactly TextAt; splitting/merging admitted, vanishing sub-millisecond intervals demand nothing). TLC checks the "
         "design model spec/CuesCover.tla (reference and merged cue lists admitted; dropped, shifted, swapped, repeated, late "
         "cues rejected) and enumerates document structure shapes (spec/CuesShapes.tla) that are built with the model API and "
         "written by both writers under each configuration; seeded random documents add code -> spec traces. The harness only "
         "lexes the output; spec/Trace_Cues.tla decides every clause.",
    note="Trusted: TLC; the strict line/token lexer of SRT/VTT output; the projection of ISD snapshots. The snapshot sequence "
         "itself is taken as given (C01/C02/C03 judge it).",
    technique="TLA+ coverage relation between snapshot sequence and cue list; TLC-enumerated shapes replayed into the writers; recorded outputs validated by TLC",
    design_ref="6/C06, NOTES_C06.md"),
  "C07": dict(
    level="model_checking",
    text="spec/Cues.tla: SrtAcceptor and VttAcceptor are line-level state machines (header, optional STYLE block, numbered / "
         "identified cues, timing lines with b < e and ordered, payload lines without '-->', escaped '&' and '<' in WebVTT, "
         "balanced properly nested tags); TLC explores them over all line sequences up to a bound and checks that acceptance "
         "implies the grammar facts. Tag runs: per character the effective bold/italic/underline/colour/background recovered "
         "from the enclosing tags must equal the computed style flags of that character in the snapshot; none when "
         "formatting is off; line/align cue settings must agree with the region position / paragraph alignment. Every "
         "TLC-enumerated style-run shape (nested, adjacent, overlapping spans x attributes x markup-significant text) and "
         "seeded random documents are written under every configuration, lexed, and judged by spec/Trace_Cues.tla.",
    note="Trusted: TLC; the lexer (it only splits lines/tokens; acceptance is decided in TLA+); the projection of computed "
         "styles per character. Known limitation recorded: SubRip has no escape for '-->' inside text.",
    technique="TLA+ acceptor state machines model-checked with TLC + trace validation of lexed writer outputs and tag runs",
    design_ref="6/C07, NOTES_C07.md"),
  "C09": dict(
    level="model_checking",
    text="spec/Stl.tla (from EBU Tech 3264 / ISO 6937): GSI decoding (frame rate per DFC, teletext vs open, programme start, "
         "rows), the TTI accumulator as a state machine (user data / reserved / comment blocks skipped, extension blocks "
         "concatenated, terminal block emits a subtitle, early subtitles dropped, cumulative sets) and the text-field pen "
         "machine (one action per byte class: colours, background, box, height, italics, underline, newline, filler; ISO 6937 "
         "diacritic + letter composition). TLC checks 24 design properties on bounded models with enforced per-action "
         "coverage and enumerates TTI sequences and text fields, which are rendered to real bytes, read with "
         "stl.reader.to_model and projected; random richer files x reader configurations are recorded too. "
         "spec/Trace_Stl.tla folds the same machine over each recorded input and compares times (exact frames via "
         "Timecode.tla), text as (mark, base) pairs, breaks, colours, italics, underline, alignment, region anchoring, "
         "safe area, cumulative sets and configuration effects.",
    note="Trusted: TLC; the byte-level file builder; NFD decomposition for character comparison. Single-byte 8859 upper halves "
         "and ISO 6937 bytes not restated in the spec only have to yield exactly one character (section 7). Known finding: "
         "STL30.01 is read as 30000/1001 drop-frame.",
    technique="TLA+ state machines for the TTI accumulator and text-field pen model-checked with TLC; enumerated inputs replayed; recorded reads validated by folding the machine in TLC",
    design_ref="6/C09, NOTES_C09.md"),
  "C03": dict(
    level="model_checking",
    text="spec/Styles.tla transcribes TTML2/IMSC style resolution: a 36-entry property table (inherited?, applicable kinds, "
         "initial value, compute class - each entry marked INDEPENDENT or PINS-the-code), Specified = last active animation "
         "step else specified value, Resolved = specified else inherited computed value (textDecoration merged per component, "
         "ruby text at half the parent font size) else document initial else default, region direction from writingMode, and "
         "Computed per class with exact rationals (fontSize, lengths relative to the font size, extent, origin, padding by "
         "writing-mode axis, position edges against the computed extent, emphasis/outline/shadow colour defaults, disparity). "
         "spec/StyleSweep.tla: TLC checks eight invariants and an action property over 19 bounded families (inheritance "
         "chains region->body->div->p->span->span x unset/v1/v2 x animation x initial override; unit chains x cell/pixel "
         "resolutions x writing modes). Every dumped family state is rebuilt with the model API and get_style of every "
         "snapshot element is recorded; seeded random decorated documents add code -> spec traces; spec/Trace_Styles.tla "
         "compares every (element, property) with Comp(doc, region, node, property, t).",
    note="Trusted: TLC; the value catalogue and projection (floats scaled by 10^4, tolerance 2 units against exact rationals); "
         "which elements appear is C01's business and which properties they carry is C13's. Where TTML2 is silent the value is "
         "skipped and counted (documented in NOTES_C03.md).",
    technique="TLA+ transcription of TTML2 style resolution; TLC-checked design families replayed into the code; recorded computed styles validated by TLC",
    design_ref="6/C03, NOTES_C03.md"),
  "C16": dict(
    level="model_checking",
    text="spec/Lcd.tla specifies the LCD filter as an operator on abstract documents with postconditions (no animation steps, "
         "only the allowed styles as configured, every region exactly the safe area, regions with equal timing / writing mode "
         "/ alignment merged with all references redirected, same text timeline for documents that do not hide content, "
         "configured colours and alignment computed in snapshots, idempotent, total); TLC checks that the operator satisfies "
         "them over a bounded family (origin/position/extent in every unit x writing modes x alignments; 2-3 regions with "
         "references incl. conflicting ones; 0-4 animation steps per element; structure variants). Every family document x "
         "rotating configurations and seeded random documents are filtered by the real LCDDocFilter and recorded (before, "
         "config, after, after twice, visible text ids at grid times); spec/Trace_Lcd.tla judges 15 clauses.",
    note="Trusted: TLC, the document builder/projection. Which display alignment a region receives is a parameter of the spec "
         "(neither the property nor the README define it). Two known findings are inherent in merging (NOTES_C16.md).",
    technique="TLA+ operator + postconditions model-checked with TLC; enumerated family replayed through the filter; recorded before/after documents validated by TLC",
    design_ref="6/C16, NOTES_C16.md"),
  "C19": dict(
    level="model_checking",
    text="spec/Cli.tla: Dispatch (option over extension, case-insensitive, leading dot), ConfigAccept (96 catalogue settings: "
         "every documented key x valid/boundary/invalid, from the README), Effective (configuration file wins), and the Convert "
         "action over unconstrained process-global state with out' = Lib(job); TLC checks DispatchFacts, EffectiveFacts, "
         "CatalogueConsistent, HistoryIndependent and OutputWellFormed and enumerates all histories of <= 3 (thorough: 4) jobs. "
         "Each history runs in ONE interpreter through ttconv.tt.main under hash seeds 0, 1, 12345; the bytes are compared "
         "with the library composition (reader -> filters in order -> writer with parsed configurations) run in fresh "
         "processes; exit status / exception / existence of the output file are recorded; spec/Trace_Cli.tla replays Convert "
         "along every recorded history.",
    note="Trusted: TLC; the README as the source of documented configuration domains; output equality by content id (table of "
         "distinct outputs).",
    technique="TLA+ dispatch/configuration tables and Convert state machine checked with TLC; TLC-enumerated histories replayed through the CLI; recorded runs validated by TLC",
    design_ref="6/C19, NOTES_C19.md"),
  "C04": dict(
    level="model_checking",
    text="spec/Imsc.tla is an interpreter for TTML/IMSC written from the standards over an abstract XML tree: time expressions "
         "in every syntax with frameRate / frameRateMultiplier / tickRate, begin/dur/end, par and seq containers, implicit "
         "durations, clipping by the parent, region timing, set animation; specified styling = inline over nested over "
         "referential (right-most wins) over chained (cycle-safe) styles, initial elements, xml:space / xml:lang "
         "inheritance, anonymous spans, ruby. A design machine (document from a bounded family, time cursor sweeping half "
         "ticks) is model-checked by TLC (child within parent, seq exclusivity, one interval per element...). Every family "
         "document and seeded random documents are rendered as real XML (every time syntax x frame rates x tick rates), read "
         "by imsc.reader.to_model and observed through ISD.from_model at every grid time; spec/Trace_Imsc.tla recomputes "
         "visibility, region, structure path, space, lang and style tokens. The same documents with ONE attribute corrupted "
         "(per-attribute catalogue of malformed values) or one unknown attribute must present identically and be logged; "
         "equivalent lexical forms of a value must read equal, distinct ones different.",
    note="Trusted: TLC; the XML renderer; the snapshot projection (through ISD.from_model, whose own correctness is C01/C03). "
         "Outside the generated domain and counted, not judged: set/br children of a seq container, elements whose end resolves "
         "before their begin, style tokens under a style reference loop. Attribute VALUE syntax is covered by the renderer's "
         "catalogue of forms, not by all strings (section 7).",
    technique="TLA+ interpreter for TTML timing/styling model-checked with TLC; enumerated documents rendered to XML and replayed through the reader; recorded snapshots validated by TLC",
    design_ref="6/C04, NOTES_C04.md"),
  "C05": dict(
    level="model_checking",
    text="spec/ImscWrite.tla: per writer configuration the relation Q(t, t') (t' a whole unit of the chosen syntax, |t' - t| < 1 "
         "unit, identity on representable times, never swapping two times), documented configuration rejections as an explicit "
         "RejectConfig outcome, and SameModuloQ(doc, doc') over document parameters, regions, tree, ids, region references, "
         "space/lang, text, style tokens, animation steps and every time pair. TLC checks the design invariants over all 32 "
         "configurations and enumerates the 768 replay cases (spec/ImscWriteCases.tla): documents built with the model API "
         "(every element kind incl. ruby patterns and delimiters, every style property in every value form incl. "
         "none/normal/transparent, animation steps, regions, initial values, on-grid and off-grid times) are written, "
         "serialised to bytes, re-read, projected and judged by spec/Trace_ImscWrite.tla together with the snapshots of both "
         "documents at aligned probe times and the reader's log records.",
    note="Trusted: TLC; the projection of model documents and value tokens (numbers compared to the written precision). An "
         "absent end may come back as any end (the reader materialises implicit ends); the snapshot clause judges what that "
         "shows. Cases on which ISD.from_model itself raises are judged without snapshots (counted).",
    technique="TLA+ relational spec of time quantisation and structural equality; TLC-enumerated cases replayed through write -> bytes -> read; recorded round trips validated by TLC",
    design_ref="6/C05, NOTES_C05.md"),
  "C10": dict(
    level="model_checking",
    text="spec/SrtReader.tla: the SubRip file as a line machine (Counter/Timing/Text, blank-line runs, any counter, 2-3 digit "
         "hours, CRLF/LF), times as exact <<seconds, ms>> pairs, a tag-stack machine for <b>/<i>/<u>/<font color> in angle and "
         "brace syntax giving a per-character style set; six design invariants checked by TLC on the generating machine. All "
         "tag sequences up to a bound, line-machine files, frame-boundary files, random files and SRT-writer round trips are "
         "read by srt.reader.to_model and projected (type and exact value of begin/end, text and breaks, per-character "
         "styles); spec/Trace_SrtReader.tla replays the machine over each input. Composition clause: the frame printed by "
         "imsc.writer in frames format for the read document must be the exact frame of the printed time at 8 frame rates.",
    note="Trusted: TLC; the file renderer from token sequences; the projection. A float begin/end is a violation of 'exact "
         "rationals' by type. Between frame boundaries floor or ceil is accepted.",
    technique="TLA+ line and tag-stack state machines model-checked with TLC; enumerated inputs replayed through the reader; recorded reads validated by TLC",
    design_ref="6/C10, NOTES_C10.md"),
  "C11": dict(
    level="model_checking",
    text="spec/VttReader.tla transcribes the WebVTT Recommendation: file machine (signature, header, NOTE/STYLE/REGION skipped, "
         "cue id, timing with optional hours, payload), the character-level cue-text tokenizer of section 6.4 incl. character "
         "references, the tree builder (b, i, u, c.class, lang, v, ruby/rt, timestamp tags -> relative begin) giving per "
         "character [c, b, i, u, colour, background, lang, ruby role, relative begin]; cue settings -> region as a RELATION "
         "(inside the root container, non-negative extent, writing mode, text align, display-align table, equal settings share "
         "a region - no pixel position demanded for line numbers). Three design models (text, file, region) are checked by TLC; "
         "enumerated cue texts, files, 11 583 (thorough 74 088) cue-setting combinations, random files and VTT-writer round trips "
         "under all 8 configurations are read and judged by spec/Trace_VttReader.tla.",
    note="Trusted: TLC; the file renderer; the projection. Known finding: <ruby> nested inside another tag raises (model "
         "limitation).",
    technique="TLA+ transcription of the WebVTT file/tokenizer/tree-builder machines and region relation; TLC-checked; enumerated inputs replayed; recorded reads validated by TLC",
    design_ref="6/C11, NOTES_C11.md"),
  "C18": dict(
    level="fault_enumeration",
    text="spec/Pipeline.tla specifies the conversion pipeline over outcome classes: an input is a base file of one of the five "
         "formats plus a sequence of structural faults [kind (truncate, drop, dup, swap, empty, junk, boundary) x unit (line, "
         "token, byte / block) x position class]; Read ends in Doc, NoneAfterFatal or a documented FormatError; every "
         "post-read stage (significant times, snapshots, sequence, SRT / VTT / IMSC writers under several configurations, LCD "
         "filter and the writers again) is total on a returned document; 'Internal' is produced by no action. TLC enumerates "
         "every fault sequence of length <= 2 (11 131 per format); all single faults and a seeded sample of pairs (thorough: "
         "all pairs on two base files per format) are rendered on base files (bundled corpus, hand-written files covering each "
         "grammar incl. timed ruby annotations, the library's own writer outputs, degenerate inputs) and pushed through the "
         "whole pipeline under reader configurations; seeded byte-level mutations add plain exploration. "
         "spec/Trace_Pipeline.tla accepts a recorded run iff it is a behaviour of the machine.",
    note="Trusted: TLC; the fault renderer; exception classification (XML-layer exceptions raised by ElementTree before the reader "
         "is called count as XML parse errors; exactly ValueError, struct.error, UnicodeDecodeError, ParseError are documented). "
         "A call is cut off after 20 s (reported as Timeout). Arbitrary byte strings are explored, not enumerated (section 7).",
    technique="TLA+ pipeline state machine with TLC-enumerated fault sequences replayed through reader/ISD/filter/writers; recorded runs validated as behaviours of the machine",
    design_ref="6/C18"),
  "C08": dict(
    level="model_checking",
    text="spec/Cea608Decoder.tla is a reference CEA-608 decoder written from CTA-608: mode, roll-up depth and base row, "
         "displayed / non-displayed memories (partial functions row,col -> cell), cursor, pen, last control code, channel "
         "and frame clock; one action per received word class (Null, Chars, Pac, MidRow, RCL, RDC, RU, CR, EOC, EDM, ENM, BS, "
         "TO, DER, Special, Extended, DupControl, OtherChannel, Unsupported, NewLine) dispatched through spec/Cea608Word.tla; "
         "TLC checks eight invariants (roll-up window, cursor range, pop-on hidden until EOC, channel filter, one frame per "
         "word...) on seven exhaustive protocol models generated by a sub-relation of the decoder, every action covered. "
         "Spec -> code: the behaviours of those models and of -simulate runs over the full alphabets are rendered as SCC "
         "files and read by scc.reader.to_model; code -> spec: seeded random protocol streams (all rows/indents, tab "
         "offsets, special/extended characters, attributes, ENM/EDM, channel-2 words, padding, parities, DF/NDF time "
         "codes, doubled and single control codes, text_align). spec/Trace_Cea608.tla walks the decoder one action per "
         "recorded word and compares the screen at every frame (pop-on and paint-on: equality; roll-up: row count, order, "
         "prefix relation and equality at quiescent frames) and the timing clauses (exact frame multiples, not before the "
         "line's time code, inside the transmission window).",
    note="Trusted: TLC; the SCC renderer; the projection of documents to per-frame screens (rows from region origin and br "
         "count, attributes from span styles). Columns and attributes of space cells are not compared. Four known findings "
         "(suppressed duplicate does not advance the clock - pinned by tests; single EDM ends one frame late - pinned; paint-on "
         "shown ahead of reception - pinned; a row reused without erase - line-model limitation), each with a narrow selector "
         "whose cause label is computed from the input only.",
    technique="TLA+ reference CEA-608 decoder model-checked with TLC; TLC behaviours replayed as SCC files; recorded reads validated by walking the decoder in TLC",
    design_ref="6/C08, NOTES_C08.md"),
}

NOT_YET = "check not built yet in this round; see DESIGN.md section 6 for the planned TLA+ specification"


def build():
  checks = []
  for pid in ALL:
    if pid not in CLAIMED:
      continue
    c = CLAIMED[pid]
    checks.append({
      "property_id": pid,
      "quick_cmd": f"./check {pid} --tier quick",
      "thorough_cmd": f"./check {pid} --tier thorough",
      "evidence_file": f"/verif/evidence/{pid}.json",
      "replay_cmd_template": f"./check {pid} --replay {{path}}",
      "engine": "tlc",
      "level_claimed": {"category": c["level"], "text": c["text"], "design_ref": "DESIGN.md section " + c["design_ref"]},
      "level_note": c["note"],
      "technique": c["technique"],
    })
  man = {
    "version": 1,
    "setup_cmd": "./check setup",
    "hooks": {
      "guard": "TTCONV_VERIF",
      "enable": "no hooks are needed: the library is sequential and every abstract state is observable through public "
                "getters; checks import ttconv from /repo/src/main/python (TTCONV_SRC) at run time",
      "baseline_off_cmd": "/venv/bin/python -m harness.baseline",
      "source_commits": [],
      "add_only": True,
    },
    "engines": [
      {"name": "tlc", "path": "/verif/harness/tlc.py", "serves_properties": sorted(CLAIMED),
       "kind_free_text": "TLC 1.8 explicit-state model checker on the TLA+ modules in /verif/spec; trace validation of "
                         "implementation recordings (ndjson via the Json/IOUtils community modules) and replay of "
                         "TLC-generated states/behaviours into the implementation"},
    ],
    "checks": checks,
    "not_applicable": [{"property_id": p, "reason": NOT_YET} for p in ALL if p not in CLAIMED],
    "notes": "Every check: ./check <id> --tier quick|thorough [--seed N] [--replay file]; exit 0 held, 1 VIOLATION, 2 machinery "
             "failure. Known genuine defects are listed in /verif/known_findings.json.",
  }
  return man


if __name__ == "__main__":
  with open(os.path.join(VERIF, "MANIFEST.json"), "w") as fh:
    json.dump(build(), fh, indent=1)
    fh.write("\n")
  print("MANIFEST.json written with", len(CLAIMED), "checks")
