"""Regenerates the generated tables of DESIGN.md section 11 (between the markers) from known_findings.json (+ fragments),
the `fix:` commits of /repo and the seeded/ directory."""
import glob
import json
import os
import subprocess

VERIF = os.path.dirname(os.path.dirname(os.path.abspath(__file__)))
BEGIN = "<!-- BEGIN GENERATED 11.3 -->"
END = "<!-- END GENERATED 11.4 -->"


def main():
  findings = []
  for path in [os.path.join(VERIF, "known_findings.json")] + sorted(glob.glob(os.path.join(VERIF, "findings_*.json"))):
    findings.extend(json.load(open(path)).get("findings", []))
  fixes = subprocess.run(["git", "-C", "/repo", "log", "--reverse", "--format=%h %s", "--grep=^fix:"], stdout=subprocess.PIPE, text=True).stdout.strip().splitlines()
  out = [BEGIN, ""]
  out.append(f"**Repairs committed to /repo ({len(fixes)} `fix:` commits, pinned suite 446/446 after each):**")
  out.append("")
  for line in fixes:
    h, msg = line.split(" ", 1)
    out.append(f"* `{h}` {msg[:200]}")
  out.append("")
  known = [f for f in findings if f.get("status") == "known"]
  out.append(f"**Known findings (genuine defects recorded, not repaired: {len(known)}):**")
  out.append("")
  for f in known:
    props = f["property"] if isinstance(f["property"], list) else [f["property"]]
    out.append(f"* `{f['id']}` ({', '.join(props)}) - {f['what'][:700]}  \n  selector: `{f.get('selector', '')}`")
  out.append("")
  out.append("### 11.4 Independently seeded changes and which checks catch them")
  out.append("")
  out.append("Each change was written by a fresh sub-agent that saw only the property text and a scratch worktree (nothing from /verif), "
             "passes the pinned suite, and comes with a demonstration that fails with it and passes without. I confirmed each in a "
             "scratch worktree (`harness/seedtest.sh`) and ran the registered quick check against the changed tree.")
  out.append("")
  rounds = {}
  for d in sorted(glob.glob(os.path.join(VERIF, "seeded", "*"))):
    mp = os.path.join(d, "meta.json")
    if os.path.exists(mp):
      m = json.load(open(mp))
      r = rounds.setdefault(int(m.get("round", 1)), [0, 0, 0])
      r[0] += 1
      own = [x for x in m.get("confirmed", {}).get("checks_run", "").split() if x.startswith(str(m.get("property", "?")) + ":")]
      detected = bool(own and own[0].endswith("rc=1"))
      r[1] += 1 if detected else 0
      # (a note is also kept for changes that are NOT detected or only by a sibling check: those are not counted here)
      r[2] += 1 if (detected and m.get("strengthened")) else 0
  for k in sorted(rounds):
    n, det, stren = rounds[k]
    out.append(f"* round {k}: {n} changes, {det} detected by the quick check of their own property as it stands now, "
               f"{stren} of them only after the generators / specs were strengthened (see the notes in the last column)" +
               ("; later rounds were told what earlier rounds had done and asked for rarer triggers" if k > 1 else "") + ".")
  out.append("")
  out.append("Every strengthening widened what is generated or observed (new document shapes, values, operation orders, base files, "
             "fault kinds); none special-cases the seeded change, and after each one the check was re-run on the unchanged tree "
             "(seeds 0-4) to make sure it stays silent there.")
  out.append("")
  out.append("| seeded change | property | what it needs to manifest | check result |")
  out.append("|---|---|---|---|")
  for d in sorted(glob.glob(os.path.join(VERIF, "seeded", "*"))):
    mp = os.path.join(d, "meta.json")
    if not os.path.exists(mp):
      continue
    m = json.load(open(mp))
    c = m.get("confirmed", {})
    res = c.get("checks_run", "")
    verdict = "; ".join(("**detected** by " + x.split(":")[0]) if x.endswith("rc=1") else ("missed by " + x.split(":")[0]) for x in res.split())
    note = m.get("strengthened", "")
    out.append(f"| `{os.path.basename(d)}` | {m.get('property', '')} | {str(m.get('needs_to_manifest', ''))[:260].replace('|', '/')} | {verdict}{(' - ' + note) if note else ''} |")
  out.append("")
  out.append(END)
  p = os.path.join(VERIF, "DESIGN.md")
  s = open(p).read()
  block = "\n".join(out)
  if BEGIN in s and END in s:
    s = s[:s.index(BEGIN)] + block + s[s.index(END) + len(END):]
  else:
    s = s.rstrip("\n") + "\n\n" + block + "\n"
  open(p, "w").write(s)
  print("DESIGN.md section 11.3/11.4 regenerated:", len(fixes), "fixes,", len(known), "known findings")


if __name__ == "__main__":
  main()
