"""Universe builder, projection and operation executor for the canonical-model API (C15).

The abstract state is the record S of spec/Model.tla (0 = None, elements and documents numbered from 1).
Everything here goes through the public API of ttconv.model, except `build`, which links children with the
base-class ContentElement.push_child so that every state of the exhaustive model can be reconstructed.
"""
from __future__ import annotations

import json


def kinds_map():
  import ttconv.model as m
  return {"body": m.Body, "div": m.Div, "p": m.P, "span": m.Span, "br": m.Br, "text": m.Text, "ruby": m.Ruby,
          "rb": m.Rb, "rt": m.Rt, "rp": m.Rp, "rbc": m.Rbc, "rtc": m.Rtc, "region": m.Region}


class Universe:
  """kinds: list of kind names; regid: list of region id indexes (0 for non regions); nd documents; nids ids."""

  def __init__(self, kinds, regid, nd, nids):
    self.kinds = list(kinds)
    self.regid = list(regid)
    self.nd = nd
    self.nids = nids
    self.n = len(kinds)

  def empty_state(self):
    n = self.n
    return {"parent": [0] * n, "kids": [[] for _ in range(n)], "owner": [0] * n, "regref": [0] * n,
            "registry": [[0] * self.nids for _ in range(self.nd)], "body": [0] * self.nd}

  def mc_constants(self, opset, max_pc=0, catalogue=None):
    from .tlc import to_tla
    lines = ["MCKind == " + to_tla(self.kinds), "MCRegId == " + to_tla(self.regid),
             "MCOpSet == " + to_tla(set(opset))]
    cfg = ["Kind <- MCKind", "RegId <- MCRegId", f"NIds = {self.nids}", f"ND = {self.nd}", "OpSet <- MCOpSet",
           f"MaxPushChildren = {max_pc}"]
    if catalogue is not None:
      lines.append("MCTokValid == " + to_tla([bool(c[2]) for c in catalogue]))
      lines.append("MCTokProp == " + to_tla([c[0] for c in catalogue]))
      cfg += ["TokValid <- MCTokValid", "TokProp <- MCTokProp"]
    return "\n".join(lines), "\n  ".join(cfg)


_SUBCLASSES = {}


def _subclass(cls):
  if cls not in _SUBCLASSES:
    _SUBCLASSES[cls] = type("App" + cls.__name__, (cls,), {})
  return _SUBCLASSES[cls]


class World:
  """Real objects for one universe."""

  def __init__(self, uni: Universe, S=None, catalogue=None, alt=0, blink=False):
    """alt: the calls are made in the caller's alternative process context (core.AltContext); blink: between two calls the
    harness lets go of every parentless element that has children and takes it back THROUGH one of its children (a caller
    that keeps a span keeps, through it, the paragraph the span is in)."""
    import ttconv.model as m
    self.alt = alt
    self.blink_on = blink
    self.m = m
    self.uni = uni
    self.catalogue = catalogue or []
    km = kinds_map()
    S = S or uni.empty_state()
    self.docs = [m.ContentDocument() for _ in range(uni.nd)]
    self.elems = []
    for k in range(uni.n):
      d = S["owner"][k]
      doc = self.docs[d - 1] if d else None
      if uni.kinds[k] == "region":
        e = m.Region("r%d" % uni.regid[k], doc)
      else:
        # (every third element is an instance of an application's own subclass of its kind - as ISD.Region is of Region: a
        # span is a span)
        e = (_subclass(km[uni.kinds[k]]) if k % 3 == 1 else km[uni.kinds[k]])(doc)
      self.elems.append(e)
    # a document may keep pointing at a body that was detached (or moved) after set_body: replay that order
    for d in range(uni.nd):
      b = S["body"][d]
      if b and S["owner"][b - 1] != d + 1:
        e = km[uni.kinds[b - 1]](self.docs[d])
        self.docs[d].set_body(e)
        e.set_doc(None)
        if S["owner"][b - 1]:
          e.set_doc(self.docs[S["owner"][b - 1] - 1])
        self.elems[b - 1] = e
    self.index = {id(e): k + 1 for k, e in enumerate(self.elems)}
    self.docindex = {id(d): k + 1 for k, d in enumerate(self.docs)}
    # registry: a region may have been registered and detached or moved afterwards: replay that order
    for d in range(uni.nd):
      for i in range(uni.nids):
        r = S["registry"][d][i]
        if r:
          reg = self.elems[r - 1]
          if reg.get_doc() is not self.docs[d]:
            reg.set_doc(None)
            reg.set_doc(self.docs[d])
          self.docs[d].put_region(reg)
    for k in range(uni.n):
      if uni.kinds[k] == "region":
        want = self.docs[S["owner"][k] - 1] if S["owner"][k] else None
        if self.elems[k].get_doc() is not want:
          self.elems[k].set_doc(None)
          if want is not None:
            self.elems[k].set_doc(want)
    # structure, top-down
    roots = [k for k in range(uni.n) if S["parent"][k] == 0]
    stack = list(roots)
    while stack:
      p = stack.pop()
      for c in S["kids"][p]:
        m.ContentElement.push_child(self.elems[p], self.elems[c - 1])
        stack.append(c - 1)
    for k in range(uni.n):
      r = S["regref"][k]
      if r:
        self.elems[k].set_region(self.elems[r - 1])
    for d in range(uni.nd):
      b = S["body"][d]
      if b and S["owner"][b - 1] == d + 1:
        self.docs[d].set_body(self.elems[b - 1])

  # ---- object lifetime --------------------------------------------------------------------------
  def blink(self):
    """Drop the only reference the harness holds to each parentless element with children, then look for the element where
    the model says it is: parent() of its first child.  An element that is gone is replaced by a fresh one of its kind (so
    that the projection shows what a caller would find: a child without its parent)."""
    import weakref
    km = kinds_map()
    for k in range(self.uni.n):
      e = self.elems[k]
      if e.parent() is not None or e.first_child() is None:
        continue
      child = e.first_child()
      held_elsewhere = any(d.get_body() is e for d in self.docs)
      if held_elsewhere:
        continue
      ref = weakref.ref(e)
      self.index.pop(id(e), None)
      self.elems[k] = None
      del e
      back = child.parent()
      if back is None or ref() is None:
        back = km[self.uni.kinds[k]](None)
      self.elems[k] = back
      self.index[id(back)] = k + 1

  # ---- projection -------------------------------------------------------------------------------
  def ix(self, e):
    if e is None:
      return 0
    return self.index.get(id(e), -1)        # -1: an object outside the universe

  def project(self):
    uni = self.uni
    n = uni.n
    S = {"parent": [], "kids": [], "owner": [], "regref": [], "first": [], "lastc": [], "next": [], "prev": [], "len": [], "iter": [], "byidx": [],
         "styles": [], "steps": []}
    for e in self.elems:
      S["parent"].append(self.ix(e.parent()))
      kids = []
      c = e.first_child()
      guard = 0
      while c is not None and guard <= n + 1:
        kids.append(self.ix(c))
        c = c.next_sibling()
        guard += 1
      S["kids"].append(kids)
      S["first"].append(self.ix(e.first_child()))
      S["lastc"].append(self.ix(e.last_child()))
      S["next"].append(self.ix(e.next_sibling()))
      S["prev"].append(self.ix(e.previous_sibling()))
      S["len"].append(len(e) if guard <= n + 1 else -1)
      # the same children as iteration and as indexing give them (-1: the access raised or never ended)
      try:
        it = []
        for c in e:
          it.append(self.ix(c))
          if len(it) > n + 1:
            break
        S["iter"].append(it)
      except Exception:  # pylint: disable=broad-except
        S["iter"].append([-1])
      try:
        S["byidx"].append([self.ix(e[i]) for i in range(min(len(e), n + 1))])
      except Exception:  # pylint: disable=broad-except
        S["byidx"].append([-1])
      d = e.get_doc()
      S["owner"].append(0 if d is None else self.docindex.get(id(d), -1))
      S["regref"].append(self.ix(e.get_region()))
      S["styles"].append(sorted([p.__name__, self.token(p, e.get_style(p))] for p in e.iter_styles()))
      S["steps"].append([[st.style_property.__name__, self.token(st.style_property, st.value)] for st in e.iter_animation_steps()])
    S["registry"] = []
    S["body"] = []
    S["initials"] = []
    for d in self.docs:
      row = []
      for i in range(uni.nids):
        row.append(self.ix(d.get_region("r%d" % (i + 1))))
      S["registry"].append(row)
      S["body"].append(self.ix(d.get_body()))
      S["initials"].append(sorted([p.__name__, self.token(p, v)] for p, v in d.iter_initial_values()))
    return S

  def token(self, prop, value):
    for k, (pname, val, valid) in enumerate(self.catalogue):
      if pname == prop.__name__ and (val is value or (type(val) is type(value) and val == value)):
        return k + 1
    return 0

  # ---- operations -------------------------------------------------------------------------------
  def apply(self, op):
    """Execute one op record; returns True iff the call returned without raising."""
    if self.blink_on:
      self.blink()
    from .core import AltContext
    with AltContext(self.alt):
      return self._apply(op)

  def _apply(self, op):
    m = self.m
    E = lambda k: self.elems[k - 1] if k else None
    Dd = lambda k: self.docs[k - 1] if k else None
    name = op["op"]
    try:
      if name == "PushChild":
        E(op["a"]).push_child(E(op["b"]))
      elif name == "PushChildren":
        E(op["a"]).push_children([E(c) for c in op["cs"]])
      elif name == "Remove":
        E(op["a"]).remove()
      elif name == "RemoveChild":
        E(op["a"]).remove_child(E(op["b"]))
      elif name == "RemoveChildren":
        E(op["a"]).remove_children()
      elif name == "SetDoc":
        E(op["a"]).set_doc(Dd(op["d"]))
      elif name == "SetRegion":
        E(op["a"]).set_region(E(op["b"]))
      elif name == "PutRegion":
        Dd(op["d"]).put_region(E(op["a"]))
      elif name == "RemoveRegion":
        Dd(op["d"]).remove_region("r%d" % op["id"])
      elif name == "SetBody":
        Dd(op["d"]).set_body(E(op["a"]))
      elif name == "SetStyle":
        from ttconv.style_properties import StyleProperties
        prop = getattr(StyleProperties, op["prop"])
        E(op["a"]).set_style(prop, self.catalogue[op["tok"] - 1][1] if op["tok"] else None)
      elif name == "AddStep":
        from ttconv.style_properties import StyleProperties
        prop = getattr(StyleProperties, op["prop"])
        E(op["a"]).add_animation_step(m.DiscreteAnimationStep(prop, None, None, self.catalogue[op["tok"] - 1][1]))
      elif name == "PutInitial":
        from ttconv.style_properties import StyleProperties
        prop = getattr(StyleProperties, op["prop"])
        Dd(op["d"]).put_initial_value(prop, self.catalogue[op["tok"] - 1][1] if op["tok"] else None)
      else:
        raise AssertionError("unknown op " + name)
      return True
    except RecursionError:
      return False
    except Exception:  # pylint: disable=broad-except
      return False


def mkop(name, a=0, b=0, cs=(), d=0, id=0, prop="", tok=0):
  return {"op": name, "a": a, "b": b, "cs": list(cs), "d": d, "id": id, "prop": prop, "tok": tok}


def all_ops(uni: Universe, opset, max_pc=0):
  """The op universe of Model!Ops for a configuration (same enumeration as the spec)."""
  import itertools
  E = range(1, uni.n + 1)
  regions = [e for e in E if uni.kinds[e - 1] == "region"]
  ops = []
  if "PushChild" in opset:
    ops += [mkop("PushChild", p, c) for p in E for c in E]
  if "PushChildren" in opset:
    pool = [e for e in E if uni.kinds[e - 1] in ("rb", "rt", "rp", "rbc", "rtc")]
    for p in E:
      if uni.kinds[p - 1] in ("ruby", "rtc"):
        for n in range(1, max_pc + 1):
          for cs in itertools.permutations(pool, n):
            ops.append(mkop("PushChildren", p, cs=cs))
  if "Remove" in opset:
    ops += [mkop("Remove", e) for e in E]
  if "RemoveChild" in opset:
    ops += [mkop("RemoveChild", p, c) for p in E for c in E]
  if "RemoveChildren" in opset:
    ops += [mkop("RemoveChildren", p) for p in E]
  if "SetDoc" in opset:
    ops += [mkop("SetDoc", e, d=d) for e in E for d in range(0, uni.nd + 1)]
  if "SetRegion" in opset:
    ops += [mkop("SetRegion", e, r) for e in E if e not in regions for r in [0] + regions]
  if "PutRegion" in opset:
    ops += [mkop("PutRegion", r, d=d) for r in regions for d in range(1, uni.nd + 1)]
  if "RemoveRegion" in opset:
    ops += [mkop("RemoveRegion", d=d, id=i) for d in range(1, uni.nd + 1) for i in range(1, uni.nids + 1)]
  if "SetBody" in opset:
    ops += [mkop("SetBody", b, d=d) for b in [0] + [e for e in E if uni.kinds[e - 1] == "body"] for d in range(1, uni.nd + 1)]
  return ops


def value_catalogue():
  """(property name, value, valid?) - validity by the TTML2 value space of the property, typed by hand here
  (independently of StyleProperty.validate)."""
  import ttconv.style_properties as sp
  L = sp.LengthType
  U = sp.LengthType.Units
  red = sp.NamedColors.red.value
  cat = []

  def add(prop, valid, invalid):
    for v in valid:
      cat.append((prop, v, True))
    for v in invalid:
      cat.append((prop, v, False))

  add("BackgroundColor", [red, sp.NamedColors.transparent.value], ["red", (255, 0, 0, 255), 5])
  add("Color", [red], ["#ff0000", 1.0])
  add("Direction", [sp.DirectionType.rtl], ["rtl", sp.DisplayType.none])
  add("Disparity", [L(1, U.pct)], [1, "1%"])
  add("Display", [sp.DisplayType.none, sp.DisplayType.auto], ["none", False])
  add("DisplayAlign", [sp.DisplayAlignType.after], ["after", sp.TextAlignType.center])
  add("Extent", [sp.ExtentType(L(50, U.pct), L(50, U.pct))], [L(50, U.pct), (50, 50), "50% 50%"])
  add("FillLineGap", [True, False], ["true", 1])
  add("FontFamily", [("Arial",), (sp.GenericFontFamilyType.serif, "Helvetica")],
      ["Arial", ("Arial", 42), (None,), (sp.GenericFontFamilyType.serif, 3.5)])
  add("FontSize", [L(2, U.em), L(80, U.pct)], [12, "12px"])
  add("FontStyle", [sp.FontStyleType.italic], ["italic", sp.FontWeightType.bold])
  add("FontWeight", [sp.FontWeightType.bold], ["bold", 700])
  add("LineHeight", [sp.SpecialValues.normal, L(120, U.pct)], ["normal", 1.2])
  add("LinePadding", [L(0.5, U.c)], ["0.5c", 0.5])
  add("LuminanceGain", [1.5, 2], ["1.5", None.__class__])
  add("MultiRowAlign", [sp.MultiRowAlignType.center], ["center", sp.TextAlignType.center])
  add("Opacity", [0.5, 1], ["0.5", [0.5]])
  add("Origin", [sp.CoordinateType(L(10, U.pct), L(10, U.pct))], [(10, 10), L(10, U.pct)])
  add("Overflow", [sp.OverflowType.visible], ["visible", True])
  add("Padding", [sp.PaddingType(L(1, U.pct), L(1, U.pct), L(1, U.pct), L(1, U.pct))], [L(1, U.pct), (1, 1, 1, 1)])
  add("Position", [sp.PositionType(L(10, U.pct), L(10, U.pct))], [sp.CoordinateType(L(10, U.pct), L(10, U.pct)), "center"])
  add("RubyAlign", [sp.RubyAlignType.spaceAround], ["center", sp.TextAlignType.center])
  add("RubyPosition", [sp.AnnotationPositionType.before], ["before", sp.RubyAlignType.center])
  add("RubyReserve", [sp.SpecialValues.none, sp.RubyReserveType(sp.RubyReserveType.Position.both, L(1, U.em))], ["none", L(1, U.em)])
  add("Shear", [10.0, 0], ["10%", (1,)])
  add("ShowBackground", [sp.ShowBackgroundType.whenActive], ["always", True])
  add("TextAlign", [sp.TextAlignType.center], ["center", sp.DisplayAlignType.center])
  add("TextCombine", [sp.TextCombineType.all], ["all", True])
  add("TextDecoration", [sp.TextDecorationType(underline=True)], ["underline", True])
  add("TextEmphasis", [sp.SpecialValues.none, sp.TextEmphasisType(sp.TextEmphasisType.Style.filled_circle)], ["none", sp.TextEmphasisType.Style.auto])
  add("TextOutline", [sp.SpecialValues.none, sp.TextOutlineType(L(5, U.pct), red)], ["none", L(5, U.pct)])
  add("TextShadow", [sp.SpecialValues.none, sp.TextShadowType((sp.TextShadowType.Shadow(L(1, U.em), L(1, U.em)),))],
      ["none", (L(1, U.em), L(1, U.em))])
  add("UnicodeBidi", [sp.UnicodeBidiType.embed], ["embed", sp.DirectionType.rtl])
  add("Visibility", [sp.VisibilityType.hidden], ["hidden", False])
  add("WrapOption", [sp.WrapOptionType.noWrap], ["noWrap", False])
  add("WritingMode", [sp.WritingModeType.tbrl], ["tbrl", sp.DirectionType.rtl])
  return cat


def dumps(x):
  return json.dumps(x, separators=(",", ":"))
