"""./check dispatcher."""
import importlib
import sys

from . import core


def main():
  if len(sys.argv) < 2:
    print("usage: check <Cnn|setup|selftest> [--tier quick|thorough] [--seed N] [--replay path]")
    return 2
  what = sys.argv[1]
  if what == "setup":
    from . import setup
    return setup.main()
  if what == "selftest":
    from . import selftest
    return selftest.main(sys.argv[2:])
  mod = importlib.import_module("harness.checks." + what.lower())
  return core.main_for(mod, sys.argv[2:])


if __name__ == "__main__":
  sys.exit(main())
