"""Seeded random generator of protocol-conforming CEA-608 caption streams for C08 (code -> spec direction).

A stream is a list of SCC lines [(frame count of the line's time code, [words without parity])] plus rendering
options.  The grammars are those of CTA-608 annex "caption protocols" (the same as GenNext in
spec/Cea608Decoder.tla, with the full alphabets): pop-on (RCL [ENM] {PAC [TOn] text}1..4 [EDM] EOC), roll-up
(RUn CR PAC text) and paint-on (RDC {PAC [TOn] text}1..4), each optionally followed by an EDM line; codes single or
doubled; null padding and channel-2 words interleaved where the next channel-1 word is a code.
Nothing here knows what the reader or the decoder will do with the stream.
"""
from __future__ import annotations

from . import scc_util as U

TEXT_BYTES = [b for b in range(0x20, 0x80)]
LETTERS = [b for b in range(0x41, 0x5B)] + [b for b in range(0x61, 0x7B)]


class Emitter:
  def __init__(self, rng, doubling, p_null, p_ch2):
    self.rng = rng
    self.doubling = doubling        # "all" | "none" | "mixed"
    self.p_null = p_null
    self.p_ch2 = p_ch2
    self.words = []
    self.features = set()

  def pad(self):
    if self.p_null and self.rng.random() < self.p_null:
      for _ in range(self.rng.randint(1, 3)):
        self.words.append(0)
      self.features.add("null")

  def ch2(self):
    """A burst for channel 2; must be followed by a channel-1 code."""
    if self.p_ch2 and self.rng.random() < self.p_ch2:
      rng = self.rng
      w = rng.choice([U.w_ctl("RCL", 2), U.w_pac(rng.randint(1, 15), rng.randrange(32), 2), U.w_ctl("EDM", 2),
                      U.w_ctl("EOC", 2), U.w_ctl("RU2", 2), U.w_ctl("CR", 2), U.w_midrow(rng.randrange(16), 2)])
      self.words.append(w)
      if rng.random() < 0.6:
        self.words.append(w)
      for _ in range(rng.randint(0, 3)):
        self.words.append(U.w_chars(rng.choice(LETTERS), rng.choice(LETTERS)))
      self.features.add("ch2")

  def code(self, w, allow_ch2=True):
    if allow_ch2:
      self.ch2()
    self.pad()
    self.words.append(w)
    dbl = self.doubling == "all" or (self.doubling == "mixed" and self.rng.random() < 0.6)
    if dbl:
      self.words.append(w)
      self.features.add("doubled")
    else:
      self.features.add("single")

  def text(self, a, b=0):
    self.words.append(U.w_chars(a, b))


def _row_items(em, rng, col, opts, style):
  """Text items of one row starting at column `col` (1-based); the row stays inside the 32 columns."""
  n_items = rng.randint(1, 6)
  written = 0
  last_wrote = False      # the previous item wrote a cell (BS and extended characters follow a character)
  for _ in range(n_items):
    if col > 29:
      break
    r = rng.random()
    if r < 0.62 or written == 0 and r < 0.8:
      alphabet = TEXT_BYTES if rng.random() < 0.25 else LETTERS + [0x20]
      a = rng.choice(alphabet)
      if rng.random() < 0.85:
        b = rng.choice(alphabet)
        em.text(a, b)
        col += 2
      else:
        em.text(a, 0)
        col += 1
      written += 1
      last_wrote = True
    elif r < 0.72 and "midrow" in opts:
      em.code(U.w_midrow(rng.randrange(16)), allow_ch2=False)
      em.features.add("midrow")
      col += 1
      written += 1
      last_wrote = True
      if rng.random() < 0.4 and col <= 29:
        # two mid-row codes in a row (colour then italics, italics then colour, ...): the second one replaces / keeps
        # attributes as CTA-608 prescribes (italics keeps the colour, a colour code turns italics off)
        second = rng.choice([14, 15]) if rng.random() < 0.5 else rng.randrange(16)
        em.code(U.w_midrow(second), allow_ch2=False)
        em.features.add("midrow_pair")
        col += 1
        written += 1
        if col <= 29:
          em.text(rng.choice(LETTERS), rng.choice(LETTERS))
          col += 2
    elif r < 0.80 and "special" in opts:
      em.code(U.w_special(rng.randrange(16)), allow_ch2=False)
      em.features.add("special")
      col += 1
      written += 1
      last_wrote = True
    elif r < 0.88 and "extended" in opts and written > 0:
      # customary: a standard stand-in character, then the extended character that replaces it
      em.text(rng.choice(LETTERS), 0)
      em.code(U.w_extended(rng.choice([2, 3]), rng.randrange(32)), allow_ch2=False)
      em.features.add("extended")
      col += 1
      last_wrote = True
    elif r < 0.93 and "bs" in opts and last_wrote:
      em.code(U.w_ctl("BS"), allow_ch2=False)
      em.features.add("bs")
      col -= 1
      last_wrote = False
    elif r < 0.97 and "to" in opts:
      k = rng.randint(1, 3)
      em.code(U.w_ctl("TO%d" % k), allow_ch2=False)
      em.features.add("to_midrow_position")
      col += k
      last_wrote = False
    elif "der" in opts and style == "painton":
      em.code(U.w_ctl("DER"), allow_ch2=False)
      em.features.add("der")
  if written == 0:
    if col <= 31:
      em.text(rng.choice(LETTERS), rng.choice(LETTERS))
    else:
      em.text(rng.choice(LETTERS), 0)
  return col


def _readdress(em, rng, row, opts, style):
  """The same row addressed twice in one caption: first text at an indent plus a tab offset, then a preamble address
  code at the bare indent (or at a neighbouring one) whose text runs into / over the cells written before."""
  d = 16 + 2 * rng.randrange(0, 7) + rng.randrange(2)
  col = (d - 16) // 2 * 4 + 1
  k = rng.randint(1, 3)
  em.code(U.w_pac(row, d))
  em.code(U.w_ctl("TO%d" % k), allow_ch2=False)
  for _ in range(rng.randint(1, 3)):
    em.text(rng.choice(LETTERS), rng.choice(LETTERS))
  d2 = d if rng.random() < 0.7 else max(16, min(31, d + rng.choice([-2, 2])))
  em.code(U.w_pac(row, d2))
  if rng.random() < 0.3:
    em.code(U.w_ctl("TO%d" % rng.randint(1, 3)), allow_ch2=False)
  n = rng.randint(1, 3)
  for j in range(n):
    if j == n - 1 and rng.random() < 0.4:
      em.text(rng.choice(LETTERS), 0)
    else:
      em.text(rng.choice(LETTERS), rng.choice(LETTERS))
  em.features.add("row_readdressed")
  return col


def _pac(em, rng, row, opts):
  if "pacattr" in opts and rng.random() < 0.35:
    desc = rng.randrange(16)
    em.features.add("pac_attr")
    col = 1
  else:
    desc = 16 + rng.randrange(16) if "indent" in opts else 16 + rng.randrange(2)
    col = (desc - 16) // 2 * 4 + 1
  em.code(U.w_pac(row, desc))
  if "to" in opts and desc >= 16 and rng.random() < 0.3:
    k = rng.randint(1, 3)
    em.code(U.w_ctl("TO%d" % k), allow_ch2=False)
    em.features.add("to")
    col += k
  return col


ALL_OPTS = ("midrow", "special", "extended", "bs", "to", "der", "pacattr", "indent", "enm", "edm_before_eoc")


def gen_stream(rng, style=None, plain=False, doubling=None):
  """One random stream.  Returns dict(lines=[(frame, [words])], df, parity, align, features, style)."""
  df = rng.random() < 0.5
  style = style or rng.choice(["popon", "popon", "rollup", "painton"])
  doubling = doubling or rng.choice(["all", "all", "none", "mixed"])
  opts = set() if plain else {o for o in ALL_OPTS if rng.random() < 0.55}
  p_null = 0 if plain else rng.choice([0, 0, 0.15])
  p_ch2 = 0 if plain else rng.choice([0, 0, 0.2])
  # start time code: anywhere, sometimes just before a minute boundary (drop-frame labels)
  if rng.random() < 0.06:
    # at and beyond 24 hours (labels are plain counters, not times of day), and lines that run across the 24 h mark
    h, m, s, f = rng.choice([(23, 59, 59, rng.randrange(20, 30)), (24, 0, 0, 0), (47, 59, 58, 0), (99, 0, 1, 10), (30, 10, 10, 10)])
  elif rng.random() < 0.3:
    h, m, s, f = rng.randrange(0, 24), rng.randrange(0, 60), 59, rng.randrange(0, 30)
  else:
    h, m, s, f = rng.randrange(0, 24), rng.randrange(0, 60), rng.randrange(0, 60), rng.randrange(0, 30)
  if df and s == 0 and f < 2 and m % 10 != 0:
    f = 2
  clock = U.label_to_frames(h, m, s, f, df)
  lines = []
  feats = {style, "df" if df else "ndf", "doubling_" + doubling}
  ncap = rng.randint(1, 4)
  depth = rng.choice([2, 3, 4])
  base = 15 if rng.random() < 0.8 else rng.randint(depth, 14)
  mixed = (not plain) and rng.random() < 0.15

  def new_line(em, min_gap=0):
    nonlocal clock
    start = clock + min_gap
    lines.append((start, em.words))
    clock = start + len(em.words)
    feats.update(em.features)

  styles = [style] + [rng.choice(["popon", "rollup", "painton"]) if mixed else style for _ in range(ncap - 1)]
  for cap in range(ncap):
    st = styles[cap]
    if st != style:
      feats.add("mode_switch")
    em = Emitter(rng, doubling, p_null, p_ch2)
    if st == "popon":
      em.code(U.w_ctl("RCL"))
      # entering pop-on from another protocol: the non-displayed memory is erased explicitly
      if "enm" in opts or (cap > 0 and styles[cap - 1] != "popon"):
        em.code(U.w_ctl("ENM"))
        em.features.add("enm")
      rows = rng.sample(range(1, 16), rng.randint(1, 4))
      if rng.random() < 0.7:
        rows.sort()
      if (not plain) and cap > 0 and rng.random() < 0.12:
        # nothing is loaded: the EOC flips all the same (what was on screen goes to the non-displayed memory and comes back
        # with the next flip unless that memory is erased first)
        rows = []
        em.features.add("empty_flip")
      for row in rows:
        if (not plain) and rng.random() < 0.12:
          _readdress(em, rng, row, opts, st)
          continue
        col = _pac(em, rng, row, opts)
        _row_items(em, rng, col, opts, st)
      if "edm_before_eoc" in opts and rng.random() < 0.5:
        em.code(U.w_ctl("EDM"))
        em.features.add("edm_before_eoc")
      em.code(U.w_ctl("EOC"))
    elif st == "rollup":
      em.code(U.w_ctl("RU%d" % depth))
      em.code(U.w_ctl("CR"))
      if (not plain) and rng.random() < 0.08:
        # a blank line: a second carriage return, separated from the first pair by padding or a channel-2 word
        if rng.random() < 0.5:
          em.words.append(0)
        else:
          em.words.append(U.w_ctl("EDM", 2))
        em.code(U.w_ctl("CR"), allow_ch2=False)
        em.features.add("double_roll")
      if base != 15:
        em.features.add("rollup_base_not_15")
      col = _pac(em, rng, base, opts)
      _row_items(em, rng, col, opts, st)
      if (not plain) and rng.random() < 0.1:
        # another depth for the next line; the window must fit above the base row
        depth = rng.choice([d for d in (2, 3, 4) if d <= base])
        em.features.add("depth_change")
    else:
      em.code(U.w_ctl("RDC"))
      rows = rng.sample(range(1, 16), rng.randint(1, 3))
      for row in rows:
        if (not plain) and rng.random() < 0.12:
          _readdress(em, rng, row, opts, st)
          continue
        col = _pac(em, rng, row, opts)
        _row_items(em, rng, col, opts, st)
    new_line(em, 0 if cap == 0 else rng.choice([0, 0, 1, 5, rng.randint(2, 90)]))
    # an erase line after the caption (always before a change of protocol unless told otherwise)
    r = rng.random()
    # the protocols are left through an erase: a change of protocol is always preceded by an EDM line
    nxt_differs = cap + 1 < ncap and styles[cap + 1] != st
    if r < 0.45 or nxt_differs or (cap == ncap - 1 and r < 0.7):
      em2 = Emitter(rng, doubling, p_null, 0)
      em2.code(U.w_ctl("EDM"), allow_ch2=False)
      new_line(em2, rng.choice([0, 3, rng.randint(1, 120)]))
      feats.add("erase_line")
  if (not plain) and rng.random() < 0.12:
    # SCC lines are only containers: the same words may be cut into lines anywhere (also between a code and its repetition),
    # and a line may hold nothing but null padding - after which a repeated code is a NEW command, not a redundant copy
    cands = [k for k, (_f, ws) in enumerate(lines) if len(ws) >= 2]
    if cands:
      k = rng.choice(cands)
      f0, ws = lines[k]
      cut = rng.randint(1, len(ws) - 1)
      pad = rng.choice([0, 0, 1, 2, 3])
      new = [(f0, ws[:cut])]
      if pad:
        new.append((f0 + cut, [0] * pad))
        feats.add("padding_only_line")
      new.append((f0 + cut + pad, ws[cut:]))
      lines[k:k + 1] = new
      if pad:
        for j in range(k + len(new), len(lines)):
          lines[j] = (lines[j][0] + pad, lines[j][1])
      feats.add("line_cut")
  seps = None
  if df and (not plain) and rng.random() < 0.2:
    # the other customary spellings of a drop-frame label
    seps = rng.choice([";;;", "...", ",,,", "::.", "::,", ";:;", ":;;"])
    feats.add("label_separators_" + seps)
  return {"lines": lines, "df": df, "seps": seps, "parity": rng.choice([True, True, True, False, "mixed"]), "align": rng.choice([None, None, "left", "center", "right", "auto"]),
          "features": sorted(feats), "style": style if not mixed else "mixed"}
