"""SCC helpers for C08: word constructors, SCC file renderer, projection of the resulting document.

Nothing here decides the property.  The renderer turns abstract word sequences (16-bit values without parity)
into the text of an SCC file; the projection turns the ContentDocument returned by ttconv.scc.reader.to_model
into plain data: paragraphs with begin/end as exact rationals of frames, absolute rows and per-character cells
[code point, colour, italic, underline], from which `project_screen(doc, frame)` derives what is on screen
during one frame.
"""
from __future__ import annotations

from fractions import Fraction

from .core import flag

# ---------------------------------------------------------------------------------------------------
# words (values WITHOUT parity bits; parity is applied by the renderer)
# ---------------------------------------------------------------------------------------------------

# row -> (code group c, second-row flag), CTA-608 PAC table
_ROW_CODE = {1: (1, 0), 2: (1, 1), 3: (2, 0), 4: (2, 1), 5: (5, 0), 6: (5, 1), 7: (6, 0), 8: (6, 1), 9: (7, 0), 10: (7, 1),
             11: (0, 0), 12: (3, 0), 13: (3, 1), 14: (4, 0), 15: (4, 1)}

CONTROL_INDEX = {"RCL": 0, "BS": 1, "AOF": 2, "AON": 3, "DER": 4, "RU2": 5, "RU3": 6, "RU4": 7, "FON": 8, "RDC": 9, "TR": 10,
                 "RTD": 11, "EDM": 12, "CR": 13, "ENM": 14, "EOC": 15}


def w_pac(row, desc, ch=1):
  """desc = low five bits: 0..15 colour/italic (+1 underline), 16..31 indent (desc-16)//2*4 (+1 underline)."""
  c, second = _ROW_CODE[row]
  return ((0x10 + c + (8 if ch == 2 else 0)) << 8) | (0x40 + 0x20 * second + desc)


def w_midrow(attr, ch=1):
  return ((0x11 + (8 if ch == 2 else 0)) << 8) | (0x20 + attr)


def w_ctl(name, ch=1):
  if name in ("TO1", "TO2", "TO3"):
    return ((0x17 + (8 if ch == 2 else 0)) << 8) | (0x20 + int(name[2]))
  return ((0x14 + (8 if ch == 2 else 0)) << 8) | (0x20 + CONTROL_INDEX[name])


def w_special(i, ch=1):
  return ((0x11 + (8 if ch == 2 else 0)) << 8) | (0x30 + i)


def w_extended(group, i, ch=1):
  """group 2 (Spanish/French) or 3 (Portuguese/German); i in 0..31."""
  return ((0x10 + group + (8 if ch == 2 else 0)) << 8) | (0x20 + i)


def w_chars(a, b=0):
  return (a << 8) | b


def is_code(w):
  return 0x10 <= ((w >> 8) & 0x7F) <= 0x1F


def odd_parity(b):
  b &= 0x7F
  return b | (0x80 if bin(b).count("1") % 2 == 0 else 0)


# ---------------------------------------------------------------------------------------------------
# time codes
# ---------------------------------------------------------------------------------------------------

def label_to_frames(h, m, s, f, df):
  tm = h * 60 + m
  return (tm * 60 + s) * 30 + f - (2 * (tm - tm // 10) if df else 0)


def frames_to_label(n, df):
  if df:
    d, r = divmod(n, 17982)
    n += 18 * d + (2 * (1 + (r - 1800) // 1798) if r >= 1800 else 0)
  return (n // 108000, (n // 1800) % 60, (n // 30) % 60, n % 30)


def label_str(lab, df, seps=None):
  """seps: the three separators of a DROP-FRAME label (any of ; . , in any position marks drop-frame counting)."""
  h, m, s, f = lab
  if df and seps:
    return "%02d%s%02d%s%02d%s%02d" % (h, seps[0], m, seps[1], s, seps[2], f)
  return "%02d:%02d:%02d%s%02d" % (h, m, s, ";" if df else ":", f)


# ---------------------------------------------------------------------------------------------------
# renderer
# ---------------------------------------------------------------------------------------------------

def render_scc(lines, df, parity=True, blank_lines=True, seps=None):
  """lines: [(label (h,m,s,f), [word values without parity])].  Returns the SCC text."""
  out = ["Scenarist_SCC V1.0", ""]
  for lab, ws in lines:
    toks = []
    for wi, w in enumerate(ws):
      b1, b2 = (w >> 8) & 0x7F, w & 0x7F
      # parity: True = every byte carries its odd-parity bit, False = none does, "mixed" = some words do and some do not (the
      # two copies of a doubled code may differ in nothing but that bit), digits then in either letter case
      if parity is True or (parity == "mixed" and (wi * 5 + len(ws)) % 3 != 0):
        b1, b2 = odd_parity(b1), odd_parity(b2)
      tok = "%02x%02x" % (b1, b2)
      if parity == "mixed" and wi % 4 == 1:
        tok = tok.upper() if wi % 8 == 1 else "".join(c.upper() if k % 2 else c for k, c in enumerate(tok))
      toks.append(tok)
    out.append(label_str(lab, df, seps) + "\t" + " ".join(toks))
    if blank_lines:
      out.append("")
  return "\n".join(out) + "\n"


# ---------------------------------------------------------------------------------------------------
# projection of the document
# ---------------------------------------------------------------------------------------------------

_COLOURS = None


def _colour_name(c):
  global _COLOURS
  from ttconv.style_properties import NamedColors
  if c is None:
    return "white"                       # initial value of tts:color in the SCC reader's documents
  if _COLOURS is None:
    _COLOURS = {}
    for n in ("white", "green", "blue", "cyan", "red", "yellow", "magenta", "black"):
      _COLOURS[tuple(NamedColors[n].value.components[:3])] = n
    _COLOURS[(0, 255, 0)] = "green"      # CTA-608 names colours only (ttconv: lime for 00FF00)
  return _COLOURS.get(tuple(c.components[:3]), "rgb" + "".join("%02x" % x for x in c.components[:3]))


def _frames(t, df):
  """Fraction seconds -> [num, den] of frames in lowest terms (den = 1 iff an exact frame multiple)."""
  fr = t * (Fraction(30000, 1001) if df else Fraction(30))
  return [fr.numerator, fr.denominator]


def project_doc(doc, df):
  """Paragraphs of the document as plain data.

  [{id, b:[num,den], e:[num,den] | [-1,1] (no end), style, rows: [{row, cells: [[cp, colour, it, ul, sb_num, sb_den]]}]}]
  row = absolute row 1..15 derived from the region origin (display-align before: first line at the origin; after: last
  line at the bottom of the region) and the number of br elements; sb = begin of the enclosing span relative to the
  paragraph, in frames (0/1 when the span has none).
  """
  from ttconv.model import Br, Span, Text
  from ttconv.style_properties import StyleProperties, DisplayAlignType, FontStyleType
  cr = doc.get_cell_resolution()
  pars = []
  body = doc.get_body()
  if body is None:
    return pars
  for div in body:
    for p in div:
      region = p.get_region()
      origin = region.get_style(StyleProperties.Origin)
      extent = region.get_style(StyleProperties.Extent)
      y_cells = round(origin.y.value * cr.rows / 100)
      h_cells = round(extent.height.value * cr.rows / 100)
      after = region.get_style(StyleProperties.DisplayAlign) is DisplayAlignType.after
      lines = [[]]
      for child in p:
        if isinstance(child, Br):
          lines.append([])
        elif isinstance(child, Span):
          sb = child.get_begin()
          sbf = _frames(sb, df) if sb is not None else [0, 1]
          col = _colour_name(child.get_style(StyleProperties.Color))
          it = 1 if child.get_style(StyleProperties.FontStyle) is FontStyleType.italic else 0
          td = child.get_style(StyleProperties.TextDecoration)
          ul = flag(td.underline) if td is not None else 0
          for t in child:
            if isinstance(t, Text):
              for chx in t.get_text():
                lines[-1].append([ord(chx), col, it, ul, sbf[0], sbf[1]])
      n = len(lines)
      first_row = (y_cells - 2 + h_cells) - n + 1 if after else y_cells - 2 + 1
      b = p.get_begin()
      e = p.get_end()
      rid = region.get_id()
      pars.append({"id": p.get_id() or "", "b": _frames(b, df) if b is not None else [0, 1],
                   "e": _frames(e, df) if e is not None else [-1, 1],
                   "style": "rollup" if rid.startswith("rollup") else "paint" if rid.startswith("paint") else "pop",
                   "align": str(p.get_style(StyleProperties.TextAlign)).rsplit(".", 1)[-1],
                   "rows": [{"row": first_row + k, "cells": cells} for k, cells in enumerate(lines)]})
  return pars


def project_screen(pars, frame):
  """What the document shows during frame `frame` (an integer frame count since 00:00:00:00).

  pars = project_doc(...).  Returns rows sorted by row number: [[row, [[cp, colour, it, ul], ...]], ...]; rows of all
  paragraphs active at that frame (begin <= frame < end), spans not yet begun are left out, empty rows are left out.
  """
  rows = []
  for p in pars:
    bn, bd = p["b"]
    en, ed = p["e"]
    if not bn <= frame * bd:
      continue
    if en >= 0 and not frame * ed < en:
      continue
    for r in p["rows"]:
      cells = [c[:4] for c in r["cells"] if (bn * c[5] + c[4] * bd) <= frame * bd * c[5]]
      if cells:
        rows.append([r["row"], cells])
  rows.sort(key=lambda x: x[0])
  return rows


def run_reader(scc_text, text_align=None):
  """Runs ttconv.scc.reader.to_model; returns the document."""
  from ttconv.scc.reader import to_model
  from ttconv.scc.config import SccReaderConfiguration, TextAlignment
  cfg = None
  if text_align is not None:
    cfg = SccReaderConfiguration(text_align=TextAlignment.from_value(text_align))
  from .core import AltContext, alt_for
  try:
    with AltContext(alt_for(("scc", len(scc_text), scc_text[:60]))) as ac:
      return to_model(scc_text, cfg, ac.progress)
  except Exception as ex:  # pylint: disable=broad-except
    raise ReaderRaised(ex) from ex


class ReaderRaised(Exception):
  """to_model raised (as opposed to an error of the harness around it)."""
  def __init__(self, ex):
    super().__init__(f"{type(ex).__name__}: {ex}")
    self.original = ex
