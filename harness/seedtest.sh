#!/bin/sh
# usage: seedtest.sh <dir with patch.diff demo.py meta.json> <property id> <name> [extra check ids...]
# Confirms a seeded change in a scratch worktree (never in /repo): demo passes without / fails with the change, the pinned
# suite still passes, and runs the registered quick check(s) against the changed tree.  Result -> /verif/seeded/<name>/.
SRC="$1"; PID="$2"; NAME="$3"; shift 3
WT=/tmp/seedcheck_$$
OUT=/verif/seeded/$NAME
mkdir -p "$OUT"
git -C /repo worktree add -q --detach "$WT" HEAD || exit 2
trap 'git -C /repo worktree remove --force "$WT" >/dev/null 2>&1' EXIT
cp "$SRC/patch.diff" "$SRC/demo.py" "$OUT/"
PYTHONPATH=$WT/src/main/python /venv/bin/python "$SRC/demo.py" "$WT" >/dev/null 2>&1; D0=$?
if ! git -C "$WT" apply "$SRC/patch.diff"; then echo "PATCH DOES NOT APPLY to current HEAD"; APPLY=fail; else APPLY=ok; fi
PYTHONPATH=$WT/src/main/python /venv/bin/python "$SRC/demo.py" "$WT" > "$OUT/demo_with_change.txt" 2>&1; D1=$?
BASE=$(cd /verif && TTCONV_BASELINE_ROOT=$WT /venv/bin/python -m harness.baseline 2>&1 | head -1)
RES=""
for C in $PID "$@"; do
  (cd /verif && TTCONV_SRC=$WT/src/main/python VERIF_SCRATCH=/tmp timeout 1800 ./check $C --tier quick > "$OUT/check_$C.txt" 2>&1); RC=$?
  RES="$RES $C:rc=$RC"
done
echo "seed=$NAME apply=$APPLY demo_without=$D0 demo_with=$D1 suite='$BASE' checks:$RES"
/venv/bin/python - "$SRC/meta.json" "$OUT/meta.json" "$NAME" "$APPLY" "$D0" "$D1" "$BASE" "$RES" <<'P'
import json,sys
src,out,name,apply_,d0,d1,base,res=sys.argv[1:9]
try: m=json.load(open(src))
except Exception: m={}
m["confirmed"]={"patch_applies":apply_,"demo_exit_without_change":int(d0),"demo_exit_with_change":int(d1),"pinned_suite_with_change":base,
  "checks_run":res.strip(),"how":"scratch worktree of /repo HEAD; harness/seedtest.sh"}
json.dump(m,open(out,"w"),indent=1)
P
