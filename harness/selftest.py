"""./check selftest [ids...] : demonstrates the binding - each check is run with ONE recorded field corrupted
(VERIF_CORRUPT=1) and must end in a violation (exit 1).  Not a registered check."""
import os
import subprocess
import sys

VERIF = os.path.dirname(os.path.dirname(os.path.abspath(__file__)))
IDS = ["C12", "C17", "C15", "C01", "C02", "C13"]


def main(argv):
  ids = argv or IDS
  bad = 0
  for pid in ids:
    env = dict(os.environ, VERIF_CORRUPT="1")
    p = subprocess.run([os.path.join(VERIF, "check"), pid, "--tier", "quick"], env=env, cwd=VERIF, stdout=subprocess.PIPE,
                       stderr=subprocess.STDOUT, text=True)
    ok = p.returncode == 1 and "VIOLATION property=" + pid in p.stdout
    print(f"selftest {pid}: corrupted trace {'REJECTED (good)' if ok else 'ACCEPTED (binding is vacuous!)'} rc={p.returncode}")
    bad += 0 if ok else 1
  # evidence files now describe corrupted runs: refresh them
  for pid in ids:
    subprocess.run([os.path.join(VERIF, "check"), pid, "--tier", "quick"], cwd=VERIF, stdout=subprocess.DEVNULL, stderr=subprocess.DEVNULL)
  return 1 if bad else 0
