"""setup: verify the toolchain and pre-parse every TLA+ module (offline; nothing is fetched)."""
import os
import shutil
import subprocess
import sys

VERIF = os.path.dirname(os.path.dirname(os.path.abspath(__file__)))


def main():
  ok = True
  for tool in ("java", "tlc", "tla-sany"):
    if shutil.which(tool) is None:
      print("missing tool:", tool)
      ok = False
  if not os.path.exists("/venv/bin/python"):
    print("missing /venv/bin/python")
    ok = False
  spec = os.path.join(VERIF, "spec")
  for f in sorted(os.listdir(spec)):
    if not f.endswith(".tla"):
      continue
    p = subprocess.run(["tla-sany", f], cwd=spec, stdout=subprocess.PIPE, stderr=subprocess.STDOUT, text=True)
    bad = p.returncode != 0 or "*** Errors" in p.stdout or "Fatal errors" in p.stdout or "Parsing or semantic analysis failed" in p.stdout
    print(("FAIL " if bad else "ok   ") + f)
    if bad:
      # a module that does not parse makes the check that uses it fail on its own; setup only reports it
      print(p.stdout[-800:])
  try:
    sys.path.insert(0, os.environ.get("TTCONV_SRC", "/repo/src/main/python"))
    import ttconv  # noqa: F401
  except Exception as ex:  # pragma: no cover
    print("cannot import ttconv:", ex)
    ok = False
  os.makedirs(os.path.join(VERIF, "evidence"), exist_ok=True)
  return 0 if ok else 1


if __name__ == "__main__":
  sys.exit(main())
