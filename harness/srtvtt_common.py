"""Shared helpers of the C10 (SRT reader) and C11 (WebVTT reader) checks.

Everything here either *generates inputs*, *runs the implementation*, *projects observations to plain JSON* or
*runs TLC*.  Nothing here decides a property: the Trace_*.tla modules do.
"""
from __future__ import annotations

import io
import json
import numbers
import os
from concurrent.futures import ThreadPoolExecutor
from fractions import Fraction

from . import tlc as T

FPS_LIST = [(25, 1), (30, 1), (24, 1), (50, 1), (60, 1), (30000, 1001), (24000, 1001), (60000, 1001)]


# ---------------------------------------------------------------------------------------------------------------
# observations
# ---------------------------------------------------------------------------------------------------------------

def time_parts(v):
  """Python value of begin/end -> (type name, is numbers.Rational, whole seconds, rnum, rden).

  rden = 0 means: not a rational with a denominator below 10^6 (e.g. a binary float that is not a multiple of
  1/1000), or missing.  Floats are converted with Fraction(v), which is exact, so 0.28 (float) has rden = 0."""
  if v is None:
    return ("NoneType", 0, -1, 0, 0)
  tn = type(v).__name__
  rat = 1 if isinstance(v, numbers.Rational) else 0
  try:
    f = Fraction(v)
  except (TypeError, ValueError):
    return (tn, rat, -1, 0, 0)
  whole = f.numerator // f.denominator
  r = f - whole
  if r.denominator >= 10 ** 6 or abs(whole) >= 2 ** 31:
    return (tn, rat, int(whole) if abs(whole) < 2 ** 31 else -1, 0, 0)
  return (tn, rat, int(whole), r.numerator, r.denominator)


def time_obs(prefix, v):
  tn, rat, w, n, d = time_parts(v)
  return {prefix + "t": tn, prefix + "r": rat, prefix + "w": w, prefix + "n": n, prefix + "d": d}


def rgba(c):
  return [] if c is None else [int(x) for x in c.components]


def open_text(text, mode):
  """How the file reaches the reader: 'text' = a text-mode file object with universal newlines (what tt.py's
  open(path, encoding='utf-8') gives), 'raw' = io.StringIO(text) with the characters untouched."""
  if mode == "text":
    return io.StringIO(text, newline=None)
  return io.StringIO(text)


def imsc_frames(doc, fps_list):
  """Write `doc` with the IMSC writer in `frames` time format and return, per rate, the begin/end frame numbers of
  the p elements in document order.  -1 = attribute absent / not in <n>f form."""
  import ttconv.imsc.writer as iw
  from ttconv.imsc.config import IMSCWriterConfiguration
  from ttconv.imsc.attributes import TimeExpressionSyntaxEnum
  out = []
  for (n, d) in fps_list:
    ent = {"n": n, "d": d, "b": [], "e": [], "err": ""}
    try:
      tree = iw.from_model(doc, IMSCWriterConfiguration(time_format=TimeExpressionSyntaxEnum.frames, fps=Fraction(n, d)))
      for p in tree.getroot().iter("{http://www.w3.org/ns/ttml}p"):
        for key, attr in (("b", "begin"), ("e", "end")):
          v = p.attrib.get(attr, "")
          ent[key].append(int(v[:-1]) if v.endswith("f") and v[:-1].isdigit() and int(v[:-1]) < 2 ** 31 else -1)
    except Exception as ex:  # pylint: disable=broad-except
      ent["err"] = type(ex).__name__
    out.append(ent)
  return out


# ---------------------------------------------------------------------------------------------------------------
# documents for the round trips (the shape of the documents of C06: regions, div, p with times, nested spans with
# bold / italic / underline / colour, br) - they only serve as producers of writer output
# ---------------------------------------------------------------------------------------------------------------

WORDS = ["Hello", "world", "café", "中文", "x", "a-b", "1 2", "Bob:", "l’été", "\U0001F600", "ok.", "Q?"]
NAMED8 = ["white", "lime", "cyan", "red", "yellow", "magenta", "blue", "black"]


def gen_doc(rng, rich=True):
  """A random canonical document with sequential (sometimes overlapping) paragraphs."""
  import ttconv.model as model
  import ttconv.style_properties as styles
  doc = model.ContentDocument()
  regions = []
  for k in range(rng.choice([1, 1, 2])):
    r = model.Region("R%d" % k, doc)
    if rng.random() < 0.7:
      x = rng.choice([0, 5, 10, 20]); y = rng.choice([0, 5, 10, 50, 70])
      w = rng.choice([w for w in (30, 50, 80, 90, 100) if x + w <= 100]); h = rng.choice([h for h in (10, 20, 30, 90, 100) if y + h <= 100])
      r.set_style(styles.StyleProperties.Origin, styles.CoordinateType(x=styles.LengthType(x, styles.LengthType.Units.pct),
                                                                       y=styles.LengthType(y, styles.LengthType.Units.pct)))
      r.set_style(styles.StyleProperties.Extent, styles.ExtentType(height=styles.LengthType(h, styles.LengthType.Units.pct),
                                                                    width=styles.LengthType(w, styles.LengthType.Units.pct)))
    if rng.random() < 0.6:
      r.set_style(styles.StyleProperties.DisplayAlign, rng.choice(list(styles.DisplayAlignType)))
    if rng.random() < 0.5:
      r.set_style(styles.StyleProperties.TextAlign, rng.choice([styles.TextAlignType.start, styles.TextAlignType.center, styles.TextAlignType.end]))
    doc.put_region(r)
    regions.append(r)
  body = model.Body(doc)
  doc.set_body(body)
  div = model.Div(doc)
  body.push_child(div)
  t = Fraction(rng.choice([0, 0, 1, 3599, 35999, 359999]))
  np_ = rng.randint(1, 4)
  for _ in range(np_):
    p = model.P(doc)
    p.set_region(rng.choice(regions))
    grid = rng.choice([Fraction(1, 1000), Fraction(1, 1000), Fraction(1, 25), Fraction(1001, 30000), Fraction(1, 3)])
    t += grid * rng.randint(0, 3000) if grid != Fraction(1, 3) else grid * rng.randint(0, 7)
    dur = grid * rng.randint(1, 4000)
    p.set_begin(t)
    p.set_end(t + dur)
    if rng.random() < 0.8:
      t = t + dur
    if rich and rng.random() < 0.3:
      p.set_style(styles.StyleProperties.TextAlign, rng.choice([styles.TextAlignType.start, styles.TextAlignType.center, styles.TextAlignType.end]))

    def fill(parent, depth):
      n = rng.randint(1, 3)
      for k in range(n):
        c = rng.random()
        if c < 0.2 and k > 0:
          parent.push_child(model.Br(doc))
        s = model.Span(doc)
        if rich:
          if rng.random() < 0.3:
            s.set_style(styles.StyleProperties.FontWeight, styles.FontWeightType.bold)
          if rng.random() < 0.3:
            s.set_style(styles.StyleProperties.FontStyle, styles.FontStyleType.italic)
          if rng.random() < 0.2:
            s.set_style(styles.StyleProperties.TextDecoration, styles.TextDecorationType(underline=True))
          if rng.random() < 0.3:
            if rng.random() < 0.7:
              s.set_style(styles.StyleProperties.Color, styles.NamedColors[rng.choice(NAMED8)].value)
            else:
              s.set_style(styles.StyleProperties.Color, styles.ColorType((rng.randint(0, 255), rng.randint(0, 255), rng.randint(0, 255), 255)))
        if depth < 2 and rng.random() < 0.35:
          fill(s, depth + 1)
        else:
          s.push_child(model.Text(doc, " ".join(rng.choice(WORDS) for _ in range(rng.randint(1, 3)))))
        parent.push_child(s)
    fill(p, 0)
    div.push_child(p)
  return doc


# ---------------------------------------------------------------------------------------------------------------
# trace validation
# ---------------------------------------------------------------------------------------------------------------

def dumps(x):
  return json.dumps(x, separators=(",", ":"), ensure_ascii=True)


def validate(ctx, module, cfg, recs, label, nproc=4, extra_files=None, timeout=3000):
  """Split `recs` over TLC processes running spec/<module>.tla; returns (fails, skips):
  fails = list of (record index, sub index, clause) ; skips = list of (record index, reason)."""
  if not recs:
    return [], []
  nproc = max(1, min(nproc, len(recs) // 40 or 1))
  parts = [list(range(k, len(recs), nproc)) for k in range(nproc)]

  def one(part):
    text = "\n".join(dumps(recs[j]) for j in part) + "\n"
    files = {"trace.ndjson": text}
    files.update(extra_files or {})
    return part, T.run_tlc(module, cfg, workers=1, env={"TRACE_FILE": "trace.ndjson"}, extra_files=files,
                           timeout=timeout, name="tr_" + label, java_opts=("-Xmx4g",))

  with ThreadPoolExecutor(max_workers=nproc) as ex:
    outs = list(ex.map(one, parts))
  fails, skips = [], []
  for part, res in outs:
    done = res.values("DONE")
    if not done or done[0][1] != len(part):
      raise T.MachineryError(f"trace {label} not consumed: " + res.out[-2000:])
    ctx.tlc(res, "trace validation " + label)
    for v in res.values("FAIL"):
      fails.append((part[v[1] - 1], v[2], v[3]))
    for v in res.values("SKIP"):
      skips.append((part[v[1] - 1], v[2]))
  ctx.traces += len(recs)
  return fails, skips


# ---------------------------------------------------------------------------------------------------------------
# known findings of this property that are still in the fragment findings_<pid>.json
# ---------------------------------------------------------------------------------------------------------------

def apply_fragment(ctx):
  """core.finish matches violations against /verif/known_findings.json only.  Until findings_<pid>.json has been merged
  into that file, the `known` entries of the fragment are applied here with the same matcher (core._match): a matched
  case is reported as KNOWN-FINDING and counted, not failed.  Entries already present in known_findings.json are left to
  core.finish."""
  from . import core
  path = os.path.join(core.VERIF, "findings_%s.json" % ctx.pid)
  if not os.path.exists(path):
    return
  with open(path) as fh:
    entries = [e for e in json.load(fh).get("findings", []) if e.get("status") == "known"]
  merged = {e.get("id") for e in core.load_findings()}
  entries = [e for e in entries if e.get("id") not in merged]
  if not entries:
    return
  keep = []
  hits = {}
  for v in ctx.violations:
    probe = dict(v, pid=ctx.pid)
    hit = next((e for e in entries if core._match(e, probe)), None)      # pylint: disable=protected-access
    if hit is None:
      keep.append(v)
    else:
      hits[hit["id"]] = hits.get(hit["id"], 0) + 1
  ctx.violations = keep
  for e in entries:
    n = hits.get(e["id"], 0)
    if n:
      print(f"KNOWN-FINDING: property={ctx.pid} {e['id']}: {e['what']} ({n} case(s) this run; from findings_{ctx.pid}.json)")
      ctx.count("known_finding:" + e["id"], n)
