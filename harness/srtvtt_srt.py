"""SRT side of C10: lexer (text -> lexical line features of spec/SrtReader.tla), renderer (abstract lines -> text),
random generator of abstract files inside the cue grammar, projection of the reader's output."""
from __future__ import annotations

import re

from .core import flag

from .srtvtt_common import time_obs, rgba, open_text

# ---------------------------------------------------------------------------------------------------------------
# tokens (same shape as SrtReader.tla: [t, k, cn, rgba, cs])
# ---------------------------------------------------------------------------------------------------------------

def t_open(k):
  return {"t": "open", "k": k, "cn": "", "rgba": [], "cs": []}


def t_font(cn="", col=None):
  return {"t": "open", "k": "font", "cn": cn, "rgba": list(col or []), "cs": []}


def t_close(k):
  return {"t": "close", "k": k, "cn": "", "rgba": [], "cs": []}


def t_txt(s):
  return {"t": "txt", "k": "", "cn": "", "rgba": [], "cs": [ord(c) for c in s]}


L_BLANK = {"blank": 1, "digits": 0, "tm": [], "toks": []}
L_COUNTER = {"blank": 0, "digits": 1, "tm": [], "toks": []}


def l_timing(tm):
  return {"blank": 0, "digits": 0, "tm": list(tm), "toks": []}


def l_text(toks):
  return {"blank": 0, "digits": 0, "tm": [], "toks": toks}


# ---------------------------------------------------------------------------------------------------------------
# lexer
# ---------------------------------------------------------------------------------------------------------------

_KIND = {"b": "b", "bold": "b", "i": "i", "italic": "i", "u": "u", "underline": "u"}
_TAG = re.compile(r"<(/?)(b|i|u|bold|italic|underline)>|\{(/?)(b|i|u|bold|italic|underline)\}|"
                  r"<font\s+color=(\"[^\">]*\"|'[^'>]*'|[^\s\"'>]+)\s*>|(</font>)|"
                  r"(<font(?:\s+(?:face|size)=\"[^\">]*\")*\s*>)|<(/?)(em|span|s|small|big|ins|ul|blink|img|body|fonts)>", re.I)
# tags that style nothing: a font tag without colour (typeface / size only) and tags outside b / i / u / font; they are
# opened and closed like any tag (kind = the lower-case name) and what they enclose keeps the styles in force
OTHER_TAGS = ("em", "span", "s", "small", "big", "ins", "ul", "blink", "img", "body", "fonts")   # (some begin like b / i / u / font)
_HEX = re.compile(r"#([0-9a-fA-F]{2})([0-9a-fA-F]{2})([0-9a-fA-F]{2})([0-9a-fA-F]{2})?$")
_TIMING = re.compile(r"\s*(\d{2,3}):(\d\d):(\d\d),(\d{3})\s+-->\s+(\d{2,3}):(\d\d):(\d\d),(\d{3})\s*$")


def lex_colour(v):
  v = v.strip("\"'")
  m = _HEX.match(v)
  if m:
    return t_font("", [int(m.group(1), 16), int(m.group(2), 16), int(m.group(3), 16), int(m.group(4), 16) if m.group(4) else 255])
  return t_font(v.lower(), None)


def lex_text_line(s):
  toks = []
  pos = 0
  for m in _TAG.finditer(s):
    if m.start() > pos:
      toks.append(t_txt(s[pos:m.start()]))
    if m.group(2):
      toks.append((t_close if m.group(1) else t_open)(_KIND[m.group(2).lower()]))
    elif m.group(4):
      toks.append((t_close if m.group(3) else t_open)(_KIND[m.group(4).lower()]))
    elif m.group(5):
      toks.append(lex_colour(m.group(5)))
    elif m.group(6):
      toks.append(t_close("font"))
    elif m.group(7):
      toks.append(t_font("", None))
    else:
      toks.append((t_close if m.group(8) else t_open)(m.group(9).lower()))
    pos = m.end()
  if pos < len(s):
    toks.append(t_txt(s[pos:]))
  return toks


def lex_srt(text):
  """Split a file into lines (LF or CR LF) and give each line its lexical features."""
  if text.startswith("\ufeff"):
    text = text[1:]                 # the byte order mark is not part of the text
  lines = text.split("\n")
  if lines and lines[-1] == "":
    lines.pop()
  out = []
  for ln in lines:
    if ln.endswith("\r"):
      ln = ln[:-1]
    if ln.strip() == "":
      out.append(dict(L_BLANK))
      continue
    m = _TIMING.match(ln)
    out.append({"blank": 0, "digits": 1 if re.fullmatch(r"\s*\d+\s*", ln) else 0,
                "tm": [int(x) for x in m.groups()] if m else [], "toks": lex_text_line(ln)})
  return out


# ---------------------------------------------------------------------------------------------------------------
# renderer: abstract lines -> text; the rng picks among spellings that the grammar treats alike
# ---------------------------------------------------------------------------------------------------------------

_OPEN = {"b": ["<b>", "{b}", "<bold>", "{bold}", "<B>"], "i": ["<i>", "{i}", "<italic>", "{italic}", "<I>"],
         "u": ["<u>", "{u}", "<underline>", "{underline}", "<U>"]}
_CLOSE = {"b": ["</b>", "{/b}", "</bold>", "{/bold}", "</B>"], "i": ["</i>", "{/i}", "</italic>", "{/italic}", "</I>"],
          "u": ["</u>", "{/u}", "</underline>", "{/underline}", "</U>"]}


def render_tok(tok, rng, syntax):
  """syntax: 'angle' | 'brace' | 'mixed'."""
  t = tok["t"]
  if t == "txt":
    return "".join(chr(c) for c in tok["cs"])
  if tok["k"] in OTHER_TAGS:
    name = tok["k"] if rng.random() < 0.8 else tok["k"].upper()
    return "<%s%s>" % ("/" if t == "close" else "", name)
  if t == "open" and tok["k"] == "font" and not tok["cn"] and not tok["rgba"]:
    return rng.choice(['<font face="Arial">', '<font size="12">', "<font>", '<font face="A B" size="3">'])
  if t == "open" and tok["k"] == "font":
    if tok["cn"]:
      v = tok["cn"] if rng.random() < 0.7 else tok["cn"].capitalize()
    else:
      r, g, b, a = tok["rgba"]
      v = "#%02x%02x%02x" % (r, g, b) if a == 255 and rng.random() < 0.6 else "#%02x%02x%02x%02x" % (r, g, b, a)
      if rng.random() < 0.3:
        v = v.upper()
    return '<font color="%s">' % v
  if t == "close" and tok["k"] == "font":
    return "</font>"
  table = _OPEN if t == "open" else _CLOSE
  opts = table[tok["k"]]
  if syntax == "angle":
    return rng.choice([opts[0], opts[0], opts[2], opts[4]])
  if syntax == "brace":
    return rng.choice([opts[1], opts[1], opts[3]])
  return rng.choice(opts)


def render_time(h, m, s, ms, rng):
  hh = "%03d" % h if (h >= 100 or rng.random() < 0.25) else "%02d" % h
  return "%s:%02d:%02d,%03d" % (hh, m, s, ms)


def render_srt(lines, rng, eol="\n", syntax="mixed", final_eol=True):
  out = []
  n = 0
  for ln in lines:
    if ln["blank"]:
      out.append("" if rng.random() < 0.85 else rng.choice([" ", "\t", "  "]))
    elif ln["tm"]:
      tm = ln["tm"]
      out.append(render_time(tm[0], tm[1], tm[2], tm[3], rng) + rng.choice([" --> ", " --> ", "  -->  ", "\t-->\t"]) +
                 render_time(tm[4], tm[5], tm[6], tm[7], rng))
    elif ln["digits"] and not ln["toks"]:
      n = n + 1 if rng.random() < 0.7 else rng.choice([0, 1, 7, 42, 100000])
      out.append(str(n))
    else:
      out.append("".join(render_tok(t, rng, syntax) for t in ln["toks"]))
  text = eol.join(out)
  if final_eol:
    text += eol
  return text


# ---------------------------------------------------------------------------------------------------------------
# random abstract files inside the cue grammar
# ---------------------------------------------------------------------------------------------------------------

CHARS = "abcXYZ 019.,!?'-é中\U0001F600"
COLOURS = [("red", None), ("blue", None), ("lime", None), ("yellow", None), ("white", None), ("green", None), ("fuchsia", None),
           ("", [255, 0, 0, 255]), ("", [0, 0, 255, 255]), ("", [18, 52, 86, 255]), ("", [171, 205, 239, 128]),
           ("", [255, 0, 0, 0]), ("", [0, 0, 0, 0]), ("", [16, 32, 48, 1]), ("", [0, 0, 0, 255])]      # alpha and components at their extremes

BOUNDARY_MS = [0, 1, 40, 80, 100, 125, 280, 290, 333, 500, 560, 570, 999, 960, 200, 600, 700]


def gen_time(rng, kind):
  if kind == "boundary":
    h = rng.choice([0, 0, 0, 1, 9, 10, 23, 99, 100, 101, 596, 597, 999])
    return (h, rng.choice([0, 1, 59]), rng.choice([0, 1, 7, 59]), rng.choice(BOUNDARY_MS))
  if kind == "frame25":
    return (rng.choice([0, 0, 1, 12]), rng.randint(0, 59), rng.randint(0, 59), 40 * rng.randint(0, 24))
  if kind == "frame30":
    return (rng.choice([0, 0, 1, 12]), rng.randint(0, 59), rng.randint(0, 59), 100 * rng.randint(0, 9))
  if kind == "ntsc":     # whole multiples of 1.001 s are frame boundaries at 30000/1001 and 60000/1001
    k = rng.randint(0, 40000)
    ms = k * 1001
    return (ms // 3600000, ms // 60000 % 60, ms // 1000 % 60, ms % 1000)
  return (rng.choice([0, 0, 0, 1, 2, 23, 99, 100, 999]), rng.randint(0, 59), rng.randint(0, 59), rng.randint(0, 999))


def gen_word(rng, maxlen=6):
  n = rng.randint(1, maxlen)
  s = "".join(rng.choice(CHARS) for _ in range(n))
  if rng.random() < 0.12:
    # an ampersand is ordinary cue text; a run that ENDS in '&' + letters looks like a truncated character reference
    # (no spelled-out references: whether SubRip text decodes them is not part of C10)
    s += rng.choice(["Q&A", "AT&T", " R&D", "&", "a &b"])
  if rng.random() < 0.05:
    # characters that Unicode (and str.splitlines) regards as line boundaries but that are NOT line ends of the format:
    # they are part of the text, also at the very end of a line
    s = "w" + s + rng.choice(UNICODE_BREAKS) * rng.choice([1, 1, 2])
  return s


UNICODE_BREAKS = ["\u2028", "\u2029", "\u0085", "\x0b", "\x0c", "\x1c", "\x1d", "\x1e"]


def gen_cue_lines(rng, maxlines=5, crossing=0.15, unclosed=0.15, stray=True):
  """Token lists of the 1..maxlines text lines of one cue: nested / adjacent tags, sometimes crossing or unclosed."""
  nlines = rng.choice([1, 1, 2, 2, 3, 5]) if maxlines >= 5 else rng.randint(1, maxlines)
  toks = []
  stack = []
  budget = rng.randint(1, 10)
  lines = [[] for _ in range(nlines)]
  cur = 0

  def emit(tk):
    lines[cur].append(tk)

  for li in range(nlines):
    cur = li
    nseg = rng.randint(1, max(1, budget // nlines + 1))
    for _ in range(nseg):
      r = rng.random()
      if stray and rng.random() < 0.04:
        ks = [k for k in ["b", "i", "u", "font", "em"] if k not in stack]
        if ks:
          emit(t_close(rng.choice(ks)))                   # closes nothing: ignored
          emit(t_txt(gen_word(rng)))
      if r < 0.35 and len(stack) < 4:
        k = rng.choice(["b", "i", "u", "font"])
        if rng.random() < 0.12:
          k = rng.choice(OTHER_TAGS)
        if k == "font" and rng.random() < 0.15:
          emit(t_font("", None))                          # no colour: styles nothing
        elif k == "font":
          cn, col = rng.choice(COLOURS)
          emit(t_font(cn, col))
        else:
          emit(t_open(k))
        stack.append(k)
        emit(t_txt(gen_word(rng)))
      elif r < 0.65 and stack:
        if rng.random() < crossing and len(stack) >= 2:
          k = stack.pop(rng.randrange(len(stack)))      # a crossing close
        else:
          k = stack.pop()
        emit(t_close(k))
        if rng.random() < 0.7:
          emit(t_txt(gen_word(rng)))
      else:
        emit(t_txt(gen_word(rng)))
    if not lines[cur]:
      emit(t_txt(gen_word(rng)))
  cur = nlines - 1
  if rng.random() > unclosed:
    while stack:
      emit(t_close(stack.pop()))
  # merge adjacent text runs, avoid white-space-only lines and number-only / timing-like first lines
  out = []
  for ln in lines:
    merged = []
    for tk in ln:
      if tk["t"] == "txt" and merged and merged[-1]["t"] == "txt":
        merged[-1] = {**merged[-1], "cs": merged[-1]["cs"] + tk["cs"]}
      else:
        merged.append(tk)
    if all(tk["t"] != "txt" or not "".join(chr(c) for c in tk["cs"]).strip() for tk in merged) and \
       all(tk["t"] == "txt" for tk in merged):
      merged = [t_txt("w")]
    out.append(merged)
  return out


def gen_case(rng, maxcues=3):
  """Abstract lines of one file + rendering options."""
  lines = []
  for _ in range(rng.choice([0, 0, 0, 1, 2])):
    lines.append(dict(L_BLANK))
  ncues = rng.randint(1, maxcues)
  kind = rng.choice(["boundary", "frame25", "frame30", "ntsc", "any", "any"])
  for c in range(ncues):
    lines.append(dict(L_COUNTER))
    b = gen_time(rng, kind)
    e = gen_time(rng, kind)
    lines.append(l_timing(b + e))
    for tl in gen_cue_lines(rng):
      lines.append(l_text(tl))
    if c < ncues - 1:
      for _ in range(rng.choice([1, 1, 1, 2, 3])):
        lines.append(dict(L_BLANK))
  final = rng.choice(["eol", "eol", "none", "blank", "blanks"])
  if final in ("blank", "blanks"):
    lines.append(dict(L_BLANK))
  if final == "blanks":
    lines.append(dict(L_BLANK))
  opts = {"eol": rng.choice(["\n", "\n", "\r\n"]), "syntax": rng.choice(["angle", "brace", "mixed"]),
          "final_eol": final != "none", "io": rng.choice(["raw", "raw", "text"])}
  return lines, opts


# ---------------------------------------------------------------------------------------------------------------
# running the reader and projecting its output
# ---------------------------------------------------------------------------------------------------------------

def items_of(p):
  """Flatten the inline content of a paragraph: one item per character with the styles in force, 10 = line break."""
  import ttconv.model as model
  import ttconv.style_properties as styles
  items = []
  extra = [0]

  def walk(e, sty):
    if isinstance(e, model.Text):
      for ch in e.get_text():
        items.append({"c": ord(ch), "b": sty[0], "i": sty[1], "u": sty[2], "col": sty[3]})
      return
    if isinstance(e, model.Br):
      items.append({"c": 10, "b": 0, "i": 0, "u": 0, "col": []})
      return
    if isinstance(e, model.Span):
      b, i, u, col = sty
      fw = e.get_style(styles.StyleProperties.FontWeight)
      if fw is not None:
        b = 1 if fw is styles.FontWeightType.bold else 0
      fs = e.get_style(styles.StyleProperties.FontStyle)
      if fs is not None:
        i = 1 if fs is styles.FontStyleType.italic else 0
      td = e.get_style(styles.StyleProperties.TextDecoration)
      if td is not None and td.underline is not None:
        u = flag(td.underline)
      c = e.get_style(styles.StyleProperties.Color)
      if c is not None:
        col = rgba(c)
      if e.get_begin() is not None or e.get_end() is not None:
        extra[0] += 1
      for ch in e:
        walk(ch, (b, i, u, col))
      return
    extra[0] += 1

  for ch in p:
    walk(ch, (0, 0, 0, []))
  return items, extra[0]


def observe(text, io_mode="raw", fps_list=()):
  """Run ttconv.srt.reader.to_model on `text`; returns the `obs` and `fr` fields of a trace record."""
  import ttconv.model as model
  from ttconv.srt import reader
  from .srtvtt_common import imsc_frames
  obs = {"raised": "", "none": 0, "ps": []}
  from .core import AltContext, alt_for
  try:
    with AltContext(alt_for(("srt", len(text), text[:40]))) as ac:
      doc = reader.to_model(open_text(text, io_mode), None, ac.progress)
  except Exception as ex:  # pylint: disable=broad-except
    obs["raised"] = type(ex).__name__
    return obs, [], None
  if doc is None:
    obs["none"] = 1
    return obs, [], None
  body = doc.get_body()
  ps = [e for e in body.dfs_iterator() if isinstance(e, model.P)] if body is not None else []
  for p in ps:
    items, extra = items_of(p)
    o = {"items": items, "extra": extra}
    o.update(time_obs("b", p.get_begin()))
    o.update(time_obs("e", p.get_end()))
    obs["ps"].append(o)
  fr = imsc_frames(doc, fps_list) if fps_list else []
  return obs, fr, doc
