"""WebVTT side of C11: lexer (text -> lexical line features of spec/VttReader.tla), renderer, random generators of
files / cue texts / cue settings inside the WebVTT grammar, projection of the reader's output."""
from __future__ import annotations

import re

from .core import flag
from fractions import Fraction

from .srtvtt_common import time_obs, rgba, open_text

# ---------------------------------------------------------------------------------------------------------------
# lexer
# ---------------------------------------------------------------------------------------------------------------

_TS = r"(?:(\d{2,}):)?(\d\d):(\d\d)\.(\d{3})"
_TIMING = re.compile(r"[ \t]*" + _TS + r"[ \t]+-->[ \t]+" + _TS + r"(?:[ \t]+(.*))?$")
_PCT = re.compile(r"(\d+(?:\.\d+)?)%$")
_INT = re.compile(r"-?\d+$")


def cps(s):
  return [ord(c) for c in s]


def lex_setting(tok):
  name, _, value = tok.partition(":")
  s = {"name": name, "kind": "other", "num": 0, "kw": "", "al": ""}
  if name in ("vertical", "align"):
    s["kind"] = "kw"
    s["kw"] = value
  elif name in ("line", "position", "size"):
    v, _, al = value.partition(",")
    s["al"] = al
    m = _PCT.match(v)
    if m:
      s["kind"] = "pct"
      s["num"] = int(Fraction(m.group(1)) * 100)
    elif name == "line" and _INT.match(v):
      s["kind"] = "int"
      s["num"] = int(v)
    else:
      s["kind"] = "bad"
  return s


def lex_line(ln, first=False):
  if first and ln.startswith("﻿"):
    ln = ln[1:]
  o = {"blank": 1 if ln == "" else 0, "sig": 0, "arrow": 1 if "-->" in ln else 0, "kw": "", "tm": [], "set": [], "cps": cps(ln)}
  if ln == "WEBVTT" or ln.startswith("WEBVTT ") or ln.startswith("WEBVTT\t"):
    o["sig"] = 1
  if ln == "NOTE" or ln.startswith("NOTE ") or ln.startswith("NOTE\t"):
    o["kw"] = "NOTE"
  elif ln.rstrip(" \t") in ("STYLE", "REGION"):
    o["kw"] = ln.rstrip(" \t")
  m = _TIMING.match(ln)
  if m:
    g = m.groups()
    o["tm"] = [int(g[0] or 0), int(g[1]), int(g[2]), int(g[3]), int(g[4] or 0), int(g[5]), int(g[6]), int(g[7])]
    o["set"] = [lex_setting(t) for t in (g[8] or "").split()]
  return o


def lex_vtt(text):
  lines = text.split("\n")
  if lines and lines[-1] == "":
    lines.pop()
  return [lex_line(ln[:-1] if ln.endswith("\r") else ln, k == 0) for k, ln in enumerate(lines)]


# ---------------------------------------------------------------------------------------------------------------
# rendering of abstract pieces
# ---------------------------------------------------------------------------------------------------------------

def render_ts(h, m, s, ms, rng, force_hours=False):
  if h == 0 and not force_hours and rng.random() < 0.6:
    return "%02d:%02d.%03d" % (m, s, ms)
  return ("%02d" if rng.random() < 0.8 or h >= 100 else "%03d") % h + ":%02d:%02d.%03d" % (m, s, ms)


def render_setting(s):
  if s["kind"] == "kw":
    return "%s:%s" % (s["name"], s["kw"])
  if s["kind"] == "pct":
    q = Fraction(s["num"], 100)
    v = str(q.numerator) if q.denominator == 1 else ("%.2f" % float(q)).rstrip("0")
    v += "%"
  else:
    v = str(s["num"])
    if s.get("pad"):
      # leading zeros up to the longest spelling a line number may have (twenty digits, after the sign if there is one)
      v = ("-" if s["num"] < 0 else "") + ("%0*d" % (s["pad"], abs(s["num"])))
  return "%s:%s%s" % (s["name"], v, ("," + s["al"]) if s["al"] else "")


def render_timing(tm, settings, rng):
  t = render_ts(tm[0], tm[1], tm[2], tm[3], rng) + rng.choice([" --> ", " --> ", "  -->  ", "\t-->\t"]) + \
      render_ts(tm[4], tm[5], tm[6], tm[7], rng)
  if settings:
    t += " " + " ".join(render_setting(s) for s in settings)
  return t


# ---------------------------------------------------------------------------------------------------------------
# cue settings
# ---------------------------------------------------------------------------------------------------------------

def st(name, kind="", num=0, kw="", al=""):
  return {"name": name, "kind": kind, "num": num, "kw": kw, "al": al}


ABSENT = st("")


def settings_space(thorough):
  lines_v = [("int", -2), ("int", -1), ("int", 0), ("int", 1), ("int", 5), ("pct", 0), ("pct", 5000), ("pct", 10000)]
  if thorough:
    lines_v += [("int", 30), ("int", -30), ("pct", 1250), ("pct", 9000)]
  lines = [ABSENT] + [st("line", k, n, "", al) for (k, n) in lines_v for al in ("", "start", "center", "end")]
  pos_v = [0, 5000, 10000] + ([1000, 9000] if thorough else [])
  positions = [ABSENT] + [st("position", "pct", n, "", al) for n in pos_v for al in ("", "line-left", "center", "line-right")]
  sizes = [ABSENT, st("size", "pct", 4000), st("size", "pct", 10000)] + ([st("size", "pct", 0)] if thorough else [])
  verticals = [ABSENT, st("vertical", "kw", 0, "rl"), st("vertical", "kw", 0, "lr")]
  aligns = [ABSENT] + [st("align", "kw", 0, a) for a in (("start", "center", "end", "left", "right") if thorough else ("start", "right"))]
  return lines, positions, sizes, verticals, aligns


def gen_settings(rng):
  lines, positions, sizes, verticals, aligns = settings_space(True)
  out = []
  for space, p in ((verticals, 0.3), (lines, 0.6), (positions, 0.5), (sizes, 0.4), (aligns, 0.5)):
    if rng.random() < p:
      s = rng.choice(space[1:])
      if s["kind"] == "pct" and rng.random() < 0.3:
        s = dict(s, num=rng.choice([0, 1, 333, 2550, 5000, 6667, 9999, 10000]))
      if s["kind"] == "int" and rng.random() < 0.15:
        s = dict(s, pad=rng.choice([2, 19, 20]))
      out.append(s)
  rng.shuffle(out)
  if out and rng.random() < 0.12:
    # a setting given twice with different values: the later one counts
    k = rng.randrange(len(out))
    space = {"vertical": verticals, "line": lines, "position": positions, "size": sizes, "align": aligns}[out[k]["name"]]
    other = rng.choice([x for x in space[1:] if x != out[k]] or [out[k]])
    out.insert(rng.randrange(len(out) + 1), other)
  return out


# ---------------------------------------------------------------------------------------------------------------
# cue text grammar
# ---------------------------------------------------------------------------------------------------------------

TEXT_CHARS = "abcXYZ 019.,!?'-é中\U0001F600"
ENTITIES = ["&amp;", "&lt;", "&gt;", "&nbsp;", "&lrm;", "&rlm;", "&#65;", "&#x42;", "&#x4e2d;", "&#128512;", "&#66 ", "& ", "&.", "AT&T", "&;",
            # an escaped ampersand directly followed by text that spells a reference: must be decoded ONCE
            "&amp;lt;", "&amp;amp;", "&amp;#65;", "&amp;nbsp;",
            # numeric references may carry any number of leading zeros
            "&#000000065;", "&#x000000041;", "&#0000128512;", "&#x0000000000004e2d;",
            # Unicode "line boundaries" that are not WebVTT line terminators: ordinary text, wherever they stand
            "w\u2028", "w\u2029", "w\u0085", "w\x0b", "w\x0c", "w\x1c", "w\x1e\x1e"]
FG = ["white", "lime", "cyan", "red", "yellow", "magenta", "blue", "black"]
LANGS = ["en", "fr-CA", "ja", "zh-Hans"]
VOICES = ["Bob", "Esme Smith", "X", "Dr. A", "Tom &amp; Al", "R&D", "A &lt; B"]


def gen_run(rng, maxlen=6):
  out = []
  for _ in range(rng.randint(1, maxlen)):
    out.append(rng.choice(ENTITIES) if rng.random() < 0.12 else rng.choice(TEXT_CHARS))
  return "".join(out)


def gen_cue_text(rng, begin_ms, end_ms, crossing=0.08, unclosed=0.1, maxdepth=3):
  """Cue text from the WebVTT cue text grammar: nested spans to depth 3, classes, lang, voice, ruby, character
  references, increasing timestamp tags, line breaks.  Returns the text (lines separated by '\\n')."""
  parts = []
  stack = []
  ts = [begin_ms]
  budget = [rng.randint(1, 9)]

  def body(depth, in_ruby=False):
    n = rng.randint(1, 3)
    for _ in range(n):
      if budget[0] <= 0:
        break
      budget[0] -= 1
      r = rng.random()
      if r < 0.40 or depth >= maxdepth:
        parts.append(gen_run(rng))
      elif r < 0.48 and not in_ruby:
        if parts and not parts[-1].endswith("\n") and "".join(parts).strip("\n"):
          parts.append("\n")
          parts.append(gen_run(rng, 3))
      elif r < 0.56 and end_ms - ts[0] > 2 and not in_ruby:
        t = rng.randint(ts[0] + 1, min(end_ms - 1, ts[0] + 5000)) if rng.random() < 0.9 else ts[0]
        ts[0] = t
        hh = t // 3600000
        s = "%02d:%02d.%03d" % (t // 60000 % 60, t // 1000 % 60, t % 1000)
        parts.append("<" + (("%02d:" % hh) if hh or rng.random() < 0.3 else "") + s + ">")
        parts.append(gen_run(rng))
      elif r < 0.64 and not in_ruby and depth == 0:
        parts.append("<ruby>")
        stack.append("ruby")
        nrt = rng.randint(1, 2)
        for k in range(nrt):
          parts.append(gen_run(rng, 3))
          parts.append("<rt>")
          parts.append(gen_run(rng, 3))
          if k < nrt - 1 or rng.random() < 0.8:      # the end tag of the last rt may be omitted
            parts.append("</rt>")
        parts.append("</ruby>")
        stack.pop()
      else:
        k = rng.choice(["b", "i", "u", "c", "c", "lang", "v"])
        if k == "c":
          cls = []
          if rng.random() < 0.8:
            cls.append(rng.choice(FG))
          if rng.random() < 0.4:
            cls.append("bg_" + rng.choice(FG))
          if rng.random() < 0.2:
            cls.insert(rng.randrange(len(cls) + 1), rng.choice(["loud", "first", "bg_unknown"]))
          rng.shuffle(cls)
          parts.append("<c" + "".join("." + c for c in cls) + ">")
        elif k == "lang":
          # (any start tag may carry classes; the annotation of <lang> follows them; tab as the separator is allowed too)
          parts.append("<lang" + rng.choice(["", "", ".formal", ".a.b"]) + rng.choice([" ", " ", "\t"]) + rng.choice(LANGS) + ">")
        elif k == "v":
          parts.append("<v" + rng.choice(["", ".loud"]) + " " + rng.choice(VOICES) + ">")
        else:
          parts.append("<%s%s>" % (k, rng.choice(["", "", "", ".cls", ".x.y"])))
        stack.append(k)
        body(depth + 1, in_ruby)
        if rng.random() < crossing and len(stack) >= 2:
          j = rng.randrange(len(stack) - 1)
          parts.append("</%s>" % stack[j])          # an end tag that does not match the current node
        if rng.random() > unclosed or len(stack) > 1:
          parts.append("</%s>" % stack[-1])
        stack.pop()

  body(0)
  text = "".join(parts).strip("\n")
  lines = [ln for ln in text.split("\n")]
  lines = [ln if ln.strip(" \t") and "-->" not in ln else "w" + ln.replace("-->", "") for ln in lines]
  return "\n".join(lines)


# ---------------------------------------------------------------------------------------------------------------
# files
# ---------------------------------------------------------------------------------------------------------------

BOUNDARY_MS = [0, 1, 40, 80, 100, 125, 280, 290, 333, 500, 560, 570, 999, 960, 200, 600, 700]


def gen_file(rng, maxcues=3, empty_cue=0.04):
  """Text of a random WebVTT file inside the grammar + descriptive features."""
  feat = {"bom": False, "header_lines": False, "note": False, "style": False, "region_block": False, "cue_id": False,
          "empty_cue": False, "settings": False}
  out = []
  sig = rng.choice(["WEBVTT", "WEBVTT", "WEBVTT - title", "WEBVTT\tx"])
  if rng.random() < 0.05:
    sig = "﻿" + sig
    feat["bom"] = True
  out.append(sig)
  if rng.random() < 0.15:
    out.append(rng.choice(["Kind: captions", "Language: en", "X-TIMESTAMP-MAP=LOCAL:00:00:00.000,MPEGTS:900000"]))
    feat["header_lines"] = True
  out.append("")
  t = rng.choice([0, 0, 0, 3599000, 35999000, 359990000, 3599990000])
  ncues = rng.randint(1, maxcues)
  for c in range(ncues):
    for _ in range(rng.choice([0, 0, 0, 1, 2])):
      out.append("")
    r = rng.random()
    if r < 0.12:
      out += rng.choice([["NOTE a comment", "over two lines"], ["NOTE"], ["NOTE", "text on the next line"], ["NOTE\twith tab"]]) + [""]
      feat["note"] = True
    elif r < 0.18 and c == 0:
      out += ["STYLE", "::cue { color: lime }", "::cue(b) { color: red }", ""]
      feat["style"] = True
    elif r < 0.24 and c == 0:
      out += ["REGION", "id:fred", "width:40%", "lines:3", ""]
      feat["region_block"] = True
    if rng.random() < 0.35:
      # identifiers may begin with the letters of a block keyword without being one (NOTE / STYLE / REGION are keywords only
      # when alone on the line or followed by white space)
      out.append(rng.choice(["1", "42", "cue-id", "intro - part 1", "b", "123abc", "NOTE-2", "NOTE:3", "NOTES", "NOTE1", "NOTE.x [music]",
                             "note", "STYLE-1", "STYLEsheet", "REGIONAL news", "REGION_2"]))
      feat["cue_id"] = True
    kind = rng.choice(["boundary", "any", "any"])
    gap = rng.choice(BOUNDARY_MS) if kind == "boundary" else rng.randint(0, 4000)
    dur = rng.choice([1, 40, 1000, 1001, 2500, 10000]) if kind == "boundary" else rng.randint(1, 9000)
    b = t + gap
    e = b + dur
    t = e if rng.random() < 0.8 else b
    settings = gen_settings(rng) if rng.random() < 0.5 else []
    if settings:
      feat["settings"] = True
    tm = (b // 3600000, b // 60000 % 60, b // 1000 % 60, b % 1000, e // 3600000, e // 60000 % 60, e // 1000 % 60, e % 1000)
    out.append(render_timing(tm, settings, rng))
    if rng.random() < empty_cue:
      feat["empty_cue"] = True
    else:
      out += gen_cue_text(rng, b, e).split("\n")
    if c < ncues - 1:
      out.append("")
  final = rng.choice(["eol", "eol", "none", "blank", "blanks"])
  if final in ("blank", "blanks"):
    out.append("")
  if final == "blanks":
    out.append("")
  eol = rng.choice(["\n", "\n", "\r\n"])
  text = eol.join(out) + (eol if final != "none" else "")
  opts = {"eol": eol, "io": rng.choice(["raw", "raw", "text"])}
  return text, opts, feat


# ---------------------------------------------------------------------------------------------------------------
# running the reader and projecting its output
# ---------------------------------------------------------------------------------------------------------------

_DEFAULT_BG = [0, 0, 0, 204]


def items_of(p):
  import ttconv.model as model
  import ttconv.style_properties as styles
  items = []
  extra = [0]
  nruby = [0]

  def walk(e, sty):
    b, i, u, col, bg, lang, role, rid, rb = sty
    if isinstance(e, model.Text):
      for ch in e.get_text():
        items.append({"c": ord(ch), "b": b, "i": i, "u": u, "col": col, "bg": bg, "lang": lang, "role": role, "rid": rid, "rb": rb})
      return
    if isinstance(e, model.Br):
      items.append({"c": 10, "b": 0, "i": 0, "u": 0, "col": [], "bg": [], "lang": [], "role": role, "rid": rid, "rb": -1})
      return
    if isinstance(e, model.Ruby):
      nruby[0] += 1
      rid = nruby[0]
      role = "rb"
    elif isinstance(e, (model.Rbc, model.Rtc)):
      pass
    elif isinstance(e, model.Rb):
      role = "rb"
    elif isinstance(e, model.Rt):
      role = "rt"
    elif isinstance(e, model.Span):
      pass
    else:
      extra[0] += 1
      return
    fw = e.get_style(styles.StyleProperties.FontWeight)
    if fw is not None:
      b = 1 if fw is styles.FontWeightType.bold else 0
    fs = e.get_style(styles.StyleProperties.FontStyle)
    if fs is not None:
      i = 1 if fs is styles.FontStyleType.italic else 0
    td = e.get_style(styles.StyleProperties.TextDecoration)
    if td is not None and td.underline is not None:
      u = flag(td.underline)
    c = e.get_style(styles.StyleProperties.Color)
    if c is not None:
      col = rgba(c)
    g = e.get_style(styles.StyleProperties.BackgroundColor)
    if g is not None and rgba(g) != _DEFAULT_BG:
      bg = rgba(g)
    if e.get_lang():
      lang = [ord(x) for x in e.get_lang()]
    bgn = e.get_begin()
    if bgn is not None:
      off = Fraction(bgn) * 1000
      if off.denominator != 1 or abs(off) >= 2 ** 30:
        rb = -2                                      # not a whole number of milliseconds
      elif rb != -2:
        rb = (rb if rb >= 0 else 0) + int(off)       # begin is relative to the parent's begin
    if e.get_end() is not None:
      extra[0] += 1
    for ch in e:
      walk(ch, (b, i, u, col, bg, lang, role, rid, rb))

  for ch in p:
    walk(ch, (0, 0, 0, [], [], [], "", 0, -1))
  return items, extra[0]


def region_obs(doc, r):
  import ttconv.style_properties as styles
  o = r.get_style(styles.StyleProperties.Origin)
  e = r.get_style(styles.StyleProperties.Extent)
  da = r.get_style(styles.StyleProperties.DisplayAlign)
  ta = r.get_style(styles.StyleProperties.TextAlign)
  wm = r.get_style(styles.StyleProperties.WritingMode)
  pct = styles.LengthType.Units.pct
  ok = o is not None and e is not None and all(x.units is pct for x in (o.x, o.y, e.width, e.height))

  def h(x):
    v = round(Fraction(x) * 100) if x is not None else -1
    return int(max(-10 ** 8, min(10 ** 8, v)))
  return {"id": r.get_id() or "", "ox": h(o.x.value) if o else -1, "oy": h(o.y.value) if o else -1,
          "ew": h(e.width.value) if e else -1, "eh": h(e.height.value) if e else -1, "pct": 1 if ok else 0,
          "da": da.value if da is not None else "before", "ta": ta.value if ta is not None else "start",   # TTML initial values
          "wm": wm.value if wm is not None else "lrtb", "reg": 1 if doc.get_region(r.get_id()) is r else 0}


def observe(text, io_mode="raw"):
  """Run ttconv.vtt.reader.to_model on `text`; returns the `obs` field of a trace record (and the document)."""
  import ttconv.model as model
  from ttconv.vtt import reader
  obs = {"raised": "", "none": 0, "ps": [], "regs": []}
  from .core import AltContext, alt_for
  try:
    with AltContext(alt_for(("vtt", len(text), text[:40]))) as ac:
      doc = reader.to_model(open_text(text, io_mode), None, ac.progress)
  except Exception as ex:  # pylint: disable=broad-except
    obs["raised"] = type(ex).__name__
    return obs, None
  if doc is None:
    obs["none"] = 1
    return obs, None
  regs = []
  for r in doc.iter_regions():
    regs.append(r)
    obs["regs"].append(region_obs(doc, r))
  body = doc.get_body()
  ps = [e for e in body.dfs_iterator() if isinstance(e, model.P)] if body is not None else []
  for p in ps:
    items, extra = items_of(p)
    o = {"items": items, "extra": extra, "reg": 0}
    rg = p.get_region()
    if rg is not None:
      for k, r in enumerate(regs):
        if r is rg:
          o["reg"] = k + 1
      if o["reg"] == 0:
        regs.append(rg)
        obs["regs"].append(dict(region_obs(doc, rg), reg=0))
        o["reg"] = len(regs)
    o.update(time_obs("b", p.get_begin()))
    o.update(time_obs("e", p.get_end()))
    obs["ps"].append(o)
  return obs, doc
