"""Byte-level EBU Tech 3264 (.stl) file builder from abstract GSI / TTI records (property C09).

Field offsets are those of the standard (GSI block 1024 bytes, TTI block 128 bytes); nothing is imported from ttconv.

  gsi   = {"dfc": "STL25.01", "dsc": "1", "cct": "00", "tcp": [h, m, s, f], "mnr": 23, "lc": "09",
           optional raw overrides "tcp_raw", "mnr_raw" (strings of 8 / 2 characters)}
  block = {"sgn", "sn", "ebn", "cs", "tci": [h, m, s, f], "tco": [h, m, s, f], "vp", "jc", "cf", "tf": [bytes]}
"""
from __future__ import annotations

import struct

FILLER = 0x8F
NEWLINE = 0x8A
TF_LEN = 112


def _put(buf: bytearray, off: int, n: int, val):
  data = val.encode("latin-1") if isinstance(val, str) else bytes(val)
  if len(data) > n:
    raise ValueError(f"field at {off} too long: {val!r}")
  buf[off:off + n] = data.ljust(n, b" ")


def gsi_block(gsi: dict, n_blocks: int, n_subtitles: int) -> bytes:
  b = bytearray(b" " * 1024)
  _put(b, 0, 3, "850")                                  # CPN
  _put(b, 3, 8, gsi["dfc"])                             # DFC
  _put(b, 11, 1, gsi["dsc"])                            # DSC
  _put(b, 12, 2, gsi["cct"])                            # CCT
  _put(b, 14, 2, gsi.get("lc", "09"))                   # LC
  _put(b, 16, 32, "C09 conformance case")               # OPT
  _put(b, 48, 32, "episode")                            # OET
  _put(b, 80, 32, "")                                   # TPT
  _put(b, 112, 32, "")                                  # TET
  _put(b, 144, 32, "")                                  # TN
  _put(b, 176, 32, "")                                  # TCD
  _put(b, 208, 16, "")                                  # SLR
  _put(b, 224, 6, "260101")                             # CD
  _put(b, 230, 6, "260101")                             # RD
  _put(b, 236, 2, "00")                                 # RN
  _put(b, 238, 5, "%05d" % n_blocks)                    # TNB
  _put(b, 243, 5, "%05d" % n_subtitles)                 # TNS
  _put(b, 248, 3, "001")                                # TNG
  _put(b, 251, 2, "40")                                 # MNC
  _put(b, 253, 2, gsi.get("mnr_raw", "%02d" % gsi["mnr"]))   # MNR
  _put(b, 255, 1, "1")                                  # TCS
  _put(b, 256, 8, gsi.get("tcp_raw", "%02d%02d%02d%02d" % tuple(gsi["tcp"])))   # TCP
  _put(b, 264, 8, "%02d%02d%02d%02d" % tuple(gsi["tcp"]))                        # TCF
  _put(b, 272, 1, "1")                                  # TND
  _put(b, 273, 1, "1")                                  # DSN
  _put(b, 274, 3, "GBR")                                # CO
  _put(b, 277, 32, "")                                  # PUB
  _put(b, 309, 32, "")                                  # EN
  _put(b, 341, 32, "")                                  # ECD
  return bytes(b)


def tti_block(blk: dict) -> bytes:
  tf = bytes(blk["tf"])
  if len(tf) > TF_LEN:
    raise ValueError("text field longer than 112 bytes")
  tf = tf + bytes([FILLER]) * (TF_LEN - len(tf))
  head = struct.pack("<BHBB", blk["sgn"], blk["sn"], blk["ebn"], blk["cs"])
  head += bytes(blk["tci"]) + bytes(blk["tco"]) + bytes([blk["vp"], blk["jc"], blk["cf"]])
  out = head + tf
  assert len(out) == 128
  return out


def build_file(gsi: dict, blocks: list) -> bytes:
  n_sub = sum(1 for b in blocks if b["ebn"] == 0xFF and b["cf"] == 0)
  return gsi_block(gsi, len(blocks), n_sub) + b"".join(tti_block(b) for b in blocks)


def trim_tf(tf) -> list:
  """The text field as recorded in traces: trailing unused-space bytes removed (the end of the field is a filler)."""
  tf = list(tf)
  while tf and tf[-1] == FILLER:
    tf.pop()
  return tf


# ---- label arithmetic for the generators (non-drop counting at the nominal rate); NOT an oracle -------------------
NOMINAL = {"STL23.01": 24, "STL24.01": 24, "STL25.01": 25, "STL30.01": 30, "STL50.01": 50}


def label_to_count(tc, fps):
  return ((tc[0] * 60 + tc[1]) * 60 + tc[2]) * fps + tc[3]


def count_to_label(n, fps):
  f = n % fps
  s = n // fps
  return [s // 3600, (s // 60) % 60, s % 60, f]
