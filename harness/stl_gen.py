"""Input generators and the driver of ttconv.stl.reader for property C09.

Everything here generates inputs, runs the reader and records; verdicts come from Trace_Stl.tla.
"""
from __future__ import annotations

import io

from . import stl_build as SB
from . import stl_project as SP

DFCS = ["STL23.01", "STL24.01", "STL25.01", "STL30.01", "STL50.01"]

# ISO 6937 repertoire used by the generator (the specification has its own copy and decides what is judged)
DIA_PAIRS = {
  0xC1: "AEIOUaeiou", 0xC2: "ACEILNORSUYZaceilnorsuyz", 0xC3: "ACEGHIJOSUWYaceghijosuwy", 0xC4: "AINOUainou",
  0xC5: "AEIOUaeiou", 0xC6: "AGUagu", 0xC7: "CEGIZcegz", 0xC8: "AEIOUYaeiouy", 0xCA: "AUau",
  0xCB: "CGKLNRSTcgklnrst", 0xCD: "OUou", 0xCE: "AEIUaeiu", 0xCF: "CDELNRSTZcdelnrstz",
}
ALL_PAIRS = [(d, ord(c)) for d, s in sorted(DIA_PAIRS.items()) for c in s]
HIGH_6937 = [0xA1, 0xA2, 0xA3, 0xA5, 0xA7, 0xAB, 0xB0, 0xB1, 0xB2, 0xB3, 0xB4, 0xB5, 0xB6, 0xB7, 0xB8, 0xBB, 0xBC, 0xBD,
             0xBE, 0xBF, 0xE1, 0xE8, 0xE9, 0xEA, 0xEC, 0xF1, 0xF3, 0xF8, 0xF9, 0xFA, 0xFB, 0xFC,
             0xA9, 0xAA, 0xB9, 0xBA, 0xD2, 0xD3, 0xD4, 0xD5, 0xE0, 0xE3, 0xEB, 0xEE, 0xFE]
ASCII = [c for c in range(0x21, 0x7F)]
LETTERS = [c for c in range(0x41, 0x5B)] + [c for c in range(0x61, 0x7B)]


# ---------------------------------------------------------------------------------------------------------------
# running the reader
# ---------------------------------------------------------------------------------------------------------------

def reader_config(cfg: dict, via_json: bool):
  from ttconv.stl.config import STLReaderConfiguration
  import ttconv.style_properties as styles
  if cfg.get("noconfig"):
    return None
  # (start_sep: the separator before the frames; at 24000/1001 there is no drop-frame counting, so ';' '.' ',' cannot matter)
  tc = ("%02d:%02d:%02d" + cfg.get("start_sep", ":") + "%02d") % tuple(cfg["start_tc"])
  start = None if cfg["start"] == "none" else "TCP" if cfg["start"] == "tcp" else tc
  rows = None if cfg["rows"] == "none" else "MNR" if cfg["rows"] == "mnr" else cfg["rows_n"]
  if via_json:
    d = {"disable_fill_line_gap": bool(cfg["nofill"]), "disable_line_padding": bool(cfg["nopad"])}
    if start is not None:
      d["program_start_tc"] = start
    if rows is not None:
      d["max_row_count"] = rows
    if cfg["font"]:
      d["font_stack"] = "Times New Roman, serif"
    return STLReaderConfiguration.parse(d)
  return STLReaderConfiguration(
    disable_fill_line_gap=bool(cfg["nofill"]), disable_line_padding=bool(cfg["nopad"]), program_start_tc=start,
    font_stack=("Times New Roman", styles.GenericFontFamilyType.serif) if cfg["font"] else None, max_row_count=rows)


EMPTY_OBS = {"subs": [], "area": {"l": 0, "t": 0, "r": 100000, "b": 100000}, "fill": 0, "pad": 0, "font": 0}


def read_case(case: dict) -> dict:
  """Build the file, read it with ttconv, return the trace record."""
  from ttconv.stl.reader import to_model
  data = SB.build_file(case["gsi"], case["blocks"])
  raised = ""
  obs = EMPTY_OBS
  from .core import AltContext, alt_for
  try:
    with AltContext(alt_for(("stl", case.get("id", 0)))) as ac:
      doc = to_model(io.BytesIO(data), reader_config(case["cfg"], bool(case.get("via_json"))), ac.progress)
    obs = SP.project(doc)
  except Exception as ex:      # recorded, judged by the trace specification (clause reader_raised)
    raised = type(ex).__name__
  g = case["gsi"]
  c = case["cfg"]
  rec = {
    "id": case["id"],
    "gsi": {"dfc": g["dfc"], "dsc": g["dsc"], "cct": g["cct"], "tcp": list(g["tcp"]), "mnr": g["mnr"]},
    "cfg": {"start": c["start"], "start_tc": list(c["start_tc"]), "rows": c["rows"], "rows_n": c["rows_n"],
            "nofill": c["nofill"], "nopad": c["nopad"], "font": c["font"]},
    "blocks": [{"sgn": b["sgn"], "sn": b["sn"], "ebn": b["ebn"], "cs": b["cs"], "tci": list(b["tci"]), "tco": list(b["tco"]),
                "vp": b["vp"], "jc": b["jc"], "cf": b["cf"], "tf": SB.trim_tf(b["tf"])} for b in case["blocks"]],
    "raised": raised,
    "obs": obs,
    "pair": 0,
  }
  if case.get("pair"):
    # the same file with every subtitle number raised by 1000
    twin = dict(case, blocks=[dict(b, sn=(b["sn"] + 1000) & 0xFFFF) for b in case["blocks"]])
    twin.pop("pair")
    r2 = read_case(twin)
    rec.update(pair=1, raised2=r2["raised"], obs2=r2["obs"])
  return rec


def read_cases(cases):
  return [read_case(c) for c in cases]


# ---------------------------------------------------------------------------------------------------------------
# random rich files (code -> spec)
# ---------------------------------------------------------------------------------------------------------------

def _word(rng, cct, n=None):
  n = n or rng.randint(1, 7)
  out = []
  for _ in range(n):
    r = rng.random()
    if r < 0.70:
      out.append(rng.choice(LETTERS))
    elif r < 0.80:
      out.append(rng.choice(ASCII))
    elif cct == "00":
      if r < 0.93:
        d, c = rng.choice(ALL_PAIRS)
        out += [d, c]
      else:
        out.append(rng.choice(HIGH_6937))
    else:
      out.append(rng.randint(0xA1, 0xFE))
  return out


def _ctl(rng, tt):
  r = rng.random()
  if tt:
    if r < 0.55:
      return rng.randint(0, 7)
    if r < 0.70:
      return 0x1D
    if r < 0.80:
      return 0x1C
    if r < 0.88:
      return rng.choice([0x0A, 0x0B])
    if r < 0.93:
      return rng.choice([0x08, 0x09, 0x18, 0x0E, 0x1E])
    if r < 0.96:
      return rng.choice([0x0C, 0x0D])
    return rng.choice([0x80, 0x81, 0x82, 0x83])
  if r < 0.55:
    return rng.choice([0x80, 0x81, 0x82, 0x83])
  if r < 0.85:
    return rng.randint(0, 7)
  if r < 0.92:
    return rng.choice([0x1C, 0x1D])
  # (no height codes in the middle of a line of an open subtitle: EBU Tech 3264 defines 0Ch / 0Dh for teletext rows only)
  return rng.choice([0x84, 0x85])


def _separator(rng, tt):
  r = rng.random()
  if r < 0.58:
    return [0x20]
  if r < 0.66:
    return [0x20, 0x20]
  if r < 0.78:
    return [_ctl(rng, tt)]
  if r < 0.84:
    return [0x20, _ctl(rng, tt)]
  if r < 0.90:
    return [_ctl(rng, tt), 0x20]
  if r < 0.95:
    return [_ctl(rng, tt), _ctl(rng, tt)]
  return [0x20] * 3


def _line(rng, tt, cct, dh):
  out = []
  if dh:
    out.append(0x0D)
  if tt:
    if rng.random() < 0.3:
      out.append(rng.randint(0, 7))
    if rng.random() < 0.15:
      out += [rng.randint(1, 7), 0x1D, rng.randint(0, 7)]
    if rng.random() < 0.7:
      out += [0x0B, 0x0B]
  else:
    if rng.random() < 0.25:
      out.append(rng.choice([0x80, 0x82, rng.randint(0, 7)]))
  if rng.random() < 0.1:
    out += [0x20] * rng.randint(1, 3)
  for w in range(rng.randint(1, 4)):
    if w:
      out += _separator(rng, tt)
    out += _word(rng, cct)
  if rng.random() < 0.1:
    out.append(0x20)
  if tt and rng.random() < 0.6:
    out += [0x0A, 0x0A]
  return out


def gen_text(rng, tt, cct):
  """-> (bytes of the whole text, flags)."""
  dh = rng.random() < (0.5 if tt else 0.15)
  nl = [SB.NEWLINE, SB.NEWLINE] if dh else [SB.NEWLINE]
  lines = [_line(rng, tt, cct, dh) for _ in range(rng.choice([1, 1, 2, 2, 3]))]
  out = []
  irregular = False
  if rng.random() < 0.03:
    out += [SB.NEWLINE]
    irregular = True
  for k, ln in enumerate(lines):
    if k:
      out += nl
      if rng.random() < 0.04:
        out += [SB.NEWLINE]
        irregular = True
    out += ln
  if rng.random() < 0.04:
    out += [SB.NEWLINE]
    irregular = True
  out = out[:220]
  if cct == "00" and out and 0xC1 <= out[-1] <= 0xCF:
    out.pop()
  return out, {"dh": dh, "lines": len(lines), "irregular_newlines": irregular}


def split_tf(rng, tf, cct, force=False):
  """Split a text into the text fields of consecutive TTI blocks (<= 112 used bytes each, a diacritic pair is
  never separated)."""
  def bad_cut(seq, cut):
    return cct == "00" and 0xC1 <= seq[cut - 1] <= 0xCF
  rest = list(tf)
  chunks = []
  extra = rng.randint(1, 2) if (force or (len(rest) >= 2 and rng.random() < 0.2)) else 0
  # a text field may be used up to its last byte (112): there is then no unused space and no 8Fh filler in it
  while len(rest) > 112 or (extra > 0 and len(rest) >= 2):
    hi = min(112, len(rest) - 1)
    cut = hi if (hi == 112 and rng.random() < 0.4) else rng.randint(1, hi)
    while cut >= 1 and bad_cut(rest, cut):
      cut -= 1
    if cut < 1:
      cut = next((c for c in range(1, hi + 1) if not bad_cut(rest, c)), None)
      if cut is None:
        break
    chunks.append(rest[:cut])
    rest = rest[cut:]
    extra -= 1
  chunks.append(rest)
  return chunks


def _near_boundaries(rng, fps, base):
  """Interesting frame counts (label arithmetic, non-drop) around second / minute / hour boundaries."""
  h = rng.choice([0, 0, 1, 9, 10, 23])
  m = rng.choice([0, 1, 9, 10, 30, 59])
  s = rng.choice([0, 1, 30, 59])
  cands = [
    SB.label_to_count([h, m, s, 0], fps), SB.label_to_count([h, m, s, fps - 1], fps),
    SB.label_to_count([h, m, 59, fps - 1], fps), SB.label_to_count([h, 59, 59, fps - 1], fps),
    SB.label_to_count([h, m, 0, 0], fps), SB.label_to_count([h, 0, 0, 0], fps),
    base, base + 1, base + fps - 1, base + fps, max(0, base - 1), max(0, base - fps),
    base + rng.randint(0, 3600 * fps), rng.randint(0, 24 * 3600 * fps - 1),
  ]
  return rng.choice(cands)


def random_case(rng, cid, repeat_sn=False):
  dfc = rng.choice(DFCS)
  fps = SB.NOMINAL[dfc]
  dsc = rng.choice(["0", "1", "1", "2", "2", " "])
  tt = dsc in ("1", "2")
  cct = "00" if rng.random() < 0.7 else rng.choice(["01", "02", "03", "04"])
  day = 24 * 3600 * fps
  tcp_n = rng.choice([0, 0, SB.label_to_count([10, 0, 0, 0], fps), SB.label_to_count([1, 0, 0, 0], fps),
                      SB.label_to_count([0, 59, 59, fps - 1], fps), rng.randint(0, day - 1)])
  mnr = 23 if tt else rng.choice([23, 11, 16, 30, 99])
  unused_tcp = rng.random() < 0.12       # a TCP field that was never filled in: the programme starts at 00:00:00:00
  if unused_tcp:
    tcp_n = 0
  gsi = {"dfc": dfc, "dsc": dsc, "cct": cct, "tcp": SB.count_to_label(tcp_n, fps), "mnr": mnr}
  if unused_tcp:
    gsi["tcp_raw"] = rng.choice([" " * 8, " " * 8, "--------", "\x00" * 8, "TCP     "])
  start = rng.choice(["none", "none", "tcp", "tc"])
  tc_n = rng.choice([0, tcp_n, SB.label_to_count([10, 0, 0, 0], fps), SB.label_to_count([0, 1, 0, 0], fps),
                     SB.label_to_count([0, 0, 59, fps - 1], fps), rng.randint(0, day - 1)])
  rows = rng.choice(["none", "none", "mnr", "int"])
  cfg = {"start": start, "start_tc": SB.count_to_label(tc_n, fps), "rows": rows, "rows_n": rng.choice([23, 12, 15, 24, 40]),
         "nofill": rng.randint(0, 1), "nopad": rng.randint(0, 1), "font": rng.randint(0, 1)}
  if start == "none" and rows == "none" and not (cfg["nofill"] or cfg["nopad"] or cfg["font"]) and rng.random() < 0.5:
    cfg["noconfig"] = 1
  if dfc == "STL23.01" and start == "tc" and rng.random() < 0.5:
    cfg["start_sep"] = rng.choice([";", ".", ","])
  base = 0 if start == "none" else tcp_n if start == "tcp" else tc_n
  nrows = 23 if tt else (23 if rows == "none" else mnr if rows == "mnr" else cfg["rows_n"])

  blocks = []
  flags = {"comment": False, "userdata": False, "reserved_ebn": False, "ext": False, "cumulative": False, "early": False,
           "sn_repeat": False, "sn_above_256": False, "multi_sgn": False, "garbage_after_filler": False,
           "set_straddles_start": False}
  sn = rng.choice([0, 1, 1, 250, 255, 1000, 65530]) if not repeat_sn else rng.choice([0, 1, 100, 200])
  t = None
  nsub = rng.randint(1, 6) if rng.random() < 0.96 else rng.randint(40, 120)      # now and then a file of ordinary length
  if dfc == "STL30.01":
    # (not at 30 frames/s: the known drop-frame reading of STL30.01 moves times across the programme start, subtitles are
    # dropped, and in a long file every later subtitle would be compared with the wrong one)
    nsub = min(nsub, 6)
  many_rows = nsub >= 40 and not tt and rng.random() < 0.6
  if many_rows:
    # open subtitles on a tall grid, placed all over it: dozens of distinct vertical positions (and regions) in one file
    gsi["mnr"] = mnr = 99
    cfg["rows"] = rows = "mnr"
    cfg.pop("noconfig", None)
    nrows = 99
    nsub = rng.randint(100, 140)
  multi_sgn = rng.random() < 0.15
  flags["multi_sgn"] = multi_sgn

  def user_block():
    flags["userdata"] = True
    return {"sgn": 0, "sn": sn, "ebn": 0xFE, "cs": 0, "tci": [0, 0, 0, 0], "tco": [0, 0, 0, 0], "vp": 0, "jc": 0, "cf": 0,
            "tf": [rng.randint(0, 255) for _ in range(rng.randint(1, 112))]}

  def subtitle(sgn, cs, tci_n, tco_n, vp, jc, cf):
    nonlocal sn
    text, tflags = gen_text(rng, tt, cct)
    if rng.random() < 0.06:
      text = text + _word(rng, cct, 60) + [0x20] + _word(rng, cct, 70)      # long: forces extension blocks
      if rng.random() < 0.3:
        for _ in range(rng.randint(2, 12)):                                    # very long: four to a dozen extension blocks
          text = text + [0x20] + _word(rng, cct, 90)
    chunks = split_tf(rng, text, cct)
    if len(chunks) > 1 and cf == 0:
      flags["ext"] = True
    out = []
    for k, ch in enumerate(chunks):
      last = k == len(chunks) - 1
      tfb = list(ch)
      if rng.random() < 0.04 and len(tfb) < 90:
        tfb = tfb + [SB.FILLER] * rng.randint(1, 3) + _word(rng, cct, rng.randint(1, 5))
        flags["garbage_after_filler"] = True
      out.append({"sgn": sgn, "sn": sn & 0xFFFF, "ebn": 0xFF if last else min(k, 0xEF), "cs": cs,
                  "tci": SB.count_to_label(tci_n, fps), "tco": SB.count_to_label(tco_n, fps), "vp": vp, "jc": jc, "cf": cf,
                  "tf": tfb})
      if not last and rng.random() < 0.05:
        out.append(user_block())
    if sn > 256:
      flags["sn_above_256"] = True
    if repeat_sn and rng.random() < 0.4:
      flags["sn_repeat"] = True            # the next subtitle reuses this number (SN-magnitude family only)
    else:
      sn = (sn + 1) & 0xFFFF
    return out, tflags

  def pick_vp(lines, dh):
    need = lines * (2 if dh else 1)
    r = rng.random()
    if r < 0.05:
      return rng.choice([0, nrows + 1, min(255, nrows + 5)])
    if r < 0.5 and not many_rows:
      return max(1, nrows - need + 1 - rng.choice([0, 0, 0, 1, 2]))
    return rng.randint(1, max(1, nrows - need + 1))

  sgn = rng.randint(0, 2)
  while nsub > 0:
    if rng.random() < 0.12:
      blocks.append(user_block())
    if rng.random() < 0.03:
      flags["reserved_ebn"] = True
      b = user_block()
      b["ebn"] = rng.randint(0xF0, 0xFD)
      blocks.append(b)
    if rng.random() < 0.12:
      flags["comment"] = True
      tn = _near_boundaries(rng, fps, base) % day
      cb, _ = subtitle(sgn, 0, tn, min(day - 1, tn + rng.randint(0, 100)), rng.randint(1, nrows), rng.randint(0, 3), 1)
      blocks += cb
    if multi_sgn and rng.random() < 0.5:
      sgn = rng.randint(0, 2)
    # time of the next subtitle
    if t is None or rng.random() < 0.3:
      t = _near_boundaries(rng, fps, base) % day
    else:
      t = min(day - 1, t + rng.randint(0, 5 * fps))
    if rng.random() < 0.08 and base > 0:
      t = max(0, base - rng.randint(1, 2 * fps))
    if rng.random() < 0.2 and nsub >= 2:
      # a cumulative set: members appear one after the other and disappear together
      flags["cumulative"] = True
      members = rng.randint(2, min(4, nsub))
      nsub -= members
      tcis = sorted(min(day - 1, t + rng.randint(0, 3 * fps)) for _ in range(members))
      tco_n = min(day - 1, tcis[-1] + rng.randint(0, 4 * fps))
      jc = rng.randint(0, 3)
      vp0 = rng.randint(1, max(1, nrows - 2 * members))
      if tcis[0] < base <= tcis[-1]:
        flags["set_straddles_start"] = True
      for k, tci_n in enumerate(tcis):
        cs = 1 if k == 0 else 3 if k == members - 1 else 2
        if tci_n < base:
          flags["early"] = True
        sb, _ = subtitle(sgn, cs, tci_n, tco_n, min(255, vp0 + 2 * k), jc, 0)
        blocks += sb
      t = tco_n
    else:
      nsub -= 1
      dur = rng.choice([0, 1, fps - 1, fps, rng.randint(0, 10 * fps)])
      tco_n = min(day - 1, t + dur)
      if t < base:
        flags["early"] = True
      sb, tflags = subtitle(sgn, 0, t, tco_n, 1, rng.randint(0, 3), 0)
      vp = pick_vp(tflags["lines"], tflags["dh"])
      for b in sb:
        if b["ebn"] != 0xFE:
          b["vp"] = vp
      blocks += sb
      t = tco_n
  if rng.random() < 0.1:
    blocks.append(user_block())
  case = {"id": cid, "family": "random", "gsi": gsi, "cfg": cfg, "blocks": blocks, "via_json": rng.random() < 0.3,
          "flags": flags}
  if repeat_sn:
    case.update(family="sn_magnitude", pair=1)
  return case


# ---------------------------------------------------------------------------------------------------------------
# systematic families
# ---------------------------------------------------------------------------------------------------------------

def time_sweep_cases(cid0, thorough):
  """All DFC values x labels at second / minute / hour boundaries x programme starts (none / TCP / configured)."""
  cases = []
  cid = cid0
  for dfc in DFCS:
    fps = SB.NOMINAL[dfc]
    labels = []
    for h in ([0, 1, 10, 23] if thorough else [0, 10, 23]):
      for m in ([0, 1, 9, 10, 59] if thorough else [0, 10, 59]):
        for s in [0, 59]:
          for f in sorted({0, 1, fps - 1}):
            labels.append([h, m, s, f])
    for start, st in [("none", [0, 0, 0, 0]), ("tcp", [0, 0, 0, 0]), ("tcp", [10, 0, 0, 0]), ("tcp", [0, 59, 59, fps - 1]),
                      ("tc", [0, 1, 0, 0]), ("tc", [9, 59, 59, fps - 1])]:
      gsi = {"dfc": dfc, "dsc": "1", "cct": "00", "tcp": st if start == "tcp" else [0, 0, 0, 0], "mnr": 23}
      cfg = {"start": start, "start_tc": st if start == "tc" else [0, 0, 0, 0], "rows": "none", "rows_n": 23,
             "nofill": 0, "nopad": 0, "font": 0}
      # 12 subtitles per file
      for i in range(0, len(labels), 12):
        blocks = []
        for k, lab in enumerate(labels[i:i + 12]):
          n = SB.label_to_count(lab, fps)
          for d in ([0, 1, fps] if thorough else [1]):
            tco = SB.count_to_label(min(24 * 3600 * fps - 1, n + d), fps)
            blocks.append({"sgn": 0, "sn": len(blocks) + 1, "ebn": 0xFF, "cs": 0, "tci": lab, "tco": tco, "vp": 20, "jc": 2,
                           "cf": 0, "tf": [0x41 + k % 26]})
        cid += 1
        cases.append({"id": cid, "family": "time_sweep", "gsi": gsi, "cfg": cfg, "blocks": blocks, "via_json": False,
                      "flags": {}})
  return cases


def charset_cases(cid0):
  """Every diacritic-letter pair of ISO 6937, the restated single-byte characters, ASCII; ASCII under the 8859 tables."""
  cases = []
  cid = cid0

  def one(cct, dsc, tf):
    nonlocal cid
    cid += 1
    gsi = {"dfc": "STL25.01", "dsc": dsc, "cct": cct, "tcp": [0, 0, 0, 0], "mnr": 23}
    cfg = {"start": "none", "start_tc": [0, 0, 0, 0], "rows": "none", "rows_n": 23, "nofill": 0, "nopad": 0, "font": 0,
           "noconfig": 1}
    blocks = [{"sgn": 0, "sn": 1, "ebn": 0xFF, "cs": 0, "tci": [0, 0, 1, 0], "tco": [0, 0, 2, 0], "vp": 20, "jc": 2, "cf": 0,
               "tf": tf}]
    cases.append({"id": cid, "family": "charset", "gsi": gsi, "cfg": cfg, "blocks": blocks, "via_json": False, "flags": {}})

  for d, s in sorted(DIA_PAIRS.items()):
    tf = []
    for c in s:
      tf += [d, ord(c)]
    one("00", "1", tf)
    one("00", "0", [0x78] + tf + [0x79])
  one("00", "1", [0xC2, 0x67])                       # acute + g: coded in some 6937 tables for g-cedilla; not in the repertoire here
  one("00", "1", HIGH_6937)
  for cct in ["00", "01", "02", "03", "04"]:
    one(cct, "1", list(range(0x21, 0x50)))
    one(cct, "1", list(range(0x50, 0x7F)))
    if cct != "00":
      one(cct, "1", list(range(0xA1, 0xD0)))
      one(cct, "0", [0x41] + list(range(0xC1, 0xD0)) + [0x61, 0x41])     # C1..CF are letters here, not diacritics
      one(cct, "1", list(range(0xD0, 0xFF)))
  return cases


def gsi_edge_cases(cid0):
  """Blank TCP / MNR fields (unused GSI fields are commonly left blank) with configurations that consult them."""
  cases = []
  cid = cid0
  for dsc in ["0", "1"]:
    for what in ["tcp", "mnr"]:
      cid += 1
      gsi = {"dfc": "STL25.01", "dsc": dsc, "cct": "00", "tcp": [0, 0, 0, 0], "mnr": 23}
      cfg = {"start": "none", "start_tc": [0, 0, 0, 0], "rows": "none", "rows_n": 23, "nofill": 0, "nopad": 0, "font": 0}
      if what == "tcp":
        gsi["tcp_raw"] = " " * 8
        cfg["start"] = "tcp"
      else:
        gsi["mnr_raw"] = "  "
        cfg["rows"] = "mnr"
      blocks = [{"sgn": 0, "sn": 1, "ebn": 0xFF, "cs": 0, "tci": [0, 0, 1, 7], "tco": [0, 0, 2, 11], "vp": 20, "jc": 2, "cf": 0,
                 "tf": [0x41]},
                {"sgn": 0, "sn": 2, "ebn": 0xFF, "cs": 0, "tci": [0, 0, 2, 14], "tco": [0, 1, 0, 3], "vp": 20, "jc": 2, "cf": 0,
                 "tf": [0x42]}]
      cases.append({"id": cid, "family": "gsi_blank_" + what, "gsi": gsi, "cfg": cfg, "blocks": blocks, "via_json": False,
                    "flags": {"blank_field": what}})
  return cases


# ---------------------------------------------------------------------------------------------------------------
# features of a failing (case, subtitle) for the known-finding selectors and the summaries
# ---------------------------------------------------------------------------------------------------------------

def _spacing(b, tt):
  return b == 0x20 or (tt and b < 0x20)


def tf_shape(tf, tt, cct):
  """Shape facts of a text (bytes before the first filler)."""
  if SB.FILLER in tf:
    tf = tf[:tf.index(SB.FILLER)]
  def printable(b):
    return (0x21 <= b <= 0x7E) or b >= 0xA0
  def control(b):
    return b < 0x20 or 0x80 <= b <= 0x85
  # a gap between two printable characters of one line made of two or more space/control bytes
  wide = False
  lone_ctl_gap = False
  k = 0
  n = len(tf)
  while k < n:
    if printable(tf[k]):
      j = k + 1
      while j < n and not printable(tf[j]) and tf[j] != SB.NEWLINE:
        j += 1
      if j < n and printable(tf[j]):
        gap = tf[k + 1:j]
        if len(gap) >= 2 and any(_spacing(b, tt) for b in gap):
          wide = True
      k = j if j > k else k + 1
    else:
      k += 1
  return {"gap_of_two_or_more_spacing_bytes": wide,
          "has_control": any(control(b) for b in tf), "has_diacritic": cct == "00" and any(0xC1 <= b <= 0xCF for b in tf),
          "has_newline": SB.NEWLINE in tf, "has_boxing": any(b in (0x84, 0x85) for b in tf)}
