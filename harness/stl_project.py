"""Projection of the ContentDocument returned by ttconv.stl.reader.to_model to the abstract observation of Stl.tla.

Uses public getters only.  It lexes and scales; it does not judge: Trace_Stl.tla does.

  {"subs": [ {p, ow, on, od, ew, en, ed, cells: [{g, b, m, fg, bg, it, ul}], align, disp, left, top, right, bot} ],
   "area": {l, t, r, b}, "fill", "pad", "font"}
"""
from __future__ import annotations

import unicodedata
from fractions import Fraction

from .core import flag

# the eight teletext alpha colours at full intensity (ETS 300 706), index = control code
_RGB = {(0, 0, 0): 0, (255, 0, 0): 1, (0, 255, 0): 2, (255, 255, 0): 3, (0, 0, 255): 4, (255, 0, 255): 5,
        (0, 255, 255): 6, (255, 255, 255): 7}
# documented default of the reader (README: "Verdana, Arial, Tiresias, sansSerif")
DEFAULT_FONT_STACK = ("Verdana", "Arial", "Tiresias", "sansSerif")
CUSTOM_FONT_STACK = ("Times New Roman", "serif")


def colour_index(c) -> int:
  if c is None:
    return -1
  comp = tuple(c.components)
  if len(comp) == 4 and comp[3] == 0:
    return 8
  if len(comp) == 4 and comp[3] != 255:
    return 9
  return _RGB.get(tuple(comp[:3]), 9)


def _split(t):
  """Fraction -> whole seconds, numerator, denominator of the remainder; None -> -1, 0, 1."""
  if t is None:
    return -1, 0, 1
  t = Fraction(t)
  w = t.numerator // t.denominator
  r = t - w
  return int(w), int(r.numerator), int(r.denominator)


def _font_names(stack):
  if stack is None:
    return None
  out = []
  for x in stack:
    out.append(x if isinstance(x, str) else getattr(x, "value", str(x)))
  return tuple(out)


class _Cells:
  def __init__(self):
    self.cells = []
    self.gap = 0

  def walk(self, el, style):
    from ttconv import model
    import ttconv.style_properties as styles
    for ch in el:
      if isinstance(ch, model.Text):
        for c in ch.get_text():
          if c.isspace():
            self.gap = max(self.gap, 2)
            continue
          d = unicodedata.normalize("NFD", c)
          base = ord(d[0])
          mark = 0 if len(d) == 1 else ord(d[1]) if len(d) == 2 else -2
          self.cells.append({"g": self.gap if self.cells else 0, "b": base, "m": mark, "fg": style[0], "bg": style[1],
                             "it": style[2], "ul": style[3]})
          self.gap = 0
      elif isinstance(ch, model.Br):
        self.gap = 3
      else:
        st = list(style)
        c = ch.get_style(styles.StyleProperties.Color)
        if c is not None:
          st[0] = colour_index(c)
        c = ch.get_style(styles.StyleProperties.BackgroundColor)
        if c is not None:
          st[1] = colour_index(c)
        fs = ch.get_style(styles.StyleProperties.FontStyle)
        if fs is not None:
          st[2] = 1 if fs is styles.FontStyleType.italic else 0
        td = ch.get_style(styles.StyleProperties.TextDecoration)
        if td is not None:
          st[3] = flag(td.underline)
        self.walk(ch, tuple(st))


def _cells(el):
  c = _Cells()
  c.walk(el, (-1, -1, 0, 0))
  return c.cells


def _pct(length):
  import ttconv.style_properties as styles
  if length is None or length.units is not styles.LengthType.Units.pct:
    return -1
  return int(round(length.value * 1000))


def _region(p):
  import ttconv.style_properties as styles
  r = p.get_region()
  out = {"disp": "none", "left": -1, "top": -1, "right": -1, "bot": -1}
  if r is None:
    return out
  o = r.get_style(styles.StyleProperties.Origin)
  e = r.get_style(styles.StyleProperties.Extent)
  da = r.get_style(styles.StyleProperties.DisplayAlign)
  out["disp"] = {styles.DisplayAlignType.before: "before", styles.DisplayAlignType.after: "after",
                 styles.DisplayAlignType.center: "center"}.get(da, "none")
  if o is not None and e is not None:
    x, y, w, h = _pct(o.x), _pct(o.y), _pct(e.width), _pct(e.height)
    if -1 not in (x, y, w, h):
      out.update(left=x, top=y, right=x + w, bot=y + h)
  return out


def project(doc) -> dict:
  from ttconv import model
  import ttconv.style_properties as styles
  subs = []
  body = doc.get_body()
  pidx = 0

  def unit(el, p, reg, align, cells, g0):
    ow, on, od = _split(el.get_begin())
    ew, en, ed = _split(el.get_end())
    u = {"p": p, "ow": ow, "on": on, "od": od, "ew": ew, "en": en, "ed": ed, "cells": cells, "g0": g0, "align": align}
    u.update(reg)
    subs.append(u)

  if body is not None:
    for div in body:
      for p in div:
        if not isinstance(p, model.P):
          continue
        pidx += 1
        ta = p.get_style(styles.StyleProperties.TextAlign)
        align = {styles.TextAlignType.start: "start", styles.TextAlignType.center: "center",
                 styles.TextAlignType.end: "end"}.get(ta, "none")
        reg = _region(p)
        timed_children = [c for c in p if isinstance(c, model.Span) and (c.get_begin() is not None or c.get_end() is not None)]
        if p.get_begin() is not None or p.get_end() is not None or not timed_children:
          unit(p, pidx, reg, align, _cells(p), 0)
        else:
          # members of a cumulative set: one walk over the paragraph, cut at the timed spans; g0 = what separates the
          # first character of a member from the previous member's text (3 = a line break)
          w = _Cells()
          for c in p:
            if isinstance(c, model.Br):
              w.gap = 3
            elif c in timed_children:
              start = len(w.cells)
              w.walk([c], (-1, -1, 0, 0))
              mine = [dict(x) for x in w.cells[start:]]
              g0 = mine[0]["g"] if mine and start > 0 else 0
              if mine:
                mine[0]["g"] = 0
              unit(c, pidx, reg, align, mine, g0)
            else:
              w.walk([c], (-1, -1, 0, 0))
  aa = doc.get_active_area()
  if aa is None:
    area = {"l": 0, "t": 0, "r": 100000, "b": 100000}
  else:
    area = {"l": int(round(aa.left_offset * 100000)), "t": int(round(aa.top_offset * 100000)),
            "r": int(round((aa.left_offset + aa.width) * 100000)), "b": int(round((aa.top_offset + aa.height) * 100000))}
  fill = pad = 0
  font = 2
  if body is not None:
    fill = 1 if body.get_style(styles.StyleProperties.FillLineGap) is True else 0
    lp = body.get_style(styles.StyleProperties.LinePadding)
    pad = 1 if lp is not None and lp.value != 0 else 0
    names = _font_names(body.get_style(styles.StyleProperties.FontFamily))
    font = 0 if names == DEFAULT_FONT_STACK else 1 if names == CUSTOM_FONT_STACK else 2
  return {"subs": subs, "area": area, "fill": fill, "pad": pad, "font": font}
