"""Catalogue of valid style values (every property, every unit / value form) used to decorate generated documents."""
from __future__ import annotations


def catalogue():
  """Returns (values: list of python values, index: {prop name: [token, ...]}) - token = index into values."""
  import ttconv.style_properties as sp
  L = sp.LengthType
  U = sp.LengthType.Units
  C = sp.ColorType
  vals = []
  index = {}

  def add(prop, *vs):
    for v in vs:
      index.setdefault(prop, []).append(len(vals))
      vals.append(v)

  red, blue, tr = C((255, 0, 0, 255)), C((0, 0, 255, 255)), C((0, 0, 0, 0))
  add("BackgroundColor", red, blue, tr, C((0, 255, 0, 128)))
  add("Color", red, blue, C((255, 255, 255, 255)))
  add("Direction", sp.DirectionType.rtl, sp.DirectionType.ltr)
  add("Disparity", L(2, U.pct), L(10, U.px), L(0.5, U.c), L(1, U.rw), L(1, U.em))
  add("DisplayAlign", sp.DisplayAlignType.after, sp.DisplayAlignType.center, sp.DisplayAlignType.before)
  add("Extent", sp.ExtentType(L(50, U.pct), L(80, U.pct)), sp.ExtentType(L(540, U.px), L(960, U.px)),
      sp.ExtentType(L(5, U.c), L(20, U.c)), sp.ExtentType(L(40, U.rh), L(60, U.rw)), sp.ExtentType(L(150, U.pct), L(120, U.pct)),
      sp.ExtentType(L(0, U.pct), L(50, U.pct)), sp.ExtentType(L(10, U.pct), L(0, U.px)))      # nothing to paint on: a zero dimension
  add("FillLineGap", True, False)
  add("FontFamily", ("Arial",), (sp.GenericFontFamilyType.monospace, "Courier"))
  add("FontSize", L(150, U.pct), L(2, U.em), L(1.5, U.c), L(36, U.px), L(6, U.rh), L(3, U.rw),
      L(100, U.pct), L(1, U.em), L(1, U.c))          # the values that change nothing: they are computed like any other
  add("FontStyle", sp.FontStyleType.italic, sp.FontStyleType.oblique, sp.FontStyleType.normal)
  add("FontWeight", sp.FontWeightType.bold, sp.FontWeightType.normal)
  add("LineHeight", sp.SpecialValues.normal, L(125, U.pct), L(1.2, U.em), L(2, U.c), L(40, U.px), L(7, U.rh))
  add("LinePadding", L(0.5, U.c), L(1, U.rw), L(1, U.rh))
  add("LuminanceGain", 1.5, 2)
  add("MultiRowAlign", sp.MultiRowAlignType.center, sp.MultiRowAlignType.start)
  add("Opacity", 0.5, 0, 1)
  add("Origin", sp.CoordinateType(L(10, U.pct), L(20, U.pct)), sp.CoordinateType(L(96, U.px), L(54, U.px)),
      sp.CoordinateType(L(2, U.c), L(1, U.c)), sp.CoordinateType(L(5, U.rw), L(5, U.rh)))
  add("Overflow", sp.OverflowType.visible, sp.OverflowType.hidden)
  add("Padding", sp.PaddingType(L(1, U.pct), L(2, U.pct), L(3, U.pct), L(4, U.pct)), sp.PaddingType(L(10, U.px), L(10, U.px), L(10, U.px), L(10, U.px)),
      sp.PaddingType(L(0.5, U.c), L(0.5, U.c), L(0.5, U.c), L(0.5, U.c)), sp.PaddingType(L(1, U.em), L(1, U.em), L(1, U.em), L(1, U.em)),
      sp.PaddingType(L(1, U.rh), L(1, U.rw), L(1, U.rh), L(1, U.rw)))
  add("Position", sp.PositionType(L(10, U.pct), L(10, U.pct)),
      sp.PositionType(L(10, U.pct), L(20, U.pct), sp.PositionType.HEdge.right, sp.PositionType.VEdge.bottom),
      sp.PositionType(L(50, U.px), L(50, U.px), sp.PositionType.HEdge.left, sp.PositionType.VEdge.bottom),
      sp.PositionType(L(1, U.c), L(1, U.c), sp.PositionType.HEdge.right, sp.PositionType.VEdge.top),
      sp.PositionType(L(5, U.rw), L(5, U.rh)))
  add("RubyAlign", sp.RubyAlignType.spaceAround, sp.RubyAlignType.center)
  add("RubyPosition", sp.AnnotationPositionType.before, sp.AnnotationPositionType.after)
  add("RubyReserve", sp.SpecialValues.none, sp.RubyReserveType(sp.RubyReserveType.Position.both, L(1, U.em)),
      sp.RubyReserveType(sp.RubyReserveType.Position.before, L(50, U.pct)), sp.RubyReserveType(sp.RubyReserveType.Position.after, L(1, U.c)),
      sp.RubyReserveType(sp.RubyReserveType.Position.outside, L(20, U.px)), sp.RubyReserveType(sp.RubyReserveType.Position.outside, None))
  add("Shear", 10.0, 0)
  add("ShowBackground", sp.ShowBackgroundType.whenActive, sp.ShowBackgroundType.always)
  add("TextAlign", sp.TextAlignType.center, sp.TextAlignType.end)
  add("TextCombine", sp.TextCombineType.all, sp.TextCombineType.none)
  add("TextDecoration", sp.TextDecorationType(underline=True), sp.TextDecorationType(line_through=True, overline=False),
      sp.TextDecorationType(underline=False))
  add("TextEmphasis", sp.SpecialValues.none, sp.TextEmphasisType(sp.TextEmphasisType.Style.filled_circle, red, sp.TextEmphasisType.Position.before),
      sp.TextEmphasisType(sp.TextEmphasisType.Style.auto, None, sp.TextEmphasisType.Position.outside))
  add("TextOutline", sp.SpecialValues.none, sp.TextOutlineType(L(5, U.pct), red), sp.TextOutlineType(L(0.1, U.em), None),
      sp.TextOutlineType(L(0.1, U.c), blue), sp.TextOutlineType(L(2, U.px), None), sp.TextOutlineType(L(1, U.rh), None))
  sh = sp.TextShadowType.Shadow
  add("TextShadow", sp.SpecialValues.none, sp.TextShadowType((sh(L(1, U.em), L(1, U.em)),)),
      sp.TextShadowType((sh(L(2, U.px), L(2, U.px), L(1, U.px), red), sh(L(10, U.pct), L(10, U.pct), None, blue))),
      sp.TextShadowType((sh(L(0.1, U.c), L(0.1, U.c), L(0.1, U.c)), sh(L(1, U.rh), L(1, U.rw)), sh(L(1, U.em), L(1, U.em), None, red))),
      # a longer list in which one shadow occurs twice (and once more as a value-equal 2.0)
      sp.TextShadowType((sh(L(2, U.px), L(2, U.px)), sh(L(1, U.em), L(1, U.em), None, red), sh(L(2, U.px), L(2, U.px)), sh(L(2.0, U.px), L(2.0, U.px)),
                         sh(L(3, U.pct), L(3, U.pct), L(1, U.pct), blue))))
  add("UnicodeBidi", sp.UnicodeBidiType.embed, sp.UnicodeBidiType.bidiOverride)
  add("Visibility", sp.VisibilityType.hidden, sp.VisibilityType.visible)
  add("WrapOption", sp.WrapOptionType.noWrap, sp.WrapOptionType.wrap)
  add("WritingMode", sp.WritingModeType.tbrl, sp.WritingModeType.tblr, sp.WritingModeType.rltb, sp.WritingModeType.lrtb)
  # every property's own initial value, written out explicitly: a specified (or <initial>) value that merely restates the
  # initial value is a specified value all the same (it overrides what would be inherited, or derived from another property)
  for prop in sorted(sp.StyleProperties.ALL, key=lambda p: p.__name__):
    name = prop.__name__
    if name in ("Display", "ShowBackground") or name not in index:
      continue
    try:
      iv = prop.make_initial_value()
    except Exception:  # pylint: disable=broad-except
      continue
    if iv is None or not prop.validate(iv):
      continue
    if not any(repr(vals[t]) == repr(iv) for t in index[name]):
      add(name, iv)
  return vals, index


def _unit(D):
  """Ticks per second for drawing offsets - capped, so that a grid finer than a nanosecond keeps small tick numbers."""
  return D // 2 if D < 10 ** 6 else 3


def decorate(ad, rng, index, p_style=0.35, p_anim=0.2, nonzero_offsets=True):
  """Add specified styles and style animation steps (other than display) to an abstract document."""
  NONE_T = -1
  props = sorted(index)
  D = ad["D"]

  def t_opt():
    return NONE_T if rng.random() < 0.3 else 2 * rng.randrange(0, 6 * _unit(D) + 1)

  def some_styles(p):
    out = []
    if rng.random() < p:
      for prop in rng.sample(props, rng.randint(1, 6)):
        out.append([prop, rng.choice(index[prop])])
    return out

  def some_anims(p):
    out = []
    if rng.random() < p:
      for _ in range(rng.randint(1, 3)):
        prop = rng.choice(props)
        out.append([prop, rng.choice(index[prop]), t_opt(), t_opt()])
    return out

  ad["styles"] = [some_styles(p_style) if ad["kind"][k] not in ("text",) else [] for k in range(ad["n"])]
  ad["anim_styles"] = [some_anims(p_anim) if ad["kind"][k] not in ("text",) else [] for k in range(ad["n"])]
  if rng.random() < 0.3:
    # the same (value-equal) style animation step on several elements with different begin times
    prop = rng.choice(props)
    shared = [prop, rng.choice(index[prop]), 2 * rng.randrange(0, 3 * _unit(D) + 1), t_opt()]
    cands = [k for k in range(ad["n"]) if ad["kind"][k] in ("p", "span", "div")]
    for k in rng.sample(cands, min(len(cands), rng.randint(2, 3))):
      ad["anim_styles"][k] = ad["anim_styles"][k] + [list(shared)]
      if ad["b"][k] == NONE_T and rng.random() < 0.7:
        ad["b"][k] = 2 * rng.randrange(1, 4 * _unit(D) + 1)
  if rng.random() < 0.06:
    # a long animation schedule on ONE element (word-by-word highlighting): dozens of steps on two properties, written in an
    # order that is not chronological, with a whole-duration step after them - the step that is active AND last in document
    # order decides
    cands = [k for k in range(ad["n"]) if ad["kind"][k] in ("p", "span")]
    if cands:
      k = rng.choice(cands)
      p1, p2 = rng.sample(props, 2)
      steps = []
      nsteps = rng.randint(25, 60)
      for j in range(nsteps):
        steps.append([rng.choice([p1, p1, p2]), rng.choice(index[p1]) if False else None, 2 * j, 2 * j + 2 * rng.randint(1, 3)])
      for stp in steps:
        stp[1] = rng.choice(index[stp[0]])
      rng.shuffle(steps)
      steps.append([p1, rng.choice(index[p1]), rng.choice([NONE_T, 0]), NONE_T if rng.random() < 0.5 else 2 * nsteps])
      ad["anim_styles"][k] = steps
  ad["rstyles"] = [some_styles(0.7) for _ in range(ad["nr"])]
  ad["ranim_styles"] = [some_anims(0.4) for _ in range(ad["nr"])]
  if rng.random() < 0.08 and ad["nr"]:
    # a property that applies to regions only, specified on content (where it means nothing and must not travel down),
    # together with a property whose computed value DEPENDS on it further down: writing mode x emphasis "auto" / direction
    spans = [k for k in range(ad["n"]) if ad["kind"][k] == "span"]
    holders = [k for k in range(ad["n"]) if ad["kind"][k] in ("body", "div", "p", "span")]
    if spans and holders:
      h = rng.choice(holders)
      below = [k for k in spans if k >= h] or spans
      ad["styles"][h] = [x for x in ad["styles"][h] if x[0] != "WritingMode"] + [["WritingMode", rng.choice(index["WritingMode"])]]
      tgt = rng.choice(below)
      ad["styles"][tgt] = [x for x in ad["styles"][tgt] if x[0] != "TextEmphasis"] + [["TextEmphasis", index["TextEmphasis"][2]]]
      r = rng.randrange(ad["nr"])
      ad["rstyles"][r] = [x for x in ad["rstyles"][r] if x[0] != "WritingMode"] + [["WritingMode", rng.choice(index["WritingMode"])]]
  if ad.get("t0"):
    ad["anim_styles"][0] = []          # see docgen.random_doc: no steps on the elements that carry the shift
    ad["ranim_styles"] = [[] for _ in range(ad["nr"])]
  # Display is modelled by disp/anim of the abstract document: keep it out of the decorations
  for lst in ad["styles"] + ad["rstyles"]:
    lst[:] = [x for x in lst if x[0] not in ("Display", "ShowBackground")]
  for lst in ad["anim_styles"] + ad["ranim_styles"]:
    lst[:] = [x for x in lst if x[0] not in ("Display", "ShowBackground")]
  if rng.random() < 0.3:
    ad["initials"] = [[prop, rng.choice(index[prop])] for prop in rng.sample(props, rng.randint(1, 4)) if prop not in ("Display", "ShowBackground")]
  if rng.random() < 0.12:
    ad["ishowbg"] = "whenActive"
    if ad["nr"] == 0 and rng.random() < 0.6:
      # ... and a background colour for the made-up region of a document without regions (shown only while it has content)
      ad["initials"] = [x for x in ad.get("initials", []) if x[0] != "BackgroundColor"] + [["BackgroundColor", index["BackgroundColor"][0]]]
  # properties that are derived from one another (or resolved against one another) on the same element: one specified, the
  # other one animated for a while
  PAIRS = [("Position", "Origin"), ("Origin", "Position"), ("Extent", "Position"), ("Extent", "Origin"), ("WritingMode", "Direction"),
           ("Extent", "Padding"), ("WritingMode", "Padding"), ("FontSize", "LineHeight"), ("FontSize", "Padding")]
  if ad["nr"] and not ad.get("t0") and rng.random() < 0.25:
    a, b_ = rng.choice(PAIRS)
    r = rng.randrange(ad["nr"])
    ad["rstyles"][r] = [x for x in ad["rstyles"][r] if x[0] != a] + [[a, rng.choice(index[a])]]
    ad["ranim_styles"][r] = [x for x in ad["ranim_styles"][r] if x[0] not in (a, b_)] + [[b_, rng.choice(index[b_]), 0, t_opt()]]
  if rng.random() < 0.5:
    ad["cell"] = rng.choice([[15, 32], [24, 40], [10, 20]])
  if rng.random() < 0.5:
    ad["px"] = rng.choice([[1920, 1080], [1280, 720], [640, 480]])
  return ad
