"""C03: the bounded families explored by TLC with spec/StyleSweep.tla (one per compute class).

A family = a tree skeleton, up to four "axes" (a property, its candidate values, and on which levels of the tree
which of them may be specified), animation options, <initial> overrides, cell/pixel resolutions, the ticks
visited and the properties looked at.  `mc_module(name, tier)` renders the constants as an MC module.
Nothing here judges anything: the families only say WHERE to look.
"""
from __future__ import annotations

from . import tlc as T
from .styles_vals import to_abstract

N = -1

SKELS = {
  # level:        1=region 2      3      4    5       6       7
  "chain": dict(n=6, kind=["body", "div", "p", "span", "span", "text"], parent=[0, 1, 2, 3, 4, 5],
                b=[N, N, 2, N, N, N], e=[N, N, N, N, N, N], rb=N, re=N),
  # level:        2      3      4    5       6     7       8       9     10      11
  "ruby": dict(n=10, kind=["body", "div", "p", "ruby", "rb", "span", "text", "rt", "span", "text"],
               parent=[0, 1, 2, 3, 4, 5, 6, 4, 8, 9], b=[N, N, 2] + [N] * 7, e=[N] * 10, rb=N, re=N),
  # level:         2      3      4    5       6      7     8       9       10     11    12      13
  "rubyc": dict(n=12, kind=["body", "div", "p", "ruby", "rbc", "rb", "span", "text", "rtc", "rt", "span", "text"],
                parent=[0, 1, 2, 3, 4, 5, 6, 7, 4, 9, 10, 11], b=[N, N, 2] + [N] * 9, e=[N] * 12, rb=N, re=N),
}

GEO_DEFAULT = [dict(cell=[15, 32], px=[1920, 1080])]
GEO_ALL = [dict(cell=[15, 32], px=[1920, 1080]), dict(cell=[24, 40], px=[1280, 720]), dict(cell=[10, 20], px=[640, 480])]
GEO_TWO = GEO_ALL[:2]
TIMES = [1, 2, 4, 5, 6]
TIMES_QUICK = [1, 2, 4, 5]


def _values():
  import ttconv.style_properties as sp
  L, U, C = sp.LengthType, sp.LengthType.Units, sp.ColorType
  red, blue, lime = C((255, 0, 0, 255)), C((0, 0, 255, 255)), sp.NamedColors.lime.value
  sh = sp.TextShadowType.Shadow
  TD = sp.TextDecorationType
  return dict(
    Color=[red, blue, lime],
    BackgroundColor=[red, blue, lime],
    TextAlign=[sp.TextAlignType.center, sp.TextAlignType.end, sp.TextAlignType.start],
    UnicodeBidi=[sp.UnicodeBidiType.embed, sp.UnicodeBidiType.bidiOverride, sp.UnicodeBidiType.normal],
    Visibility=[sp.VisibilityType.hidden, sp.VisibilityType.visible],
    TextDecoration=[TD(underline=True), TD(line_through=True, overline=False), TD(underline=False), TD(overline=True, line_through=False)],
    FontSize=[L(150, U.pct), L(2, U.em), L(1.5, U.c), L(36, U.px), L(6, U.rh), L(50, U.pct)],
    LineHeight=[sp.SpecialValues.normal, L(125, U.pct), L(1.2, U.em), L(2, U.c), L(40, U.px), L(7, U.rh)],
    LinePadding=[L(0.5, U.c), L(1, U.rw), L(1, U.rh)],
    RubyReserve=[sp.SpecialValues.none, sp.RubyReserveType(sp.RubyReserveType.Position.both, L(1, U.em)),
                 sp.RubyReserveType(sp.RubyReserveType.Position.before, L(50, U.pct)),
                 sp.RubyReserveType(sp.RubyReserveType.Position.after, L(1, U.c)),
                 sp.RubyReserveType(sp.RubyReserveType.Position.outside, L(20, U.px)),
                 sp.RubyReserveType(sp.RubyReserveType.Position.outside, None)],
    TextOutline=[sp.SpecialValues.none, sp.TextOutlineType(L(5, U.pct), red), sp.TextOutlineType(L(0.1, U.em), None),
                 sp.TextOutlineType(L(0.1, U.c), blue), sp.TextOutlineType(L(2, U.px), None), sp.TextOutlineType(L(1, U.rh), None)],
    TextShadow=[sp.SpecialValues.none, sp.TextShadowType((sh(L(1, U.em), L(1, U.em)),)),
                sp.TextShadowType((sh(L(2, U.px), L(2, U.px), L(1, U.px), red), sh(L(10, U.pct), L(10, U.pct), None, blue))),
                sp.TextShadowType((sh(L(0.1, U.c), L(0.1, U.c), L(0.1, U.c)), sh(L(1, U.rh), L(1, U.rw)), sh(L(1, U.em), L(1, U.em), None, red))),
                sp.TextShadowType((sh(L(2, U.px), L(2, U.px)), sh(L(1, U.em), L(1, U.em), None, red), sh(L(2, U.px), L(2, U.px)),
                                   sh(L(2.0, U.px), L(2.0, U.px)), sh(L(3, U.pct), L(3, U.pct), L(1, U.pct), blue)))],
    TextEmphasis=[sp.SpecialValues.none,
                  sp.TextEmphasisType(sp.TextEmphasisType.Style.filled_circle, red, sp.TextEmphasisType.Position.before),
                  sp.TextEmphasisType(sp.TextEmphasisType.Style.auto, None, sp.TextEmphasisType.Position.outside),
                  sp.TextEmphasisType(sp.TextEmphasisType.Style.open_sesame, None, sp.TextEmphasisType.Position.after)],
    WritingMode=[sp.WritingModeType.tbrl, sp.WritingModeType.tblr, sp.WritingModeType.rltb, sp.WritingModeType.lrtb],
    Direction=[sp.DirectionType.rtl, sp.DirectionType.ltr],
    Extent=[sp.ExtentType(L(50, U.pct), L(80, U.pct)), sp.ExtentType(L(540, U.px), L(960, U.px)),
            sp.ExtentType(L(5, U.c), L(20, U.c)), sp.ExtentType(L(40, U.rh), L(60, U.rw)),
            sp.ExtentType(L(150, U.pct), L(120, U.pct))],      # larger than the root container: percentage positions refer to a NEGATIVE remainder
    Origin=[sp.CoordinateType(L(10, U.pct), L(20, U.pct)), sp.CoordinateType(L(96, U.px), L(54, U.px)),
            sp.CoordinateType(L(2, U.c), L(1, U.c)), sp.CoordinateType(L(5, U.rw), L(5, U.rh))],
    Position=[sp.PositionType(L(10, U.pct), L(10, U.pct)),
              sp.PositionType(L(10, U.pct), L(20, U.pct), sp.PositionType.HEdge.right, sp.PositionType.VEdge.bottom),
              sp.PositionType(L(50, U.px), L(50, U.px), sp.PositionType.HEdge.left, sp.PositionType.VEdge.bottom),
              sp.PositionType(L(1, U.c), L(1, U.c), sp.PositionType.HEdge.right, sp.PositionType.VEdge.top),
              sp.PositionType(L(5, U.rw), L(5, U.rh)),
              sp.PositionType(L(0, U.pct), L(0, U.px), sp.PositionType.HEdge.right, sp.PositionType.VEdge.bottom),
              sp.PositionType(L(100, U.pct), L(50, U.pct), sp.PositionType.HEdge.left, sp.PositionType.VEdge.top),
              sp.PositionType(L(0, U.pct), L(0, U.pct))],       # the initial value, written out: a specified position all the same
    Padding=[sp.PaddingType(L(1, U.pct), L(2, U.pct), L(3, U.pct), L(4, U.pct)), sp.PaddingType(L(10, U.px), L(10, U.px), L(10, U.px), L(10, U.px)),
             sp.PaddingType(L(0.5, U.c), L(0.5, U.c), L(0.5, U.c), L(0.5, U.c)), sp.PaddingType(L(1, U.em), L(1, U.em), L(1, U.em), L(1, U.em)),
             sp.PaddingType(L(1, U.rh), L(1, U.rw), L(1, U.rh), L(1, U.rw))],
    Disparity=[L(2, U.pct), L(10, U.px), L(0.5, U.c), L(1, U.rw), L(1, U.em)],
    RubyPosition=[sp.AnnotationPositionType.before, sp.AnnotationPositionType.after],
  )


def _axis(vals, prop, lv, nlv):
  """lv: {level: [choices]}; 0 = unspecified; levels that are not listed specify nothing."""
  v = vals[prop]
  return dict(p=prop, vals=[to_abstract(prop, x) for x in v],
              lv=[set(lv.get(i, [0])) for i in range(1, nlv + 1)])


def st(lvl, ax, vi, b=2, e=4):
  return dict(lvl=lvl, ax=ax, vi=vi, b=b, e=e)


def families(tier):
  """name -> dict(skel, axes, anim, ini, geo, times, focus, full)."""
  V = _values()
  deep = tier == "thorough"
  F = {}
  full = [0, 1, 2]

  def qd(q, d):
    return d if deep else q

  def fam(name, skel, axes, anim, ini, geo, focus, times=None, fullcheck=False):
    times = times or qd(TIMES_QUICK, TIMES)
    nlv = SKELS[skel]["n"] + 1
    F[name] = dict(skel=skel, axes=[_axis(V, a[0], a[1], nlv) for a in axes],
                   anim=anim, ini=ini, geo=geo, times=times, focus=focus, full=fullcheck)

  # 0. every applicable property of every element kind has a well-shaped, root-relative computed value (all 36 looked at)
  fam("all_props", "rubyc", [("FontSize", {1: [0, 3], 4: [0, 1], 10: [0, 4]}), ("WritingMode", {1: [0, 1]}), ("Color", {4: [0, 1]})],
      [[], [st(4, 1, 2)]], qd([[]], [[], [dict(ax=1, vi=1)]]), qd(GEO_DEFAULT, GEO_TWO), ["FontSize", "WritingMode", "Color"],
      times=qd([1, 4], TIMES), fullcheck=True)
  # 1. opaque inheritable: colour through body/div/p (where it does not apply) down to the spans; textAlign likewise to p
  lv_all = {1: full, 2: qd([0, 1], full), 3: qd([0], full), 4: full, 5: qd([0, 2], full), 6: full}
  anim3 = [[], [st(1, 1, 2)], [st(4, 1, 1)], [st(5, 1, 2), st(5, 1, 1, N, N)]] + qd([], [[st(6, 1, 1, 0, N), st(6, 1, 2, 2, 4)]])
  fam("inh_color", "chain", [("Color", lv_all)], anim3, [[], [dict(ax=1, vi=3)]], GEO_DEFAULT, ["Color"])
  fam("inh_textalign", "chain", [("TextAlign", {1: full, 2: qd([0], [0, 1]), 3: [0, 2], 4: full, 5: [0, 1]})],
      [[], [st(1, 1, 2)], [st(4, 1, 1)], [st(3, 1, 1, N, N)]], [[], [dict(ax=1, vi=3)]], GEO_DEFAULT, ["TextAlign"])
  # 2. opaque non-inheritable
  fam("noninh_bgcolor", "chain", [("BackgroundColor", lv_all)], anim3, [[], [dict(ax=1, vi=3)]], GEO_DEFAULT, ["BackgroundColor"])
  fam("noninh_unicodebidi", "chain", [("UnicodeBidi", {1: [0, 1], 3: qd([0], [0, 2]), 4: full, 5: full, 6: qd([0, 1], full)})],
      [[], [st(4, 1, 1)], [st(5, 1, 2, N, 4)]], [[], [dict(ax=1, vi=3)]], GEO_DEFAULT, ["UnicodeBidi"])
  # 3. text decoration: component-wise inheritance
  td = [0, 1, 2, 3, 4]
  fam("textdecoration", "chain", [("TextDecoration", {1: qd([0, 2], [0, 1, 2]), 3: qd([0, 3], td), 4: qd([0, 1], td), 5: td, 6: [0, 2, 4]})],
      [[], [st(1, 1, 2)], [st(5, 1, 4), st(5, 1, 3, 3, N)]] + qd([], [[st(4, 1, 1)]]),
      [[], [dict(ax=1, vi=1)]] + qd([], [[dict(ax=1, vi=2)]]), GEO_DEFAULT, ["TextDecoration"])
  # 4. font size: unit chains x cell / pixel resolutions
  fam("fontsize", "chain", [("FontSize", {1: qd([0, 3], [0, 1, 3]), 3: [0, 2], 4: qd([0, 1, 4], [0, 1, 4, 3]), 5: qd([0, 2, 6], [0, 2, 6, 5]), 6: qd([0, 1], [0, 1, 2])})],
      [[], [st(4, 1, 1)], [st(1, 1, 2)]], [[], [dict(ax=1, vi=1)]] + qd([], [[dict(ax=1, vi=4)]]), qd(GEO_TWO, GEO_ALL),
      ["FontSize", "LineHeight", "LinePadding"])
  # ruby text: half the parent's size unless specified
  fam("fontsize_ruby", "ruby", [("FontSize", {1: [0, 3], 4: [0, 1], 5: [0, 2], 6: qd([0], [0, 1]), 7: [0, 2], 9: [0, 1, 4], 10: [0, 2]})],
      [[], [st(9, 1, 1, 0, 2)], [st(5, 1, 1)]], [[]], qd(GEO_DEFAULT, GEO_TWO), ["FontSize"])
  fam("fontsize_rubyc", "rubyc", [("FontSize", {4: qd([0], [0, 1]), 5: [0, 2], 10: [0, 1, 4], 11: [0, 2, 6], 12: [0, 1]}),
                                  ("RubyPosition", {10: [0, 2], 11: [0, 1]})],
      [[], [st(10, 1, 1, 0, 2)]], [[]], GEO_DEFAULT, ["FontSize", "RubyPosition"])
  # 5. lengths relative to the element's own font size
  fs_ctx = ("FontSize", {1: [0, 3], 4: [0, 1, 4]})
  fs_span = ("FontSize", {4: [0, 4], 5: [0, 2]})
  col_ctx = ("Color", {1: qd([0], [0, 1]), 5: [0, 2]})
  lh = list(range(0, 7))
  fam("lenfs_lineheight", "chain", [("LineHeight", {1: qd([0], [0, 3]), 3: [0, 6], 4: lh}), fs_ctx],
      [[], [st(4, 2, 2)], [st(4, 1, 3)]] + qd([], [[st(1, 1, 5)]]), [[], [dict(ax=1, vi=3)]], GEO_TWO, ["LineHeight", "FontSize"])
  fam("lenfs_linepadding", "chain", [("LinePadding", {1: qd([0], [0, 1]), 3: [0, 2], 4: [0, 1, 2, 3]}), fs_ctx],
      [[], [st(4, 1, 1)]], [[], [dict(ax=1, vi=1)]], qd(GEO_TWO, GEO_ALL), ["LinePadding", "FontSize"])
  fam("lenfs_rubyreserve", "chain", [("RubyReserve", {1: qd([0], [0, 2]), 3: qd([0], [0, 3]), 4: lh}), fs_ctx],
      [[], [st(4, 2, 2)], [st(4, 1, 6)]], [[], [dict(ax=1, vi=4)]], GEO_TWO, ["RubyReserve", "FontSize"])
  fam("lenfs_textoutline", "chain", [("TextOutline", {4: qd([0], [0, 3]), 5: lh, 6: [0, 1]}), fs_span, col_ctx],
      [[], [st(5, 2, 2)], [st(5, 3, 2)], [st(5, 1, 3)]], [[], [dict(ax=1, vi=5)]] + qd([], [[dict(ax=3, vi=3)]]), qd(GEO_DEFAULT, GEO_TWO),
      ["TextOutline", "FontSize", "Color"])
  fam("lenfs_textshadow", "chain", [("TextShadow", {4: qd([0], [0, 2]), 5: [0, 1, 2, 3, 4, 5], 6: [0, 1]}), fs_span, col_ctx],
      [[], [st(5, 2, 2)], [st(5, 3, 2)], [st(5, 1, 4)]], [[], [dict(ax=1, vi=3)]], qd(GEO_DEFAULT, GEO_TWO), ["TextShadow", "FontSize", "Color"])
  # 6. text emphasis: colour default, auto by writing mode
  wm = [0, 1, 2, 3, 4]
  fam("textemphasis", "chain", [("TextEmphasis", {4: qd([0], [0, 2]), 5: wm, 6: [0, 3]}), col_ctx, ("WritingMode", {1: qd([0, 1, 3], wm)})],
      [[], [st(1, 3, 1)], [st(5, 2, 2)], [st(5, 1, 3)]], [[], [dict(ax=3, vi=2)], [dict(ax=1, vi=3)]], GEO_DEFAULT,
      ["TextEmphasis", "Color", "WritingMode"])
  # 7. direction implied by the writing mode on regions
  fam("direction", "chain", [("Direction", {1: full, 4: qd([0, 1], full), 5: [0, 1]}), ("WritingMode", {1: wm})],
      [[], [st(1, 2, 3)], [st(1, 2, 4), st(1, 2, 1, 3, N)], [st(1, 1, 1)], [st(4, 1, 2)]], [[], [dict(ax=1, vi=1)]] + qd([], [[dict(ax=2, vi=3)]]),
      GEO_DEFAULT, ["Direction", "WritingMode"])
  # 8. extent / origin / position on the region x resolutions
  ext = [0, 1, 2, 3, 4, 5]
  fam("extent_origin_position", "chain", [("Extent", {1: ext}), ("Origin", {1: qd([0, 1, 2], [0, 1, 2, 3, 4])}), ("Position", {1: list(range(0, 9))})],
      [[], [st(1, 3, 2)]] + qd([], [[st(1, 1, 3)], [st(1, 2, 1)]]), [[], [dict(ax=1, vi=1)]] + qd([], [[dict(ax=2, vi=3)]]), qd(GEO_TWO, GEO_ALL),
      ["Extent", "Origin", "Position"])
  # 9. padding x writing modes x extent
  fam("padding", "chain", [("Padding", {1: [0, 1, 2, 3, 4, 5]}), ("WritingMode", {1: wm}), ("Extent", {1: qd([0, 1], [0, 1, 2])}), ("FontSize", {1: [0, 1]})],
      [[], [st(1, 2, 1)]] + qd([], [[st(1, 1, 1)], [st(1, 3, 3)]]), [[], [dict(ax=2, vi=2)]] + qd([], [[dict(ax=1, vi=3)]]), qd(GEO_TWO, GEO_ALL),
      ["Padding", "WritingMode", "Extent", "FontSize"])
  # 10. disparity -> rw
  fam("disparity", "chain", [("Disparity", {1: [0, 1, 2, 3, 4, 5]}), ("FontSize", {1: [0, 1]})],
      [[], [st(1, 1, 2)]], [[], [dict(ax=1, vi=3)]], GEO_ALL, ["Disparity", "FontSize"])
  return F


CFG = """CONSTANTS
  Fams <- MCFams
SPECIFICATION Spec
INVARIANT Inv_ExistsRootRelative
INVARIANT Inv_InheritedOpaque
INVARIANT Inv_NoLeak
INVARIANT Inv_TextDecoration
INVARIANT Inv_FontSize
INVARIANT Inv_Position
INVARIANT Inv_PaddingAxis
INVARIANT Inv_ColoursResolved
PROPERTY ChangesOnlyAtStepBoundaries
"""


def mc_module(fams):
  """MC module for a group of families (one TLC run): Fams = sequence of family records."""
  recs = []
  for fam in fams:
    recs.append(dict(skel=SKELS[fam["skel"]], axes=fam["axes"], anim=SetLit(fam["anim"]), ini=SetLit(fam["ini"]),
                     geos=SetLit(fam["geo"]), times=fam["times"], focus=set(fam["focus"]), full=bool(fam.get("full"))))
  return "---- MODULE MC_StyleSweep ----\nEXTENDS StyleSweep\nMCFams == " + _to_tla(recs) + "\n====\n"


class SetLit(list):
  """A python list to be rendered as a TLA+ set (elements may be unhashable)."""


_orig_to_tla = T.to_tla


def _to_tla(v):
  if isinstance(v, SetLit):
    return "{" + ", ".join(_to_tla(x) for x in v) + "}"
  if isinstance(v, bool):
    return "TRUE" if v else "FALSE"
  if isinstance(v, int):
    return str(v)
  if isinstance(v, str):
    return _orig_to_tla(v)
  if isinstance(v, (list, tuple)):
    return "<<" + ", ".join(_to_tla(x) for x in v) + ">>"
  if isinstance(v, (set, frozenset)):
    return "{" + ", ".join(_to_tla(x) for x in sorted(v, key=repr)) + "}"
  if isinstance(v, dict):
    return "[" + ", ".join(f"{k} |-> {_to_tla(x)}" for k, x in v.items()) + "]"
  raise TypeError(type(v))
