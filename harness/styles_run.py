"""C03 driver: design-level TLC runs of StyleSweep, replay of their states, recording of random documents, and
validation of all recorded style values by spec/Trace_Styles.tla.  The Python side builds inputs, runs the code and
projects get_style() values; the verdict is TLC's."""
from __future__ import annotations

import json
import os
import re
from concurrent.futures import ThreadPoolExecutor
from fractions import Fraction
from multiprocessing import Pool

from . import tlc as T
from . import styles_fam as F
from .styles_vals import observed, to_abstract, to_concrete, tok_str

NONE_T = -1
SDOC_FIELDS = ("n", "kind", "parent", "b", "e", "nr", "rb", "re", "sty", "san", "rsty", "rsan", "ini", "cell", "px")

CFG_TRACE = """INIT TInit
NEXT TNext
"""


def _tokv(enum_name, member):
  return {"k": "tok", "s": enum_name + "." + member}


def sdoc_of(ad, catvals):
  """The styled document of Styles.tla for an abstract document of isdu.build_doc (token styles)."""
  n, nr = ad["n"], ad["nr"]
  styles = ad.get("styles") or [[] for _ in range(n)]
  anims = ad.get("anim_styles") or [[] for _ in range(n)]
  rstyles = ad.get("rstyles") or [[] for _ in range(nr)]
  ranims = ad.get("ranim_styles") or [[] for _ in range(nr)]

  def av(prop, tk):
    return to_abstract(prop, catvals[tk])

  sty, san = [], []
  for k in range(n):
    s = []
    if ad["disp"][k]:
      s.append({"p": "Display", "v": _tokv("DisplayType", ad["disp"][k])})
    s += [{"p": p, "v": av(p, tk)} for p, tk in styles[k]]
    a = [{"p": "Display", "v": _tokv("DisplayType", x["v"]), "b": x["b"], "e": x["e"]} for x in ad["anim"][k]]
    a += [{"p": p, "v": av(p, tk), "b": sb, "e": se} for p, tk, sb, se in anims[k]]
    sty.append(s)
    san.append(a)
  rsty, rsan = [], []
  for r in range(nr):
    s = []
    if ad["rdisp"][r]:
      s.append({"p": "Display", "v": _tokv("DisplayType", ad["rdisp"][r])})
    if ad["rbg"][r] == "whenActive":
      s.append({"p": "ShowBackground", "v": _tokv("ShowBackgroundType", "whenActive")})
    elif ad.get("ishowbg"):
      s.append({"p": "ShowBackground", "v": _tokv("ShowBackgroundType", "always")})
    s += [{"p": p, "v": av(p, tk)} for p, tk in rstyles[r]]
    a = [{"p": "Display", "v": _tokv("DisplayType", x["v"]), "b": x["b"], "e": x["e"]} for x in ad["ranim"][r]]
    a += [{"p": p, "v": av(p, tk), "b": sb, "e": se} for p, tk, sb, se in ranims[r]]
    rsty.append(s)
    rsan.append(a)
  ini = []
  if ad.get("idisp"):
    ini.append({"p": "Display", "v": _tokv("DisplayType", ad["idisp"])})
  if ad.get("ishowbg"):
    ini.append({"p": "ShowBackground", "v": _tokv("ShowBackgroundType", "whenActive")})
  ini += [{"p": p, "v": av(p, tk)} for p, tk in ad.get("initials", [])]
  return {"n": n, "kind": ad["kind"], "parent": ad["parent"], "b": ad["b"], "e": ad["e"], "nr": nr, "rb": ad["rb"], "re": ad["re"],
          "sty": sty, "san": san, "rsty": rsty, "rsan": rsan, "ini": ini,
          "cell": ad.get("cell", [15, 32]), "px": ad.get("px", [1920, 1080])}


def build_input_of(sdoc):
  """An isdu.build_doc input (token styles + a private value list) for a TLC-enumerated styled document."""
  n, nr = sdoc["n"], sdoc["nr"]
  cat = []

  def tk(p, v):
    cat.append(to_concrete(p, v))
    return len(cat) - 1

  ad = {"n": n, "kind": sdoc["kind"], "parent": sdoc["parent"], "b": sdoc["b"], "e": sdoc["e"],
        "reg": [1 if (k == 0 and nr) else 0 for k in range(n)], "disp": [""] * n, "anim": [[] for _ in range(n)],
        "txt": [1 if kd == "text" else 0 for kd in sdoc["kind"]], "nr": nr, "rb": sdoc["rb"], "re": sdoc["re"],
        "rdisp": [""] * nr, "ranim": [[] for _ in range(nr)], "rbg": ["always"] * nr, "idisp": "", "D": 2,
        "styles": [[[x["p"], tk(x["p"], x["v"])] for x in sdoc["sty"][k]] for k in range(n)],
        "anim_styles": [[[x["p"], tk(x["p"], x["v"]), x["b"], x["e"]] for x in sdoc["san"][k]] for k in range(n)],
        "rstyles": [[[x["p"], tk(x["p"], x["v"])] for x in sdoc["rsty"][r]] for r in range(nr)],
        "ranim_styles": [[[x["p"], tk(x["p"], x["v"]), x["b"], x["e"]] for x in sdoc["rsan"][r]] for r in range(nr)],
        "initials": [[x["p"], tk(x["p"], x["v"])] for x in sdoc["ini"]],
        "cell": sdoc["cell"], "px": sdoc["px"]}
  return ad, cat


def observe_styles(doc, t, D, focus=(), t0=0, names=None):
  """[{R, k, st: [{p, v}]}] for every region and every element with an id e<k> of ISD.from_model(doc, t);
  with a non-empty focus only those properties are recorded (only those are judged)."""
  import ttconv.model as m
  from ttconv.isd import ISD
  isd = ISD.from_model(doc, t0 + Fraction(t, D))
  out = []
  for region in isd.iter_regions():
    rid = region.get_id()
    R = names[rid] if names and rid in names else int(rid[1:]) if rid and rid[0] == "r" and rid[1:].isdigit() else 0

    def one(e, k):
      st = [{"p": p.__name__, "v": observed(p.__name__, e.get_style(p))} for p in e.iter_styles() if not focus or p.__name__ in focus]
      st.sort(key=lambda x: x["p"])
      out.append({"R": R, "k": k, "st": st})

    one(region, 0)
    for e in region.dfs_iterator():
      if e is region or isinstance(e, (m.Text, m.Br)):
        continue
      i = e.get_id()
      if i and i[0] == "e" and i[1:].isdigit():
        one(e, int(i[1:]))
  return out


def _job(job):
  import logging
  logging.getLogger("ttconv").setLevel(logging.CRITICAL + 10)
  from .isdu import build_doc, region_names
  rid = job["id"]
  try:
    if job.get("cat") == "stylecat":
      from .stylecat import catalogue
      cat = catalogue()[0]
      ad = job["ad"]
      sdoc = sdoc_of(ad, cat)
    else:
      sdoc = json.loads(job["sdoc"]) if isinstance(job["sdoc"], str) else job["sdoc"]
      ad, cat = build_input_of(sdoc)
      ad["D"] = job.get("D", 2)
    D = ad.get("D", 2)
    doc, _e, _r = build_doc(ad, D, cat)
    times = job["times"]
    from .core import AltContext, alt_for
    with AltContext(alt_for(("styles", rid))):
      obs = [observe_styles(doc, t, D, job.get("focus") or (), ad.get("t0", 0), region_names(ad)) for t in times]
    rec = {"id": rid, "doc": {k: sdoc[k] for k in SDOC_FIELDS}, "times": times, "obs": obs, "focus": job.get("focus", [])}
    if job.get("edit") is None or job.get("cat") != "stylecat":
      return rec
    # the SAME document object edited through the model API after it has been snapshotted (an initial value replaced by
    # another value of the same property, a specified style replaced or removed) and snapshotted again: nothing remembered
    # from the first round may show
    import copy
    import random
    import ttconv.style_properties as sp
    from .stylecat import catalogue
    index = catalogue()[1]
    er = random.Random(job["edit"])
    ad2 = copy.deepcopy(ad)
    changed = False
    if ad2.get("initials") and er.random() < 0.7:
      k = er.randrange(len(ad2["initials"]))
      prop = ad2["initials"][k][0]
      others = [t for t in index[prop] if t != ad2["initials"][k][1]]
      if others:
        ad2["initials"][k][1] = er.choice(others)
        doc.put_initial_value(getattr(sp.StyleProperties, prop), cat[ad2["initials"][k][1]])
        changed = True
    styled = [k for k in range(ad2["n"]) if ad2["styles"][k]]
    if styled and (not changed or er.random() < 0.5):
      k = er.choice(styled)
      j = er.randrange(len(ad2["styles"][k]))
      prop = ad2["styles"][k][j][0]
      others = [t for t in index[prop] if t != ad2["styles"][k][j][1]]
      if others and er.random() < 0.7:
        ad2["styles"][k][j][1] = er.choice(others)
        _e[k].set_style(getattr(sp.StyleProperties, prop), cat[ad2["styles"][k][j][1]])
      else:
        del ad2["styles"][k][j]
        _e[k].set_style(getattr(sp.StyleProperties, prop), None)
      changed = True
    if not changed:
      return rec
    sdoc2 = sdoc_of(ad2, cat)
    obs2 = [observe_styles(doc, t, D, job.get("focus") or (), ad2.get("t0", 0), region_names(ad2)) for t in times]
    return [rec, {"id": rid + 1000000, "doc": {k: sdoc2[k] for k in SDOC_FIELDS}, "times": times, "obs": obs2, "focus": job.get("focus", []),
                  "ad2": ad2}]
  except Exception as ex:  # pylint: disable=broad-except
    import traceback
    return {"id": rid, "error": repr(ex), "tb": traceback.format_exc()[-1500:]}


def observe_all(jobs, procs=12):
  with Pool(procs) as pool:
    out = []
    for r in pool.map(_job, jobs, chunksize=16):
      out.extend(r if isinstance(r, list) else [r])
    return out


# ----------------------------------------------------------------------------------------------------------
# design-level runs
# ----------------------------------------------------------------------------------------------------------

def design(ctx, tier, names=None, workers=3, groups=4):
  """Model-check StyleSweep on every family (a few TLC runs, several families each); returns
  {name: (cases, times, focus)} from TLC's state dumps."""
  fams = F.families(tier)
  if names:
    fams = {k: v for k, v in fams.items() if k in names}
  # balance the groups by a rough size estimate
  def size(fam):
    n = len(fam["anim"]) * len(fam["ini"]) * len(fam["geo"]) * len(fam["times"]) * (4 if fam.get("full") else 1)
    for a in fam["axes"]:
      for lv in a["lv"]:
        n *= len(lv)
    return n
  order = sorted(fams.items(), key=lambda kv: -size(kv[1]))
  bins = [[] for _ in range(min(groups, len(order)))]
  load = [0] * len(bins)
  for name, fam in order:
    i = load.index(min(load))
    bins[i].append((name, fam))
    load[i] += size(fam)

  def one(b):
    mc = F.mc_module([fam for _, fam in b])
    res = T.run_tlc("MC_StyleSweep", F.CFG, workers=workers, extra_files={"MC_StyleSweep.tla": mc}, dump="states",
                    timeout=3000, name="sweep", java_opts=("-Xmx4g",))
    return b, res

  with ThreadPoolExecutor(max_workers=len(bins)) as ex:
    results = list(ex.map(one, bins))
  out = {}
  for b, res in results:
    label = ", ".join(n for n, _ in b)
    if res.violated:
      raise T.MachineryError(f"Styles.tla violates its own design properties on families {label}: {res.violated}\n" + res.out[-2500:])
    if not res.completed:
      raise T.MachineryError(f"StyleSweep run {label} did not complete\n" + res.out[-1500:])
    ctx.tlc(res, f"StyleSweep design model, families: {label}")
    cases = [dict() for _ in b]
    nstates = [0] * len(b)
    for fi, ti, case_json in _stream_dump(os.path.join(res.workdir, "states.dump")):
      nstates[fi - 1] += 1
      if ti == 1:
        cases[fi - 1][case_json] = None
    os.remove(os.path.join(res.workdir, "states.dump"))
    for i, (name, fam) in enumerate(b):
      if nstates[i] != len(cases[i]) * len(fam["times"]) or not cases[i]:
        raise T.MachineryError(f"family {name}: {nstates[i]} dumped states for {len(cases[i])} cases x {len(fam['times'])} ticks")
      out[name] = (list(cases[i]), fam["times"], fam["focus"])
      ctx.count("design_states_" + name, nstates[i])
  return {k: out[k] for k in fams}


_RE_VAR = re.compile(r"^/\\ (\w+) = ", flags=re.M)


def _stream_dump(path):
  """Yield (fi, ti, case as canonical JSON text) for every state of a TLC -dump file, without holding the file in memory.
  Cases stay JSON text (they are decoded where they are used): the thorough tier has several 100 000 states."""
  def emit(block):
    parts = _RE_VAR.split(block)
    d = {parts[k]: parts[k + 1].strip() for k in range(1, len(parts) - 1, 2)}
    j = T.tla_to_json_text(d["case"])
    if j is None:
      raise T.MachineryError("unexpected value syntax in state dump: " + d["case"][:200])
    return int(d["fi"]), int(d["ti"]), json.dumps(json.loads(j), sort_keys=True, separators=(",", ":"))

  buf = []
  with open(path) as fh:
    for line in fh:
      if line.startswith("State ") and line.rstrip().endswith(":"):
        if buf:
          yield emit("".join(buf))
          buf = []
      elif line.strip():
        buf.append(line if line.startswith("/\\") or buf else "/\\ " + line)
  if buf:
    yield emit("".join(buf))


# ----------------------------------------------------------------------------------------------------------
# validation
# ----------------------------------------------------------------------------------------------------------

def validate(ctx, recs, label, nproc=6):
  """Run Trace_Styles over recs; returns list of (id, tick, R, k, prop, clause, expected)."""
  if not recs:
    return []
  nproc = max(1, min(nproc, len(recs) // 40))
  parts = [recs[k::nproc] for k in range(nproc)]

  def one(part):
    text = "\n".join(json.dumps(r, separators=(",", ":")) for r in part) + "\n"
    return part, T.run_tlc("Trace_Styles", CFG_TRACE, workers=1, env={"TRACE_FILE": "trace.ndjson"},
                           extra_files={"trace.ndjson": text}, timeout=5400, name="ts_" + label, java_opts=("-Xmx6g",))

  with ThreadPoolExecutor(max_workers=nproc) as ex:
    outs = list(ex.map(one, parts))
  fails = []
  for part, res in outs:
    done = res.values("DONE")
    if not done or done[0][1] != len(part):
      raise T.MachineryError(f"trace {label} not consumed: " + res.out[-2000:])
    ctx.tlc(res, f"trace validation {label}")
    for v in res.values("FAIL"):
      fails.append(tuple(v[1:8]))
    ctx.count("skipped_out_of_domain_values", len(res.values("SKIP")))
  return fails


# ----------------------------------------------------------------------------------------------------------
# describing a failing case (never judging it)
# ----------------------------------------------------------------------------------------------------------

def _units(v, out):
  if isinstance(v, dict):
    if v.get("k") == "len":
      out.add(v["u"])
    for x in v.values():
      _units(x, out)
  elif isinstance(v, list):
    for x in v:
      _units(x, out)


CLS = {"FontSize": "fontSize", "LineHeight": "lenFS", "LinePadding": "lenFS", "RubyReserve": "rubyReserve", "TextOutline": "textOutline",
       "TextShadow": "textShadow", "TextEmphasis": "textEmphasis", "TextDecoration": "textDecoration", "Extent": "extent",
       "Origin": "origin", "Position": "position", "Padding": "padding", "Disparity": "disparity"}


def describe(sdoc, R, k, prop):
  """Narrow facts about where the value of `prop` on node k (0 = region R) may come from."""
  path = []
  x = k
  while x:
    path.append(x)
    x = sdoc["parent"][x - 1]

  def sty(x):
    return sdoc["sty"][x - 1] if x else (sdoc["rsty"][R - 1] if R else [])

  def san(x):
    return sdoc["san"][x - 1] if x else (sdoc["rsan"][R - 1] if R else [])

  nodes = path + [0]
  units = set()
  for x in nodes:
    for s in sty(x) + san(x):
      if s["p"] == prop:
        _units(s["v"], units)
  for s in sdoc["ini"]:
    if s["p"] == prop:
      _units(s["v"], units)

  def has(x, p, lst):
    return any(s["p"] == p for s in lst(x))

  def rv(p):
    return ",".join(sorted({s["v"].get("s", "") for s in sty(0) + san(0) if s["p"] == p}))

  own = "animated" if has(k, prop, san) else ("specified" if has(k, prop, sty) else "no")
  f = {"prop": prop, "cls": CLS.get(prop, "opaque"), "kind": "region" if k == 0 else sdoc["kind"][k - 1], "own": own,
       "ancestor_specifies": any(has(x, prop, sty) or has(x, prop, san) for x in nodes[1:]) if k else False,
       "initial_override": any(s["p"] == prop for s in sdoc["ini"]), "units": ",".join(sorted(units))}
  if prop == "FontSize":
    f["in_ruby_text"] = any(sdoc["kind"][x - 1] in ("rt", "rtc") for x in path)
  if prop in ("Direction", "TextEmphasis", "Padding"):
    f["region_wm"] = rv("WritingMode").replace("WritingModeType.", "")
    f["region_wm_animated"] = has(0, "WritingMode", san)
    f["initial_wm"] = any(s["p"] == "WritingMode" for s in sdoc["ini"])
  if prop == "Direction":
    f["region_direction_animated"] = has(0, "Direction", san)
    f["region_direction_specified"] = has(0, "Direction", sty)
  if prop in ("Position", "Origin"):
    edges = set()
    for s in sty(0) + san(0) + sdoc["ini"]:
      if s["p"] == "Position":
        edges.add(s["v"]["he"] + "/" + s["v"]["ve"])
    f["position_present"] = bool(edges)
    f["edge_right_or_bottom"] = any("right" in x or "bottom" in x for x in edges)
    f["position_only_from_initial"] = bool(edges) and not any(s["p"] == "Position" for s in sty(0) + san(0))
  return f
