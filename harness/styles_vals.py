"""C03: style values  <->  the abstract values of spec/Styles.tla.

Three directions, none of which judges anything:
  to_abstract(prop, python value)  -> abstract *specified* value (lengths as exact rationals u/n/d)
  to_concrete(prop, abstract)      -> python value (used to build documents from TLC-enumerated cases)
  observed(prop, python value)     -> abstract *observed* value (lengths scaled by 10^4 and rounded: u/s)

Every abstract value is a JSON object with a field "k" (TLC cannot compare a string with a record, so opaque
tokens are wrapped too):
  {"k":"tok","s":...}                                   opaque token
  {"k":"len","u":unit,"n":num,"d":den}                  length (specified, exact)      | {"k":"olen","u":unit,"s":int}
  {"k":"ext","w":len,"h":len}  {"k":"org","x":len,"y":len}  {"k":"pos","x":len,"y":len,"he":..,"ve":..}
  {"k":"pad","before":len,"end":len,"after":len,"start":len}
  {"k":"rr","pos":..,"has":0|1,"len":len}               rubyReserve
  {"k":"to","col":token or "","th":len}                 textOutline
  {"k":"ts","sh":[{"x":len,"y":len,"hasb":0|1,"b":len,"col":token or ""}]}
  {"k":"te","style":..,"col":token or "","pos":..}      textEmphasis
  {"k":"td","u":"T"|"F"|"N","l":..,"o":..}              textDecoration (N = component not specified)
"""
from __future__ import annotations

from fractions import Fraction

SCALE = 10000
UNITS = {"%": "pct", "em": "em", "c": "c", "px": "px", "rh": "rh", "rw": "rw"}
UNITS_INV = {v: k for k, v in UNITS.items()}


def _sp():
  import ttconv.style_properties as sp
  return sp


def tok_str(v):
  """Canonical opaque token of a non-length value."""
  import enum
  sp = _sp()
  if v is None:
    return ""
  if isinstance(v, bool):
    return "true" if v else "false"
  if isinstance(v, (int, float, Fraction)):
    return "num:%g" % float(v)
  if isinstance(v, sp.ColorType):
    return "#%02x%02x%02x%02x" % tuple(v.components)
  if isinstance(v, enum.Enum):
    return type(v).__name__ + "." + v.name
  if isinstance(v, tuple):
    return "(" + ",".join(tok_str(x) for x in v) + ")"
  if isinstance(v, str):
    return "'" + v + "'"
  return repr(v)


def tok(v):
  return {"k": "tok", "s": tok_str(v)}


def alen(L):
  fr = Fraction(str(L.value)) if isinstance(L.value, float) else Fraction(L.value)
  return {"k": "len", "u": UNITS[L.units.value], "n": fr.numerator, "d": fr.denominator}


def olen(L):
  sp = _sp()
  if not isinstance(L, sp.LengthType):
    return {"k": "olen", "u": "?" + type(L).__name__, "s": 0}
  return {"k": "olen", "u": UNITS[L.units.value], "s": int(round(float(L.value) * SCALE))}


_ZERO = {"k": "len", "u": "rh", "n": 0, "d": 1}
_OZERO = {"k": "olen", "u": "rh", "s": 0}
_TD = {True: "T", False: "F", None: "N"}
_TD_INV = {"T": True, "F": False, "N": None}


def _td(x):
  """Type-strict: 1 is not True."""
  return "T" if x is True else "F" if x is False else "N" if x is None else "?"


def _conv(prop, v, L, zero):
  """Common structure of to_abstract (L = alen) and observed (L = olen)."""
  sp = _sp()
  if isinstance(v, sp.LengthType):
    return L(v)
  if isinstance(v, sp.ExtentType):
    return {"k": "ext", "w": L(v.width), "h": L(v.height)}
  if isinstance(v, sp.CoordinateType):
    return {"k": "org", "x": L(v.x), "y": L(v.y)}
  if isinstance(v, sp.PositionType):
    return {"k": "pos", "x": L(v.h_offset), "y": L(v.v_offset), "he": v.h_edge.value, "ve": v.v_edge.value}
  if isinstance(v, sp.PaddingType):
    return {"k": "pad", "before": L(v.before), "end": L(v.end), "after": L(v.after), "start": L(v.start)}
  if isinstance(v, sp.RubyReserveType):
    return {"k": "rr", "pos": v.position.value, "has": 0 if v.length is None else 1,
            "len": zero if v.length is None else L(v.length)}
  if isinstance(v, sp.TextOutlineType):
    return {"k": "to", "col": tok_str(v.color), "th": L(v.thickness)}
  if isinstance(v, sp.TextShadowType):
    return {"k": "ts", "sh": [{"x": L(s.x_offset), "y": L(s.y_offset), "hasb": 0 if s.blur_radius is None else 1,
                               "b": zero if s.blur_radius is None else L(s.blur_radius), "col": tok_str(s.color)}
                              for s in v.shadows]}
  if isinstance(v, sp.TextEmphasisType):
    return {"k": "te", "style": v.style.value, "col": tok_str(v.color), "pos": v.position.value}
  if isinstance(v, sp.TextDecorationType):
    return {"k": "td", "u": _td(v.underline), "l": _td(v.line_through), "o": _td(v.overline)}
  return tok(v)


def to_abstract(prop, v):
  return _conv(prop, v, alen, _ZERO)


def observed(prop, v):
  return _conv(prop, v, olen, _OZERO)


# ----------------------------------------------------------------------------------------------------------
# abstract -> python.  Opaque tokens are looked up in a table built from the value universe of every property.
# ----------------------------------------------------------------------------------------------------------

_TOKENS = None


def token_table():
  """{prop: {token string: python value}} for every opaque value the generators may use."""
  global _TOKENS
  if _TOKENS is None:
    sp = _sp()
    from .stylecat import catalogue
    vals, index = catalogue()
    t = {}
    for prop, toks in index.items():
      for i in toks:
        a = to_abstract(prop, vals[i])
        if a["k"] == "tok":
          t.setdefault(prop, {})[a["s"]] = vals[i]
    # the TTML defaults and the values of the design-level families
    for prop in sp.StyleProperties.ALL:
      v = prop.make_initial_value()
      a = to_abstract(prop.__name__, v)
      if a["k"] == "tok":
        t.setdefault(prop.__name__, {})[a["s"]] = v
    for e in (sp.DisplayType, sp.ShowBackgroundType):
      for x in e:
        t.setdefault({"DisplayType": "Display", "ShowBackgroundType": "ShowBackground"}[e.__name__], {})[tok_str(x)] = x
    for x in sp.WritingModeType:
      t["WritingMode"][tok_str(x)] = x
    for x in sp.TextAlignType:
      t["TextAlign"][tok_str(x)] = x
    for c in (sp.NamedColors.lime.value, sp.NamedColors.yellow.value, sp.NamedColors.white.value):
      t["Color"][tok_str(c)] = c
      t["BackgroundColor"][tok_str(c)] = c
    t["_color"] = {}
    for prop in ("Color", "BackgroundColor"):
      t["_color"].update(t[prop])
    _TOKENS = t
  return _TOKENS


def clen(a):
  sp = _sp()
  fr = Fraction(a["n"], a["d"])
  val = fr.numerator if fr.denominator == 1 else float(fr)
  return sp.LengthType(val, sp.LengthType.Units(UNITS_INV[a["u"]]))


def _col(s):
  return None if s == "" else token_table()["_color"][s]


def to_concrete(prop, a):
  sp = _sp()
  k = a["k"]
  if k == "tok":
    return token_table()[prop][a["s"]]
  if k == "len":
    return clen(a)
  if k == "ext":
    return sp.ExtentType(height=clen(a["h"]), width=clen(a["w"]))
  if k == "org":
    return sp.CoordinateType(x=clen(a["x"]), y=clen(a["y"]))
  if k == "pos":
    return sp.PositionType(clen(a["x"]), clen(a["y"]), sp.PositionType.HEdge(a["he"]), sp.PositionType.VEdge(a["ve"]))
  if k == "pad":
    return sp.PaddingType(before=clen(a["before"]), end=clen(a["end"]), after=clen(a["after"]), start=clen(a["start"]))
  if k == "rr":
    return sp.RubyReserveType(sp.RubyReserveType.Position(a["pos"]), clen(a["len"]) if a["has"] else None)
  if k == "to":
    return sp.TextOutlineType(clen(a["th"]), _col(a["col"]))
  if k == "ts":
    return sp.TextShadowType(tuple(sp.TextShadowType.Shadow(clen(s["x"]), clen(s["y"]), clen(s["b"]) if s["hasb"] else None, _col(s["col"]))
                                   for s in a["sh"]))
  if k == "te":
    return sp.TextEmphasisType(sp.TextEmphasisType.Style(a["style"]), _col(a["col"]), sp.TextEmphasisType.Position(a["pos"]))
  if k == "td":
    return sp.TextDecorationType(underline=_TD_INV[a["u"]], line_through=_TD_INV[a["l"]], overline=_TD_INV[a["o"]])
  raise ValueError(a)


def self_test():
  """The catalogue round-trips: to_concrete(to_abstract(v)) == v (harness sanity, not a verdict)."""
  from .stylecat import catalogue
  vals, index = catalogue()
  for prop, toks in index.items():
    for i in toks:
      a = to_abstract(prop, vals[i])
      back = to_concrete(prop, a)
      if back != vals[i]:
        raise AssertionError(f"value catalogue does not round-trip: {prop} {vals[i]!r} -> {a} -> {back!r}")
