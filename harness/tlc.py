"""TLC runner, output parser and TLA+ value parser.

Everything TLC-related goes through `run_tlc`.  A run copies /verif/spec into a private scratch directory
(so generated cfg/MC files never touch the tree), invokes TLC under an outer timeout and parses:
  * "N states generated, M distinct states found"
  * depth of the state graph
  * invariant / property violations, evaluation errors (-> machinery failure unless expected)
  * every PrintT line (returned raw and, when they parse, as Python values)
  * per-action coverage when requested
"""
from __future__ import annotations

import atexit
import os
import re
import shutil
import subprocess
import tempfile
import time

VERIF = os.path.dirname(os.path.dirname(os.path.abspath(__file__)))
SPEC_DIR = os.path.join(VERIF, "spec")
JARS = "/opt/veriftools/tla/tla2tools.jar:/opt/veriftools/tla/CommunityModules-deps.jar"

_scratch_root = None


def scratch_root() -> str:
  """A private scratch directory for this process, removed at exit."""
  global _scratch_root
  if _scratch_root is None:
    base = os.environ.get("VERIF_SCRATCH") or tempfile.gettempdir()
    _scratch_root = tempfile.mkdtemp(prefix="ttv-", dir=base)
    if not os.environ.get("VERIF_KEEP_SCRATCH"):
      atexit.register(shutil.rmtree, _scratch_root, True)
  return _scratch_root


def new_scratch(name: str) -> str:
  d = tempfile.mkdtemp(prefix=name + "-", dir=scratch_root())
  return d


class MachineryError(Exception):
  """TLC (or the harness around it) failed in a way that is not a property verdict."""


class TlcResult:
  def __init__(self):
    self.rc = None
    self.out = ""
    self.generated = 0
    self.distinct = 0
    self.depth = 0
    self.violated = []      # names of violated invariants / properties
    self.errors = []        # other "Error:" lines
    self.prints = []        # raw PrintT lines (strings)
    self.coverage = {}      # action name -> (distinct, total) when -coverage is on
    self.wall = 0.0
    self.workdir = None
    self.completed = False
    self.timed_out = False

  def values(self, tag=None):
    """Parsed PrintT values (tuples); optionally only those whose first item equals tag."""
    res = []
    for line in self.prints:
      try:
        v = parse_tla(line)
      except Exception:
        continue
      if tag is None or (isinstance(v, tuple) and v and v[0] == tag):
        res.append(v)
    return res


_RE_STATES = re.compile(r"^(\d+) states generated, (\d+) distinct states found")
_RE_DEPTH = re.compile(r"The depth of the complete state graph search is (\d+)")
_RE_SIMSTATES = re.compile(r"The number of states generated: (\d+)")
_RE_INV = re.compile(r"Error: Invariant (\S+) is violated")
_RE_PROP = re.compile(r"Error: (?:Action|Temporal) propert(?:y|ies) (\S+)? ?(?:is|were) violated")
_RE_COV = re.compile(r"^<(\w+) line (\d+), col (\d+) to line (\d+), col (\d+) of module (\w+)>: (\d+):(\d+)")


def run_tlc(module: str, cfg_text: str, *, workers=16, env=None, timeout=900, coverage=False,
            simulate=None, depth=None, seed=None, dump=None, extra_files=None, extra_args=(),
            deadlock=False, name=None, java_opts=(), allow_errors=False, dfid=None, _retry=False) -> TlcResult:
  """Run TLC on spec/<module>.tla with the given cfg text.

  simulate: None or a string like "num=1000" (passed to -simulate).
  dump: None or a path (relative to the work dir) passed to "-dump".
  extra_files: {filename: text} written into the work dir (generated MC modules, traces).
  """
  if dump is not None:
    workers = 1          # TLC's state dump is not written atomically per state when several workers run
  work = new_scratch(name or module)
  for f in os.listdir(SPEC_DIR):
    if f.endswith(".tla"):
      shutil.copy(os.path.join(SPEC_DIR, f), os.path.join(work, f))
  for fn, text in (extra_files or {}).items():
    mode = "wb" if isinstance(text, bytes) else "w"
    with open(os.path.join(work, fn), mode) as fh:
      fh.write(text)
  cfg = os.path.join(work, module + ".cfg")
  with open(cfg, "w") as fh:
    fh.write(cfg_text)
  cmd = ["java", "-XX:+UseParallelGC", "-Xss16m"]
  if not any(o.startswith("-Xmx") for o in java_opts):
    # without a cap every JVM may grow to a quarter of the RAM; a dozen concurrent TLC runs then get OOM-killed
    cmd += ["-Xmx4g"]
  cmd += list(java_opts)
  cmd += ["-cp", JARS, "tlc2.TLC", "-workers", str(workers), "-metadir", os.path.join(work, "meta"),
          "-noGenerateSpecTE", "-config", cfg]
  if not deadlock:
    cmd += ["-deadlock"]
  if coverage:
    cmd += ["-coverage", "1"]
  if simulate is not None:
    cmd += ["-simulate", simulate]
  if depth is not None:
    cmd += ["-depth", str(depth)]
  if seed is not None:
    cmd += ["-seed", str(seed)]
  if dump is not None:
    cmd += ["-dump"] + dump.split(" ")
  if dfid is not None:
    cmd += ["-dfid", str(dfid)]
  cmd += list(extra_args)
  cmd += [module]
  e = dict(os.environ)
  e.update(env or {})
  t0 = time.time()
  res = TlcResult()
  res.workdir = work
  try:
    p = subprocess.run(cmd, cwd=work, env=e, stdout=subprocess.PIPE, stderr=subprocess.STDOUT,
                       timeout=timeout, text=True, errors="replace")
    res.rc = p.returncode
    res.out = p.stdout
  except subprocess.TimeoutExpired as ex:
    res.timed_out = True
    res.rc = -9
    out = ex.stdout or ""
    res.out = out if isinstance(out, str) else out.decode("utf-8", "replace")
  res.wall = time.time() - t0
  _parse_output(res)
  if not res.timed_out and (res.rc < 0 or res.rc in (134, 137, 139, 143) or "java.lang.OutOfMemoryError" in res.out):
    # the JVM was killed (kernel OOM killer under load, or its heap was exhausted): whatever it printed or dumped is
    # incomplete and must never be read as a result.  One retry, then a machinery failure.
    if not _retry:
      shutil.rmtree(work, ignore_errors=True)
      time.sleep(20)
      return run_tlc(module, cfg_text, workers=workers, env=env, timeout=timeout, coverage=coverage, simulate=simulate,
                     depth=depth, seed=seed, dump=dump, extra_files=extra_files, extra_args=extra_args, deadlock=deadlock,
                     name=name, java_opts=java_opts, allow_errors=allow_errors, dfid=dfid, _retry=True)
    raise MachineryError(f"TLC process for {module} died (exit status {res.rc}) twice; output tail:\n" + res.out[-1500:])
  if not allow_errors:
    if res.timed_out and simulate is None:
      raise MachineryError(f"TLC timed out after {timeout}s on {module}\n" + res.out[-2000:])
    if res.errors:
      raise MachineryError(f"TLC error on {module}: " + "\n".join(res.errors[:5]) + "\n" + res.out[-3000:])
  return res


def _parse_output(res: TlcResult):
  lines = res.out.splitlines()
  i = 0
  n = len(lines)
  while i < n:
    line = lines[i]
    m = _RE_STATES.match(line)
    if m:
      res.generated = int(m.group(1))
      res.distinct = int(m.group(2))
    m = _RE_DEPTH.search(line)
    if m:
      res.depth = int(m.group(1))
    m = _RE_SIMSTATES.search(line)
    if m:
      res.generated = max(res.generated, int(m.group(1)))
    m = _RE_INV.search(line)
    if m:
      res.violated.append(m.group(1))
    elif line.startswith("Error: Action property") or line.startswith("Error: Temporal propert"):
      res.violated.append(line[len("Error: "):])
    elif line.startswith("Error:") :
      txt = line
      if "The behavior up to this point is" in txt or "The following behavior constitutes a counter-example" in txt:
        pass
      elif "The error occurred when TLC was evaluating" in txt:
        pass
      else:
        # collect continuation
        res.errors.append(txt + " " + " ".join(lines[i + 1:i + 3]))
    if "Model checking completed" in line or "Finished in" in line:
      res.completed = True
    if line.startswith("<<") or line.startswith('"') or line.startswith("[") or line.startswith("{"):
      # PrintT output; may span multiple lines for long values
      buf = line
      while not _quick_balanced(buf) and _unbalanced(buf) and i + 1 < n:
        i += 1
        buf += " " + lines[i].strip()
      res.prints.append(buf)
    m = _RE_COV.match(line)
    if m:
      res.coverage[m.group(1)] = (int(m.group(7)), int(m.group(8)))
    i += 1
  # errors that are verdicts (invariant violations) are not machinery errors
  res.errors = [e for e in res.errors if "Invariant" not in e or "is violated" not in e]
  res.errors = [e for e in res.errors if not e.startswith("Error: Action property") and
                not e.startswith("Error: Temporal propert")]


def _quick_balanced(s: str) -> bool:
  """Fast path for the common single-line case without strings containing brackets."""
  return (s.count("<<") == s.count(">>") and s.count("[") == s.count("]") and s.count("{") == s.count("}")
          and s.count("(") == s.count(")") and s.count('"') % 2 == 0 and "\\" not in s)


def _unbalanced(s: str) -> bool:
  depth = 0
  instr = False
  i = 0
  while i < len(s):
    c = s[i]
    if instr:
      if c == "\\":
        i += 1
      elif c == '"':
        instr = False
    else:
      if c == '"':
        instr = True
      elif c in "<[{(":
        if c == "<" and s[i:i + 2] == "<<":
          depth += 1
          i += 1
        elif c != "<":
          depth += 1
      elif c in ">]})":
        if c == ">" and s[i:i + 2] == ">>":
          depth -= 1
          i += 1
        elif c != ">":
          depth -= 1
    i += 1
  return depth > 0 or instr


# ---------------------------------------------------------------------------------------------------
# TLA+ value parser: ints, strings, booleans, model values, <<..>>, {..}, [a |-> v, ..], (k :> v @@ ..)
# Returns Python: int, str, bool, tuple (sequence), frozenset, dict (record / function).
# ---------------------------------------------------------------------------------------------------

class _P:
  def __init__(self, s):
    self.s = s
    self.i = 0

  def ws(self):
    s = self.s
    while self.i < len(s) and s[self.i] in " \t\r\n":
      self.i += 1

  def peek(self, k=1):
    return self.s[self.i:self.i + k]

  def expect(self, tok):
    self.ws()
    if self.s[self.i:self.i + len(tok)] != tok:
      raise ValueError(f"expected {tok!r} at {self.i}: {self.s[self.i:self.i+30]!r}")
    self.i += len(tok)

  def value(self):
    self.ws()
    s = self.s
    c = s[self.i]
    if s.startswith("<<", self.i):
      self.i += 2
      items = []
      self.ws()
      if s.startswith(">>", self.i):
        self.i += 2
        return tuple(items)
      while True:
        items.append(self.value())
        self.ws()
        if s.startswith(">>", self.i):
          self.i += 2
          return tuple(items)
        self.expect(",")
    if c == "{":
      self.i += 1
      items = []
      self.ws()
      if s[self.i] == "}":
        self.i += 1
        return frozenset()
      while True:
        items.append(_freeze(self.value()))
        self.ws()
        if s[self.i] == "}":
          self.i += 1
          return frozenset(items)
        self.expect(",")
    if c == "[":
      self.i += 1
      d = {}
      self.ws()
      if s[self.i] == "]":
        self.i += 1
        return d
      while True:
        self.ws()
        j = self.i
        while s[self.i].isalnum() or s[self.i] == "_":
          self.i += 1
        key = s[j:self.i]
        self.expect("|->")
        d[key] = self.value()
        self.ws()
        if s[self.i] == "]":
          self.i += 1
          return d
        self.expect(",")
    if c == "(":
      self.i += 1
      d = {}
      while True:
        k = _freeze(self.value())
        self.expect(":>")
        d[k] = self.value()
        self.ws()
        if s[self.i] == ")":
          self.i += 1
          return d
        self.expect("@@")
    if c == '"':
      self.i += 1
      out = []
      while s[self.i] != '"':
        if s[self.i] == "\\":
          self.i += 1
          ch = s[self.i]
          out.append({"n": "\n", "t": "\t", "r": "\r", "f": "\f"}.get(ch, ch))
        else:
          out.append(s[self.i])
        self.i += 1
      self.i += 1
      return "".join(out)
    if c == "-" or c.isdigit():
      j = self.i
      self.i += 1
      while self.i < len(s) and s[self.i].isdigit():
        self.i += 1
      return int(s[j:self.i])
    j = self.i
    while self.i < len(s) and (s[self.i].isalnum() or s[self.i] == "_"):
      self.i += 1
    word = s[j:self.i]
    if word == "TRUE":
      return True
    if word == "FALSE":
      return False
    if not word:
      raise ValueError(f"cannot parse at {self.i}: {s[self.i:self.i+30]!r}")
    return word


def _freeze(v):
  if isinstance(v, dict):
    return tuple(sorted((k, _freeze(x)) for k, x in v.items()))
  if isinstance(v, (list, tuple)):
    return tuple(_freeze(x) for x in v)
  return v


def parse_tla(text: str):
  p = _P(text)
  v = p.value()
  p.ws()
  if p.i != len(text):
    raise ValueError("trailing text: " + text[p.i:p.i + 40])
  return v


def parse_dump(path: str):
  """Parse a `-dump` file: yields dicts var -> value, in file order."""
  states = []
  cur = None
  with open(path) as fh:
    text = fh.read()
  for block in re.split(r"^State \d+:\s*$", text, flags=re.M):
    block = block.strip()
    if not block:
      continue
    states.append(parse_state(block))
  return states


def parse_state(block: str):
  """Parse '/\\ x = v /\\ y = w' (or a single 'x = v')."""
  # split on top-level "/\ " at line starts
  parts = re.split(r"^/\\ ", block, flags=re.M)
  d = {}
  for part in parts:
    part = part.strip()
    if not part:
      continue
    m = re.match(r"(\w+) = ", part)
    if not m:
      raise ValueError("bad state conjunct: " + part[:60])
    d[m.group(1)] = parse_tla(part[m.end():].strip())
  return d


def parse_sim_trace(path: str):
  """Parse a file written by `-simulate file=...`: list of (action_name, state dict)."""
  with open(path) as fh:
    text = fh.read()
  out = []
  # format:  \* <Action line.. of module M>  \n STATE_n == \n /\ ...
  pieces = re.split(r"^STATE_\d+ ==\s*$", text, flags=re.M)
  heads = re.findall(r"^\\\* <?(\w[\w ]*?)(?: line.*)?>?\s*$", text, flags=re.M)
  # Robust approach: iterate through matches in order
  for m in re.finditer(r"\\\* (?:<(\w+)[^>]*>|(Initial predicate|<Initial predicate>))\s*\nSTATE_\d+ ==\s*\n(.*?)(?=\n\n|\Z)",
                       text, flags=re.S):
    act = m.group(1) or "Init"
    out.append((act, parse_state(m.group(3))))
  return out


def to_tla(v) -> str:
  """Render a Python value as a TLA+ expression (for generated cfg/MC constants)."""
  if isinstance(v, bool):
    return "TRUE" if v else "FALSE"
  if isinstance(v, int):
    return str(v)
  if isinstance(v, str):
    return '"' + v.replace("\\", "\\\\").replace('"', '\\"') + '"'
  if isinstance(v, (list, tuple)):
    return "<<" + ", ".join(to_tla(x) for x in v) + ">>"
  if isinstance(v, (set, frozenset)):
    return "{" + ", ".join(to_tla(x) for x in sorted(v, key=repr)) + "}"
  if isinstance(v, dict):
    return "[" + ", ".join(f"{k} |-> {to_tla(x)}" for k, x in v.items()) + "]"
  raise TypeError(type(v))


# ---------------------------------------------------------------------------------------------------
# Fast dump parser: TLA+ value text -> JSON text by substitution, parsed by the C json module.
# Records -> dicts, tuples and sets -> lists, functions with non-1..n domain (k :> v @@ ...) are NOT supported
# (returns None so that the caller can fall back to parse_dump).  Strings must not contain brackets or '|->'.
# ---------------------------------------------------------------------------------------------------
_RE_KEY = re.compile(r"(\b[A-Za-z_]\w*) \|->")


def tla_to_json_text(txt: str):
  if ":>" in txt or "@@" in txt:
    return None
  txt = txt.replace("{", "\x01").replace("}", "\x02")          # sets -> lists
  txt = txt.replace("[", "{").replace("]", "}")                  # records -> objects
  txt = txt.replace("<<", "[").replace(">>", "]").replace("\x01", "[").replace("\x02", "]")
  txt = _RE_KEY.sub(r'"\1":', txt)
  txt = re.sub(r"\bTRUE\b", "true", txt)
  txt = re.sub(r"\bFALSE\b", "false", txt)
  return txt


def parse_dump_fast(path: str, variables):
  """Parse a -dump file; returns a list of dicts {var: python value} (tuples/sets become lists)."""
  import json as _json
  with open(path) as fh:
    text = fh.read()
  out = []
  blocks = re.split(r"^State \d+:\s*$", text, flags=re.M)
  pat = re.compile(r"^/\\ (\w+) = ", flags=re.M)
  for block in blocks:
    block = block.strip()
    if not block:
      continue
    if not block.startswith("/\\"):
      block = "/\\ " + block
    parts = pat.split(block)
    d = {}
    # parts: ['', var1, val1, var2, val2, ...]
    for k in range(1, len(parts) - 1, 2):
      var, val = parts[k], parts[k + 1]
      if var not in variables:
        continue
      j = tla_to_json_text(val.strip())
      if j is None:
        d[var] = _tuples_to_lists(parse_tla(val.strip()))
      else:
        d[var] = _json.loads(j)
    out.append(d)
  return out


def _tuples_to_lists(v):
  if isinstance(v, (tuple, frozenset)):
    return [_tuples_to_lists(x) for x in v]
  if isinstance(v, dict):
    return {k: _tuples_to_lists(x) for k, x in v.items()}
  return v
