------------------------------ MODULE Cea608Decoder ------------------------------
(* Reference CEA-608 caption decoder for one data channel (CC1), written from CTA-608-E / 47 CFR 15.119,
   independently of ttconv.scc.  Property C08.

   The decoder owns two memories of 15 rows x 32 cells: the displayed memory `disp` (what is on screen) and the
   non-displayed memory `ndisp` (where pop-on captions are composed).  A cell is empty (transparent) or holds a
   character with the pen attributes in force when it was written.  One byte pair ("word") is received per
   video frame; every word - also padding, a suppressed duplicate or a word for another channel - advances the
   frame clock by one.

     Pop-on   (RCL): text goes to ndisp at the cursor; EOC swaps the memories (the caption appears at the flip);
                     EDM erases disp, ENM erases ndisp.                               [15.119 (f)(1)(iii), (f)(2)]
     Paint-on (RDC): text goes straight to disp at the cursor.                        [15.119 (f)(1)(iv), (f)(3)]
     Roll-up  (RUn): text goes to disp on the base row (15 unless a PAC moved it); CR moves the rows of the
                     window (base-depth+1 .. base) up one row, the top row of the window is lost and the base
                     row is cleared; RUn received in another mode erases both memories.   [15.119 (f)(1)(ii)]
     PAC           : moves the cursor to (row, indent+1) - in roll-up it moves the window so that `row` is
                     the base row - and sets the pen (colour / italics, underline).       [15.119 (h), (f)(1)(ii)]
     Mid-row code  : occupies one cell, displayed as a space, and sets the pen for what follows.   [15.119 (h)]
     BS            : cursor one column left, that cell is erased (not in column 1).   TO1-3: cursor right.
     DER           : erases from the cursor to the end of the row.
     Special char  : one character.   Extended char: replaces the character before the cursor.    [CTA-608 6.4.2]
     Control codes (first byte 10h-1Fh: also PAC, mid-row, special and extended characters) are sent twice; the
     second of two identical consecutive codes is ignored.                                     [15.119 (g)(1)]
     A code addressed to the other data channel deselects this channel: it and all text that follows are ignored
     until a code for this channel arrives.                                                   [CTA-608 8.4]

   `Receive(w)` dispatches a 16-bit word (with or without parity bits) to exactly one of the named actions, using
   the classification of Cea608Word.tla.  `NewLine(lab)` re-bases the frame clock at the time code of an SCC line
   (labels of Timecode.tla; 30 fps for ':' and drop-frame 30000/1001 for ';').

   The observation is Screen(disp): the non-empty rows with their non-empty cells in column order.  (Columns are
   not part of property C08: "the same characters on the same rows, in row order".)

   The second half of the module is a protocol generator (GenNext), a sub-relation of Next that emits only
   streams following the pop-on / roll-up / paint-on grammars and records the emitted words in `sent`.        *)
EXTENDS Integers, Sequences, FiniteSets, TLC

\* classification and decoding of single words: spec/Cea608Word.tla (property C17), instantiated without its sweep variable
CW == INSTANCE Cea608Word WITH w <- 0
B1(x) == CW!B1(x)                       B2(x) == CW!B2(x)                 Strip(x) == CW!Strip(x)
IsCodeByte(b) == CW!IsCodeByte(b)       Class(a, b) == CW!Class(a, b)     Channel(a, b) == CW!Channel(a, b)
PacRow(a, b) == CW!PacRow(a, b)         PacIsIndent(b) == CW!PacIsIndent(b)   PacIndent(b) == CW!PacIndent(b)
PacColour(b) == CW!PacColour(b)         PacItalic(b) == CW!PacItalic(b)   PacUnderline(b) == CW!PacUnderline(b)
MidItalic(b) == CW!MidItalic(b)         MidColour(b) == CW!MidColour(b)   MidUnderline(b) == CW!MidUnderline(b)
ControlName(a, b) == CW!ControlName(a, b)   StdChar(b) == CW!StdChar(b)   SpecialChar(b) == CW!SpecialChar(b)
ExtendedChars(a, b) == CW!ExtendedChars(a, b)

CONSTANTS
  GStyles,      \* subset of {"popon", "rollup", "painton"} the generator may use
  GChars,       \* set of <<a, b>>: text words (two standard characters 20h..7Fh, or b = 0: one character)
  GRows,        \* set of PAC rows
  GDescs,       \* set of PAC descriptions 0..31 (0..15 colour/italics, 16..31 indent; odd = underline)
  GDepths,      \* subset of 2..4
  GOpts,        \* subset of {"single","dup","enm","edm","erase","midrow","bs","to","der","special","extended","ch2","null","gap","pair"}
  GMaxCaps,     \* captions / roll-up lines / paint-on segments per behaviour
  GMaxRows,     \* rows (PACs) per caption
  GMaxItems,    \* text items per row
  GBudget,      \* padding / channel-2 words per behaviour
  GStarts,      \* set of <<df, h, m, s, f>> start time codes (df = TRUE for ';')
  GMids, GSpecials, GExtendeds,  \* sets of mid-row attributes 0..15, special indices 0..15, extended <<group, index>>
  Pick(_)       \* Pick(S) = the members of S the generator branches over: S itself in exhaustive models, one random
                \* member ({RandomElement(S)}) when simulating over the full alphabets

VARIABLES mode, depth, base, disp, ndisp, cur, pen, lastCtl, frame, chan, df
dvars == <<mode, depth, base, disp, ndisp, cur, pen, lastCtl, frame, chan, df>>

VARIABLES ph, style, ncap, nrow, nitem, pend, c2, sent, budget, lastch, clean
gvars == <<ph, style, ncap, nrow, nitem, pend, c2, sent, budget, lastch, clean>>

-----------------------------------------------------------------------------
(* Time codes *)
TCN == INSTANCE Timecode WITH NUM <- 30, DEN <- 1, FPS <- 30, DROP <- 0, HOURS <- 100, STARTS <- {0},
                              n <- 0, h <- 0, m <- 0, s <- 0, f <- 0
TCD == INSTANCE Timecode WITH NUM <- 30000, DEN <- 1001, FPS <- 30, DROP <- 2, HOURS <- 100, STARTS <- {0},
                              n <- 0, h <- 0, m <- 0, s <- 0, f <- 0
LabelFrames(d, lab) == IF d THEN TCD!ToFrames(lab[1], lab[2], lab[3], lab[4]) ELSE TCN!ToFrames(lab[1], lab[2], lab[3], lab[4])
LabelValid(d, lab)  == IF d THEN TCD!ValidLabel(lab[1], lab[2], lab[3], lab[4]) ELSE TCN!ValidLabel(lab[1], lab[2], lab[3], lab[4])
FramesLabel(d, k)   == IF d THEN TCD!FromFrames(k) ELSE TCN!FromFrames(k)

-----------------------------------------------------------------------------
(* Memories: partial functions from <<row, column>> (15 x 32) to cells; a position outside the domain is an
   empty (transparent) cell.                                                                          *)
Rows == 1..15
Cols == 1..32
EmptyMem == [p \in {} |-> 0]
MkCell(ch, p) == [ch |-> ch, col |-> p.col, it |-> p.it, ul |-> p.ul]
DefaultPen == [col |-> "white", it |-> FALSE, ul |-> FALSE]
ExtMark == 100000                       \* an extended character is stored as ExtMark + stripped word value
Adv(c) == IF c < 32 THEN c + 1 ELSE 32

Put(mem, r, c, cell) == [p \in DOMAIN mem \cup {<<r, c>>} |-> IF p = <<r, c>> THEN cell ELSE mem[p]]
Erase(mem, S)        == [p \in DOMAIN mem \ S |-> mem[p]]
\* the rows in `rs` move by `delta` rows, every other row of `within` is erased, rows outside `within` stay
Shift(mem, rs, delta, within) ==
  [p \in {<<q[1] + delta, q[2]>> : q \in {x \in DOMAIN mem : x[1] \in rs}} \cup {x \in DOMAIN mem : x[1] \notin within}
     |-> IF p[1] \in within THEN mem[<<p[1] - delta, p[2]>>] ELSE mem[p]]

NonEmptyRows(mem) == {p[1] : p \in DOMAIN mem}
RowCells(mem, r) ==
  LET idx == SelectSeq([c \in Cols |-> c], LAMBDA c : <<r, c>> \in DOMAIN mem)
  IN  [j \in 1..Len(idx) |-> mem[<<r, idx[j]>>]]
RECURSIVE RowsFrom(_, _)
RowsFrom(mem, r) == IF r > 15 THEN <<>>
                    ELSE IF r \in NonEmptyRows(mem) THEN <<[row |-> r, cells |-> RowCells(mem, r)]>> \o RowsFrom(mem, r + 1)
                    ELSE RowsFrom(mem, r + 1)
\* the observation: non-empty rows in row order, each with its non-empty cells in column order
Screen(mem) == RowsFrom(mem, 1)

\* the memory text is written to in the current mode
Writing == IF mode = "popon" THEN ndisp ELSE disp
SetWriting(mm) == IF mode = "popon" THEN ndisp' = mm /\ disp' = disp ELSE disp' = mm /\ ndisp' = ndisp
Window(b, d) == (b - d + 1)..b

Tick == frame' = frame + 1
Keep(vs) == UNCHANGED vs

-----------------------------------------------------------------------------
(* Actions: one per class of received word.  Every action takes one frame.                          *)

Null ==
  /\ Tick /\ lastCtl' = 0
  /\ UNCHANGED <<mode, depth, base, disp, ndisp, cur, pen, chan, df>>

\* writes one or two characters (code points or extended marks) at the cursor
WriteChars(chs) ==
  LET r  == cur[1]
      c0 == cur[2]
      m1 == Put(Writing, r, c0, MkCell(chs[1], pen))
      c1 == Adv(c0)
      m2 == IF Len(chs) = 2 THEN Put(m1, r, c1, MkCell(chs[2], pen)) ELSE m1
      c2x == IF Len(chs) = 2 THEN Adv(c1) ELSE c1
  IN  /\ SetWriting(m2) /\ cur' = <<r, c2x>>

Chars(a, b) ==
  /\ Tick /\ lastCtl' = 0
  /\ IF chan = 1 /\ mode # "none"
     THEN WriteChars(IF b >= 32 THEN <<StdChar(a), StdChar(b)>> ELSE <<StdChar(a)>>)
     ELSE UNCHANGED <<disp, ndisp, cur>>
  /\ UNCHANGED <<mode, depth, base, pen, chan, df>>

\* every code for this channel selects the channel and is remembered for duplicate detection
Code(w) == Tick /\ lastCtl' = Strip(w) /\ chan' = 1 /\ df' = df

Pac(w, row, b2) ==
  LET col == IF PacIsIndent(b2) THEN PacIndent(b2) + 1 ELSE 1
      np  == [col |-> PacColour(b2), it |-> PacItalic(b2), ul |-> PacUnderline(b2)]
  IN
  /\ Code(w)
  /\ IF mode = "none" THEN UNCHANGED <<disp, ndisp, cur, pen, base>>
     ELSE IF mode = "rollup"
     THEN LET nb == IF row < depth THEN depth ELSE row IN
          /\ base' = nb
          /\ disp' = IF nb = base THEN disp ELSE Shift(disp, Window(base, depth), nb - base, Rows)
          /\ ndisp' = ndisp /\ cur' = <<nb, col>> /\ pen' = np
     ELSE /\ cur' = <<row, col>> /\ pen' = np /\ UNCHANGED <<disp, ndisp, base>>
  /\ UNCHANGED <<mode, depth>>

MidRow(w, b2) ==
  /\ Code(w)
  /\ IF mode = "none" THEN UNCHANGED <<disp, ndisp, cur, pen>>
     ELSE LET np == IF MidItalic(b2) THEN [col |-> pen.col, it |-> TRUE, ul |-> MidUnderline(b2)]
                    ELSE [col |-> MidColour(b2), it |-> FALSE, ul |-> MidUnderline(b2)]
          IN  /\ SetWriting(Put(Writing, cur[1], cur[2], MkCell(32, np)))
              /\ cur' = <<cur[1], Adv(cur[2])>> /\ pen' = np
  /\ UNCHANGED <<mode, depth, base>>

RCL(w) == Code(w) /\ mode' = "popon" /\ UNCHANGED <<depth, base, disp, ndisp, cur, pen>>
RDC(w) == Code(w) /\ mode' = "painton" /\ UNCHANGED <<depth, base, disp, ndisp, cur, pen>>

RU(w, k) ==
  /\ Code(w) /\ mode' = "rollup" /\ depth' = k
  /\ IF mode = "rollup"
     THEN LET nb    == IF base < k THEN k ELSE base                 \* the window must fit above the base row
              moved == IF nb = base THEN disp ELSE Shift(disp, Window(base, depth), nb - base, Rows)
          IN
          /\ base' = nb /\ cur' = <<nb, cur[2]>>
          /\ disp' = Erase(moved, {x \in DOMAIN moved : x[1] \notin Window(nb, k)})
          /\ UNCHANGED <<ndisp, pen>>
     ELSE /\ disp' = EmptyMem /\ ndisp' = EmptyMem /\ base' = 15 /\ cur' = <<15, 1>> /\ pen' = DefaultPen

CR(w) ==
  /\ Code(w)
  /\ IF mode = "rollup"
     THEN /\ disp' = Shift(disp, Window(base, depth - 1), -1, Window(base, depth))
          /\ cur' = <<base, 1>> /\ ndisp' = ndisp
     ELSE UNCHANGED <<disp, ndisp, cur>>                 \* CR has no effect in pop-on and paint-on
  /\ UNCHANGED <<mode, depth, base, pen>>

EOC(w) == Code(w) /\ disp' = ndisp /\ ndisp' = disp /\ mode' = "popon" /\ UNCHANGED <<depth, base, cur, pen>>
EDM(w) == Code(w) /\ disp' = EmptyMem /\ UNCHANGED <<mode, depth, base, ndisp, cur, pen>>
ENM(w) == Code(w) /\ ndisp' = EmptyMem /\ UNCHANGED <<mode, depth, base, disp, cur, pen>>

BS(w) ==
  /\ Code(w)
  /\ IF mode # "none" /\ cur[2] > 1
     THEN /\ SetWriting(Erase(Writing, {<<cur[1], cur[2] - 1>>})) /\ cur' = <<cur[1], cur[2] - 1>>
     ELSE UNCHANGED <<disp, ndisp, cur>>
  /\ UNCHANGED <<mode, depth, base, pen>>

TO(w, k) ==
  /\ Code(w)
  /\ cur' = IF mode = "none" THEN cur ELSE <<cur[1], IF cur[2] + k > 32 THEN 32 ELSE cur[2] + k>>
  /\ UNCHANGED <<mode, depth, base, disp, ndisp, pen>>

DER(w) ==
  /\ Code(w)
  /\ IF mode = "none" THEN UNCHANGED <<disp, ndisp>>
     ELSE SetWriting(Erase(Writing, {<<cur[1], c>> : c \in cur[2]..32}))
  /\ UNCHANGED <<mode, depth, base, cur, pen>>

Special(w, b2) ==
  /\ Code(w)
  /\ IF mode = "none" THEN UNCHANGED <<disp, ndisp, cur>> ELSE WriteChars(<<SpecialChar(b2)>>)
  /\ UNCHANGED <<mode, depth, base, pen>>

\* an extended character replaces the character before the cursor (the standard-set stand-in sent ahead of it)
Extended(w) ==
  /\ Code(w)
  /\ IF mode = "none" THEN UNCHANGED <<disp, ndisp, cur>>
     ELSE LET c0 == IF cur[2] > 1 THEN cur[2] - 1 ELSE 1 IN
          /\ SetWriting(Put(Writing, cur[1], c0, MkCell(ExtMark + Strip(w), pen)))
          /\ cur' = <<cur[1], Adv(c0)>>
  /\ UNCHANGED <<mode, depth, base, pen>>

\* the immediate repeat of a code: ignored, but it occupies a frame
DupControl ==
  /\ Tick /\ lastCtl' = 0
  /\ UNCHANGED <<mode, depth, base, disp, ndisp, cur, pen, chan, df>>

\* a code for the other data channel (or for the other field's services): this channel is deselected
OtherChannel(w) ==
  /\ Tick /\ lastCtl' = 0 /\ chan' = 2
  /\ UNCHANGED <<mode, depth, base, disp, ndisp, cur, pen, df>>

\* a code this decoder does not act upon (background/foreground attributes, AOF, AON, FON, TR, RTD, undefined)
Unsupported(w) == Code(w) /\ UNCHANGED <<mode, depth, base, disp, ndisp, cur, pen>>

\* an SCC line starts: the clock is set to the line's time code.  Frames without data end duplicate detection.
NewLine(d, lab) ==
  LET nf == LabelFrames(d, lab) IN
  /\ LabelValid(d, lab) /\ nf >= frame
  /\ frame' = nf /\ df' = d
  /\ lastCtl' = IF nf = frame THEN lastCtl ELSE 0
  /\ UNCHANGED <<mode, depth, base, disp, ndisp, cur, pen, chan>>

-----------------------------------------------------------------------------
(* Dispatch of a received word *)
Kind(w) ==
  LET b1 == B1(w) b2 == B2(w) cls == Class(b1, b2) IN
  IF cls = "PAD" THEN "Null"
  ELSE IF cls = "TEXT" THEN "Chars"
  ELSE IF cls = "UNKNOWN" THEN (IF IsCodeByte(b1) /\ b1 < 24 THEN "Unsupported" ELSE IF IsCodeByte(b1) THEN "OtherChannel" ELSE "Undefined")
  ELSE IF Channel(b1, b2) # 1 THEN "OtherChannel"
  ELSE IF Strip(w) = lastCtl THEN "DupControl"
  ELSE IF cls = "PAC" THEN "Pac"
  ELSE IF cls = "MIDROW" THEN "MidRow"
  ELSE IF cls = "SPECIAL" THEN "Special"
  ELSE IF cls = "EXTENDED" THEN "Extended"
  ELSE IF cls = "ATTR" THEN "Unsupported"
  ELSE LET nm == ControlName(b1, b2) IN
       IF nm \in {"RCL", "RDC", "CR", "EOC", "EDM", "ENM", "BS", "DER"} THEN nm
       ELSE IF nm \in {"RU2", "RU3", "RU4"} THEN "RU"
       ELSE IF nm \in {"TO1", "TO2", "TO3"} THEN "TO"
       ELSE "Unsupported"

\* named so that TLC's coverage report shows which decoder actions fired; k = Kind(w), computed once per word
RNull(k, w)     == k = "Null" /\ Null
RChars(k, w)    == k = "Chars" /\ Chars(B1(w), B2(w))
RPac(k, w)      == k = "Pac" /\ Pac(w, PacRow(B1(w), B2(w)), B2(w))
RMidRow(k, w)   == k = "MidRow" /\ MidRow(w, B2(w))
RRCL(k, w)      == k = "RCL" /\ RCL(w)
RRDC(k, w)      == k = "RDC" /\ RDC(w)
RRU(k, w)       == k = "RU" /\ RU(w, B2(w) - 35)            \* 25h, 26h, 27h -> 2, 3, 4
RCR(k, w)       == k = "CR" /\ CR(w)
REOC(k, w)      == k = "EOC" /\ EOC(w)
REDM(k, w)      == k = "EDM" /\ EDM(w)
RENM(k, w)      == k = "ENM" /\ ENM(w)
RBS(k, w)       == k = "BS" /\ BS(w)
RTO(k, w)       == k = "TO" /\ TO(w, B2(w) - 32)
RDER(k, w)      == k = "DER" /\ DER(w)
RSpecial(k, w)  == k = "Special" /\ Special(w, B2(w))
RExtended(k, w) == k = "Extended" /\ Extended(w)
RDup(k, w)      == k = "DupControl" /\ DupControl
ROther(k, w)    == k = "OtherChannel" /\ OtherChannel(w)
RUnsup(k, w)    == k = "Unsupported" /\ Unsupported(w)

Receive(w) ==
  LET k == Kind(w) IN
  \/ RNull(k, w) \/ RChars(k, w) \/ RPac(k, w) \/ RMidRow(k, w) \/ RRCL(k, w) \/ RRDC(k, w) \/ RRU(k, w) \/ RCR(k, w)
  \/ REOC(k, w) \/ REDM(k, w) \/ RENM(k, w) \/ RBS(k, w) \/ RTO(k, w) \/ RDER(k, w) \/ RSpecial(k, w)
  \/ RExtended(k, w) \/ RDup(k, w) \/ ROther(k, w) \/ RUnsup(k, w)

DInit ==
  /\ mode = "none" /\ depth = 2 /\ base = 15 /\ disp = EmptyMem /\ ndisp = EmptyMem /\ cur = <<15, 1>>
  /\ pen = DefaultPen /\ lastCtl = 0 /\ chan = 1

\* the unconstrained decoder: any word at any time
Next == (\E w \in 0..65535 : Receive(w)) /\ UNCHANGED gvars

-----------------------------------------------------------------------------
(* Design properties (checked by TLC on the generated behaviours) *)
TypeOK ==
  /\ mode \in {"none", "popon", "rollup", "painton"} /\ depth \in 2..4 /\ base \in Rows
  /\ cur[1] \in Rows /\ cur[2] \in Cols /\ chan \in {1, 2} /\ frame \in Nat
CursorInRange == cur[1] \in Rows /\ cur[2] \in Cols
RollupWindow ==
  mode = "rollup" => /\ base >= depth /\ cur[1] = base
                     /\ NonEmptyRows(disp) \subseteq Window(base, depth)
\* composing a pop-on caption never touches the screen: in pop-on mode disp changes only by the flip or an erase
PopOnHidden   == [][(mode = "popon" /\ mode' = "popon" /\ disp' # disp) => (disp' = ndisp \/ disp' = EmptyMem)]_dvars
\* nothing received while the other channel is selected changes a memory
ChannelFilter == [][chan' = 2 => (disp' = disp /\ ndisp' = ndisp /\ mode' = mode /\ cur' = cur)]_dvars
\* a suppressed duplicate changes nothing but the clock
OneFramePerWord == [][frame' = frame + 1 \/ (frame' >= frame /\ disp' = disp /\ ndisp' = ndisp /\ mode' = mode)]_dvars
\* roll-up never shows more than `depth` rows
RollupDepth == mode = "rollup" => Cardinality(NonEmptyRows(disp)) <= depth

-----------------------------------------------------------------------------
(* Words (without parity) for the generator *)
RowCode == <<<<1, 0>>, <<1, 1>>, <<2, 0>>, <<2, 1>>, <<5, 0>>, <<5, 1>>, <<6, 0>>, <<6, 1>>, <<7, 0>>, <<7, 1>>,
             <<0, 0>>, <<3, 0>>, <<3, 1>>, <<4, 0>>, <<4, 1>>>>
WPac(row, desc)  == (16 + RowCode[row][1]) * 256 + 64 + 32 * RowCode[row][2] + desc
WCtl(k)          == 20 * 256 + 32 + k               \* 14h 20h+k
WRCL == WCtl(0)   WBS == WCtl(1)   WDER == WCtl(4)   WRU(k) == WCtl(3 + k)   WRDC == WCtl(9)
WEDM == WCtl(12)  WCR == WCtl(13)  WENM == WCtl(14)  WEOC == WCtl(15)
WTO(k)           == 23 * 256 + 32 + k
WMid(a)          == 17 * 256 + 32 + a
WSpecial(k)      == 17 * 256 + 48 + k
WExtended(g, k)  == (16 + g) * 256 + 32 + k
WChars(a, b)     == a * 256 + b
Ch2(w)           == w + 8 * 256
LineMark         == 100000                           \* sent: LineMark + gap = a new SCC line `gap` frames after the clock

-----------------------------------------------------------------------------
(* Protocol generator: a sub-relation of Next.  ph is the position in the grammar

      start  --mode code-->  (popon: enm) (rollup: cr) (painton: row)
      enm    --[ENM]-->      row
      cr     --CR-->         row
      row    --PAC-->        txt
      txt    --text item-->  txt      (characters, mid-row, special, extended, BS, TO, DER)
             --PAC-->        txt      (next row; not in roll-up)
             --[EDM] EOC-->  after    (pop-on)            --> after (roll-up, paint-on)
      after  --[EDM]-->      start | done ; a new SCC line (with or without a gap) may start in `start`

   `pend` holds the last code sent: its duplicate may follow (must follow unless "single" is enabled).  Padding and
   words for channel 2 may be inserted where the next word for channel 1 is a code.                          *)

Has(o) == o \in GOpts
Emit(w) == Receive(w) /\ sent' = Append(sent, w)
\* a code word of the grammar: allowed when no duplicate is owed
CodeOk == pend = 0 \/ Has("single")
EmitCode(w) == CodeOk /\ Emit(w) /\ pend' = (IF Has("dup") THEN w ELSE 0) /\ c2' = FALSE /\ budget' = budget
EmitText(w) == CodeOk /\ ~c2 /\ Emit(w) /\ pend' = 0 /\ c2' = c2 /\ budget' = budget

GInit ==
  /\ DInit
  /\ \E st \in Pick(GStarts) : df = st[1] /\ frame = LabelFrames(st[1], <<st[2], st[3], st[4], st[5]>>)
  /\ ph = "start" /\ style = "none" /\ ncap = 0 /\ nrow = 0 /\ nitem = 0 /\ pend = 0 /\ c2 = FALSE
  /\ sent = <<LineMark>> /\ budget = GBudget /\ lastch = FALSE /\ clean = TRUE

GDup == pend # 0 /\ Emit(pend) /\ pend' = 0 /\ UNCHANGED <<ph, style, ncap, nrow, nitem, c2, budget, lastch, clean>>

GNull == Has("null") /\ budget > 0 /\ CodeOk /\ Emit(0) /\ pend' = 0 /\ budget' = budget - 1
         /\ UNCHANGED <<ph, style, ncap, nrow, nitem, c2, lastch, clean>>

\* channel 2: a code, then possibly text; only where the next channel-1 word is a code
GCh2Code == Has("ch2") /\ budget > 0 /\ CodeOk /\ ph \in {"start", "row", "cr", "enm"}
            /\ (\E w \in {Ch2(WRCL), Ch2(WPac(15, 16)), Ch2(WEDM), Ch2(WEOC)} : Emit(w))
            /\ pend' = 0 /\ c2' = TRUE /\ budget' = budget - 1 /\ UNCHANGED <<ph, style, ncap, nrow, nitem, lastch, clean>>
GCh2Text == c2 /\ budget > 0 /\ (\E p \in Pick(GChars) : Emit(WChars(p[1], p[2])))
            /\ pend' = 0 /\ budget' = budget - 1 /\ UNCHANGED <<ph, style, ncap, nrow, nitem, c2, lastch, clean>>

GLine == Has("gap") /\ ph = "start" /\ ncap > 0 /\ CodeOk /\ Len(sent) > 0 /\ sent[Len(sent)] < LineMark
         /\ \E gap \in {0, 7} :
              /\ NewLine(df, FramesLabel(df, frame + gap))
              /\ sent' = Append(sent, LineMark + gap)
              /\ pend' = (IF gap = 0 /\ Has("pair") THEN pend ELSE 0)   \* a code and its copy may straddle contiguous lines
         /\ UNCHANGED <<ph, style, ncap, nrow, nitem, c2, budget, lastch, clean>>

\* a new caption.  The protocols are left through an erase: another protocol may be chosen only after an EDM, and
\* pop-on entered from another protocol starts with ENM (both memories are then empty on either reading of CTA-608)
GMode == /\ ph = "start" /\ ncap < GMaxCaps
         /\ \E st \in Pick(GStyles) :
              /\ st = style \/ style = "none" \/ clean
              /\ style' = st
              /\ CASE st = "popon"   -> EmitCode(WRCL) /\ ph' = (IF style \notin {"none", "popon"} THEN "enm1"
                                                                  ELSE IF Has("enm") THEN "enm" ELSE "row")
                   [] st = "painton" -> EmitCode(WRDC) /\ ph' = "row"
                   [] st = "rollup"  -> (\E d \in Pick(GDepths) : EmitCode(WRU(d))) /\ ph' = "cr"
         /\ ncap' = ncap + 1 /\ nrow' = 0 /\ nitem' = 0 /\ lastch' = FALSE /\ clean' = FALSE

GEnm  == /\ \/ ph \in {"enm", "enm1"} /\ EmitCode(WENM)
            \/ ph = "enm" /\ pend' = pend /\ c2' = c2 /\ budget' = budget /\ UNCHANGED dvars /\ sent' = sent
         /\ ph' = "row" /\ UNCHANGED <<style, ncap, nrow, nitem, lastch, clean>>
GCr   == ph = "cr" /\ EmitCode(WCR) /\ ph' = "row" /\ UNCHANGED <<style, ncap, nrow, nitem, lastch, clean>>

GPac  == /\ \/ ph = "row"
            \/ ph = "txt" /\ style # "rollup" /\ nrow < GMaxRows /\ nitem > 0
         /\ \E r \in Pick(GRows), d \in Pick(GDescs) : EmitCode(WPac(r, d))
         /\ ph' = "txt" /\ nrow' = nrow + 1 /\ nitem' = 0 /\ lastch' = FALSE /\ UNCHANGED <<style, ncap, clean>>

\* text items; BS and extended characters follow a character other than a space ("replace the preceding character":
\* an extended character is sent after its standard-set stand-in)
GItem == /\ ph = "txt" /\ nitem < GMaxItems
         /\ cur[2] <= 29                                   \* the row stays inside the 32 columns (an item takes up to 3)
         /\ \/ \E p \in Pick(GChars) : EmitText(WChars(p[1], p[2])) /\ lastch' = (IF p[2] = 0 THEN p[1] # 32 ELSE p[2] # 32)
            \/ Has("midrow") /\ (\E a \in Pick(GMids) : EmitCode(WMid(a))) /\ lastch' = TRUE
            \/ Has("special") /\ (\E k \in Pick(GSpecials) : EmitCode(WSpecial(k))) /\ lastch' = TRUE
            \/ Has("extended") /\ lastch /\ (\E e \in Pick(GExtendeds) : EmitCode(WExtended(e[1], e[2]))) /\ lastch' = TRUE
            \/ Has("bs") /\ lastch /\ EmitCode(WBS) /\ lastch' = FALSE
            \/ Has("to") /\ (\E k \in 1..3 : EmitCode(WTO(k))) /\ lastch' = FALSE
            \/ Has("der") /\ style = "painton" /\ EmitCode(WDER) /\ lastch' = FALSE
         /\ nitem' = nitem + 1 /\ UNCHANGED <<ph, style, ncap, nrow, clean>>

GClose == /\ ph = "txt" /\ nitem > 0
          /\ IF style = "popon" THEN ph' = "eoc" ELSE ph' = "after"
          /\ UNCHANGED dvars /\ UNCHANGED <<style, ncap, nrow, nitem, pend, c2, sent, budget, lastch, clean>>
GEdmBeforeEoc == ph = "eoc" /\ Has("edm") /\ nrow < 100 /\ EmitCode(WEDM) /\ nrow' = 100
                 /\ UNCHANGED <<ph, style, ncap, nitem, lastch, clean>>
GEoc  == ph = "eoc" /\ EmitCode(WEOC) /\ ph' = "after" /\ UNCHANGED <<style, ncap, nrow, nitem, lastch, clean>>
GErase == ph = "after" /\ Has("erase") /\ EmitCode(WEDM) /\ ph' = "start" /\ clean' = TRUE
          /\ UNCHANGED <<style, ncap, nrow, nitem, lastch>>
GNoErase == ph = "after" /\ ph' = "start" /\ UNCHANGED dvars
            /\ UNCHANGED <<style, ncap, nrow, nitem, pend, c2, sent, budget, lastch, clean>>

\* the end of a behaviour: the emitted stream is printed for the replay into the implementation
GDone == /\ ph = "start" /\ ncap > 0 /\ (pend = 0 \/ Has("single"))
         /\ PrintT(<<"BEH", df, frame, sent>>)
         /\ ph' = "done" /\ UNCHANGED dvars /\ UNCHANGED <<style, ncap, nrow, nitem, pend, c2, sent, budget, lastch, clean>>

GenNext ==
  \/ GDup \/ GNull \/ GCh2Code \/ GCh2Text \/ GLine \/ GMode \/ GEnm \/ GCr \/ GPac \/ GItem \/ GClose
  \/ GEdmBeforeEoc \/ GEoc \/ GErase \/ GNoErase \/ GDone

GenSpec == GInit /\ [][GenNext]_<<dvars, gvars>>

\* GenNext is a sub-relation of the decoder: every generator step that emits a word is a Receive step
GenRefinesDecoder == [][(sent' # sent /\ sent'[Len(sent')] < LineMark) => Receive(sent'[Len(sent')])]_<<dvars, gvars>>
=============================================================================
