-------------------------------- MODULE Cea608Word --------------------------------
(* Classification and decoding of one 16-bit CEA-608 word (two bytes with odd-parity bits), written
   from the code-space layout of CTA-608-E (sec. 4 and Annex tables), independently of the tables in
   ttconv.scc.codes.  Property C17; also used by the reference decoder of C08.

   b1 = first byte without parity bit, b2 = second byte without parity bit.

   The code space (first byte 10h..1Fh) is laid out by the low three bits c of b1 (bit 3 selects the
   data channel) and by the range of b2:
       b2 40h..7Fh : preamble address code, except c = 0 with b2 >= 60h (row 11 has one row only)
       b2 20h..2Fh : c=0 background attribute, c=1 mid-row, c=2,3 extended char, c=4 (field 1) and
                     c=5 (field 2) miscellaneous control, c=7: 21h..23h tab offsets, 2Dh..2Fh attributes
       b2 30h..3Fh : c=1 special char, c=2,3 extended char
   Everything else with b1 < 20h is unknown; b1 >= 20h is a printable pair; 0000h is padding.

   The state machine sweeps the 65 536 word values; the invariants say that the class predicates
   partition the space and that nothing depends on the parity bits.                                *)
EXTENDS Naturals, Sequences, FiniteSets, TLC

VARIABLE w
vars == <<w>>

B1(x) == (x \div 256) % 128
B2(x) == (x % 256) % 128
Strip(x) == B1(x) * 256 + B2(x)

IsCodeByte(b1) == b1 \in 16..31
C(b1) == b1 % 8                       \* code group (b1 - 10h without the channel bit)

-----------------------------------------------------------------------------
(* Class predicates, each written from the bit patterns *)

IsPad(b1, b2)     == b1 = 0 /\ b2 = 0
IsText(b1, b2)    == b1 >= 32
IsPac(b1, b2)     == IsCodeByte(b1) /\ b2 >= 64 /\ ~(C(b1) = 0 /\ b2 >= 96)
IsMidRow(b1, b2)  == IsCodeByte(b1) /\ C(b1) = 1 /\ b2 \in 32..47
IsSpecial(b1, b2) == IsCodeByte(b1) /\ C(b1) = 1 /\ b2 \in 48..63
IsExtended(b1, b2) == IsCodeByte(b1) /\ C(b1) \in {2, 3} /\ b2 \in 32..63
IsControl(b1, b2) == IsCodeByte(b1) /\ \/ C(b1) \in {4, 5} /\ b2 \in 32..47
                                       \/ C(b1) = 7 /\ b2 \in 33..35
IsAttr(b1, b2)    == IsCodeByte(b1) /\ \/ C(b1) = 0 /\ b2 \in 32..47
                                       \/ C(b1) = 7 /\ b2 \in 45..47

Classes == <<"PAD", "TEXT", "PAC", "MIDROW", "SPECIAL", "EXTENDED", "CONTROL", "ATTR">>
Holds(name, b1, b2) ==
  CASE name = "PAD" -> IsPad(b1, b2)      [] name = "TEXT" -> IsText(b1, b2)
    [] name = "PAC" -> IsPac(b1, b2)      [] name = "MIDROW" -> IsMidRow(b1, b2)
    [] name = "SPECIAL" -> IsSpecial(b1, b2) [] name = "EXTENDED" -> IsExtended(b1, b2)
    [] name = "CONTROL" -> IsControl(b1, b2) [] name = "ATTR" -> IsAttr(b1, b2)

Matching(b1, b2) == {k \in 1..Len(Classes) : Holds(Classes[k], b1, b2)}

Class(b1, b2) == IF Matching(b1, b2) = {} THEN "UNKNOWN"
                 ELSE Classes[CHOOSE k \in Matching(b1, b2) : TRUE]

IsField2Control(b1, b2) == IsControl(b1, b2) /\ C(b1) = 5

\* data channel a code belongs to: 1, 2, or 0 = neither (field-2 control codes, and everything that is not a code)
Channel(b1, b2) ==
  IF Class(b1, b2) \in {"PAC", "MIDROW", "SPECIAL", "EXTENDED", "CONTROL", "ATTR"}
  THEN IF IsField2Control(b1, b2) THEN 0 ELSE IF b1 >= 24 THEN 2 ELSE 1
  ELSE 0

-----------------------------------------------------------------------------
(* Decoding *)

\* PAC row from the code group and bit 5 of the second byte (CTA-608 table 53)
PacRow(b1, b2) ==
  LET c == C(b1)
      second == IF b2 >= 96 THEN 1 ELSE 0
  IN  CASE c = 1 -> 1 + second  [] c = 2 -> 3 + second  [] c = 5 -> 5 + second
        [] c = 6 -> 7 + second  [] c = 7 -> 9 + second  [] c = 0 -> 11
        [] c = 3 -> 12 + second [] c = 4 -> 14 + second

ColourNames == <<"white", "green", "blue", "cyan", "red", "yellow", "magenta">>

\* PAC: low five bits d of b2; d < 16: colour/italics + underline; d >= 16: indent + underline
PacDesc(b2) == b2 % 32
PacIsIndent(b2) == PacDesc(b2) >= 16
PacIndent(b2) == ((PacDesc(b2) - 16) \div 2) * 4
PacUnderline(b2) == b2 % 2 = 1
PacItalic(b2) == ~PacIsIndent(b2) /\ PacDesc(b2) \div 2 = 7
PacColour(b2) == IF PacIsIndent(b2) \/ PacItalic(b2) THEN "white" ELSE ColourNames[PacDesc(b2) \div 2 + 1]

\* mid-row: attribute a = b2 - 20h
MidUnderline(b2) == b2 % 2 = 1
MidItalic(b2) == (b2 - 32) \div 2 = 7
MidColour(b2) == IF MidItalic(b2) THEN "none" ELSE ColourNames[(b2 - 32) \div 2 + 1]   \* italics keeps the colour

ControlName(b1, b2) ==
  IF C(b1) = 7 THEN <<"TO1", "TO2", "TO3">>[b2 - 32]
  ELSE <<"RCL", "BS", "AOF", "AON", "DER", "RU2", "RU3", "RU4",
         "FON", "RDC", "TR", "RTD", "EDM", "CR", "ENM", "EOC">>[b2 - 31]

\* attribute codes: <<colour, opacity>> ; opacity "opaque" | "semi" | "transparent" | "fg"
BgColours == <<"white", "green", "blue", "cyan", "red", "yellow", "magenta", "black">>
AttrDecode(b1, b2) ==
  IF C(b1) = 0 THEN <<BgColours[(b2 - 32) \div 2 + 1], IF b2 % 2 = 1 THEN "semi" ELSE "opaque", FALSE>>
  ELSE CASE b2 = 45 -> <<"black", "transparent", FALSE>>
         [] b2 = 46 -> <<"black", "fg", FALSE>>
         [] b2 = 47 -> <<"black", "fg", TRUE>>            \* foreground black underline

-----------------------------------------------------------------------------
(* Characters as Unicode code points.  Where CTA-608 names a glyph that has more than one customary
   Unicode rendering, the accepted set has several members (said per entry).                        *)

\* standard set: ASCII except ten substitutions
StdSubst == [x \in {42, 92, 94, 95, 96, 123, 124, 125, 126, 127} |->
  CASE x = 42 -> 225 (* a-acute *)   [] x = 92 -> 233 (* e-acute *)  [] x = 94 -> 237 (* i-acute *)
    [] x = 95 -> 243 (* o-acute *)   [] x = 96 -> 250 (* u-acute *)  [] x = 123 -> 231 (* c-cedilla *)
    [] x = 124 -> 247 (* division *) [] x = 125 -> 209 (* N-tilde *) [] x = 126 -> 241 (* n-tilde *)
    [] x = 127 -> 9608 (* solid block *)]
StdChar(b) == IF b \in DOMAIN StdSubst THEN StdSubst[b] ELSE b

\* special characters 30h..3Fh (CTA-608 table 49)
SpecialChars == <<174, 176, 189, 191, 8482, 162, 163, 9834, 224, 32, 232, 226, 234, 238, 244, 251>>
SpecialChar(b2) == SpecialChars[b2 - 47]

\* extended characters: code group 2 (Spanish/misc/French), code group 3 (Portuguese/German/Danish); sets of accepted code points
Ext2 == <<{193}, {201}, {211}, {218}, {220}, {252}, {8216}, {161},
          {42}, {39}, {8212, 9473} (* em dash; heavy horizontal bar is a customary stand-in *), {169}, {8480}, {8226},
          {8220}, {8221},
          {192}, {194}, {199}, {200}, {202}, {203}, {235}, {206}, {207}, {239}, {212}, {217}, {249}, {219}, {171}, {187}>>
Ext3 == <<{195}, {227}, {205}, {204}, {236}, {210}, {242}, {213}, {245}, {123}, {125}, {92}, {94}, {95},
          {124, 166} (* vertical bar / broken bar *), {126},
          {196}, {228}, {214}, {246}, {223}, {165}, {164}, {124, 9474, 9475} (* vertical bar glyph *),
          {197}, {229}, {216}, {248},
          {9484, 9487, 9121, 8988} (* upper left corner *), {9488, 9491, 9124, 8989} (* upper right corner *),
          {9492, 9495, 9123, 8990} (* lower left corner *), {9496, 9499, 9126, 8991} (* lower right corner *)>>
ExtendedChars(b1, b2) == IF C(b1) = 2 THEN Ext2[b2 - 31] ELSE Ext3[b2 - 31]

-----------------------------------------------------------------------------
(* The sweep and the design-level properties *)

\* 256 pages of 256 words (a single chain of 65 536 steps makes TLC's breadth-first search needlessly deep)
Init == w \in {256 * p : p \in 0..255}
Next == w % 256 < 255 /\ w' = w + 1
Spec == Init /\ [][Next]_vars

ExactlyOneClass == Cardinality(Matching(B1(w), B2(w))) <= 1
ParityInvariant == /\ Class(B1(w), B2(w)) = Class(B1(Strip(w)), B2(Strip(w)))
                   /\ Channel(B1(w), B2(w)) = Channel(B1(Strip(w)), B2(Strip(w)))
ChannelOnlyForCodes == Channel(B1(w), B2(w)) # 0 => IsCodeByte(B1(w))
PacWellFormed == IsPac(B1(w), B2(w)) =>
                   /\ PacRow(B1(w), B2(w)) \in 1..15
                   /\ PacIsIndent(B2(w)) => PacIndent(B2(w)) \in {0, 4, 8, 12, 16, 20, 24, 28}
\* all 15 rows x both channels x 32 descriptions are PACs: 960 words (without parity)
=============================================================================
