------------------------------------ MODULE Cli ------------------------------------
(* The `tt convert` command line, property C19.

   Written from the README (command line synopsis, "Format support", the documented configuration
   domains of general / imsc_writer / stl_reader / srt_writer / vtt_writer / scc_reader / lcd) and from
   the property text, not from tt.py.

   A job is what one invocation is given:
     cmd      sub-command word ("convert" is the only one)
     content  the real format of the input file (which reader can read it)
     itype    --itype spelling or "-" (option absent) ; iext  extension of the input path as written ("" = none)
     otype    --otype spelling or "-"                  ; oext  extension of the output path
     cfgfile  configuration given by --config_file (index into Configs, 0 = absent)
     inline   configuration given by --config      (index into Configs, 0 = absent)
     filters  sequence of --filter names, in command-line order

   Strings are atomic for TLC, so spellings are tokens and case-insensitivity is the table Canon*.

   The output of a conversion is modelled as the *key* of the library composition that must produce the same
   bytes: <<content, reader, writer, effective configuration, filters>>.  Lib(job) is a function of the job
   only; the process-global state (`globals`) is changed arbitrarily by every conversion and must never
   show in `out`.                                                                                     *)
EXTENDS Naturals, Integers, Sequences, FiniteSets, TLC

CONSTANTS MaxHist,      \* longest history of conversions in one interpreter
          FullDispatch  \* TRUE: full product of input and output spellings ; FALSE: each against one fixed partner

Range(sq) == {sq[k] : k \in 1..Len(sq)}
SX == INSTANCE SequencesExt          \* SetToSeq: a fixed enumeration order of a finite set

-----------------------------------------------------------------------------
(* Types: README "Format support" and "--itype / --otype" *)

Readers == {"ttml", "scc", "stl", "srt", "vtt"}
Writers == {"ttml", "srt", "vtt"}
Unsupported == "?"

\* spellings of an option value: documented names in any letter case; anything else is unsupported
CanonOpt(t) ==
  CASE t \in {"ttml", "TTML", "tTmL"} -> "ttml"
    [] t \in {"scc", "SCC", "Scc"}   -> "scc"
    [] t \in {"stl", "STL", "sTl"}   -> "stl"
    [] t \in {"srt", "SRT", "Srt"}   -> "srt"
    [] t \in {"vtt", "VTT", "vtT"}   -> "vtt"
    [] OTHER -> Unsupported
\* extension of a path as os.path.splitext returns it: a leading dot, then the name in any letter case
CanonExt(t) ==
  CASE t \in {".ttml", ".TTML", ".tTmL"} -> "ttml"
    [] t \in {".scc", ".SCC", ".Scc"}   -> "scc"
    [] t \in {".stl", ".STL", ".sTl"}   -> "stl"
    [] t \in {".srt", ".SRT", ".Srt"}   -> "srt"
    [] t \in {".vtt", ".VTT", ".vtT"}   -> "vtt"
    [] OTHER -> Unsupported

\* the option wins over the extension
Resolve(opt, ext) == IF opt # "-" THEN CanonOpt(opt) ELSE CanonExt(ext)

Dispatch(cmd, itype, iext, otype, oext) ==
  LET r == Resolve(itype, iext)
      w == Resolve(otype, oext)
  IN  IF cmd # "convert" \/ r \notin Readers \/ w \notin Writers
      THEN [error |-> TRUE, reader |-> Unsupported, writer |-> Unsupported]
      ELSE [error |-> FALSE, reader |-> r, writer |-> w]

-----------------------------------------------------------------------------
(* Configuration domains (README).  A value is described by
     t   JSON type: "bool" | "int" | "float" | "str" | "null" | "list"
     b n s   the boolean / integer / string (others 0 / "" / FALSE)
     syn set of lexical classes the string belongs to, judged by the lexers of harness/cli_jobs.py:
         "fraction" <num>/<denom> with denom > 0 ; "timecode" HH:MM:SS:FF or HH:MM:SS;FF ; "color" TTML <color> ;
         "langtag" RFC 5646 shape ; "fontfamilies" TTML <font-families>                                 *)

Val(t, b, n, s, syn) == [t |-> t, b |-> b, n |-> n, s |-> s, syn |-> syn]
VBool(b) == Val("bool", b, 0, "", {})
VInt(n)  == Val("int", FALSE, n, "", {})
VStr(s, syn) == Val("str", FALSE, 0, s, syn)
VNull  == Val("null", FALSE, 0, "", {})
VFloat == Val("float", FALSE, 0, "", {})
VList  == Val("list", FALSE, 0, "", {})
\* a value whose TEXT is not JSON at all (a string with a raw control character in it, RFC 8259 section 7): the whole
\* configuration text is then not a configuration, whichever way it is given (--config or --config_file)
VNotJson == Val("notjson", FALSE, 0, "", {})

IsBool(v) == v.t = "bool"
OneOf(v, S) == v.t = "str" /\ v.s \in S
HasSyn(v, c) == v.t = "str" /\ c \in v.syn

Accept(m, k, v) ==
  CASE m = "general" /\ k = "progress_bar"  -> IsBool(v)
    [] m = "general" /\ k = "log_level"     -> OneOf(v, {"INFO", "WARN", "ERROR"})
    [] m = "general" /\ k = "document_lang" -> HasSyn(v, "langtag")
    [] m = "imsc_writer" /\ k = "time_format" -> OneOf(v, {"frames", "clock_time", "clock_time_with_frames"})
    [] m = "imsc_writer" /\ k = "fps"         -> HasSyn(v, "fraction")
    [] m = "stl_reader" /\ k \in {"disable_fill_line_gap", "disable_line_padding"} -> IsBool(v)
    [] m = "stl_reader" /\ k = "program_start_tc" -> OneOf(v, {"TCP"}) \/ HasSyn(v, "timecode")
    [] m = "stl_reader" /\ k = "font_stack"       -> HasSyn(v, "fontfamilies")
    [] m = "stl_reader" /\ k = "max_row_count"    -> OneOf(v, {"MNR"}) \/ v.t = "int"
    [] m = "srt_writer" /\ k = "text_formatting"  -> IsBool(v)
    [] m = "vtt_writer" /\ k \in {"line_position", "text_align", "cue_id"} -> IsBool(v)
    [] m = "scc_reader" /\ k = "text_align" -> OneOf(v, {"auto", "left", "center", "right"})
    [] m = "lcd" /\ k = "safe_area" -> v.t = "int" /\ 0 <= v.n /\ v.n <= 30
    [] m = "lcd" /\ k \in {"color", "bg_color"} -> v.t = "null" \/ HasSyn(v, "color")
    [] m = "lcd" /\ k = "preserve_text_align" -> IsBool(v)
    [] OTHER -> FALSE

\* one setting: module, key, JSON text of the value, its description, and how the catalogue classifies it
Set(m, k, json, v, cls) == [m |-> m, k |-> k, json |-> json, v |-> v, cls |-> cls]

BoolKeys == << <<"general", "progress_bar">>, <<"stl_reader", "disable_fill_line_gap">>, <<"stl_reader", "disable_line_padding">>,
              <<"srt_writer", "text_formatting">>, <<"vtt_writer", "line_position">>, <<"vtt_writer", "text_align">>,
              <<"vtt_writer", "cue_id">>, <<"lcd", "preserve_text_align">> >>
BoolSets(mk) == << Set(mk[1], mk[2], "true", VBool(TRUE), "valid"), Set(mk[1], mk[2], "false", VBool(FALSE), "valid"),
                   Set(mk[1], mk[2], "\"false\"", VStr("false", {}), "invalid"), Set(mk[1], mk[2], "0", VInt(0), "invalid") >>
RECURSIVE Flat(_, _)
Flat(sq, k) == IF k > Len(sq) THEN <<>> ELSE BoolSets(sq[k]) \o Flat(sq, k + 1)

\* every documented key with valid, boundary (edge of the domain, accepted) and invalid values.  A *sequence*: the position
\* of a setting is its configuration number (TLC's enumeration order of sets is not stable across runs)
CatSeq ==
  Flat(BoolKeys, 1)
  \o << Set("general", "log_level", "\"INFO\"", VStr("INFO", {}), "valid"),
         Set("general", "log_level", "\"WARN\"", VStr("WARN", {}), "valid"),
         Set("general", "log_level", "\"ERROR\"", VStr("ERROR", {}), "valid"),
         Set("general", "log_level", "\"DEBUG\"", VStr("DEBUG", {}), "invalid"),
         Set("general", "log_level", "\"info\"", VStr("info", {}), "invalid"),
         Set("general", "log_level", "\"verbose\"", VStr("verbose", {}), "invalid"),
         Set("general", "log_level", "20", VInt(20), "invalid"),
         Set("general", "document_lang", "\"es-419\"", VStr("es-419", {"langtag"}), "valid"),
         Set("general", "document_lang", "\"en\"", VStr("en", {"langtag"}), "boundary"),
         Set("general", "document_lang", "\"not a tag\"", VStr("not a tag", {}), "invalid"),
         \* letters that only LOOK like (or case-fold to) ASCII letters: LATIN SMALL LETTER LONG S, KELVIN SIGN, DOTLESS I
         Set("general", "document_lang", "\"\\u017fv\"", VStr("(long s)v", {}), "invalid"),
         Set("general", "document_lang", "\"\\u212ao\"", VStr("(kelvin)o", {}), "invalid"),
         Set("general", "document_lang", "\"en-u\\u017f\"", VStr("en-u(long s)", {}), "invalid"),
         Set("general", "document_lang", "\"\\u0131t-IT\"", VStr("(dotless i)t-IT", {}), "invalid"),
         Set("general", "document_lang", "5", VInt(5), "invalid"),
         Set("general", "document_lang", "\"fr\t\"", VNotJson, "invalid"),
         Set("imsc_writer", "fps", "\"30\t/1\"", VNotJson, "invalid"),
         Set("stl_reader", "font_stack", "\"Arial\n\"", VNotJson, "invalid"),
         Set("imsc_writer", "time_format", "\"clock_time\"", VStr("clock_time", {}), "valid"),
         Set("imsc_writer", "time_format", "\"frames\"", VStr("frames", {}), "valid"),
         Set("imsc_writer", "time_format", "\"clock_time_with_frames\"", VStr("clock_time_with_frames", {}), "valid"),
         Set("imsc_writer", "time_format", "\"smpte\"", VStr("smpte", {}), "invalid"),
         Set("imsc_writer", "time_format", "3", VInt(3), "invalid"),
         Set("imsc_writer", "fps", "\"25/1\"", VStr("25/1", {"fraction"}), "valid"),
         Set("imsc_writer", "fps", "\"30000/1001\"", VStr("30000/1001", {"fraction"}), "valid"),
         Set("imsc_writer", "fps", "\"25\"", VStr("25", {}), "invalid"),
         Set("imsc_writer", "fps", "\"25/0\"", VStr("25/0", {}), "invalid"),
         Set("imsc_writer", "fps", "\"a/b\"", VStr("a/b", {}), "invalid"),
         Set("imsc_writer", "fps", "25", VInt(25), "invalid"),
         Set("stl_reader", "program_start_tc", "\"TCP\"", VStr("TCP", {}), "valid"),
         Set("stl_reader", "program_start_tc", "\"10:00:00:00\"", VStr("10:00:00:00", {"timecode"}), "valid"),
         Set("stl_reader", "program_start_tc", "\"00:00:00:00\"", VStr("00:00:00:00", {"timecode"}), "boundary"),
         Set("stl_reader", "program_start_tc", "\"10:00:00\"", VStr("10:00:00", {}), "invalid"),
         Set("stl_reader", "program_start_tc", "\"start\"", VStr("start", {}), "invalid"),
         Set("stl_reader", "program_start_tc", "5", VInt(5), "invalid"),
         Set("stl_reader", "font_stack", "\"Verdana, Arial, Tiresias, sansSerif\"", VStr("Verdana, Arial, Tiresias, sansSerif", {"fontfamilies"}), "valid"),
         Set("stl_reader", "font_stack", "\"Times New Roman,serif\"", VStr("Times New Roman,serif", {"fontfamilies"}), "valid"),
         Set("stl_reader", "font_stack", "5", VInt(5), "invalid"),
         Set("stl_reader", "font_stack", "[\"Arial\"]", VList, "invalid"),
         Set("stl_reader", "max_row_count", "\"MNR\"", VStr("MNR", {}), "valid"),
         Set("stl_reader", "max_row_count", "23", VInt(23), "valid"),
         Set("stl_reader", "max_row_count", "2", VInt(2), "valid"),
         Set("stl_reader", "max_row_count", "\"many\"", VStr("many", {}), "invalid"),
         Set("stl_reader", "max_row_count", "2.5", VFloat, "invalid"),
         Set("stl_reader", "max_row_count", "true", VBool(TRUE), "invalid"),
         Set("scc_reader", "text_align", "\"auto\"", VStr("auto", {}), "valid"),
         Set("scc_reader", "text_align", "\"left\"", VStr("left", {}), "valid"),
         Set("scc_reader", "text_align", "\"center\"", VStr("center", {}), "valid"),
         Set("scc_reader", "text_align", "\"right\"", VStr("right", {}), "valid"),
         Set("scc_reader", "text_align", "\"justify\"", VStr("justify", {}), "invalid"),
         Set("scc_reader", "text_align", "5", VInt(5), "invalid"),
         Set("lcd", "safe_area", "10", VInt(10), "valid"),
         Set("lcd", "safe_area", "0", VInt(0), "boundary"),
         Set("lcd", "safe_area", "30", VInt(30), "boundary"),
         Set("lcd", "safe_area", "-1", VInt(-1), "invalid"),
         Set("lcd", "safe_area", "31", VInt(31), "invalid"),
         Set("lcd", "safe_area", "10.5", VFloat, "invalid"),
         Set("lcd", "safe_area", "\"10\"", VStr("10", {}), "invalid"),
         Set("lcd", "safe_area", "\"wide\"", VStr("wide", {}), "invalid"),
         Set("lcd", "color", "\"#FFFFFF\"", VStr("#FFFFFF", {"color"}), "valid"),
         Set("lcd", "color", "\"white\"", VStr("white", {"color"}), "valid"),
         Set("lcd", "color", "null", VNull, "boundary"),
         Set("lcd", "color", "\"notacolor\"", VStr("notacolor", {}), "invalid"),
         Set("lcd", "color", "\"#GGGGGG\"", VStr("#GGGGGG", {}), "invalid"),
         Set("lcd", "color", "5", VInt(5), "invalid"),
         Set("lcd", "bg_color", "\"#FF0000\"", VStr("#FF0000", {"color"}), "valid"),
         Set("lcd", "bg_color", "\"transparent\"", VStr("transparent", {"color"}), "valid"),
         Set("lcd", "bg_color", "\"black\"", VStr("black", {"color"}), "valid"),
         Set("lcd", "bg_color", "null", VNull, "boundary"),
         Set("lcd", "bg_color", "\"nope\"", VStr("nope", {}), "invalid"),
         Set("lcd", "bg_color", "[1, 2, 3]", VList, "invalid") >>
Catalogue == Range(CatSeq)

\* the catalogue's classification agrees with the documented domains
CatalogueConsistent == \A c \in Catalogue : Accept(c.m, c.k, c.v) = (c.cls \in {"valid", "boundary"})

-----------------------------------------------------------------------------
(* Configurations: sequences of settings.  Configs[1..NCat] hold one catalogue setting each (plus the companion
   setting README requires: time_format "frames" / "clock_time_with_frames" need fps); the others are the
   configurations used for precedence, language, filter and history jobs.                            *)


Fps25 == Set("imsc_writer", "fps", "\"25/1\"", VStr("25/1", {"fraction"}), "valid")
NeedsFps(c) == c.m = "imsc_writer" /\ c.k = "time_format" /\ c.v.t = "str" /\ c.v.s \in {"frames", "clock_time_with_frames"}
Quiet == << Set("general", "progress_bar", "false", VBool(FALSE), "valid"), Set("general", "log_level", "\"ERROR\"", VStr("ERROR", {}), "valid") >>
Lang(l) == Set("general", "document_lang", "\"" \o l \o "\"", VStr(l, {"langtag"}), "valid")

NamedConfigs == <<
  (* 1 *) Quiet,
  (* 2 *) << Lang("fr") >>,
  (* 3 *) << Lang("de") >>,
  (* 4 *) << Set("general", "progress_bar", "true", VBool(TRUE), "valid"), Set("general", "log_level", "\"INFO\"", VStr("INFO", {}), "valid") >>,
  (* 5 *) << Set("general", "log_level", "\"WARN\"", VStr("WARN", {}), "valid"), Lang("es-419"),
             Set("lcd", "safe_area", "5", VInt(5), "valid"), Set("lcd", "color", "\"#FFFF00\"", VStr("#FFFF00", {"color"}), "valid"),
             Set("lcd", "bg_color", "\"black\"", VStr("black", {"color"}), "valid") >>,
  (* 6 *) << Set("imsc_writer", "time_format", "\"frames\"", VStr("frames", {}), "valid"), Fps25 >>,
  (* 7 *) << Set("imsc_writer", "time_format", "\"frames\"", VStr("frames", {}), "valid") >>,          \* fps missing
  (* 8 *) << Set("vtt_writer", "line_position", "true", VBool(TRUE), "valid"), Set("vtt_writer", "text_align", "true", VBool(TRUE), "valid"),
             Set("vtt_writer", "cue_id", "false", VBool(FALSE), "valid"), Set("scc_reader", "text_align", "\"center\"", VStr("center", {}), "valid"),
             Set("srt_writer", "text_formatting", "false", VBool(FALSE), "valid") >>,
  (* 9 *) << >>                               \* an EMPTY configuration (file "{}"): it still takes precedence over an inline one
>>
NCat == Len(CatSeq)
Configs == TLCEval([i \in 1..(NCat + Len(NamedConfigs)) |->
              IF i <= NCat THEN (IF NeedsFps(CatSeq[i]) THEN <<CatSeq[i], Fps25>> ELSE <<CatSeq[i]>>)
              ELSE NamedConfigs[i - NCat]])
Named(k) == NCat + k

\* a configuration file takes precedence over an inline configuration
Effective(cfgfile, inline) == IF cfgfile # 0 THEN cfgfile ELSE inline

ActiveModules(reader, writer, filters) ==
  {"general"} \cup (IF reader = "stl" THEN {"stl_reader"} ELSE {}) \cup (IF reader = "scc" THEN {"scc_reader"} ELSE {})
    \cup (IF writer = "ttml" THEN {"imsc_writer"} ELSE {}) \cup (IF writer = "srt" THEN {"srt_writer"} ELSE {})
    \cup (IF writer = "vtt" THEN {"vtt_writer"} ELSE {}) \cup (IF "lcd" \in Range(filters) THEN {"lcd"} ELSE {})

ConfigOk(c, reader, writer, filters) ==
  IF c = 0 THEN TRUE
  ELSE LET ss == Configs[c]  act == ActiveModules(reader, writer, filters) IN
       /\ \A i \in 1..Len(ss) : ss[i].m \in act => Accept(ss[i].m, ss[i].k, ss[i].v)
       \* README: fps is required when time_format is frames or clock_time_with_frames
       /\ ("imsc_writer" \in act /\ \E i \in 1..Len(ss) : NeedsFps(ss[i])) => \E j \in 1..Len(ss) : ss[j].m = "imsc_writer" /\ ss[j].k = "fps"

DocumentLang(c) ==
  IF c = 0 \/ ~\E i \in 1..Len(Configs[c]) : Configs[c][i].k = "document_lang" THEN ""
  ELSE LET i == CHOOSE i \in 1..Len(Configs[c]) : Configs[c][i].k = "document_lang" IN Configs[c][i].v.s

-----------------------------------------------------------------------------
(* What a conversion must produce *)

NoOut == [status |-> "none"]
Lib(j) ==
  LET d == Dispatch(j.cmd, j.itype, j.iext, j.otype, j.oext)
      c == Effective(j.cfgfile, j.inline)
  IN  IF d.error \/ ~ConfigOk(c, d.reader, d.writer, j.filters)
      THEN [status |-> "error"]                               \* an error and no output file
      ELSE [status |-> "ok", key |-> <<j.content, d.reader, d.writer, c, j.filters>>,
            lang |-> IF d.writer = "ttml" THEN DocumentLang(c) ELSE ""]

-----------------------------------------------------------------------------
(* Job families *)

Job(cmd, content, itype, iext, otype, oext, cfgfile, inline, filters) ==
  [cmd |-> cmd, content |-> content, itype |-> itype, iext |-> iext, otype |-> otype, oext |-> oext,
   cfgfile |-> cfgfile, inline |-> inline, filters |-> filters]

Lower(f) == f
Upper(f) == CASE f = "ttml" -> "TTML" [] f = "scc" -> "SCC" [] f = "stl" -> "STL" [] f = "srt" -> "SRT" [] f = "vtt" -> "VTT"
Mixed(f) == CASE f = "ttml" -> "tTmL" [] f = "scc" -> "Scc" [] f = "stl" -> "sTl" [] f = "srt" -> "Srt" [] f = "vtt" -> "vtT"
Dot(s) == "." \o s
Other(f) == IF f = "ttml" THEN "srt" ELSE "ttml"

\* <<option, extension>> pairs that must resolve to format f ...
GoodSpell(f) == { <<"-", Dot(Lower(f))>>, <<"-", Dot(Upper(f))>>, <<"-", Dot(Mixed(f))>>,
                  <<Lower(f), Dot(Lower(f))>>, <<Upper(f), ".txt">>, <<Mixed(f), "">>, <<Lower(f), Dot(Other(f))>> }
\* ... and pairs that must end in an error
\* ("/" \o f stands for a file whose whole NAME is f, without any dot: it has no extension, so nothing is selected)
BadSpell(f) == { <<"-", ".txt">>, <<"-", "">>, <<"bogus", Dot(f)>>, <<Dot(f), Dot(f)>>, <<"-", Dot(f) \o "x">>, <<"-", "/" \o f>> }
BadOut == { <<"scc", ".ttml">>, <<"-", ".stl">>, <<"STL", ".srt">> }     \* known types without a writer

Plain(f) == <<"-", Dot(f)>>
DispatchJobs ==
  \* every way of naming the input format of a file x every way of naming an output format
  { Job("convert", c, i[1], i[2], o[1], o[2], 0, Named(1), <<>>) :
      c \in Readers, i \in UNION {GoodSpell(f) : f \in Readers}, o \in UNION {GoodSpell(w) : w \in Writers} }
  \* an input type that is not supported (the output is named plainly)
  \cup UNION { { Job("convert", c, i[1], i[2], "-", Dot(w), 0, Named(1), <<>>) : i \in BadSpell(c), w \in Writers } : c \in Readers }
  \* an output type that is not supported (the input is named plainly)
  \cup UNION { { Job("convert", c, "-", Dot(c), o[1], o[2], 0, Named(1), <<>>) :
                   o \in UNION {BadSpell(w) : w \in Writers} \cup BadOut } : c \in Readers }
\* only jobs whose selected reader can read the file (or that fail to select one) are meaningful
Meaningful(j) == LET d == Dispatch(j.cmd, j.itype, j.iext, j.otype, j.oext) IN
                 d.error \/ d.reader = j.content
\* reduced product: every input spelling against one output spelling and vice versa
Reduced(j) == FullDispatch \/ (<<j.otype, j.oext>> \in {Plain(w) : w \in Writers}) \/ (<<j.itype, j.iext>> = Plain(j.content))

\* a job on which a catalogue setting of module m is active
ConfigJob(i) ==
  LET m == CatSeq[i].m IN
  CASE m = "general"     -> Job("convert", "ttml", "-", ".ttml", "-", ".ttml", 0, i, <<>>)
    [] m = "imsc_writer" -> Job("convert", "ttml", "-", ".ttml", "-", ".ttml", 0, i, <<>>)
    [] m = "stl_reader"  -> Job("convert", "stl", "-", ".stl", "-", ".ttml", 0, i, <<>>)
    [] m = "scc_reader"  -> Job("convert", "scc", "-", ".scc", "-", ".ttml", 0, i, <<>>)
    [] m = "srt_writer"  -> Job("convert", "ttml", "-", ".ttml", "-", ".srt", 0, i, <<>>)
    [] m = "vtt_writer"  -> Job("convert", "ttml", "-", ".ttml", "-", ".vtt", 0, i, <<>>)
    [] m = "lcd"         -> Job("convert", "ttml", "-", ".ttml", "-", ".ttml", 0, i, <<"lcd">>)
\* the same setting given in a configuration FILE instead: the two routes take the same configurations
ViaFile(j) == [j EXCEPT !.cfgfile = j.inline, !.inline = 0]
ConfigJobs == { ConfigJob(i) : i \in 1..NCat } \cup { ViaFile(ConfigJob(i)) : i \in 1..NCat }
                \cup { Job("convert", "ttml", "-", ".ttml", "-", ".ttml", 0, Named(k), <<>>) : k \in {6, 7} }

\* precedence of the file, language override, filter lists, sub-commands
OtherJobs ==
  { Job("convert", "ttml", "-", ".ttml", "-", "." \o w, f, i, <<>>) : w \in Writers, f \in {0, Named(2), Named(9)}, i \in {0, Named(3)} }
  \cup { Job("convert", "scc", "-", ".scc", "-", ".ttml", Named(9), Named(6), <<>>) }
  \cup { Job("convert", c, "-", "." \o c, "-", ".ttml", 0, Named(5), fl) :
           c \in {"ttml", "scc"},
           fl \in { <<>>, <<"lcd">>, <<"lcd", "lcd">>, <<"stampa", "stampb">>, <<"stampb", "stampa">>, <<"stampa", "lcd">>, <<"lcd", "stampa">> } }
  \cup { Job(cmd, "ttml", "-", ".ttml", "-", ".ttml", 0, 0, <<>>) : cmd \in {"covert", "validate", "CONVERT"} }

\* the conversions that are interleaved in one interpreter: they set log level / progress flag, register XML
\* namespaces, use every reader and writer, a filter and the language override
HistJobs ==
  { Job("convert", "ttml", "-", ".ttml", "-", ".ttml", 0, Named(4), <<>>),
    Job("convert", "scc", "SCC", ".txt", "-", ".srt", 0, Named(8), <<>>),
    Job("convert", "stl", "-", ".stl", "-", ".vtt", Named(1), Named(3), <<>>),
    Job("convert", "vtt", "-", ".vtt", "-", ".ttml", 0, 0, <<>>),          \* no configuration at all: whatever an earlier job configured must not linger
    Job("convert", "srt", "-", ".srt", "TTML", ".out", 0, Named(5), <<"lcd">>),
    \* a second lcd conversion with the DEFAULT lcd configuration on styled TTML: what the configured one allowed must not linger
    Job("convert", "ttml", "-", ".ttml", "-", ".ttml", 0, Named(1), <<"lcd">>),
    Job("convert", "ttml", "-", ".ttml", "-", ".vtt", 0, Named(8), <<"stampa">>) }

SingleJobs == {j \in DispatchJobs : Meaningful(j) /\ Reduced(j)} \cup ConfigJobs \cup OtherJobs
AllJobs == TLCEval(SingleJobs \cup HistJobs)        \* TLCEval: enumerate once, not at every membership test
JobSeq == SX!SetToSeq(AllJobs)

-----------------------------------------------------------------------------
(* The machine: conversions in one interpreter.  `hist` is the sequence of job numbers (indices into JobSeq)
   converted so far, `out` what the last conversion produced, `globals` the process-global state.      *)

Globals == [log : {"INFO", "WARN", "ERROR"}, progress : BOOLEAN, nsreg : BOOLEAN]

VARIABLES globals, hist, out
vars == <<globals, hist, out>>

Init == /\ globals = [log |-> "INFO", progress |-> TRUE, nsreg |-> FALSE]
        /\ hist = <<>>
        /\ out = NoOut

Convert(n) ==
  /\ \/ hist = <<>>
     \/ (hist # <<>> /\ Len(hist) < MaxHist /\ JobSeq[hist[1]] \in HistJobs /\ JobSeq[n] \in HistJobs)
  /\ hist' = Append(hist, n)
  /\ out' = Lib(JobSeq[n])           \* a function of the job only
  /\ globals' \in Globals            \* unconstrained

Next == \E n \in DOMAIN JobSeq : Convert(n)
Spec == Init /\ [][Next]_vars

\* equal jobs give equal output in every reachable state, whatever happened before and whatever globals hold
HistoryIndependent == hist # <<>> => out = Lib(JobSeq[hist[Len(hist)]])
\* an error never comes with an output; a success names a reader and a writer that exist
OutputWellFormed ==
  out.status = "ok" => (out.key[2] \in Readers /\ out.key[3] \in Writers /\ out.key[1] = out.key[2])
\* dispatch facts stated in the property
DispatchFacts ==
  /\ \A f \in Readers, w \in Writers : \A i \in GoodSpell(f), o \in GoodSpell(w) :
        LET d == Dispatch("convert", i[1], i[2], o[1], o[2]) IN ~d.error /\ d.reader = f /\ d.writer = w
  /\ \A f \in Readers, w \in Writers : \A i \in BadSpell(f) : Dispatch("convert", i[1], i[2], "-", "." \o w).error
  /\ \A f \in Readers : \A o \in BadOut : Dispatch("convert", "-", "." \o f, o[1], o[2]).error
  /\ \A f \in Readers, w \in Writers : Dispatch("covert", "-", "." \o f, "-", "." \o w).error
EffectiveFacts == \A f \in 1..3, i \in 0..3 : Effective(f, i) = f /\ Effective(0, i) = i
=============================================================================
