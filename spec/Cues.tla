--------------------------------- MODULE Cues ---------------------------------
(* SRT / WebVTT cue lists as a function of a sequence of snapshots.  Properties C06 and C07.

   GIVEN  (not specified here: that is C01/C02/C03)
     sig[1..n]     the significant times of a document, increasing, as integer ticks of 1/D second
     snap[1..n]    the snapshot (ISD) at sig[k], i.e. what is shown during [sig[k], sig[k+1]) (the last one for ever):
                   a sequence of regions, each a sequence of paragraphs (document order), each a sequence of items
                     [k |-> "t", cps |-> code points, b, i, u |-> 0/1, col, bg |-> "#rrggbbaa", ann |-> 0/1]   text run
                     [k |-> "br", ...]                                                                           line break
   SPECIFIED
     1. TextAt(snap)            the lines of text a snapshot shows                                        (C06)
     2. Covers(...)             when a list of cues [b, e, lines] (milliseconds) carries exactly that text
                                over exactly those intervals; a *relation*: splitting and merging allowed (C06)
     3. SrtAcceptor/VttAcceptor the file grammars as line-level acceptor state machines, with named
                                actions ReadHeader, ReadStyleStart, ReadStyleLine, ReadNumber, ReadTiming,
                                ReadText, ReadBlank; acceptance = whole input consumed in an accepting state (C07)
     4. PayloadChars            the effective style of every payload character recovered from the
                                enclosing tags, to be compared with the computed style in the snapshot   (C07)
     5. cue settings            line / align against the region position and the paragraph alignment     (C07)

   The module also contains the acceptor as a TLC-checkable machine (variables acc, accP, hist): TLC runs it over
   every sequence of at most MaxLines lines of a small alphabet and checks on the *history* that an accepted
   input has consecutive numbers, ordered non-overlapping timings, a payload after every timing, ...       *)
EXTENDS Integers, Sequences, FiniteSets, TLC

CONSTANT MaxLines        \* bound of the acceptor design model (unused by trace validation)

-----------------------------------------------------------------------------
(* 0. helpers *)
Range(sq) == {sq[k] : k \in 1..Len(sq)}
Abs(x) == IF x < 0 THEN -x ELSE x
SetMax(S) == CHOOSE x \in S : \A y \in S : y <= x
SetMin(S) == CHOOSE x \in S : \A y \in S : x <= y
RECURSIVE FlattenFrom(_, _)
FlattenFrom(ss, k) == IF k > Len(ss) THEN <<>> ELSE ss[k] \o FlattenFrom(ss, k + 1)
Flatten(ss) == FlattenFrom(ss, 1)

-----------------------------------------------------------------------------
(* 1. The text of a snapshot.
      Regions in order, then document order; text is concatenated inside a line; a line ends at every br, at the
      end of every paragraph and of every region; ruby base text is ordinary text, ruby annotation text (rt, rp:
      ann = 1) is left out; lines holding only white space are not lines of text ("blank lines removed").      *)
WsCps == {9, 10, 11, 12, 13, 32}
DefaultColour == "#ffffffff"
DefaultBackground == "#00000000"

RunChars(it) == [c \in 1..Len(it.cps) |-> [cp |-> it.cps[c], b |-> it.b, i |-> it.i, u |-> it.u, col |-> it.col, bg |-> it.bg]]

\* A line terminator that has survived white-space handling (LF or CR in text under xml:space="preserve") ends the line
\* like a br does: SubRip and WebVTT have no other way to write it (CR LF leaves an empty line, which is not a line of text).
RECURSIVE AddChars(_, _, _)
AddChars(cur, chars, j) ==          \* <<finished lines, open line>>
  IF j > Len(chars) THEN cur
  ELSE IF chars[j].cp \in {10, 13} THEN AddChars(<<Append(cur[1], cur[2]), <<>>>>, chars, j + 1)
  ELSE AddChars(<<cur[1], Append(cur[2], chars[j])>>, chars, j + 1)

RECURSIVE ParaLinesAcc(_, _, _)
ParaLinesAcc(items, k, cur) ==
  IF k > Len(items) THEN Append(cur[1], cur[2])
  ELSE IF items[k].k = "br" THEN ParaLinesAcc(items, k + 1, <<Append(cur[1], cur[2]), <<>>>>)
  ELSE IF items[k].ann = 1 THEN ParaLinesAcc(items, k + 1, cur)
  ELSE ParaLinesAcc(items, k + 1, AddChars(cur, RunChars(items[k]), 1))
ParaLinesFrom(items, k, line) == ParaLinesAcc(items, k, <<<<>>, line>>)

IsBlankLine(l) == \A c \in 1..Len(l) : l[c].cp \in WsCps
DropBlank(ls) == SelectSeq(ls, LAMBDA l : ~IsBlankLine(l))
ParaLines(p) == DropBlank(ParaLinesFrom(p.items, 1, <<>>))
RegionLines(r) == Flatten([k \in 1..Len(r.paras) |-> ParaLines(r.paras[k])])
TextAt(snap) == Flatten([k \in 1..Len(snap) |-> RegionLines(snap[k])])

\* code points only (C06 compares characters; C07 compares their styles)
CpsOfLine(l) == [c \in 1..Len(l) |-> l[c].cp]
CpsOf(ls) == [k \in 1..Len(ls) |-> CpsOfLine(ls[k])]

-----------------------------------------------------------------------------
(* 2. Cue lists covering a snapshot sequence (C06).

      Times.  sig[k]/D seconds rounded to the nearest millisecond; a tie may go either way, so a significant time
      has one or two admissible roundings NearestLo..NearestHi.  If the last snapshot shows text, the final interval
      is unbounded and ends 10 s after it begins: boundary n+1 = boundary n + 10 000 ms.

      The relation.  A cue list (in file order) covers the snapshots iff
        (a) every cue has b < e, b a rounding of some sig[i], e a rounding of some later boundary m > i
            (every cue boundary is a rounded significant time);
        (b) cues are ordered and do not overlap (two cues with the *same* timing are one group, admitted only where
            the format shows several regions at once: `same`);
        (c) for every millisecond slot s that lies certainly inside interval k after rounding
            (NearestHi(k) <= s < NearestLo(k+1)) the lines of the cues active in s, in file order, are exactly the
            lines of TextAt(snap[k]) - hence no cue when nothing is visible, nothing dropped, invented, repeated or
            reordered; before the first and after the last boundary no cue is active.
      Splitting an interval into several cues and merging adjacent intervals with identical text both satisfy
      (a)-(c).  An interval that may vanish after rounding (shorter than a millisecond, or a tie) contains no
      certain slot: nothing is demanded for it, and (a) allows no cue inside it unless its ends round apart.
      It is enough to probe the slots that start at a cue boundary or at a rounded significant time: between two
      such points nothing changes.                                                                              *)
NearestLo(n, D) == LET q == (1000 * n) \div D
                       r == (1000 * n) % D
                   IN  IF 2 * r <= D THEN q ELSE q + 1
NearestHi(n, D) == LET q == (1000 * n) \div D
                       r == (1000 * n) % D
                   IN  IF 2 * r < D THEN q ELSE q + 1
DefaultDurationMs == 10000

\* T[k] = lines (sequences of code points) of snapshot k ; cues[j] = [b, e, lines]
Unbounded(T) == Len(T) > 0 /\ T[Len(T)] # <<>>
NBound(T) == IF Unbounded(T) THEN Len(T) + 1 ELSE Len(T)
BLo(sig, D, k) == IF k <= Len(sig) THEN NearestLo(sig[k], D) ELSE NearestLo(sig[Len(sig)], D) + DefaultDurationMs
BHi(sig, D, k) == IF k <= Len(sig) THEN NearestHi(sig[k], D) ELSE NearestHi(sig[Len(sig)], D) + DefaultDurationMs

CueBoundsOk(sig, D, T, c) ==
  /\ c.b < c.e
  /\ \E i \in 1..NBound(T) : \E m \in (i + 1)..NBound(T) :
        /\ c.b \in {BLo(sig, D, i), BHi(sig, D, i)}
        /\ c.e \in {BLo(sig, D, m), BHi(sig, D, m)}
        /\ (i = Len(sig) /\ m = Len(sig) + 1) => c.e = c.b + DefaultDurationMs

CuesOrdered(cues, same) ==
  \A j \in 1..(Len(cues) - 1) :
     \/ cues[j].e <= cues[j + 1].b
     \/ same /\ cues[j].b = cues[j + 1].b /\ cues[j].e = cues[j + 1].e

ProbeSlots(sig, D, T, cues) ==
  UNION {{cues[j].b, cues[j].e} : j \in 1..Len(cues)} \cup
  UNION {{BLo(sig, D, k), BHi(sig, D, k)} : k \in 1..NBound(T)}

\* the interval a slot certainly belongs to after rounding: 0 = none (tie zone), -1 = outside every interval
SlotInterval(sig, D, T, s) ==
  LET nb == NBound(T)
      ks == {k \in 1..(nb - 1) : BHi(sig, D, k) <= s /\ s < BLo(sig, D, k + 1)}
  IN  IF nb = 0 THEN -1
      ELSE IF s < BLo(sig, D, 1) \/ s >= BHi(sig, D, nb) THEN -1
      ELSE IF ks = {} THEN 0 ELSE SetMin(ks)

ActiveCues(cues, s) == SelectSeq(cues, LAMBDA c : c.b <= s /\ s < c.e)
ActiveLines(cues, s) == LET a == ActiveCues(cues, s) IN Flatten([j \in 1..Len(a) |-> a[j].lines])

\* "" when the slot is as it must be, else the name of the failing clause
ProbeVerdict(sig, D, T, cues, s) ==
  LET k   == SlotInterval(sig, D, T, s)
      act == ActiveLines(cues, s)
      any == ActiveCues(cues, s) # <<>>
  IN  IF k = 0 THEN ""
      ELSE IF k = -1 THEN (IF any THEN "cue_outside_every_interval" ELSE "")
      ELSE IF T[k] = <<>> THEN (IF any THEN "cue_while_nothing_is_visible" ELSE "")
      ELSE IF ~any THEN "visible_text_has_no_cue"
      ELSE IF act = T[k] THEN "" ELSE "payload_differs_from_visible_text"

Covers(sig, D, T, cues, same) ==
  /\ \A j \in 1..Len(cues) : CueBoundsOk(sig, D, T, cues[j])
  /\ CuesOrdered(cues, same)
  /\ \A s \in ProbeSlots(sig, D, T, cues) : ProbeVerdict(sig, D, T, cues, s) = ""

-----------------------------------------------------------------------------
(* 3. The file grammars as acceptors (C07).

      Input: a sequence of lexed lines  [k, n, b, e, tv, set, toks]  (see harness/cues_lex.py); kinds are lexical
      ("num" = digits only, "timing" = looks like a timing line, ...) - what a line *is* depends on the state.
        SRT :            (Blank* Number Timing Text+ (Blank | EOF))*
        WebVTT : Header ( Blank+ (StyleStart StyleLine* Blank)* ) ( Blank* [Number] Timing Text+ (Blank | EOF) )*
      Parameters P: fmt; ids = cue numbers are written (always for SRT; WebVTT: configuration cue_id) - when they are,
      every cue has one and they count 1, 2, 3...; when not, no cue has one; same = cues with identical timing may
      follow each other (WebVTT with one cue per region).
      State: st, num (last number), pb/pe (previous begin/end), stack (open tags of the current payload: tags may
      span the lines of one cue but not cues), ncue.                                                            *)
SrtTags == {"b", "i", "u", "font"}
VttTags == {"c", "i", "b", "u", "ruby", "rt", "v", "lang"}
TagsOf(P) == IF P.fmt = "srt" THEN SrtTags ELSE VttTags
VttSettingNames == {"vertical", "line", "position", "size", "align", "region"}

AccInit(P) == [st |-> IF P.fmt = "srt" THEN "idle" ELSE "start", num |-> 0, pb |-> 0, pe |-> 0, stack |-> <<>>, ncue |-> 0]

HasTok(ln, kind) == \E k \in 1..Len(ln.toks) : ln.toks[k].k = kind

RECURSIVE TagFold(_, _, _, _)
TagFold(toks, k, st, allowed) ==
  IF k > Len(toks) THEN [why |-> "", stack |-> st]
  ELSE LET t == toks[k] IN
       IF t.k = "o" THEN (IF t.n \in allowed THEN TagFold(toks, k + 1, Append(st, t.n), allowed)
                          ELSE [why |-> "unknown_tag", stack |-> st])
       ELSE IF t.k = "c" THEN (IF st # <<>> /\ st[Len(st)] = t.n THEN TagFold(toks, k + 1, SubSeq(st, 1, Len(st) - 1), allowed)
                               ELSE [why |-> "end_tag_does_not_close_innermost_open_tag", stack |-> st])
       ELSE TagFold(toks, k + 1, st, allowed)

\* first violated guard of ReadText, "" if none
TextWhy(P, s, ln) ==
  IF HasTok(ln, "arrow") THEN "arrow_in_payload"
  ELSE IF P.fmt = "vtt" /\ HasTok(ln, "rawamp") THEN "unescaped_ampersand_in_payload"
  ELSE IF P.fmt = "vtt" /\ HasTok(ln, "rawlt") THEN "unescaped_less_than_in_payload"
  ELSE IF \E k \in 1..Len(ln.toks) : ln.toks[k].k = "ent" /\ ln.toks[k].cps[1] = 0 THEN "unknown_character_reference"
  ELSE TagFold(ln.toks, 1, s.stack, TagsOf(P)).why

SettingsOk(P, ln) ==
  IF P.fmt = "srt" THEN ln.set = <<>>
  ELSE /\ \A k \in 1..Len(ln.set) : ln.set[k].n \in VttSettingNames /\ ln.set[k].v # ""
       /\ \A k, l \in 1..Len(ln.set) : k # l => ln.set[k].n # ln.set[l].n

\* first violated guard of ReadTiming for a timing line met where a timing line is due, "" if none
TimingWhy(P, s, ln) ==
  IF ln.tv # 1 THEN "time_field_out_of_range"
  ELSE IF ~(ln.b < ln.e) THEN "begin_not_before_end"
  ELSE IF ~(ln.b >= s.pb) THEN "begin_before_previous_begin"
  ELSE IF ~(ln.b >= s.pe \/ (P.same /\ s.ncue > 0 /\ ln.b = s.pb /\ ln.e = s.pe)) THEN "begin_before_previous_end"
  ELSE IF ~SettingsOk(P, ln) THEN "malformed_cue_settings"
  ELSE ""

CanReadHeader(P, s, ln) == s.st = "start" /\ ln.k = "header"
DoReadHeader(P, s, ln) == [s EXCEPT !.st = "header"]

CanReadBlank(P, s, ln) == ln.k = "blank" /\ (s.st \in {"header", "pre", "idle", "style"} \/ (s.st = "payload" /\ s.stack = <<>>))
DoReadBlank(P, s, ln) == [s EXCEPT !.st = IF s.st \in {"header", "pre", "style"} THEN "pre" ELSE "idle"]

CanReadStyleStart(P, s, ln) == s.st = "pre" /\ ln.k = "style"
DoReadStyleStart(P, s, ln) == [s EXCEPT !.st = "style"]

CanReadStyleLine(P, s, ln) == s.st = "style" /\ ln.k # "blank" /\ ~HasTok(ln, "arrow")
DoReadStyleLine(P, s, ln) == s

CanReadNumber(P, s, ln) == P.ids /\ s.st \in {"pre", "idle"} /\ ln.k = "num" /\ ln.n = s.num + 1
DoReadNumber(P, s, ln) == [s EXCEPT !.st = "num", !.num = ln.n]

TimingDue(P, s) == IF P.ids THEN s.st = "num" ELSE s.st \in {"pre", "idle"}
CanReadTiming(P, s, ln) == ln.k = "timing" /\ TimingDue(P, s) /\ TimingWhy(P, s, ln) = ""
DoReadTiming(P, s, ln) == [s EXCEPT !.st = "timing", !.pb = ln.b, !.pe = ln.e, !.ncue = s.ncue + 1]

CanReadText(P, s, ln) == s.st \in {"timing", "payload"} /\ ln.k # "blank" /\ TextWhy(P, s, ln) = ""
DoReadText(P, s, ln) == [s EXCEPT !.st = "payload", !.stack = TagFold(ln.toks, 1, s.stack, TagsOf(P)).stack]

Accepting(P, s) == s.st \in {"idle", "pre", "header"} \/ (s.st = "payload" /\ s.stack = <<>>)

\* at most one action is enabled on a line: the acceptor is deterministic
ActionOn(P, s, ln) ==
  IF CanReadHeader(P, s, ln) THEN "ReadHeader"
  ELSE IF CanReadBlank(P, s, ln) THEN "ReadBlank"
  ELSE IF CanReadStyleStart(P, s, ln) THEN "ReadStyleStart"
  ELSE IF CanReadStyleLine(P, s, ln) THEN "ReadStyleLine"
  ELSE IF CanReadNumber(P, s, ln) THEN "ReadNumber"
  ELSE IF CanReadTiming(P, s, ln) THEN "ReadTiming"
  ELSE IF CanReadText(P, s, ln) THEN "ReadText"
  ELSE "reject"

Do(P, s, ln, a) ==
  CASE a = "ReadHeader" -> DoReadHeader(P, s, ln)
    [] a = "ReadBlank" -> DoReadBlank(P, s, ln)
    [] a = "ReadStyleStart" -> DoReadStyleStart(P, s, ln)
    [] a = "ReadStyleLine" -> DoReadStyleLine(P, s, ln)
    [] a = "ReadNumber" -> DoReadNumber(P, s, ln)
    [] a = "ReadTiming" -> DoReadTiming(P, s, ln)
    [] a = "ReadText" -> DoReadText(P, s, ln)

\* why a line is rejected (diagnostic only; the verdict is ActionOn = "reject")
RejectWhy(P, s, ln) ==
  IF s.st \in {"timing", "payload"} /\ ln.k # "blank" THEN TextWhy(P, s, ln)
  ELSE IF s.st = "timing" THEN "empty_payload"
  ELSE IF s.st = "payload" THEN "unclosed_tag_at_end_of_cue"
  ELSE IF ln.k = "timing" /\ TimingDue(P, s) THEN TimingWhy(P, s, ln)
  ELSE IF ln.k = "timing" THEN (IF P.ids THEN "timing_without_cue_number" ELSE "timing_line_not_expected_here")
  ELSE IF s.st = "num" THEN "cue_number_not_followed_by_timing"
  ELSE IF s.st = "start" THEN "missing_webvtt_header"
  ELSE IF s.st = "header" THEN "header_not_followed_by_blank_line"
  ELSE IF s.st = "style" THEN "arrow_in_style_block"
  ELSE IF ln.k = "num" /\ P.ids THEN "cue_number_not_previous_plus_one"
  ELSE IF ln.k = "num" THEN "cue_identifier_although_not_configured"
  ELSE IF ln.k = "style" THEN "style_block_after_first_cue"
  ELSE "text_outside_cue"

\* run the acceptor over a whole input: [ok, at (index of the rejected line, Len+1 for a bad end of input), why]
RECURSIVE Accept(_, _, _, _)
Accept(P, s, lines, k) ==
  IF k > Len(lines) THEN
     IF Accepting(P, s) THEN [ok |-> TRUE, at |-> 0, why |-> ""]
     ELSE [ok |-> FALSE, at |-> k, why |-> IF s.st = "payload" THEN "unclosed_tag_at_end_of_cue"
                                           ELSE IF s.st = "timing" THEN "empty_payload"
                                           ELSE IF s.st = "start" THEN "missing_webvtt_header"
                                           ELSE "input_ends_inside_cue"]
  ELSE LET a == ActionOn(P, s, lines[k]) IN
       IF a = "reject" THEN [ok |-> FALSE, at |-> k, why |-> RejectWhy(P, s, lines[k])]
       ELSE Accept(P, Do(P, s, lines[k], a), lines, k + 1)

Accepted(P, lines) == Accept(P, AccInit(P), lines, 1)

-----------------------------------------------------------------------------
(* 3a. The acceptor as a machine TLC can run (design level).  Init picks the parameters; every step reads one more line
       of a small alphabet through exactly one of the named actions; rejected prefixes have no successor.  hist keeps
       what was read and by which action, so that the invariants below are statements about *inputs*: whatever is
       accepted has consecutive numbers, ordered timings, a payload after every timing, balanced tags ...          *)
VARIABLES acc, accP, hist
avars == <<acc, accP, hist>>

TokX == [k |-> "t", n |-> "", cl |-> <<>>, a |-> "", cps |-> <<120>>]
TokOpen(nm) == [k |-> "o", n |-> nm, cl |-> <<>>, a |-> "", cps |-> <<>>]
TokClose(nm) == [k |-> "c", n |-> nm, cl |-> <<>>, a |-> "", cps |-> <<>>]
TokArrow == [k |-> "arrow", n |-> "", cl |-> <<>>, a |-> "", cps |-> <<45, 45, 62>>]
TokRawAmp == [k |-> "rawamp", n |-> "", cl |-> <<>>, a |-> "", cps |-> <<38>>]
MkLine(kind, n, b, e, toks) == [k |-> kind, n |-> n, b |-> b, e |-> e, tv |-> 1, set |-> <<>>, toks |-> toks]

Alphabet(P) ==
  {MkLine("blank", 0, 0, 0, <<>>)} \cup
  {MkLine("num", n, 0, 0, <<TokX>>) : n \in 1..3} \cup
  {MkLine("timing", 0, b, e, <<TokX, TokArrow, TokX>>) : b \in 0..2, e \in 0..2} \cup
  {MkLine("text", 0, 0, 0, toks) : toks \in {<<TokX>>, <<TokOpen("b"), TokX>>, <<TokX, TokClose("b")>>, <<TokOpen("i"), TokX>>,
                                              <<TokX, TokClose("i")>>, <<TokX, TokArrow>>}} \cup
  (IF P.fmt = "vtt" THEN {MkLine("header", 0, 0, 0, <<TokX>>), MkLine("style", 0, 0, 0, <<TokX>>),
                          MkLine("text", 0, 0, 0, <<TokRawAmp>>)} ELSE {})

\* pre: a WebVTT input is explored from its first line and, to reach a second and third cue within the bound, also
\* from the state after the header and its blank line
AccParams == {[fmt |-> "srt", ids |-> TRUE, same |-> FALSE, pre |-> FALSE]} \cup
             {[fmt |-> "vtt", ids |-> i, same |-> s, pre |-> p] : i \in BOOLEAN, s \in BOOLEAN, p \in BOOLEAN}
AccStart(P) == IF P.pre THEN [AccInit(P) EXCEPT !.st = "pre"] ELSE AccInit(P)

\* Representatives per state keep the model small without losing a case: inside a STYLE block every non-blank line
\* without "-->" is a style line; inside a payload every non-blank line is read as text whatever it looks like.
TextLines == {MkLine("text", 0, 0, 0, toks) : toks \in {<<TokX>>, <<TokOpen("b"), TokX>>, <<TokX, TokClose("b")>>, <<TokOpen("i"), TokX>>,
                                                         <<TokX, TokClose("i")>>, <<TokX, TokArrow>>}}
AlphabetAt(P, s) ==
  IF s.st = "style" THEN {MkLine("blank", 0, 0, 0, <<>>), MkLine("text", 0, 0, 0, <<TokX>>), MkLine("text", 0, 0, 0, <<TokX, TokArrow>>),
                          MkLine("timing", 0, 0, 1, <<TokX, TokArrow, TokX>>)}
  ELSE IF s.st \in {"timing", "payload"}
       THEN {MkLine("blank", 0, 0, 0, <<>>), MkLine("num", 1, 0, 0, <<TokX>>), MkLine("timing", 0, 0, 1, <<TokX, TokArrow, TokX>>)} \cup TextLines
            \cup (IF P.fmt = "vtt" THEN {MkLine("text", 0, 0, 0, <<TokRawAmp>>)} ELSE {})
  ELSE Alphabet(P)
\* at most MaxRun consecutive payload lines, blank lines or style lines are explored
MaxRun == 3
RunOf(name) == LET ks == {k \in 0..Len(hist) : \A x \in (Len(hist) - k + 1)..Len(hist) : hist[x].a = name} IN SetMax(ks)

AInit == accP \in AccParams /\ acc = AccStart(accP) /\ hist = <<>>

Reads(name, ln) == /\ acc' = Do(accP, acc, ln, name)
                   /\ hist' = Append(hist, [a |-> name, ln |-> ln])
                   /\ UNCHANGED accP
ReadHeader(ln)     == CanReadHeader(accP, acc, ln) /\ Reads("ReadHeader", ln)
ReadBlank(ln)      == CanReadBlank(accP, acc, ln) /\ RunOf("ReadBlank") < MaxRun - 1 /\ Reads("ReadBlank", ln)
ReadStyleStart(ln) == CanReadStyleStart(accP, acc, ln) /\ Reads("ReadStyleStart", ln)
ReadStyleLine(ln)  == CanReadStyleLine(accP, acc, ln) /\ RunOf("ReadStyleLine") < MaxRun - 1 /\ Reads("ReadStyleLine", ln)
ReadNumber(ln)     == CanReadNumber(accP, acc, ln) /\ Reads("ReadNumber", ln)
ReadTiming(ln)     == CanReadTiming(accP, acc, ln) /\ Reads("ReadTiming", ln)
ReadText(ln)       == CanReadText(accP, acc, ln) /\ RunOf("ReadText") < MaxRun /\ Reads("ReadText", ln)

ANext == /\ Len(hist) < MaxLines
         /\ \E ln \in AlphabetAt(accP, acc) :
              \/ ReadHeader(ln) \/ ReadBlank(ln) \/ ReadStyleStart(ln) \/ ReadStyleLine(ln)
              \/ ReadNumber(ln) \/ ReadTiming(ln) \/ ReadText(ln)
ASpec == AInit /\ [][ANext]_avars

HistOf(name) == SelectSeq(hist, LAMBDA h : h.a = name)

\* the acceptor is deterministic: no line enables two actions
Inv_Deterministic ==
  \A ln \in AlphabetAt(accP, acc) :
     Cardinality({x \in 1..7 : <<CanReadHeader(accP, acc, ln), CanReadBlank(accP, acc, ln), CanReadStyleStart(accP, acc, ln),
                                 CanReadStyleLine(accP, acc, ln), CanReadNumber(accP, acc, ln), CanReadTiming(accP, acc, ln),
                                 CanReadText(accP, acc, ln)>>[x]}) <= 1

\* what every accepted input looks like (stated on the input, not on the acceptor's registers)
Inv_AcceptedIsWellFormed ==
  Accepting(accP, acc) =>
    LET nums == HistOf("ReadNumber")
        tims == HistOf("ReadTiming")
    IN  /\ \A j \in 1..Len(nums) : nums[j].ln.n = j                                       \* 1, 2, 3, ...
        /\ IF accP.ids THEN Len(nums) = Len(tims) ELSE Len(nums) = 0                      \* all cues numbered, or none
        /\ \A j \in 1..Len(tims) : tims[j].ln.b < tims[j].ln.e
        /\ \A j \in 1..(Len(tims) - 1) :
              /\ tims[j].ln.b <= tims[j + 1].ln.b
              /\ \/ tims[j].ln.e <= tims[j + 1].ln.b
                 \/ accP.same /\ tims[j].ln.b = tims[j + 1].ln.b /\ tims[j].ln.e = tims[j + 1].ln.e
        /\ \A k \in 1..Len(hist) :
              /\ hist[k].a = "ReadTiming" => /\ k < Len(hist) /\ hist[k + 1].a = "ReadText"   \* no empty payload
                                             /\ accP.ids => (k > 1 /\ hist[k - 1].a = "ReadNumber")
              /\ hist[k].a = "ReadNumber" => k < Len(hist) /\ hist[k + 1].a = "ReadTiming"
              /\ hist[k].a = "ReadText" => /\ ~HasTok(hist[k].ln, "arrow")
                                           /\ accP.fmt = "vtt" => ~HasTok(hist[k].ln, "rawamp")
              /\ hist[k].a = "ReadBlank" => (k = 1 \/ hist[k - 1].a # "ReadTiming")
              /\ hist[k].a \in {"ReadStyleStart", "ReadStyleLine"} => \A l \in 1..k : hist[l].a # "ReadTiming"
        /\ (accP.fmt = "vtt" /\ ~accP.pre /\ hist # <<>>) => hist[1].a = "ReadHeader" /\ (Len(hist) > 1 => hist[2].a = "ReadBlank")
        /\ accP.pre => \A k \in 1..Len(hist) : hist[k].a # "ReadHeader"
        /\ accP.fmt = "srt" => \A k \in 1..Len(hist) : hist[k].a \notin {"ReadHeader", "ReadStyleStart", "ReadStyleLine"}

\* tags are balanced and properly nested inside every cue of an accepted input: the concatenated tokens of each
\* maximal run of ReadText lines fold to the empty stack
Inv_AcceptedTagsBalanced ==
  Accepting(accP, acc) =>
    \A k \in 1..Len(hist) :
       (hist[k].a = "ReadText" /\ (k = 1 \/ hist[k - 1].a # "ReadText")) =>
          LET last == SetMax({l \in k..Len(hist) : \A x \in k..l : hist[x].a = "ReadText"})
              toks == Flatten([x \in 1..(last - k + 1) |-> hist[k + x - 1].ln.toks])
              f    == TagFold(toks, 1, <<>>, TagsOf(accP))
          IN  f.why = "" /\ f.stack = <<>>

\* the batch form used for recorded outputs agrees with the machine
Inv_BatchAgrees ==
  LET r == Accept(accP, AccStart(accP), [k \in 1..Len(hist) |-> hist[k].ln], 1) IN r.ok = Accepting(accP, acc)

-----------------------------------------------------------------------------
(* 3b. The cues of a file (structure only): every timing line that is not inside a payload starts a cue whose
       payload runs to the next blank line.                                                                      *)
IsCueStart(lines, t) == lines[t].k = "timing" /\ (t = 1 \/ lines[t - 1].k \in {"blank", "num"})
PayloadEnd(lines, t) == SetMin({u \in (t + 1)..(Len(lines) + 1) : u = Len(lines) + 1 \/ lines[u].k = "blank"})
CueStarts(lines) == {t \in 1..Len(lines) : IsCueStart(lines, t)}
\* the t-th smallest element of a set of integers, as a sequence
RECURSIVE SortedFrom(_)
SortedFrom(S) == IF S = {} THEN <<>> ELSE LET m == SetMin(S) IN <<m>> \o SortedFrom(S \ {m})

NlTok == [k |-> "nl", n |-> "", cl |-> <<>>, a |-> "", cps |-> <<>>]
PayloadToks(lines, t) ==
  LET u == PayloadEnd(lines, t) IN
  Flatten([l \in 1..(u - t - 1) |-> lines[t + l].toks \o (IF t + l < u - 1 THEN <<NlTok>> ELSE <<>>)])

-----------------------------------------------------------------------------
(* 4. Effective style of payload characters (C07, TagRuns).
      Bold / italic / underline: some enclosing b / i / u tag.  Colour: the innermost enclosing tag that carries a
      colour (SRT: <font color>; WebVTT: a class whose ::cue(.class) rule, or WebVTT default class, sets `color`),
      the default (white) if none; background likewise with `background-color`, default transparent.
      css: set of [cls, prop, val] read from the STYLE block.                                                     *)
VttDefaultColours == [white |-> "#ffffffff", lime |-> "#00ff00ff", cyan |-> "#00ffffff", red |-> "#ff0000ff",
                      yellow |-> "#ffff00ff", magenta |-> "#ff00ffff", blue |-> "#0000ffff", black |-> "#000000ff"]
VttDefaultBackgrounds == [bg_white |-> "#ffffffff", bg_lime |-> "#00ff00ff", bg_cyan |-> "#00ffffff", bg_red |-> "#ff0000ff",
                          bg_yellow |-> "#ffff00ff", bg_magenta |-> "#ff00ffff", bg_blue |-> "#0000ffff", bg_black |-> "#000000ff"]

ClassVal(css, cls, prop) ==
  LET ms == {m \in css : m.cls = cls /\ m.prop = prop} IN
  IF ms # {} THEN (CHOOSE m \in ms : TRUE).val
  ELSE IF prop = "color" /\ cls \in DOMAIN VttDefaultColours THEN VttDefaultColours[cls]
  ELSE IF prop = "background-color" /\ cls \in DOMAIN VttDefaultBackgrounds THEN VttDefaultBackgrounds[cls]
  ELSE ""

ClassesVal(css, cl, prop) ==
  LET ks == {k \in 1..Len(cl) : ClassVal(css, cl[k], prop) # ""} IN
  IF ks = {} THEN "" ELSE ClassVal(css, cl[SetMax(ks)], prop)

StyleEntry(fmt, css, t) ==
  IF fmt = "srt" THEN [n |-> t.n, col |-> IF t.n = "font" THEN t.a ELSE "", bg |-> ""]
  ELSE [n |-> t.n, col |-> ClassesVal(css, t.cl, "color"), bg |-> ClassesVal(css, t.cl, "background-color")]

EffFlag(st, name) == IF \E k \in 1..Len(st) : st[k].n = name THEN 1 ELSE 0
EffCol(st) == LET ks == {k \in 1..Len(st) : st[k].col # ""} IN IF ks = {} THEN DefaultColour ELSE st[SetMax(ks)].col
EffBg(st) == LET ks == {k \in 1..Len(st) : st[k].bg # ""} IN IF ks = {} THEN DefaultBackground ELSE st[SetMax(ks)].bg
\* "exactly the characters whose computed colour differs from the default": a character inside colour-carrying tags that
\* ALL carry the default colour is enclosed for nothing (inside a tag of another colour, a default-coloured tag is how the
\* default is restored: that is not redundant)
RedundantCol(st) == (\E k \in 1..Len(st) : st[k].col # "") /\ (\A k \in 1..Len(st) : st[k].col \in {"", DefaultColour})
RedundantBg(st) == (\E k \in 1..Len(st) : st[k].bg # "") /\ (\A k \in 1..Len(st) : st[k].bg \in {"", DefaultBackground})
PopTag(st, name) ==
  LET ks == {k \in 1..Len(st) : st[k].n = name} IN
  IF ks = {} THEN st ELSE LET k == SetMax(ks) IN SubSeq(st, 1, k - 1) \o SubSeq(st, k + 1, Len(st))

\* the lines of characters [cp, b, i, u, col, bg] of one payload
RECURSIVE PayloadFold(_, _, _, _, _, _)
PayloadFold(fmt, css, toks, k, st, cur) ==
  IF k > Len(toks) THEN <<cur>>
  ELSE LET t == toks[k] IN
       IF t.k = "nl" THEN <<cur>> \o PayloadFold(fmt, css, toks, k + 1, st, <<>>)
       ELSE IF t.k = "o" THEN PayloadFold(fmt, css, toks, k + 1, Append(st, StyleEntry(fmt, css, t)), cur)
       ELSE IF t.k = "c" THEN PayloadFold(fmt, css, toks, k + 1, PopTag(st, t.n), cur)
       ELSE PayloadFold(fmt, css, toks, k + 1, st,
                        cur \o [c \in 1..Len(t.cps) |-> [cp |-> t.cps[c], b |-> EffFlag(st, "b"), i |-> EffFlag(st, "i"),
                                                         u |-> EffFlag(st, "u"), col |-> EffCol(st), bg |-> EffBg(st),
                                                         rcol |-> IF RedundantCol(st) THEN 1 ELSE 0,
                                                         rbg |-> IF RedundantBg(st) THEN 1 ELSE 0]])

PayloadChars(fmt, css, toks) == DropBlank(PayloadFold(fmt, css, toks, 1, <<>>, <<>>))

\* the STYLE block as a set of [cls, prop, val]: a declaration belongs to the closest selector line above it
CssOf(lines) ==
  {[cls |-> lines[SetMax({s \in 1..(d - 1) : lines[s].css.t = "sel"})].css.sel, prop |-> lines[d].css.prop, val |-> lines[d].css.val] :
     d \in {x \in 1..Len(lines) : lines[x].css.t = "decl" /\ \E s \in 1..(x - 1) : lines[s].css.t = "sel"}}

-----------------------------------------------------------------------------
(* 5. Cue settings (C07).  line: the region's computed position, whole percent: before-aligned regions are anchored
      at their top edge (start), after-aligned at their bottom edge (end), centred ones at their middle (center);
      the number is the nearest whole percent of the exact value (a tie either way; an exact decimal is fine too).
      align: the paragraph's computed text alignment, start/end resolved with its direction.                     *)
\* pv = <<n, d>> top of the region, eh = <<n, d>> its height (percent of the root container)
LineNumDen(reg) ==
  LET n1 == reg.pv[1] d1 == reg.pv[2] n2 == reg.eh[1] d2 == reg.eh[2] IN
  CASE reg.da = "before" -> <<n1, d1>>
    [] reg.da = "after" -> <<n1 * d2 + n2 * d1, d1 * d2>>
    [] OTHER -> <<2 * n1 * d2 + n2 * d1, 2 * d1 * d2>>
LineAlignOf(reg) == CASE reg.da = "before" -> "start" [] reg.da = "after" -> "end" [] OTHER -> "center"
\* value1000 = the written number times 1000
LineValueOk(reg, value1000) == LET nd == LineNumDen(reg) IN 2 * Abs(value1000 * nd[2] - 1000 * nd[1]) <= 1000 * nd[2]

AlignValues(ta, dir) ==
  CASE ta = "center" -> {"center"}
    [] ta = "start" -> {"start", IF dir = "rtl" THEN "right" ELSE "left"}
    [] ta = "end" -> {"end", IF dir = "rtl" THEN "left" ELSE "right"}
    [] OTHER -> {}

=============================================================================
