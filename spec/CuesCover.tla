------------------------------ MODULE CuesCover ------------------------------
(* Design-level check of the C06 relation Cues!Covers: it is satisfiable by the obvious writers (one cue per visible
   interval; adjacent intervals with identical text merged into one cue) and it rejects the obvious failures (a cue
   dropped, a boundary moved by a millisecond, lines swapped, a cue repeated, a cue after the end).  TLC evaluates
   every (grid, text assignment, variant) of a small family - all of them are initial states, there is no step.

   Grids: whole seconds; uneven gaps; thirds of a millisecond (an interval that vanishes after rounding); half
   milliseconds (ties, where either rounding is admitted).  On the last two only the positive variants are judged:
   whether a damaged list is still admitted there depends on which intervals survive rounding.                     *)
EXTENDS Cues

VARIABLE cv

TA == << <<97>> >>
TB == << <<98>>, <<99>> >>
Texts == {<<>>, TA, TB}
Grids == {[D |-> 1, sig |-> <<0, 1, 2, 3>>, crisp |-> TRUE],
          [D |-> 4, sig |-> <<1, 6, 8, 21>>, crisp |-> TRUE],
          [D |-> 3000, sig |-> <<0, 1, 3000, 6001>>, crisp |-> FALSE],
          [D |-> 2000, sig |-> <<1, 2001, 4001, 6000>>, crisp |-> FALSE]}
Variants == {"ref", "merged", "drop", "shift", "swap", "dup", "late"}

\* one cue per interval that shows text and does not vanish after rounding (ties rounded down)
RECURSIVE RefFrom(_, _, _)
RefFrom(g, T, k) ==
  IF k >= NBound(T) THEN <<>>
  ELSE (IF T[k] # <<>> /\ BLo(g.sig, g.D, k) < BLo(g.sig, g.D, k + 1)
        THEN << [b |-> BLo(g.sig, g.D, k), e |-> BLo(g.sig, g.D, k + 1), lines |-> T[k]] >> ELSE <<>>)
       \o RefFrom(g, T, k + 1)
RefCues(g, T) == RefFrom(g, T, 1)

RECURSIVE Merge(_)
Merge(cs) ==
  IF Len(cs) < 2 THEN cs
  ELSE IF cs[1].e = cs[2].b /\ cs[1].lines = cs[2].lines
       THEN Merge(<< [cs[1] EXCEPT !.e = cs[2].e] >> \o SubSeq(cs, 3, Len(cs)))
       ELSE << cs[1] >> \o Merge(Tail(cs))

Reverse(sq) == [k \in 1..Len(sq) |-> sq[Len(sq) + 1 - k]]

\* <<applicable, cues>>
VariantCues(g, T, v) ==
  LET ref == RefCues(g, T) IN
  CASE v = "ref" -> <<TRUE, ref>>
    [] v = "merged" -> <<Merge(ref) # ref, Merge(ref)>>
    [] v = "drop" -> <<ref # <<>>, IF ref = <<>> THEN ref ELSE Tail(ref)>>
    [] v = "shift" -> <<ref # <<>> /\ (Len(ref) = 1 \/ ref[1].e < ref[2].b), IF ref = <<>> THEN ref ELSE << [ref[1] EXCEPT !.e = @ + 1] >> \o Tail(ref)>>
    [] v = "swap" -> <<ref # <<>> /\ Len(ref[1].lines) > 1, IF ref = <<>> THEN ref ELSE << [ref[1] EXCEPT !.lines = Reverse(@)] >> \o Tail(ref)>>
    [] v = "dup" -> <<ref # <<>>, IF ref = <<>> THEN ref ELSE << ref[1] >> \o ref>>
    [] v = "late" -> <<Len(T) > 0, ref \o << [b |-> BHi(g.sig, g.D, NBound(T)) + 5, e |-> BHi(g.sig, g.D, NBound(T)) + 9, lines |-> TA] >> >>

CInit == /\ cv \in {[g |-> g, T |-> T, v |-> v] : g \in Grids, T \in [1..4 -> Texts], v \in Variants}
         /\ acc = 0 /\ accP = 0 /\ hist = <<>>
CNext == UNCHANGED <<cv, acc, accP, hist>>

Inv_RelationAdmitsAndRejects ==
  LET vc == VariantCues(cv.g, cv.T, cv.v) IN
  IF ~vc[1] THEN TRUE
  ELSE IF cv.v \in {"ref", "merged"} THEN Covers(cv.g.sig, cv.g.D, cv.T, vc[2], FALSE)
  ELSE IF cv.g.crisp THEN ~Covers(cv.g.sig, cv.g.D, cv.T, vc[2], FALSE) /\ (cv.v # "dup" => ~Covers(cv.g.sig, cv.g.D, cv.T, vc[2], TRUE))
  ELSE TRUE

\* with simultaneous cues admitted (one cue per region), a list that splits the lines of an interval over two cues
\* of identical timing is admitted iff `same`
Inv_SameTimingGroups ==
  LET ref == RefCues(cv.g, cv.T) IN
  IF cv.v # "ref" \/ ref = <<>> \/ Len(ref[1].lines) < 2 THEN TRUE
  ELSE LET two == << [ref[1] EXCEPT !.lines = <<@[1]>>], [ref[1] EXCEPT !.lines = Tail(@)] >> \o Tail(ref) IN
       Covers(cv.g.sig, cv.g.D, cv.T, two, TRUE) /\ ~Covers(cv.g.sig, cv.g.D, cv.T, two, FALSE)
=============================================================================
