------------------------------ MODULE CuesShapes ------------------------------
(* The spec -> code families of C06 / C07, enumerated by TLC (the harness parses the state dump, builds each shape
   with the model API, runs both writers and lets Trace_Cues.tla judge the result).

   fam = "style"  (C07): style-run shapes.  One paragraph; form "single" (one span), "nested" (span in span, the inner
                  one adding attributes B to the outer A, or - reset - setting the outer ones it does not repeat back
                  to their defaults), "adjacent" (two sibling spans, overlapping when A and B share attributes),
                  "brsplit" (tags spanning line breaks); attributes b(old) i(talic) u(nderline) c(olour)
                  g (background); text kinds with markup-significant characters.
                  Steps add one attribute at a time (AddA, AddB, Reset), up to MaxAttrs.
                  Design-level invariant: for every shape the *reference rendering* (each run wrapped in exactly its
                  own tags, text escaped) is accepted by the grammar and its TagRuns equal the computed styles -
                  i.e. sections 3 and 4 of Cues.tla can be satisfied together, for every shape.
   fam = "struct" (C06): document structures: regions x div/p layout x content kinds x timing patterns (all initial
                  states; nothing to step).                                                                       *)
EXTENDS Cues

CONSTANTS MaxAttrs,       \* bound on the number of attributes of a style shape
          WithStyle, WithStruct   \* which families Init enumerates

VARIABLE shape
svars == <<shape, acc, accP, hist>>

Attrs == {"b", "i", "u", "c", "g"}
Forms == {"single", "nested", "adjacent", "brsplit"}
TextKinds == {"plain", "amp", "lt", "arrow", "entity", "wsline", "gt"}

Structs == {"1div1p", "1div2p", "2div", "2div2p", "nested", "nested2"}
Contents == {"plain", "br", "ruby", "spans", "ws", "preserve"}
Timings == {"same", "staggered", "sub", "unbounded", "gap"}
RegionPatterns == {"none", "one", "two_alt", "two_div"}

StyleInit == {[fam |-> "style", form |-> f, A |-> {}, B |-> {}, reset |-> FALSE, text |-> t] : f \in Forms, t \in TextKinds}
StructInit == {[fam |-> "struct", struct |-> s, c1 |-> c1, c2 |-> c2, timing |-> t, regs |-> r] :
                 s \in Structs, c1 \in Contents, c2 \in Contents, t \in Timings, r \in RegionPatterns}

SInit == shape \in ((IF WithStyle THEN StyleInit ELSE {}) \cup (IF WithStruct THEN StructInit ELSE {})) /\ acc = 0 /\ accP = 0 /\ hist = <<>>

Budget(s) == IF s.text = "plain" THEN MaxAttrs ELSE 1
AddA(a) == /\ shape.fam = "style" /\ a \notin shape.A /\ Cardinality(shape.A) + Cardinality(shape.B) < Budget(shape)
           /\ shape' = [shape EXCEPT !.A = @ \cup {a}]
AddB(a) == /\ shape.fam = "style" /\ shape.form # "single" /\ a \notin shape.B
           /\ Cardinality(shape.A) + Cardinality(shape.B) < Budget(shape)
           /\ shape' = [shape EXCEPT !.B = @ \cup {a}]
Reset == /\ shape.fam = "style" /\ shape.form = "nested" /\ ~shape.reset /\ shape.A \ shape.B # {}
         /\ shape' = [shape EXCEPT !.reset = TRUE]
SNext == /\ UNCHANGED <<acc, accP, hist>>
         /\ \/ \E a \in Attrs : AddA(a) \/ AddB(a)
            \/ Reset
SSpec == SInit /\ [][SNext]_svars

-----------------------------------------------------------------------------
(* computed styles of the runs of a style shape *)
Red == "#ff0000ff"
Yellow == "#ffff00ff"
Blue == "#0000ffff"
Black == "#000000ff"
Flag(S, a) == IF a \in S THEN 1 ELSE 0
OuterStyle(s) == [b |-> Flag(s.A, "b"), i |-> Flag(s.A, "i"), u |-> Flag(s.A, "u"),
                  col |-> IF "c" \in s.A THEN Red ELSE DefaultColour, bg |-> IF "g" \in s.A THEN Blue ELSE DefaultBackground]
\* second / inner span: inherits the outer span only when nested in it
SecondStyle(s) ==
  LET inh == s.form \in {"nested", "brsplit"}
      on(a) == a \in s.B \/ (inh /\ a \in s.A /\ ~s.reset)
  IN  [b |-> IF on("b") THEN 1 ELSE 0, i |-> IF on("i") THEN 1 ELSE 0, u |-> IF on("u") THEN 1 ELSE 0,
       col |-> IF "c" \in s.B THEN Yellow ELSE IF inh /\ "c" \in s.A /\ ~s.reset THEN Red ELSE DefaultColour,
       \* the background is not inherited but an outer background stays visible behind a transparent inner span
       bg |-> IF "g" \in s.B THEN Black ELSE IF inh /\ "g" \in s.A THEN Blue ELSE DefaultBackground]

\* runs: <<style, segment number>> ; <<0>> = line break
RunsOf(s) ==
  CASE s.form = "single" -> << <<OuterStyle(s), 1>> >>
    [] s.form = "nested" -> << <<OuterStyle(s), 1>>, <<SecondStyle(s), 2>>, <<OuterStyle(s), 3>> >>
    [] s.form = "adjacent" -> << <<OuterStyle(s), 1>>, <<SecondStyle(s), 2>> >>
    [] s.form = "brsplit" -> << <<OuterStyle(s), 1>>, <<0>>, <<SecondStyle(s), 2>>, <<0>>, <<OuterStyle(s), 3>> >>

\* text of a segment as tokens of the format (escaped where the format has escapes), and as code points
Tk(kind, name, cps) == [k |-> kind, n |-> name, cl |-> <<>>, a |-> "", cps |-> cps]
SegToks(fmt, text, seg) ==
  LET x == 96 + seg IN
  CASE text = "amp" -> IF fmt = "vtt" THEN <<Tk("t", "", <<x>>), Tk("ent", "amp", <<38>>), Tk("t", "", <<x>>)>> ELSE <<Tk("t", "", <<x, 38, x>>)>>
    [] text = "lt" -> IF fmt = "vtt" THEN <<Tk("t", "", <<x>>), Tk("ent", "lt", <<60>>), Tk("t", "", <<x>>)>> ELSE <<Tk("t", "", <<x, 60, x>>)>>
    [] text = "arrow" -> <<Tk("t", "", <<x, 45, 45>>), Tk("ent", "gt", <<62>>), Tk("t", "", <<x>>)>>
    [] OTHER -> <<Tk("t", "", <<x, x>>)>>
SegCps(text, seg) ==
  LET x == 96 + seg IN
  CASE text = "amp" -> <<x, 38, x>> [] text = "lt" -> <<x, 60, x>> [] text = "arrow" -> <<x, 45, 45, 62, x>> [] OTHER -> <<x, x>>

ColourClass(col) == CASE col = Red -> "red" [] col = Yellow -> "yellow" [] OTHER -> "white"
BgClass(bg) == CASE bg = Blue -> "bg_blue" [] bg = Black -> "bg_black" [] OTHER -> "bg_white"

\* reference rendering of one run: exactly its own tags around its text
RunToks(fmt, st, text, seg) ==
  LET colT == IF st.col = DefaultColour THEN <<>>
              ELSE IF fmt = "srt" THEN << [k |-> "o", n |-> "font", cl |-> <<>>, a |-> st.col, cps |-> <<>>] >>
              ELSE << [k |-> "o", n |-> "c", cl |-> <<ColourClass(st.col)>>, a |-> "", cps |-> <<>>] >>
      bgT  == IF st.bg = DefaultBackground \/ fmt = "srt" THEN <<>>
              ELSE << [k |-> "o", n |-> "c", cl |-> <<BgClass(st.bg)>>, a |-> "", cps |-> <<>>] >>
      flag(f, nm) == IF f = 1 THEN << Tk("o", nm, <<>>) >> ELSE <<>>
      unflag(f, nm) == IF f = 1 THEN << Tk("c", nm, <<>>) >> ELSE <<>>
      colC == IF colT = <<>> THEN <<>> ELSE << Tk("c", IF fmt = "srt" THEN "font" ELSE "c", <<>>) >>
      bgC  == IF bgT = <<>> THEN <<>> ELSE << Tk("c", "c", <<>>) >>
  IN  colT \o bgT \o flag(st.b, "b") \o flag(st.i, "i") \o flag(st.u, "u") \o SegToks(fmt, text, seg)
      \o unflag(st.u, "u") \o unflag(st.i, "i") \o unflag(st.b, "b") \o bgC \o colC

RECURSIVE RefLinesFrom(_, _, _, _, _)
RefLinesFrom(fmt, text, runs, k, cur) ==
  IF k > Len(runs) THEN <<cur>>
  ELSE IF Len(runs[k]) = 1 THEN <<cur>> \o RefLinesFrom(fmt, text, runs, k + 1, <<>>)
  ELSE RefLinesFrom(fmt, text, runs, k + 1, cur \o RunToks(fmt, runs[k][1], text, runs[k][2]))

RECURSIVE ExpLinesFrom(_, _, _, _)
ExpLinesFrom(text, runs, k, cur) ==
  IF k > Len(runs) THEN <<cur>>
  ELSE IF Len(runs[k]) = 1 THEN <<cur>> \o ExpLinesFrom(text, runs, k + 1, <<>>)
  ELSE LET st == runs[k][1] cps == SegCps(text, runs[k][2]) IN
       ExpLinesFrom(text, runs, k + 1, cur \o [c \in 1..Len(cps) |-> [cp |-> cps[c], b |-> st.b, i |-> st.i, u |-> st.u, col |-> st.col, bg |-> st.bg,
                                                                     rcol |-> 0, rbg |-> 0]])   \* (no tag for nothing)

RefFile(fmt, s) ==
  LET pay == RefLinesFrom(fmt, s.text, RunsOf(s), 1, <<>>)
      textLines == [k \in 1..Len(pay) |-> MkLine("text", 0, 0, 0, pay[k])]
      timing == MkLine("timing", 0, 0, 2000, <<TokArrow>>)
  IN  IF fmt = "srt" THEN <<MkLine("num", 1, 0, 0, <<TokX>>), timing>> \o textLines
      ELSE <<MkLine("header", 0, 0, 0, <<TokX>>), MkLine("blank", 0, 0, 0, <<>>), MkLine("num", 1, 0, 0, <<TokX>>), timing>> \o textLines

SrtView(ls) == [l \in 1..Len(ls) |-> [c \in 1..Len(ls[l]) |-> [ls[l][c] EXCEPT !.bg = DefaultBackground]]]

\* sections 3 and 4 of Cues.tla are jointly satisfiable on every shape whose text the format can express
Inv_ReferenceRenderingConforms ==
  (shape.fam = "style" /\ shape.text \in {"plain", "amp", "lt", "arrow"}) =>
    \A fmt \in {"srt", "vtt"} :
       (fmt = "srt" /\ shape.text = "arrow") \/             \* SubRip has no escape: "-->" in text cannot be written
       LET file == RefFile(fmt, shape)
           P    == [fmt |-> fmt, ids |-> TRUE, same |-> FALSE, pre |-> FALSE]
           t    == IF fmt = "srt" THEN 2 ELSE 4
           got  == PayloadChars(fmt, {}, PayloadToks(file, t))
           exp  == ExpLinesFrom(shape.text, RunsOf(shape), 1, <<>>)
       IN  /\ Accepted(P, file).ok
           /\ IsCueStart(file, t)
           /\ got = IF fmt = "srt" THEN SrtView(exp) ELSE exp

Inv_TypeOK ==
  IF shape.fam = "style" THEN shape.A \subseteq Attrs /\ shape.B \subseteq Attrs /\ shape.form \in Forms /\ shape.text \in TextKinds
  ELSE shape.struct \in Structs /\ shape.timing \in Timings
=============================================================================
